(* Disjoint.v — (part 2) insert_unchecked coincides with insert whenever its
   contract is met, for EVERY environment; (part 1) under a lawful environment
   get_disjoint_mut / get_disjoint_unchecked_mut return, position by position,
   what get_mut returns for each requested key, and get_disjoint_mut panics
   exactly when two requested keys are equal. *)
Require Import Model.Base Model.Slots Model.MapOps Proofs.Hoare Proofs.Inv Proofs.Safety Proofs.Safety2 Proofs.Spec Proofs.Lawful Proofs.Lawful2.

Section Disjoint.
Context {K V Q T : Type} (E : env K V Q T) (debug : bool).
Notation M := (M K V T). Notation world := (world K V T). Notation map := (map K V). Notation kv := (K * V)%type.

(* ======================================================================== *)
(* PART 2 — insert_i (explicit loop, unchecked accessors) is literally
   insert_ii (iterator scan, checked write) when there is room or the key is
   already there.  No lawfulness: any callbacks, any panics.                  *)
(* ======================================================================== *)

Lemma upd_upd {A} (l : list A) i x y : upd (upd l i x) i y = upd l i y.
Proof.
  revert i; induction l as [|h t IH]; intros [|i]; cbn [upd]; auto.
  f_equal. apply IH.
Qed.

Lemma bind_eq {A B} (c : M A) (f : A -> M B) (w : world) :
  bind c f w = match c w with Ok a w' => f a w' | Panic w' => Panic w' | UB => UB end.
Proof. reflexivity. Qed.

Lemma on_unwind_eq {A} (cl : M unit) (c : M A) (w : world) :
  on_unwind cl c w =
  match c w with
  | Panic w' => match cl w' with Ok _ w'' => Panic w'' | Panic w'' => Panic w'' | UB => UB end
  | r => r
  end.
Proof. reflexivity. Qed.

(* on a well-formed container the checked slicing of [scan] succeeds *)
Lemma scan_WF (test : kv -> M bool) (w : world) :
  WF (self w) -> scan test w = scan_loop test (len (self w)) 0 w.
Proof.
  intros [Hl _]. unfold scan, p_prefix, bind, get_len, get_cap.
  destruct (Nat.leb_spec (len (self w)) (cap (self w))) as [_|Hgt]; [reflexivity | lia].
Qed.

(* the explicit loop of insert_i runs the same comparisons as the scan *)
Lemma insert_i_loop_scan k : forall fuel i (w : world),
  WF (self w) -> fuel + i = len (self w) ->
  match scan_loop (test_k E k) fuel i w with
  | Ok (Some x) w' =>
      self w' = self w /\ x < len (self w) /\
      exists p, nth_error (slots (self w)) x = Some (Some p) /\
        insert_i_loop E debug k fuel i w = Ok (x, Some p) (with_self w' (set_slot_m (self w') x None))
  | Ok None w' =>
      self w' = self w /\
      insert_i_loop E debug k fuel i w =
        (if debug && negb (len (self w) <? cap (self w)) then Panic w' else Ok (len (self w), None) w')
  | Panic w' => insert_i_loop E debug k fuel i w = Panic w'
  | UB => False
  end.
Proof.
  induction fuel as [|fuel IH]; intros i w Hw Hf.
  - cbn [scan_loop insert_i_loop]. unfold ret, bind, get_len, get_cap, dbg_assert.
    assert (Hi : i = len (self w)) by lia. rewrite <- Hi, Nat.eqb_refl.
    split; [reflexivity|].
    destruct (debug && negb (i <? cap (self w))); reflexivity.
  - assert (Hi : i < len (self w)) by lia.
    destruct (WF_live _ _ Hw Hi) as [p Hp].
    cbn [scan_loop insert_i_loop]. unfold bind, get_len. cbv beta iota.
    destruct (Nat.eqb_spec i (len (self w))) as [Heq|_]; [lia|].
    unfold p_ref. cbv beta iota. rewrite Hp. cbv beta iota.
    unfold test_k, cbk. cbv beta. destruct (eqK E (cb w) (fst p) k) as [a s]. destruct a.
    + unfold ret, p_read, p_ref, bind, set_slot. cbn [self slots]. rewrite Hp.
      split; [reflexivity|]. split; [exact Hi|]. exists p. split; reflexivity.
    + specialize (IH (S i) {| cb := s; log := log w; self := self w |}).
      cbn [self] in IH. specialize (IH Hw ltac:(lia)). exact IH.
    + reflexivity.
Qed.

(* the general statement: room left, or debug assertions on, or the key is
   found, or a comparison panics *)
Lemma insert_i_eq_core k v u (w : world) :
  WF (self w) ->
  (len (self w) < cap (self w) \/ debug = true \/
   (exists i w1, scan (test_k E k) w = Ok (Some i) w1) \/
   (exists w1, scan (test_k E k) w = Panic w1)) ->
  insert_i E debug k v u w = insert_ii E debug k v u w.
Proof.
  intros Hw Hd.
  pose proof (insert_i_loop_scan k (len (self w)) 0 w Hw ltac:(lia)) as HL.
  rewrite (scan_WF _ w Hw) in Hd.
  unfold insert_i, insert_ii.
  rewrite (bind_eq (on_unwind _ (scan (test_k E k)))), (on_unwind_eq _ (scan (test_k E k))), (scan_WF _ w Hw).
  rewrite (bind_eq get_len). unfold get_len at 1. cbv beta iota.
  rewrite (bind_eq (on_unwind _ (insert_i_loop E debug k (len (self w)) 0))),
          (on_unwind_eq _ (insert_i_loop E debug k (len (self w)) 0)).
  destruct (scan_loop (test_k E k) (len (self w)) 0 w) as [[x|] w'|w'|] eqn:Hsc.
  - (* found at x *)
    destruct HL as (Hs & Hx & p & Hp & ->).
    destruct (Nat.eqb_spec x (len (self w))) as [Heq|_]; [lia|].
    assert (Hxc : x < cap (self w)) by (apply live_lt_cap; exists p; exact Hp).
    assert (Hxc' : (x <? length (upd (slots (self w)) x None)) = true).
    { apply Nat.ltb_lt. rewrite upd_length. exact Hxc. }
    destruct p as [old_k old_v].
    destruct u; unfold p_write, p_replace, p_ref, get_cap, set_slot, bind, ret, cap;
      repeat (cbv beta iota; simp_w; rewrite ?Hs, ?Hp, ?Hxc').
    all: rewrite upd_upd; reflexivity.
  - (* absent *)
    destruct HL as (Hs & ->).
    assert (Hroom : len (self w) < cap (self w) \/ debug = true).
    { destruct Hd as [Hd|[Hd|[(i & w1 & Hd)|(w1 & Hd)]]]; auto; discriminate. }
    unfold cap in *.
    destruct (Nat.ltb_spec (len (self w)) (length (slots (self w)))) as [Hlt|Hge].
    + assert (Hltb : (len (self w) <? length (slots (self w))) = true) by (apply Nat.ltb_lt; exact Hlt).
      cbn [negb]. rewrite andb_false_r.
      unfold on_unwind, check_index, p_write, p_write_checked, get_len, get_cap, dbg_assert, set_len, set_slot, bind, ret, panic, cap.
      repeat (cbv beta iota; simp_w; rewrite ?Hs, ?Hltb, ?Nat.eqb_refl; cbn [negb]; rewrite ?andb_false_r).
      destruct u; reflexivity.
    + destruct Hroom as [Hlt|Hdb]; [lia|]. rewrite Hdb. cbn [negb andb].
      unfold on_unwind, check_index, get_len, get_cap, dbg_assert, bind, ret, panic, cap.
      assert (Hltb : (len (self w) <? length (slots (self w))) = false) by (apply Nat.ltb_ge; exact Hge).
      repeat (cbv beta iota; simp_w; rewrite ?Hs, ?Hltb, ?Hdb; cbn [negb andb]).
      destruct (unwind_args E k v w'); reflexivity.
  - (* a comparison panicked *)
    rewrite HL. destruct (unwind_args E k v w'); reflexivity.
  - destruct HL.
Qed.

Lemma insert_i_eq_general k v u (w : world) :
  WF (self w) ->
  (len (self w) < cap (self w) \/
   (exists i w1, scan (test_k E k) w = Ok (Some i) w1) \/
   (exists w1, scan (test_k E k) w = Panic w1)) ->
  insert_i E debug k v u w = insert_ii E debug k v u w.
Proof.
  intros Hw Hd. apply insert_i_eq_core; [exact Hw|]. tauto.
Qed.

Lemma insert_i_eq_insert_ii k v u (w : world) :
  WF (self w) -> len (self w) < cap (self w) ->
  insert_i E debug k v u w = insert_ii E debug k v u w.
Proof. intros Hw Hc. apply insert_i_eq_general; auto. Qed.

Lemma insert_unchecked_eq_insert k v (w : world) :
  WF (self w) -> len (self w) < cap (self w) ->
  insert_unchecked E debug k v w = insert E debug k v w.
Proof.
  intros Hw Hc. unfold insert_unchecked, insert, bind.
  rewrite (insert_i_eq_insert_ii k v false w Hw Hc). reflexivity.
Qed.

Lemma insert_i_eq_insert_ii_found k v u (w : world) i w1 :
  WF (self w) -> scan (test_k E k) w = Ok (Some i) w1 ->
  insert_i E debug k v u w = insert_ii E debug k v u w.
Proof. intros Hw Hs. apply insert_i_eq_general; [exact Hw|]. right. left. eauto. Qed.

Lemma insert_i_eq_insert_ii_panic k v u (w : world) w1 :
  WF (self w) -> scan (test_k E k) w = Panic w1 ->
  insert_i E debug k v u w = insert_ii E debug k v u w.
Proof. intros Hw Hs. apply insert_i_eq_general; [exact Hw|]. right. right. eauto. Qed.

(* with debug assertions on, the two also agree on a full map without the key:
   both panic at the same point *)
Lemma insert_i_eq_insert_ii_debug k v u (w : world) :
  WF (self w) -> debug = true ->
  insert_i E debug k v u w = insert_ii E debug k v u w.
Proof. intros Hw Hd. apply insert_i_eq_core; auto. Qed.

Lemma insert_unchecked_eq_insert_found k v (w : world) i w1 :
  WF (self w) -> scan (test_k E k) w = Ok (Some i) w1 ->
  insert_unchecked E debug k v w = insert E debug k v w.
Proof.
  intros Hw Hs. unfold insert_unchecked, insert, bind.
  rewrite (insert_i_eq_insert_ii_found k v false w i w1 Hw Hs). reflexivity.
Qed.


(* ======================================================================== *)
(* PART 1 — under a lawful environment get_disjoint_mut agrees with get_mut
   position by position.                                                      *)
(* ======================================================================== *)
Section Part1.
Context (ck : K -> N) (cq : Q -> N) (HL : Lawful E ck cq).

(* ---- 1. the overlap assertion ---- *)
Lemma assert_ne_all_lawful k rest (w : world) :
  wp (assert_ne_all E k rest)
     (fun _ w' => stable w w' /\ ~ In (cq k) (List.map cq rest))
     (fun w' => stable w w' /\ In (cq k) (List.map cq rest)) w.
Proof.
  revert w. induction rest as [|k' rest IH]; intros w; cbn [assert_ne_all List.map In].
  - apply wp_ret. split; [apply stable_refl | tauto].
  - apply wp_bind. apply wp_cbk_eq. rewrite (law_eqQQ E ck cq HL).
    destruct (N.eqb_spec (cq k) (cq k')) as [Heq|Hne]; cbv beta iota.
    + apply wp_panic. split; [apply stable_cb | left; symmetry; exact Heq].
    + eapply wp_mono; [apply IH | |]; cbn beta.
      * intros _ w' [Hst Hn]. split; [eapply stable_trans; [apply stable_cb | exact Hst]|].
        intros [H|H]; [apply Hne; symmetry; exact H | exact (Hn H)].
      * intros w' [Hst Hi]. split; [eapply stable_trans; [apply stable_cb | exact Hst] | right; exact Hi].
Qed.

Lemma assert_distinct_lawful ks (w : world) :
  wp (assert_distinct E ks)
     (fun _ w' => stable w w' /\ NoDup (List.map cq ks))
     (fun w' => stable w w' /\ ~ NoDup (List.map cq ks)) w.
Proof.
  revert w. induction ks as [|k rest IH]; intros w; cbn [assert_distinct List.map].
  - apply wp_ret. split; [apply stable_refl | constructor].
  - apply wp_bind. eapply wp_mono; [apply assert_ne_all_lawful | |]; cbn beta.
    + intros _ w1 [Hst1 Hn]. eapply wp_mono; [apply IH | |]; cbn beta.
      * intros _ w2 [Hst2 Hnd]. split; [eapply stable_trans; eauto | constructor; assumption].
      * intros w2 [Hst2 Hnd]. split; [eapply stable_trans; eauto|].
        intros H. inversion H; subst. auto.
    + intros w1 [Hst1 Hi]. split; [exact Hst1|]. intros H. inversion H; subst. auto.
Qed.

(* ---- 2. position ---- *)
(* first index of a requested key of class c *)
Fixpoint qfind (c : N) (ks : list Q) : option nat :=
  match ks with
  | [] => None
  | q :: t => if N.eqb (cq q) c then Some 0 else option_map S (qfind c t)
  end.

Lemma qfind_inv c ks : forall x,
  qfind c ks = Some x ->
  (exists q, nth_error ks x = Some q /\ cq q = c) /\
  (forall j q, j < x -> nth_error ks j = Some q -> cq q <> c).
Proof.
  induction ks as [|q0 t IH]; intros x H; cbn [qfind] in H; [discriminate|].
  destruct (N.eqb_spec (cq q0) c) as [Heq|Hne].
  - injection H as <-. split; [exists q0; auto | intros j q Hj; lia].
  - destruct (qfind c t) as [y|]; cbn [option_map] in H; [|discriminate].
    injection H as <-. destruct (IH y eq_refl) as [(q & Hq & Hc) Hb]. split; [exists q; auto|].
    intros [|j] q' Hj Hq'; cbn [nth_error] in Hq'.
    + injection Hq' as <-. exact Hne.
    + apply (Hb j q'); [lia | exact Hq'].
Qed.

Lemma qfind_none_inv c ks : qfind c ks = None -> forall q, In q ks -> cq q <> c.
Proof.
  induction ks as [|q0 t IH]; intros H q Hin; [destruct Hin|].
  cbn [qfind] in H. destruct (N.eqb_spec (cq q0) c) as [Heq|Hne]; [discriminate|].
  destruct (qfind c t) eqn:Ht; [discriminate|].
  destruct Hin as [<-|Hin]; [exact Hne | apply IH; auto].
Qed.

Lemma qfind_lt c ks x : qfind c ks = Some x -> x < length ks.
Proof.
  intros H. destruct (qfind_inv c ks x H) as [(q & Hq & _) _].
  apply nth_error_Some. rewrite Hq. discriminate.
Qed.

(* with pairwise different requested keys every request is its own first index *)
Lemma qfind_nodup ks :
  NoDup (List.map cq ks) -> forall x q, nth_error ks x = Some q -> qfind (cq q) ks = Some x.
Proof.
  induction ks as [|q0 t IH]; intros Hnd x q Hx; [destruct x; discriminate|].
  cbn [List.map] in Hnd. inversion Hnd as [|? ? Hnotin Hnd']; subst. cbn [qfind].
  destruct x as [|x]; cbn [nth_error] in Hx.
  - injection Hx as ->. rewrite N.eqb_refl. reflexivity.
  - destruct (N.eqb_spec (cq q0) (cq q)) as [Heq|Hne].
    + exfalso. apply Hnotin. rewrite Heq. apply in_map. eapply nth_error_In; eauto.
    + rewrite (IH Hnd' x q Hx). reflexivity.
Qed.

Lemma position_lawful ks p : forall j (w : world),
  wp (position E ks p j)
     (fun r w' => stable w w' /\ r = option_map (fun x => j + x) (qfind (ck (fst p)) ks))
     (fun _ => False) w.
Proof.
  induction ks as [|q ks IH]; intros j w; cbn [position qfind].
  - apply wp_ret. split; [apply stable_refl | reflexivity].
  - apply wp_bind. apply wp_cbk_eq. rewrite (law_eqQK E ck cq HL).
    destruct (N.eqb (cq q) (ck (fst p))); cbv beta iota.
    + apply wp_ret. split; [apply stable_cb|]. cbn [option_map]. f_equal. lia.
    + eapply wp_mono; [apply IH | | auto]; cbn beta.
      intros r w' [Hst ->]. split; [eapply stable_trans; [apply stable_cb | exact Hst]|].
      destruct (qfind (ck (fst p)) ks); cbn [option_map]; [f_equal; lia | reflexivity].
Qed.

(* ---- 3. the index stack ---- *)
(* (slot, request index) for every entry whose key is requested, in slot order *)
Fixpoint stack_of (l : list kv) (ks : list Q) (i0 : nat) : list (nat * nat) :=
  match l with
  | [] => []
  | p :: t => match qfind (ck (fst p)) ks with
              | Some x => (i0, x) :: stack_of t ks (S i0)
              | None => stack_of t ks (S i0)
              end
  end.

Lemma stack_of_in l ks : forall i0 a x,
  In (a, x) (stack_of l ks i0) <->
  exists p, i0 <= a /\ nth_error l (a - i0) = Some p /\ qfind (ck (fst p)) ks = Some x.
Proof.
  induction l as [|p t IH]; intros i0 a x; cbn [stack_of].
  - split; [intros [] | intros (p & _ & Hp & _); destruct (a - i0); discriminate].
  - assert (Htail : In (a, x) (stack_of t ks (S i0)) <->
                    (exists p', i0 < a /\ nth_error (p :: t) (a - i0) = Some p' /\
                                qfind (ck (fst p')) ks = Some x)).
    { rewrite IH. split; intros (p' & Ha & Hp' & Hq); exists p'.
      - split; [lia|]. split; [|exact Hq]. replace (a - i0) with (S (a - S i0)) by lia. exact Hp'.
      - split; [lia|]. split; [|exact Hq]. replace (a - i0) with (S (a - S i0)) in Hp' by lia. exact Hp'. }
    destruct (qfind (ck (fst p)) ks) as [y|] eqn:Hy.
    + cbn [In]. rewrite Htail. split.
      * intros [Heq|(p' & Ha & Hp' & Hq)].
        -- injection Heq as <- <-. exists p. rewrite Nat.sub_diag. auto.
        -- exists p'. split; [lia | auto].
      * intros (p' & Ha & Hp' & Hq). destruct (Nat.eq_dec a i0) as [->|Hne].
        -- left. rewrite Nat.sub_diag in Hp'. cbn [nth_error] in Hp'. injection Hp' as <-. congruence.
        -- right. exists p'. split; [lia | auto].
    + rewrite Htail. split.
      * intros (p' & Ha & Hp' & Hq). exists p'. split; [lia | auto].
      * intros (p' & Ha & Hp' & Hq). destruct (Nat.eq_dec a i0) as [->|Hne].
        -- rewrite Nat.sub_diag in Hp'. cbn [nth_error] in Hp'. injection Hp' as <-. congruence.
        -- exists p'. split; [lia | auto].
Qed.

Lemma stack_of_fst_lt l ks i0 a x : In (a, x) (stack_of l ks i0) -> i0 <= a < i0 + length l.
Proof.
  intros H. apply stack_of_in in H as (p & Ha & Hp & _).
  assert (a - i0 < length l) by (apply nth_error_Some; rewrite Hp; discriminate). lia.
Qed.

Lemma stack_of_snd_lt l ks i0 a x : In (a, x) (stack_of l ks i0) -> x < length ks.
Proof. intros H. apply stack_of_in in H as (p & _ & _ & Hq). eapply qfind_lt; eauto. Qed.

(* (a) first components strictly increasing, starting at or above [lo] *)
Fixpoint inc_from (lo : nat) (st : list (nat * nat)) : Prop :=
  match st with
  | [] => True
  | ab :: t => lo <= fst ab /\ inc_from (S (fst ab)) t
  end.

Lemma inc_from_le lo lo' st : lo' <= lo -> inc_from lo st -> inc_from lo' st.
Proof. destruct st as [|ab t]; cbn [inc_from]; [auto | intros H [H1 H2]; split; [lia | exact H2]]. Qed.

Lemma stack_of_inc l ks : forall i0, inc_from i0 (stack_of l ks i0).
Proof.
  induction l as [|p t IH]; intros i0; cbn [stack_of]; [exact I|].
  destruct (qfind (ck (fst p)) ks) as [x|].
  - cbn [inc_from fst]. split; [lia | apply IH].
  - apply (inc_from_le (S i0)); [lia | apply IH].
Qed.

(* inc_from really is "strictly increasing": any two positions are ordered *)
Lemma inc_from_nth st : forall lo i j ab cd,
  inc_from lo st -> i < j -> nth_error st i = Some ab -> nth_error st j = Some cd ->
  lo <= fst ab /\ fst ab < fst cd.
Proof.
  induction st as [|h t IH]; intros lo i j ab cd H Hij Hi Hj; [destruct i; discriminate|].
  cbn [inc_from] in H. destruct H as [H1 H2].
  destruct j as [|j]; [lia|]. cbn [nth_error] in Hj. destruct i as [|i]; cbn [nth_error] in Hi.
  - injection Hi as <-. split; [exact H1|].
    destruct j as [|j].
    + destruct t as [|h' t']; [discriminate|]. cbn [nth_error] in Hj. injection Hj as <-.
      cbn [inc_from] in H2. lia.
    + destruct t as [|h' t']; [discriminate|].
      destruct (IH (S (fst h)) 0 (S j) h' cd H2 ltac:(lia) eq_refl Hj). lia.
  - destruct (IH (S (fst h)) i j ab cd H2 ltac:(lia) Hi Hj). lia.
Qed.

(* (c) sorting by slot is the identity on it *)
Lemma sort_stack_inc st : forall lo, inc_from lo st -> sort_stack st = st.
Proof.
  induction st as [|ab t IH]; intros lo H; [reflexivity|].
  cbn [inc_from] in H. destruct H as [_ Ht]. unfold sort_stack in *. cbn [fold_right]. rewrite (IH _ Ht).
  destruct t as [|cd t']; [reflexivity|]. cbn [ins_sorted]. cbn [inc_from] in Ht. destruct Ht as [Hlt _].
  destruct (Nat.leb_spec (fst ab) (fst cd)); [reflexivity | lia].
Qed.

(* (b) each request index occurs at most once: two entries have different classes *)
Lemma stack_of_snd_nodup l ks : Uniq ck l -> forall i0, NoDup (List.map snd (stack_of l ks i0)).
Proof.
  induction l as [|p t IH]; intros Hu i0; cbn [stack_of]; [constructor|].
  unfold Uniq in Hu. cbn [List.map] in Hu. inversion Hu as [|? ? Hnotin Hu']; subst.
  destruct (qfind (ck (fst p)) ks) as [y|] eqn:Hy; [|apply IH; exact Hu'].
  cbn [List.map snd]. constructor; [|apply IH; exact Hu'].
  intros Hin. apply in_map_iff in Hin as ([a b] & Hb & Hin). cbn [snd] in Hb. subst b.
  apply stack_of_in in Hin as (p' & _ & Hp' & Hq').
  destruct (qfind_inv _ _ _ Hy) as [(q & Hq & Hc) _].
  destruct (qfind_inv _ _ _ Hq') as [(q' & Hq2 & Hc') _].
  rewrite Hq in Hq2. injection Hq2 as <-.
  apply Hnotin. rewrite <- Hc, Hc'. apply (in_map (fun p => ck (fst p))). eapply nth_error_In; eauto.
Qed.

Lemma stack_of_length l ks i0 : Uniq ck l -> length (stack_of l ks i0) <= length ks.
Proof.
  intros Hu. rewrite <- (map_length snd). rewrite <- (seq_length (length ks) 0).
  apply NoDup_incl_length; [apply stack_of_snd_nodup; exact Hu|].
  intros y Hy. apply in_map_iff in Hy as ([a b] & Hb & Hin). cbn [snd] in Hb. subst b.
  apply in_seq. apply stack_of_snd_lt in Hin. lia.
Qed.

Lemma skipn_nth_cons {A} (l : list A) : forall i p, nth_error l i = Some p -> skipn i l = p :: skipn (S i) l.
Proof.
  induction l as [|h t IH]; intros [|i] p H; cbn [nth_error] in H; try discriminate.
  - injection H as ->. reflexivity.
  - cbn [skipn]. rewrite (IH i p H). reflexivity.
Qed.

(* the first loop, from any point *)
Lemma fill_stack_loop ks J : forall n i stack (w : world),
  WF (self w) -> i + n = len (self w) ->
  length stack + length (stack_of (skipn i (elems (self w))) ks i) <= J ->
  wp (fill_stack E ks J n i stack)
     (fun r w' => stable w w' /\ r = stack ++ stack_of (skipn i (elems (self w))) ks i)
     (fun _ => False) w.
Proof.
  induction n as [|n IH]; intros i stack w Hw Hn Hlen; cbn [fill_stack].
  - apply wp_ret. split; [apply stable_refl|].
    rewrite skipn_all2 by (rewrite (elems_length _ Hw); lia). cbn [stack_of]. rewrite app_nil_r. reflexivity.
  - assert (Hi : i < len (self w)) by lia.
    destruct (WF_live _ _ Hw Hi) as [p Hp].
    assert (Hpe : nth_error (elems (self w)) i = Some p) by (apply (elems_nth (self w) i p Hw Hi); exact Hp).
    rewrite (skipn_nth_cons _ _ _ Hpe) in Hlen |- *. cbn [stack_of] in Hlen |- *.
    apply wp_bind. eapply wp_p_ref; [exact Hp|].
    apply wp_bind. eapply wp_mono; [apply position_lawful | | auto]; cbn beta.
    intros r w1 [Hst1 ->]. pose proof Hst1 as [Hs1 Hl1].
    destruct (qfind (ck (fst p)) ks) as [x|] eqn:Hq; try rewrite Hq in Hlen; cbn [option_map Nat.add].
    + cbn [length] in Hlen. destruct (Nat.ltb_spec (length stack) J) as [_|Hge]; [|lia].
      eapply wp_mono; [apply (IH (S i) (stack ++ [(i, x)]) w1) | | auto]; cbn beta.
      * rewrite Hs1; exact Hw.
      * rewrite Hs1; lia.
      * rewrite Hs1. rewrite app_length. cbn [length]. lia.
      * intros r w2 [Hst2 ->]. split; [eapply stable_trans; eauto|].
        rewrite Hs1. rewrite <- app_assoc. reflexivity.
    + eapply wp_mono; [apply (IH (S i) stack w1) | | auto]; cbn beta.
      * rewrite Hs1; exact Hw.
      * rewrite Hs1; lia.
      * rewrite Hs1. exact Hlen.
      * intros r w2 [Hst2 ->]. split; [eapply stable_trans; eauto|].
        rewrite Hs1. reflexivity.
Qed.

Lemma fill_stack_lawful ks (w : world) :
  WF (self w) -> Uniq ck (elems (self w)) ->
  wp (fill_stack E ks (length ks) (len (self w)) 0 [])
     (fun r w' => stable w w' /\ r = stack_of (elems (self w)) ks 0 /\
                  inc_from 0 r /\ length r <= length ks /\ sort_stack r = r)
     (fun _ => False) w.
Proof.
  intros Hw Hu.
  eapply wp_mono; [apply (fill_stack_loop ks (length ks) (len (self w)) 0 [] w Hw) | | auto]; cbn beta.
  - lia.
  - cbn [skipn length Nat.add]. apply stack_of_length. exact Hu.
  - cbn [skipn app]. intros r w' [Hst ->]. split; [exact Hst|]. split; [reflexivity|].
    split; [apply stack_of_inc|]. split; [apply stack_of_length; exact Hu|].
    apply (sort_stack_inc _ 0). apply stack_of_inc.
Qed.

(* ---- the second loop ---- *)
Fixpoint apply_stack (st : list (nat * nat)) (out : list (option nat)) : list (option nat) :=
  match st with
  | [] => out
  | ab :: t => apply_stack t (upd out (snd ab) (Some (fst ab)))
  end.

Fixpoint dec_below (hi : nat) (st : list (nat * nat)) : Prop :=
  match st with
  | [] => True
  | ab :: t => fst ab < hi /\ dec_below (fst ab) t
  end.

Lemma dec_below_le hi hi' st : hi <= hi' -> dec_below hi st -> dec_below hi' st.
Proof. destruct st as [|ab t]; cbn [dec_below]; [auto | intros H [H1 H2]; split; [lia | exact H2]]. Qed.

Lemma rev_append_dec st : forall acc lo hi,
  inc_from lo st -> dec_below lo acc -> (forall ab, In ab st -> fst ab < hi) -> lo <= hi ->
  dec_below hi (rev_append st acc).
Proof.
  induction st as [|ab t IH]; intros acc lo hi Hi Ha Hb Hl; cbn [rev_append].
  - eapply dec_below_le; eauto.
  - cbn [inc_from] in Hi. destruct Hi as [Hlo Hi].
    apply (IH (ab :: acc) (S (fst ab)) hi).
    + exact Hi.
    + cbn [dec_below]. split; [lia|]. eapply dec_below_le; eauto.
    + intros cd Hin. apply Hb. right. exact Hin.
    + specialize (Hb ab (or_introl eq_refl)). lia.
Qed.

Lemma split_back_lawful J : forall st rest out (w : world),
  WF (self w) -> rest <= len (self w) -> dec_below rest st ->
  (forall ab, In ab st -> snd ab < J) ->
  wp (split_back J st rest out) (fun r w' => w' = w /\ r = apply_stack st out) (fun _ => False) w.
Proof.
  induction st as [|[pair_i ks_i] st IH]; intros rest out w Hw Hr Hd HJ; cbn [split_back apply_stack].
  - apply wp_ret. auto.
  - cbn [dec_below fst] in Hd. destruct Hd as [Hlt Hd].
    destruct (Nat.leb_spec pair_i rest) as [_|Hgt]; [|lia].
    destruct (Nat.ltb_spec pair_i rest) as [_|Hge]; [|lia].
    assert (Hi : pair_i < len (self w)) by lia.
    destruct (WF_live _ _ Hw Hi) as [p Hp].
    apply wp_bind. eapply wp_p_ref; [exact Hp|].
    assert (Hk : ks_i < J) by (apply (HJ (pair_i, ks_i)); left; reflexivity).
    destruct (Nat.ltb_spec ks_i J) as [_|Hge]; [|lia].
    cbv beta iota. cbn [fst snd]. apply IH; [exact Hw | lia | exact Hd |].
    intros cd Hin. apply HJ. right. exact Hin.
Qed.

Lemma apply_stack_length st : forall out, length (apply_stack st out) = length out.
Proof.
  induction st as [|ab t IH]; intros out; cbn [apply_stack]; [reflexivity|].
  rewrite IH. apply upd_length.
Qed.

Lemma apply_stack_notin st b :
  (forall a, ~ In (a, b) st) -> forall out, nth_error (apply_stack st out) b = nth_error out b.
Proof.
  induction st as [|[a' b'] t IH]; intros Hn out; cbn [apply_stack fst snd]; [reflexivity|].
  rewrite IH.
  - apply nth_error_upd_neq. intros ->. apply (Hn a'). left. reflexivity.
  - intros a Hin. apply (Hn a). right. exact Hin.
Qed.

Lemma apply_stack_in st a b :
  NoDup (List.map snd st) -> In (a, b) st ->
  forall out, b < length out -> nth_error (apply_stack st out) b = Some (Some a).
Proof.
  induction st as [|[a' b'] t IH]; intros Hnd Hin out Hb; [destruct Hin|].
  cbn [List.map snd] in Hnd. inversion Hnd as [|? ? Hnotin Hnd']; subst. cbn [apply_stack fst snd].
  destruct Hin as [Heq|Hin].
  - injection Heq as -> ->. rewrite apply_stack_notin.
    + apply nth_error_upd_eq. exact Hb.
    + intros a0 Hin. apply Hnotin. apply in_map_iff. exists (a0, b). auto.
  - apply IH; auto. rewrite upd_length. exact Hb.
Qed.

Lemma nth_error_repeat_lt {A} (x : A) n : forall j, j < n -> nth_error (repeat x n) j = Some x.
Proof.
  induction n as [|n IH]; intros j Hj; [lia|]. destruct j as [|j]; cbn [repeat nth_error]; [reflexivity|].
  apply IH. lia.
Qed.

Lemma list_eq_nth {A} (l1 : list A) : forall l2,
  length l1 = length l2 -> (forall j, j < length l1 -> nth_error l1 j = nth_error l2 j) -> l1 = l2.
Proof.
  induction l1 as [|h t IH]; intros [|h2 t2] Hl Hn; cbn [length] in Hl, Hn; try discriminate; [reflexivity|].
  pose proof (Hn 0 ltac:(lia)) as H0. cbn [nth_error] in H0. injection H0 as ->.
  f_equal. apply IH; [lia|]. intros j Hj. apply (Hn (S j)). lia.
Qed.

(* what the two loops compute, as a statement about lists *)
Lemma disjoint_pure (l : list kv) ks :
  Uniq ck l -> NoDup (List.map cq ks) ->
  apply_stack (rev (stack_of l ks 0)) (repeat None (length ks)) =
  List.map (fun q => find_idx ck (cq q) l) ks.
Proof.
  intros Hu Hnd. apply list_eq_nth.
  - rewrite apply_stack_length, repeat_length, map_length. reflexivity.
  - rewrite apply_stack_length, repeat_length. intros j Hj.
    destruct (nth_error ks j) as [q|] eqn:Hq; [|apply nth_error_None in Hq; lia].
    erewrite map_nth_error by exact Hq.
    destruct (find_idx ck (cq q) l) as [a|] eqn:Hf.
    + apply apply_stack_in.
      * rewrite map_rev. apply NoDup_rev. apply stack_of_snd_nodup. exact Hu.
      * rewrite <- in_rev. apply (proj2 (stack_of_in _ _ _ _ _)).
        destruct (find_idx_inv ck _ _ _ Hf) as [[p [Hp Hc]] _].
        exists p. split; [lia|]. rewrite Nat.sub_0_r. split; [exact Hp|].
        rewrite Hc. apply qfind_nodup; assumption.
      * rewrite repeat_length. exact Hj.
    + rewrite apply_stack_notin.
      * apply nth_error_repeat_lt. exact Hj.
      * intros a Hin. rewrite <- in_rev in Hin.
        apply stack_of_in in Hin as (p & _ & Hp & Hqf).
        destruct (qfind_inv _ _ _ Hqf) as [(q' & Hq' & Hc) _].
        rewrite Hq in Hq'. injection Hq' as <-.
        apply (find_idx_none_inv ck _ _ Hf _ _ Hp). symmetry. exact Hc.
Qed.

(* ---- 4. get_disjoint_unchecked_mut ---- *)
Lemma disjoint_unchecked_lawful ks (w : world) :
  WF (self w) -> Uniq ck (elems (self w)) -> NoDup (List.map cq ks) ->
  wp (get_disjoint_unchecked_mut E ks)
     (fun r w' => stable w w' /\ r = List.map (fun q => find_idx ck (cq q) (elems (self w))) ks)
     (fun _ => False) w.
Proof.
  intros Hw Hu Hnd. unfold get_disjoint_unchecked_mut. destruct ks as [|k [|k2 ks']]; cbv beta iota zeta.
  - apply wp_ret. split; [apply stable_refl | reflexivity].
  - apply wp_bind. eapply wp_mono; [apply (get_mut_lawful E ck cq HL k w Hw) | | auto]; cbn beta.
    intros r w' [Hst ->]. apply wp_ret. split; [exact Hst | reflexivity].
  - remember (k :: k2 :: ks') as ks eqn:Hks in *. clear Hks.
    apply wp_bind. apply wp_get_len. apply wp_bind.
    eapply wp_mono; [apply (fill_stack_lawful ks w Hw Hu) | | auto]; cbn beta.
    intros st w1 (Hst1 & -> & _ & _ & Hsort). pose proof Hst1 as [Hs1 Hl1].
    rewrite Hsort.
    apply wp_bind. apply wp_p_prefix;
      [intros _ | intros Hc; rewrite Hs1 in Hc; pose proof (WF_len_le_cap _ Hw); lia].
    eapply wp_mono;
      [apply (split_back_lawful (length ks) (rev (stack_of (elems (self w)) ks 0)) (len (self w))
                (repeat None (length ks)) w1) | | auto]; cbn beta.
    + rewrite Hs1. exact Hw.
    + rewrite Hs1. lia.
    + rewrite rev_alt. apply (rev_append_dec _ [] 0 (len (self w))); [apply stack_of_inc | exact I | | lia].
      intros [a b] Hin. cbn [fst]. apply stack_of_fst_lt in Hin. rewrite (elems_length _ Hw) in Hin. lia.
    + intros [a b] Hin. rewrite <- in_rev in Hin. cbn [snd]. eapply stack_of_snd_lt; eauto.
    + intros r w2 [-> ->]. split; [exact Hst1|]. apply disjoint_pure; assumption.
Qed.

(* ---- 5. get_disjoint_mut ---- *)
Lemma disjoint_lawful ks (w : world) :
  WF (self w) -> Uniq ck (elems (self w)) -> NoDup (List.map cq ks) ->
  wp (get_disjoint_mut E ks)
     (fun r w' => stable w w' /\ r = List.map (fun q => find_idx ck (cq q) (elems (self w))) ks)
     (fun _ => False) w.
Proof.
  intros Hw Hu Hnd. unfold get_disjoint_mut. destruct ks as [|k ks']; cbv beta iota.
  - apply wp_ret. split; [apply stable_refl | reflexivity].
  - remember (k :: ks') as ks eqn:Hks in *. clear Hks.
    apply wp_bind. eapply wp_mono; [apply assert_distinct_lawful | |]; cbn beta.
    + intros _ w1 [Hst1 _]. pose proof Hst1 as [Hs1 Hl1].
      eapply wp_mono; [apply (disjoint_unchecked_lawful ks w1) | | auto]; cbn beta;
        try assumption; try (rewrite Hs1; assumption).
      intros r w2 [Hst2 ->]. split; [eapply stable_trans; eauto|]. rewrite Hs1. reflexivity.
    + intros w1 [_ Hn]. exact (Hn Hnd).
Qed.

(* ---- 6. two equal requested keys: panic, container untouched ---- *)
Lemma disjoint_overlap_panics ks (w : world) :
  WF (self w) -> ~ NoDup (List.map cq ks) ->
  wp (get_disjoint_mut E ks) (fun _ _ => False) (fun w' => stable w w') w.
Proof.
  intros _ Hn. unfold get_disjoint_mut. destruct ks as [|k ks']; cbv beta iota.
  - exfalso. apply Hn. constructor.
  - apply wp_bind. eapply wp_mono; [apply assert_distinct_lawful | |]; cbn beta.
    + intros _ w1 [_ Hnd]. exfalso. exact (Hn Hnd).
    + intros w1 [Hst _]. exact Hst.
Qed.

(* ---- 7. checked and unchecked variants coincide on distinct keys ---- *)
Lemma disjoint_unchecked_eq ks (w : world) :
  WF (self w) -> Uniq ck (elems (self w)) -> NoDup (List.map cq ks) ->
  exists r w1 w2,
    get_disjoint_unchecked_mut E ks w = Ok r w1 /\ get_disjoint_mut E ks w = Ok r w2 /\
    stable w w1 /\ stable w w2.
Proof.
  intros Hw Hu Hnd.
  pose proof (disjoint_unchecked_lawful ks w Hw Hu Hnd) as H1.
  pose proof (disjoint_lawful ks w Hw Hu Hnd) as H2.
  unfold wp in H1, H2.
  destruct (get_disjoint_unchecked_mut E ks w) as [r1 w1|w1|]; [|contradiction|contradiction].
  destruct (get_disjoint_mut E ks w) as [r2 w2|w2|]; [|contradiction|contradiction].
  destruct H1 as [Hst1 ->]. destruct H2 as [Hst2 ->]. eauto 10.
Qed.

End Part1.

End Disjoint.
