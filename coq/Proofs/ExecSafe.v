(* ExecSafe.v — history-level safety of the interpreter [step] / [run_ops] of
   Model/Exec.v, for EVERY script (lawful, adversarial, with injected panics):
   from a well-formed world no operation reaches UB, and every register stays
   well-formed with unchanged capacity whether the call returned or panicked. *)
Require Import Model.Base Model.Slots Model.MapOps Model.EntryOps Model.SetOps Model.Fmt Model.Exec.
Require Import Proofs.Hoare Proofs.Inv Proofs.Safety Proofs.Safety2 Proofs.Safety3.

(* ------------------------------------------------------------------ *)
(* 0. statements                                                       *)
(* ------------------------------------------------------------------ *)
Definition WFx (x : xworld) : Prop :=
  WF (xm0 x) /\ WF (xm1 x) /\ WF (xs0 x) /\ WF (xs1 x) /\ xdead x = false.
Definition caps (x : xworld) : nat * nat * nat * nat :=
  (cap (xm0 x), cap (xm1 x), cap (xs0 x), cap (xs1 x)).

Definition contract_ok (debug : bool) (o : op) (x : xworld) : Prop :=
  match o with
  | OInsertUnchecked r _ _ => debug = true \/ len (get_m r x) < cap (get_m r x)
  | _ => True
  end.
Definition safe_op (o : op) : Prop :=
  match o with OInsertUnchecked _ _ _ => False | _ => True end.

(* an observation produced by a call that returned (1) or panicked (2) *)
Definition okobs (l : list N) : Prop := exists t, l = 1%N :: t \/ l = 2%N :: t.

Lemma okobs_ne3 l : okobs l -> l <> [3%N].
Proof. intros [t [-> | ->]]; discriminate. Qed.

Lemma okobs_app l l' : okobs l -> okobs (l ++ l').
Proof. intros [t [-> | ->]]; exists (t ++ l'); [left | right]; reflexivity. Qed.

(* ------------------------------------------------------------------ *)
(* 1. generic helpers                                                  *)
(* ------------------------------------------------------------------ *)
Section Gen.
Context {K V T : Type}.
Notation M := (M K V T).
Notation world := (world K V T).
Notation map := (map K V).

(* invariant, capacity and length are kept *)
Definition keepl (w w' : world) : Prop := inv_post w w' /\ len (self w') = len (self w).

Lemma keepl_refl (w w' : world) : WF (self w) -> self w' = self w -> keepl w w'.
Proof. intros Hw Hs. split; [apply inv_post_refl; auto | rewrite Hs; reflexivity]. Qed.
Lemma keepl_trans (w w' w'' : world) : keepl w w' -> keepl w' w'' -> keepl w w''.
Proof. intros [H1 H2] [H3 H4]. split; [eapply inv_post_trans; eauto | congruence]. Qed.
Lemma keepl_base (w w' w'' : world) : self w' = self w -> keepl w' w'' -> keepl w w''.
Proof. unfold keepl, inv_post. intros ->. auto. Qed.
Lemma keepl_frame (w w' w'' : world) : self w'' = self w' -> keepl w w' -> keepl w w''.
Proof. unfold keepl, inv_post. intros ->. auto. Qed.
Lemma keepl_inv (w w' : world) : keepl w w' -> inv_post w w'.
Proof. intros [H _]. exact H. Qed.
Lemma keepl_WF (w w' : world) : keepl w w' -> WF (self w').
Proof. intros [[H _] _]. exact H. Qed.
Lemma inv_post_WF (w w' : world) : inv_post w w' -> WF (self w').
Proof. intros [H _]. exact H. Qed.

Lemma wp_frame_bind {A B} (c : M A) (f : A -> M B) (Qn : B -> world -> Prop) (Qp : world -> Prop) w :
  frame c ->
  (forall a w', self w' = self w -> wp (f a) Qn Qp w') ->
  (forall w', self w' = self w -> Qp w') ->
  wp (bind c f) Qn Qp w.
Proof. intros Hc H1 H2. apply wp_bind. apply wp_frame; auto. Qed.

(* lift a [keeps] fact to a different base world *)
Lemma wp_keeps_at {A} (c : M A) (w0 w : world) :
  keeps c -> inv_post w0 w -> wp c (fun _ => inv_post w0) (inv_post w0) w.
Proof.
  intros Hc H0. eapply wp_mono; [apply Hc; apply H0 | |]; cbn beta.
  - intros _ w' H. eapply inv_post_trans; eauto.
  - intros w' H. eapply inv_post_trans; eauto.
Qed.

Lemma frame_get_len : frame (@get_len K V T).
Proof. intros w. apply wp_get_len. reflexivity. Qed.
Lemma frame_get_cap : frame (@get_cap K V T).
Proof. intros w. apply wp_get_cap. reflexivity. Qed.
Lemma frame_get_self : frame (@get_self K V T).
Proof. intros w. apply wp_get_self. reflexivity. Qed.

Lemma frame_if {A} (b : bool) (c1 c2 : M A) : frame c1 -> frame c2 -> frame (if b then c1 else c2).
Proof. destruct b; auto. Qed.

(* reading a live slot *)
Lemma wp_p_ref_live i (Qn : K * V -> world -> Prop) (Qp : world -> Prop) (w : world) :
  live (self w) i -> (forall p, Qn p w) -> wp (p_ref i) Qn Qp w.
Proof. intros [p Hp] H. eapply wp_p_ref; [exact Hp | apply H]. Qed.

Lemma frame_p_ref_live i (w : world) :
  live (self w) i -> wp (p_ref i) (fun _ w' => self w' = self w) (fun _ => False) w.
Proof. intros H. apply wp_p_ref_live; auto. Qed.

End Gen.

(* ------------------------------------------------------------------ *)
(* 2. running a computation on a register                              *)
(* ------------------------------------------------------------------ *)
Lemma WFx_get_m r x : WFx x -> WF (get_m r x).
Proof. intros (H0 & H1 & _). unfold get_m. destruct (N.eqb r 0); assumption. Qed.
Lemma WFx_get_s r x : WFx x -> WF (get_s r x).
Proof. intros (_ & _ & H2 & H3 & _). unfold get_s. destruct (N.eqb r 2); assumption. Qed.

Lemma put_m_WFx r m cs x :
  WFx x -> WF m -> cap m = cap (get_m r x) ->
  WFx (put_m r m cs x) /\ caps (put_m r m cs x) = caps x.
Proof.
  unfold WFx, caps, put_m, get_m. intros (H0 & H1 & H2 & H3 & Hd) Hm Hc.
  destruct (N.eqb r 0); cbn [xm0 xm1 xs0 xs1 xdead]; rewrite Hc; auto 10.
Qed.
Lemma put_s_WFx r m cs x :
  WFx x -> WF m -> cap m = cap (get_s r x) ->
  WFx (put_s r m cs x) /\ caps (put_s r m cs x) = caps x.
Proof.
  unfold WFx, caps, put_s, get_s. intros (H0 & H1 & H2 & H3 & Hd) Hm Hc.
  destruct (N.eqb r 2); cbn [xm0 xm1 xs0 xs1 xdead]; rewrite Hc; auto 10.
Qed.

Definition safe_res (x x' : xworld) (obs : list N) : Prop :=
  WFx x' /\ caps x' = caps x /\ okobs obs.

Definition w_init {V} (cs : cstate) (m : map key V) : world key V cstate :=
  {| cb := cs; log := []; self := m |}.

Lemma run_m_safe_at r (c : Mm (list N)) x :
  WFx x ->
  wp c (fun _ => inv_post (w_init (xcb x) (get_m r x))) (inv_post (w_init (xcb x) (get_m r x)))
     (w_init (xcb x) (get_m r x)) ->
  safe_res x (snd (run_m r c x)) (fst (run_m r c x)).
Proof.
  intros Hx. unfold run_m, wp, w_init.
  destruct (c _) as [body w|w|]; cbn [finish fst snd]; [| |intros []].
  - intros [Hw Hc]. cbn [self] in Hc. destruct (put_m_WFx r (self w) (cb w) x Hx Hw Hc) as [Ha Hb].
    split; [exact Ha|]. split; [exact Hb|]. eexists. left. reflexivity.
  - intros [Hw Hc]. cbn [self] in Hc. destruct (put_m_WFx r (self w) (cb w) x Hx Hw Hc) as [Ha Hb].
    split; [exact Ha|]. split; [exact Hb|]. eexists. right. reflexivity.
Qed.

Lemma run_s_safe_at r (c : Ms (list N)) x :
  WFx x ->
  wp c (fun _ => inv_post (w_init (xcb x) (get_s r x))) (inv_post (w_init (xcb x) (get_s r x)))
     (w_init (xcb x) (get_s r x)) ->
  safe_res x (snd (run_s r c x)) (fst (run_s r c x)).
Proof.
  intros Hx. unfold run_s, wp, w_init.
  destruct (c _) as [body w|w|]; cbn [finish fst snd]; [| |intros []].
  - intros [Hw Hc]. cbn [self] in Hc. destruct (put_s_WFx r (self w) (cb w) x Hx Hw Hc) as [Ha Hb].
    split; [exact Ha|]. split; [exact Hb|]. eexists. left. reflexivity.
  - intros [Hw Hc]. cbn [self] in Hc. destruct (put_s_WFx r (self w) (cb w) x Hx Hw Hc) as [Ha Hb].
    split; [exact Ha|]. split; [exact Hb|]. eexists. right. reflexivity.
Qed.

Lemma run_m_keeps r (c : Mm (list N)) x :
  WFx x -> keeps c -> safe_res x (snd (run_m r c x)) (fst (run_m r c x)).
Proof. intros Hx Hc. apply run_m_safe_at; [exact Hx|]. apply Hc. apply WFx_get_m. exact Hx. Qed.
Lemma run_s_keeps r (c : Ms (list N)) x :
  WFx x -> keeps c -> safe_res x (snd (run_s r c x)) (fst (run_s r c x)).
Proof. intros Hx Hc. apply run_s_safe_at; [exact Hx|]. apply Hc. apply WFx_get_s. exact Hx. Qed.

(* the form announced in the task *)
Lemma run_m_safe r (c : Mm (list N)) x :
  WFx x ->
  (forall w, WF (self w) ->
     wp c (fun _ w' => WF (self w') /\ cap (self w') = cap (self w))
          (fun w' => WF (self w') /\ cap (self w') = cap (self w)) w) ->
  WFx (snd (run_m r c x)) /\ caps (snd (run_m r c x)) = caps x.
Proof. intros Hx Hc. destruct (run_m_keeps r c x Hx Hc) as (H1 & H2 & _). auto. Qed.
Lemma run_s_safe r (c : Ms (list N)) x :
  WFx x ->
  (forall w, WF (self w) ->
     wp c (fun _ w' => WF (self w') /\ cap (self w') = cap (self w))
          (fun w' => WF (self w') /\ cap (self w') = cap (self w)) w) ->
  WFx (snd (run_s r c x)) /\ caps (snd (run_s r c x)) = caps x.
Proof. intros Hx Hc. destruct (run_s_keeps r c x Hx Hc) as (H1 & H2 & _). auto. Qed.

(* ------------------------------------------------------------------ *)
(* 3. helpers of Exec.v                                                *)
(* ------------------------------------------------------------------ *)
Lemma wp_swap_self {V A} (m0 : map key V) (c : M key V cstate A)
      (Qn : A * map key V -> world key V cstate -> Prop) (Qp : world key V cstate -> Prop) w :
  wp c (fun a w' => Qn (a, self w') (with_self w' (self w))) (fun w' => Qp (with_self w' (self w)))
     (with_self w m0) ->
  wp (swap_self m0 c) Qn Qp w.
Proof. unfold wp, swap_self, with_self. destruct (c _); auto. Qed.

Section Helpers.
Context {V : Type}.
Notation world := (world key V cstate).

Lemma opt_slot_spec (rp : key * V -> list N) r (w : world) :
  match r with Some i => live (self w) i | None => True end ->
  wp (opt_slot rp r) (fun _ w' => self w' = self w) (fun _ => False) w.
Proof.
  intros H. destruct r as [i|]; cbn [opt_slot].
  - apply wp_bind. apply wp_p_ref_live; [exact H|]. intros p. apply wp_ret. reflexivity.
  - apply wp_ret. reflexivity.
Qed.

(* a lookup followed by rendering of the slot found *)
Lemma keeps_scan_opt_slot (E : env key V query cstate) q (rp : key * V -> list N) :
  keeps (o <- scan (test_q E q) ;; opt_slot rp o).
Proof.
  intros w Hw. apply wp_bind.
  eapply wp_mono; [apply scan_spec; [intros; apply frame_test_q | exact Hw] | |]; cbn beta.
  - intros r w' [Hs Hr]. eapply wp_mono; [apply opt_slot_spec | |]; cbn beta.
    + rewrite Hs. destruct r; [apply WF_live; assumption | exact I].
    + intros _ w'' Hs'. apply inv_post_refl; [exact Hw | congruence].
    + intros w'' [].
  - intros w' Hs. apply inv_post_refl; auto.
Qed.

(* replacing a register by a freshly built container *)
Lemma replace_with_safe (E : env key V query cstate) build body (w : world) :
  WF (self w) ->
  (forall w0 : world, self w0 = new_map (cap (self w)) ->
     wp build (fun _ w' => WF (self w') /\ cap (self w') = cap (self w)) (fun _ => True) w0) ->
  wp (replace_with E build body) (fun _ => inv_post w) (inv_post w) w.
Proof.
  intros Hw Hb. unfold replace_with. apply wp_bind. apply wp_get_cap. apply wp_bind.
  apply wp_swap_self.
  eapply wp_mono; [apply Hb; reflexivity | |]; cbn beta.
  - intros [] w1 [Hw1 Hc1].
    apply wp_bind. apply wp_get_self. apply wp_bind. apply wp_put_self. apply wp_bind.
    apply wp_swap_self. simp_w.
    eapply wp_mono; [apply drop_map_safe; simp_w; exact Hw | |]; cbn beta.
    + intros [] w2 _. apply wp_ret. unfold inv_post. simp_w. auto.
    + intros w2 _. unfold inv_post. simp_w. auto.
  - intros w1 _. simp_w. apply inv_post_refl; [exact Hw | reflexivity].
Qed.

(* final teardown of one register *)
Lemma keeps_drop_reg (E : env key V query cstate) : keeps (drop_reg E).
Proof.
  intros w Hw. unfold drop_reg. apply wp_bind. apply wp_get_cap. apply wp_bind. apply wp_get_self.
  apply wp_bind. apply wp_put_self. apply wp_bind. apply wp_swap_self. simp_w.
  assert (Hn : inv_post w (with_self w (new_map (cap (self w))))).
  { unfold inv_post. simp_w. split; [apply WF_new | apply cap_new]. }
  eapply wp_mono; [apply drop_map_safe; simp_w; exact Hw | |]; cbn beta.
  - intros [] w2 _. apply wp_ret. unfold inv_post in *. simp_w. exact Hn.
  - intros w2 _. unfold inv_post in *. simp_w. exact Hn.
Qed.

(* ---- drain sessions ---- *)
Lemma frame_dbg_range dk dv alt c : frame (@dbg_range V dk dv alt c).
Proof. intros w. reflexivity. Qed.

Lemma drain_steps_spec (rp : key * V -> list N) : forall n c acc (w : world),
  DrainInv c (self w) ->
  wp (drain_steps rp n c acc)
     (fun r w' => DrainInv (snd r) (self w') /\ cap (self w') = cap (self w))
     (fun _ => False) w.
Proof.
  induction n as [|n IH]; intros c acc w HD; cbn [drain_steps].
  - apply wp_ret. cbn [snd]. auto.
  - apply wp_bind. eapply wp_mono; [apply drain_next_spec; exact HD | |]; cbn beta; [|tauto].
    intros [o c'] w1 (HD1 & Hc1 & _). cbn [snd] in HD1.
    eapply wp_mono; [apply IH; exact HD1 | |]; cbn beta; [|tauto].
    intros r w2 [HD2 Hc2]. split; [exact HD2 | congruence].
Qed.

(* the rest of a Drain destroyed while unwinding: never panics, leaves an
   empty well-formed register *)
Lemma unwind_drain_spec (E : env key V query cstate) c (w : world) :
  DrainInv c (self w) ->
  wp (unwind_drain E c)
     (fun _ w' => WF (self w') /\ cap (self w') = cap (self w)) (fun _ => False) w.
Proof.
  intros (Hl & Hc & Hs). unfold unwind_drain.
  eapply wp_mono; [apply unwind_range_spec | |]; cbn beta; [| |tauto].
  - intros j Hj. apply Hs. unfold cursor_len in Hj. lia.
  - intros _ w' (H1 & H2 & _). split; [|exact H2].
    split; [lia | intros i Hi; lia].
Qed.

(* the closure of for_each panics: its frame destroys the item, then the
   Drain's destructor drops what is left *)
Lemma call_or_drain_spec (E : env key V query cstate) cl p c (w : world) :
  DrainInv c (self w) ->
  wp (call_or_drain E cl p c) (fun _ w' => self w' = self w)
     (fun w' => WF (self w') /\ cap (self w') = cap (self w)) w.
Proof.
  intros HD. unfold call_or_drain. apply wp_on_unwind.
  apply wp_frame.
  { apply frame_bind; [apply frame_emit|]. intros _.
    apply frame_bind; [apply frame_cbk|]. intros _. apply frame_ret. }
  - intros _ w1 Hs1. exact Hs1.
  - intros w1 Hs1. apply wp_bind.
    eapply wp_mono; [apply unwind_pair_nopanic | |]; cbn beta; [|tauto].
    intros _ w2 Hs2.
    eapply wp_mono; [apply unwind_drain_spec; rewrite Hs2, Hs1; exact HD | |]; cbn beta; [|tauto].
    intros _ w3 [Hw3 Hc3]. split; [exact Hw3 | congruence].
Qed.

(* destroying an item the Drain has handed out; a panicking Drop unwinds
   through the Drain *)
Lemma drop_or_drain_spec (E : env key V query cstate) p c (w : world) :
  DrainInv c (self w) ->
  wp (on_unwind (unwind_drain E c) (drop_pair E p)) (fun _ w' => self w' = self w)
     (fun w' => WF (self w') /\ cap (self w') = cap (self w)) w.
Proof.
  intros HD. apply wp_on_unwind. apply wp_frame; [apply frame_drop_pair | |].
  - intros _ w1 Hs1. exact Hs1.
  - intros w1 Hs1.
    eapply wp_mono; [apply unwind_drain_spec; rewrite Hs1; exact HD | |]; cbn beta; [|tauto].
    intros _ w3 [Hw3 Hc3]. split; [exact Hw3 | congruence].
Qed.

Lemma drain_for_each_spec (E : env key V query cstate) cl : forall fuel c cnt (w : world),
  DrainInv c (self w) ->
  wp (drain_for_each E cl fuel c cnt) (fun _ => inv_post w) (inv_post w) w.
Proof.
  induction fuel as [|f IH]; intros c cnt w HD; cbn [drain_for_each].
  - apply wp_ret. apply inv_post_refl; [eapply DrainInv_WF; eauto | reflexivity].
  - apply wp_bind. eapply wp_mono; [apply drain_next_spec; exact HD | |]; cbn beta; [|tauto].
    intros [o c'] w1 (HD1 & Hc1 & _). cbn [snd] in HD1.
    assert (H1 : inv_post w w1) by (unfold inv_post; split; [eapply DrainInv_WF; eauto | exact Hc1]).
    destruct o as [p|]; [|apply wp_ret; exact H1].
    apply wp_bind. eapply wp_mono; [apply call_or_drain_spec; exact HD1 | |]; cbn beta.
    + intros _ w2 Hs2. eapply wp_mono; [apply IH; rewrite Hs2; exact HD1 | |]; cbn beta.
      * intros _ w3 H3. eapply inv_post_trans; [exact H1|]. eapply inv_post_base; eauto.
      * intros w3 H3. eapply inv_post_trans; [exact H1|]. eapply inv_post_base; eauto.
    + intros w2 [Hw2 Hc2]. unfold inv_post. split; [exact Hw2 | congruence].
Qed.

Lemma drain_count_spec (E : env key V query cstate) : forall fuel c cnt (w : world),
  DrainInv c (self w) ->
  wp (drain_count E fuel c cnt) (fun _ => inv_post w) (inv_post w) w.
Proof.
  induction fuel as [|f IH]; intros c cnt w HD; cbn [drain_count].
  - apply wp_ret. apply inv_post_refl; [eapply DrainInv_WF; eauto | reflexivity].
  - apply wp_bind. eapply wp_mono; [apply drain_next_spec; exact HD | |]; cbn beta; [|tauto].
    intros [o c'] w1 (HD1 & Hc1 & _). cbn [snd] in HD1.
    assert (H1 : inv_post w w1) by (unfold inv_post; split; [eapply DrainInv_WF; eauto | exact Hc1]).
    destruct o as [p|]; [|apply wp_ret; exact H1].
    apply wp_bind. eapply wp_mono; [apply drop_or_drain_spec; exact HD1 | |]; cbn beta.
    + intros _ w2 Hs2. eapply wp_mono; [apply IH; rewrite Hs2; exact HD1 | |]; cbn beta.
      * intros _ w3 H3. eapply inv_post_trans; [exact H1|]. eapply inv_post_base; eauto.
      * intros w3 H3. eapply inv_post_trans; [exact H1|]. eapply inv_post_base; eauto.
    + intros w2 [Hw2 Hc2]. unfold inv_post. split; [exact Hw2 | congruence].
Qed.

Lemma keeps_drain_session (E : env key V query cstate) rp dk dv with_dbg cl take fate :
  keeps (drain_session E rp dk dv with_dbg cl take fate).
Proof.
  intros w Hw. unfold drain_session. apply wp_bind.
  eapply wp_mono; [apply drain_spec; exact Hw | |]; cbn beta.
  - intros c w1 (HD1 & Hc1 & _). apply wp_bind.
    eapply wp_mono; [apply drain_steps_spec; exact HD1 | |]; cbn beta; [|tauto].
    intros [acc c'] w2 [HD2 Hc2]. cbn [snd] in HD2.
    apply wp_frame_bind.
    { apply frame_if; [apply frame_dbg_range | apply frame_ret]. }
    2:{ intros w3 Hs3. unfold inv_post. rewrite Hs3. split; [eapply DrainInv_WF; eauto | congruence]. }
    intros d0 w3 Hs3. apply wp_frame_bind.
    { apply frame_if; [apply frame_dbg_range | apply frame_ret]. }
    2:{ intros w4 Hs4. unfold inv_post. rewrite Hs4, Hs3. split; [eapply DrainInv_WF; eauto | congruence]. }
    intros d1 w4 Hs4.
    assert (Hs42 : self w4 = self w2) by congruence.
    assert (HD4 : DrainInv c' (self w4)) by (rewrite Hs42; exact HD2).
    assert (H4 : inv_post w w4).
    { unfold inv_post. rewrite Hs42. split; [eapply DrainInv_WF; eauto | congruence]. }
    apply wp_bind. destruct (N.eqb fate 0).
    + apply wp_bind.
      eapply wp_mono; [apply drain_drop_spec with (c := c'); exact HD4 | |]; cbn beta.
      * intros _ w5 (Hw5 & _ & Hc5). apply wp_ret. apply wp_ret.
        unfold inv_post. split; [exact Hw5 | destruct H4; congruence].
      * intros w5 (Hw5 & _ & Hc5). unfold inv_post. split; [exact Hw5 | destruct H4; congruence].
    + destruct (N.eqb fate 2).
      * apply wp_bind.
        eapply wp_mono; [apply drain_for_each_spec; exact HD4 | |]; cbn beta.
        -- intros n w5 H5. apply wp_ret. apply wp_ret. eapply inv_post_trans; eauto.
        -- intros w5 H5. eapply inv_post_trans; eauto.
      * destruct (N.eqb fate 3).
        -- apply wp_bind.
           eapply wp_mono; [apply drain_count_spec; exact HD4 | |]; cbn beta.
           ++ intros n w5 H5. apply wp_ret. apply wp_ret. eapply inv_post_trans; eauto.
           ++ intros w5 H5. eapply inv_post_trans; eauto.
        -- apply wp_ret. apply wp_ret. exact H4.
  - intros w1 Hs1. apply inv_post_refl; auto.
Qed.

(* ---- borrowed cursor over self: the remaining slots are live ---- *)
Lemma cursor_live (c : cursor) (m : map key V) :
  WF m -> snd c <= len m -> forall j, fst c <= j < fst c + cursor_len c -> live m j.
Proof. intros Hm Hc j Hj. apply (WF_live _ _ Hm). unfold cursor_len in Hj. lia. Qed.

End Helpers.

(* ------------------------------------------------------------------ *)
(* 4. Map sessions                                                     *)
(* ------------------------------------------------------------------ *)
Notation mworld := (world key vobj cstate).
Notation sworld := (world key unit cstate).

Lemma set_dat_spec i d (w : mworld) :
  WF (self w) -> live (self w) i ->
  wp (set_dat i d) (fun _ w' => keepl w w') (fun _ => False) w.
Proof.
  intros Hw [p Hp]. unfold set_dat. apply wp_bind. eapply wp_p_replace; [exact Hp|].
  apply wp_ret. unfold keepl, inv_post. simp_w.
  split; [|reflexivity].
  split; [apply WF_set_slot_some; [exact Hw | apply live_lt_cap; exists p; exact Hp] | apply cap_set_slot].
Qed.

(* lookups handing out a slot *)
Lemma keeps_op_get_mut sc q d :
  keeps (o <- get_mut (env_map sc) q ;; b <- opt_slot (fun p : key * vobj => r_val (snd p)) o ;;
         (match o with Some i => set_dat i d | None => ret tt end) ;; ret b).
Proof.
  intros w Hw. apply wp_bind. unfold get_mut.
  eapply wp_mono; [apply scan_spec; [intros; apply frame_test_q | exact Hw] | |]; cbn beta.
  - intros r w1 [Hs1 Hr]. apply wp_bind.
    assert (Hw1 : WF (self w1)) by (rewrite Hs1; exact Hw).
    eapply wp_mono; [apply opt_slot_spec | |]; cbn beta.
    + destruct r; [apply WF_live; [exact Hw1 | rewrite Hs1; exact Hr] | exact I].
    + intros b w2 Hs2. apply wp_bind. destruct r as [i|].
      * eapply wp_mono; [apply set_dat_spec | |]; cbn beta.
        -- rewrite Hs2. exact Hw1.
        -- rewrite Hs2. apply WF_live; [exact Hw1 | rewrite Hs1; exact Hr].
        -- intros _ w3 H3. apply wp_ret. apply keepl_inv.
           eapply keepl_base; [|exact H3]. congruence.
        -- intros w3 [].
      * apply wp_ret. apply wp_ret. apply inv_post_refl; [exact Hw | congruence].
    + intros w2 [].
  - intros w1 Hs1. apply inv_post_refl; auto.
Qed.

Lemma index_spec (E : env key vobj query cstate) q (w : mworld) :
  WF (self w) ->
  wp (index E q) (fun i w' => self w' = self w /\ live (self w) i) (fun w' => self w' = self w) w.
Proof.
  intros Hw. unfold index. apply wp_bind.
  eapply wp_mono; [apply get_result_live; exact Hw | |]; cbn beta.
  - intros [i|] w' [Hs Hl]; [apply wp_ret; auto | apply wp_panic; exact Hs].
  - auto.
Qed.

Lemma keeps_op_index sc q :
  keeps (i <- index (env_map sc) q ;; p <- p_ref i ;; ret (nn i :: r_val (snd p))).
Proof.
  intros w Hw. apply wp_bind. eapply wp_mono; [apply index_spec; exact Hw | |]; cbn beta.
  - intros i w1 [Hs1 Hl]. apply wp_bind. apply wp_p_ref_live; [rewrite Hs1; exact Hl|].
    intros p. apply wp_ret. apply inv_post_refl; auto.
  - intros w1 Hs1. apply inv_post_refl; auto.
Qed.

Lemma keeps_op_index_mut sc q d :
  keeps (i <- index_mut (env_map sc) q ;; p <- p_ref i ;; set_dat i d ;; ret (nn i :: r_val (snd p))).
Proof.
  intros w Hw. apply wp_bind. eapply wp_mono; [apply (index_spec (env_map sc) q); exact Hw | |]; cbn beta.
  - intros i w1 [Hs1 Hl]. apply wp_bind. apply wp_p_ref_live; [rewrite Hs1; exact Hl|].
    intros p. apply wp_bind.
    eapply wp_mono; [apply set_dat_spec; rewrite Hs1; assumption | |]; cbn beta.
    + intros _ w2 H2. apply wp_ret. apply keepl_inv. eapply keepl_base; eauto.
    + intros w2 [].
  - intros w1 Hs1. apply inv_post_refl; auto.
Qed.

(* ---- borrowing iterator sessions ---- *)
Lemma frame_dbg_iter kind alt c : frame (dbg_iter kind alt c).
Proof. intros w. reflexivity. Qed.

Lemma iter_steps_spec kind wd : forall n j c acc (w : mworld),
  WF (self w) -> snd c <= len (self w) ->
  wp (iter_steps kind wd n j c acc)
     (fun r w' => keepl w w' /\ snd (snd r) <= len (self w))
     (fun _ => False) w.
Proof.
  induction n as [|n IH]; intros j c acc w Hw Hc; cbn [iter_steps].
  - apply wp_ret. cbn [snd]. split; [apply keepl_refl; auto | exact Hc].
  - cbv zeta. apply wp_bind.
    eapply wp_mono; [apply iter_next_spec; [exact Hw | exact Hc] | |]; cbn beta; [|tauto].
    intros [o c'] w1 [Hs1 Ho]. cbn [fst snd] in Ho.
    assert (Hw1 : WF (self w1)) by (rewrite Hs1; exact Hw).
    destruct o as [i|].
    + destruct Ho as (Hi & Hlt & Hc'). subst i c'.
      assert (Hl : live (self w1) (fst c)) by (apply WF_live; [exact Hw1 | rewrite Hs1; lia]).
      apply wp_bind. apply wp_p_ref_live; [exact Hl|]. intros p. apply wp_bind.
      assert (Hk : forall w2 : mworld, keepl w1 w2 ->
                wp (iter_steps kind wd n (S j) (S (fst c), snd c)
                      (acc ++ [nn (cursor_len c); nn (cursor_len c); nn (cursor_len c); 1%N; nn (fst c)] ++
                       r_item kind p))
                   (fun r w' => keepl w w' /\ snd (snd r) <= len (self w)) (fun _ => False) w2).
      { intros w2 H2. destruct H2 as [[Hw2 Hc2] Hl2].
        eapply wp_mono; [apply IH; [exact Hw2 | cbn [snd]; rewrite Hl2, Hs1; exact Hc] | |]; cbn beta; [|tauto].
        intros r w3 [H3 Hr]. split.
        - eapply keepl_base; [exact Hs1|]. eapply keepl_trans; [|exact H3].
          split; [split; assumption | exact Hl2].
        - rewrite Hl2, Hs1 in Hr. exact Hr. }
      destruct (is_mut_kind kind).
      * eapply wp_mono; [apply set_dat_spec; assumption | |]; cbn beta; [|tauto].
        intros _ w2 H2. apply Hk. exact H2.
      * apply wp_ret. apply Hk. apply keepl_refl; auto.
    + destruct Ho as [_ ->].
      eapply wp_mono; [apply IH; [exact Hw1 | rewrite Hs1; exact Hc] | |]; cbn beta; [|tauto].
      intros r w3 [H3 Hr]. split; [eapply keepl_base; eauto | rewrite Hs1 in Hr; exact Hr].
Qed.

Lemma rest_slots_spec : forall n lo (w : mworld),
  (forall j, lo <= j < lo + n -> live (self w) j) ->
  wp (rest_slots n lo) (fun _ w' => self w' = self w) (fun _ => False) w.
Proof.
  induction n as [|n IH]; intros lo w Hl; cbn [rest_slots].
  - apply wp_ret. reflexivity.
  - apply wp_bind. apply wp_p_ref_live; [apply Hl; lia|]. intros _. apply wp_bind.
    eapply wp_mono; [apply IH | |]; cbn beta; [| |tauto].
    + intros j Hj. apply Hl. lia.
    + intros r w' Hs. apply wp_ret. exact Hs.
Qed.

Lemma keeps_iter_session kind steps wd : keeps (iter_session kind steps wd).
Proof.
  intros w Hw. unfold iter_session. apply wp_bind.
  eapply wp_mono; [apply iter_spec; exact Hw | |]; cbn beta.
  - intros c w1 [Hs1 ->]. apply wp_bind.
    eapply wp_mono; [apply iter_steps_spec; [rewrite Hs1; exact Hw | cbn [snd]; rewrite Hs1; lia] | |];
      cbn beta; [|tauto].
    intros [acc c'] w2 [H2 Hc']. cbn [snd] in Hc'.
    assert (H2' : keepl w w2) by (eapply keepl_base; eauto).
    assert (Hw2 : WF (self w2)) by (eapply keepl_WF; eauto).
    assert (Hl2 : len (self w2) = len (self w)) by apply H2'.
    rewrite Hs1 in Hc'.
    apply wp_frame_bind; [apply frame_dbg_iter | |].
    2:{ intros w3 Hs3. eapply inv_post_frame; [exact Hs3 | apply H2']. }
    intros d0 w3 Hs3. apply wp_frame_bind; [apply frame_dbg_iter | |].
    2:{ intros w4 Hs4. apply inv_post_frame with (w' := w2); [congruence | apply H2']. }
    intros d1 w4 Hs4. apply wp_bind.
    assert (Hs42 : self w4 = self w2) by congruence.
    destruct (is_mut_kind kind).
    + apply wp_ret. apply wp_ret. eapply inv_post_frame; [exact Hs42 | apply H2'].
    + eapply wp_mono; [apply rest_slots_spec | |]; cbn beta; [| |tauto].
      * rewrite Hs42. apply cursor_live; [exact Hw2 | lia].
      * intros r w5 Hs5. apply wp_ret. apply inv_post_frame with (w' := w2); [congruence | apply H2'].
  - intros w1 Hs1. apply inv_post_refl; auto.
Qed.

Lemma keeps_format_m style : keeps (format_m style).
Proof.
  intros w Hw. unfold format_m. apply wp_bind.
  eapply wp_mono; [apply iter_spec; exact Hw | |]; cbn beta.
  - intros c w1 [Hs1 _]. unfold wp. apply inv_post_refl; auto.
  - intros w1 Hs1. apply inv_post_refl; auto.
Qed.
Lemma keeps_format_s style : keeps (format_s style).
Proof.
  intros w Hw. unfold format_s. apply wp_bind.
  eapply wp_mono; [apply iter_spec; exact Hw | |]; cbn beta.
  - intros c w1 [Hs1 _]. unfold wp. apply inv_post_refl; auto.
  - intros w1 Hs1. apply inv_post_refl; auto.
Qed.

(* ---- consuming iterator sessions ---- *)
Lemma frame_into_steps_item sc kind p : frame (into_steps_item sc kind p).
Proof.
  unfold into_steps_item. destruct (N.eqb kind 1).
  - apply frame_bind; [apply frame_drop_val|]. intros _. apply frame_ret.
  - destruct (N.eqb kind 2).
    + apply frame_bind; [apply frame_drop_key|]. intros _. apply frame_ret.
    + apply frame_ret.
Qed.

Lemma keeps_into_steps sc kind : forall n acc, keeps (into_steps sc kind n acc).
Proof.
  induction n as [|n IH]; intros acc; cbn [into_steps].
  - apply keeps_ret.
  - apply keeps_bind; [apply frame_keeps; apply frame_get_len|]. intros l.
    apply keeps_bind; [apply keeps_into_iter_next|]. intros [p|].
    + apply keeps_bind; [apply frame_keeps; apply frame_into_steps_item|]. intros it. apply IH.
    + apply IH.
Qed.

Lemma frame_dbg_into kind alt : frame (dbg_into kind alt).
Proof. intros w. reflexivity. Qed.

Lemma frame_unwind_item sc kind p : frame (unwind_item sc kind p).
Proof.
  unfold unwind_item. destruct (N.eqb kind 1); [apply frame_unwind_key|].
  destruct (N.eqb kind 2); [apply frame_unwind_val | apply frame_unwind_pair].
Qed.

Lemma frame_into_rest sc kind p : frame (into_rest sc kind p).
Proof.
  unfold into_rest. destruct (N.eqb kind 1); [apply frame_drop_key|].
  destruct (N.eqb kind 2); [apply frame_drop_val | apply frame_drop_pair].
Qed.

Lemma frame_closure_call {V} (cl : cstate -> ans * cstate) :
  frame (bind (@emit key V cstate [EvCall 4]) (fun _ => bind (cbk cl) (fun _ => ret tt))).
Proof.
  apply frame_bind; [apply frame_emit|]. intros _.
  apply frame_bind; [apply frame_cbk|]. intros _. apply frame_ret.
Qed.

Lemma keeps_into_for_each sc kind : forall fuel cnt, keeps (into_for_each sc kind fuel cnt).
Proof.
  induction fuel as [|f IH]; intros cnt; cbn [into_for_each].
  - apply keeps_ret.
  - apply keeps_bind; [apply keeps_into_iter_next|]. intros [p|]; [|apply keeps_ret].
    apply keeps_bind; [apply frame_keeps; apply frame_into_steps_item|]. intros _.
    apply keeps_bind.
    { apply frame_keeps. apply frame_on_unwind; [apply frame_unwind_item | apply frame_closure_call]. }
    intros _. apply IH.
Qed.

Lemma keeps_into_count sc kind : forall fuel cnt, keeps (into_count sc kind fuel cnt).
Proof.
  induction fuel as [|f IH]; intros cnt; cbn [into_count].
  - apply keeps_ret.
  - apply keeps_bind; [apply keeps_into_iter_next|]. intros [p|]; [|apply keeps_ret].
    apply keeps_bind; [apply frame_keeps; apply frame_into_steps_item|]. intros _.
    apply keeps_bind; [apply frame_keeps; apply frame_into_rest|]. intros _. apply IH.
Qed.

(* a [keeps] computation on a local container under finally_drop: a normal
   return leaves it well-formed, unwinding is safe *)
Lemma wp_finally_keeps {V A} (E : env key V query cstate) (c : M key V cstate A)
      (w : world key V cstate) :
  keeps c -> WF (self w) ->
  wp (finally_drop E c) (fun _ w' => WF (self w')) (fun _ => True) w.
Proof.
  intros Hc Hw. apply wp_finally_drop.
  eapply wp_mono; [apply Hc; exact Hw | |]; cbn beta.
  - intros _ w' [H _]. exact H.
  - intros w' [H _]. exact H.
Qed.

Lemma into_session_safe sc kind take fate (w : mworld) :
  WF (self w) -> wp (into_session sc kind take fate) (fun _ _ => True) (fun _ => True) w.
Proof.
  intros Hw. unfold into_session. apply wp_bind.
  eapply wp_mono; [apply wp_finally_keeps; [|exact Hw] | |]; cbn beta; [| |auto].
  { apply keeps_bind; [apply keeps_into_steps|]. intros acc.
    apply keeps_bind; [apply frame_keeps; apply frame_dbg_into|]. intros d0.
    apply keeps_bind; [apply frame_keeps; apply frame_dbg_into|]. intros d1.
    apply keeps_bind; [apply frame_keeps; apply frame_get_len|]. intros l. apply keeps_ret. }
  intros [[[acc d0] d1] l] w3 Hw3. apply wp_bind.
  assert (Hfin : forall (t : list N) (w' : mworld),
            wp (ret (acc ++ d0 ++ d1 ++ [nn l] ++ t) : Mm (list N)) (fun _ _ => True) (fun _ => True) w').
  { intros t w'. apply wp_ret. exact I. }
  destruct (N.eqb fate 0).
  - apply wp_bind.
    eapply wp_mono; [apply drop_map_safe; exact Hw3 | |]; cbn beta; [|auto].
    intros _ w4 _. apply wp_ret. apply Hfin.
  - destruct (N.eqb fate 2).
    + apply wp_bind.
      eapply wp_mono; [apply wp_finally_keeps; [apply keeps_into_for_each | exact Hw3] | |];
        cbn beta; [|auto].
      intros n w4 _. apply wp_ret. apply Hfin.
    + destruct (N.eqb fate 3).
      * destruct (N.eqb kind 0).
        -- apply wp_bind.
           eapply wp_mono; [apply drop_map_safe; exact Hw3 | |]; cbn beta; [|auto].
           intros _ w4 _. apply wp_ret. apply Hfin.
        -- apply wp_bind.
           eapply wp_mono; [apply wp_finally_keeps; [apply keeps_into_count | exact Hw3] | |];
             cbn beta; [|auto].
           intros n w4 _. apply wp_ret. apply Hfin.
      * apply wp_ret. apply Hfin.
Qed.

Lemma keeps_op_into_iter sc kind take fate :
  keeps (c <- get_cap ;; old <- get_self ;; put_self (new_map c) ;;
         '(body, _) <- swap_self old (into_session sc kind take fate) ;; ret body).
Proof.
  intros w Hw. apply wp_bind. apply wp_get_cap. apply wp_bind. apply wp_get_self.
  apply wp_bind. apply wp_put_self. apply wp_bind. apply wp_swap_self. simp_w.
  assert (Hn : inv_post w (with_self w (new_map (cap (self w))))).
  { unfold inv_post. simp_w. split; [apply WF_new | apply cap_new]. }
  eapply wp_mono; [apply into_session_safe; simp_w; exact Hw | |]; cbn beta.
  - intros body w2 _. apply wp_ret. unfold inv_post in *. simp_w. exact Hn.
  - intros w2 _. unfold inv_post in *. simp_w. exact Hn.
Qed.

(* ---- entry chains ---- *)
Lemma r_slotval_spec tag i (w : mworld) :
  live (self w) i -> wp (r_slotval tag i) (fun _ w' => self w' = self w) (fun _ => False) w.
Proof.
  intros Hl. unfold r_slotval. apply wp_bind. apply wp_p_ref_live; [exact Hl|].
  intros p. apply wp_ret. reflexivity.
Qed.

(* an index-producing computation followed by r_slotval *)
Lemma wp_then_slotval (c : Mm nat) tag (w : mworld) :
  wp c (fun i w' => inv_post w w' /\ i < len (self w')) (inv_post w) w ->
  wp (i <- c ;; r_slotval tag i) (fun _ => inv_post w) (inv_post w) w.
Proof.
  intros Hc. apply wp_bind. eapply wp_mono; [exact Hc | |]; cbn beta; [|auto].
  intros i w1 [H1 Hi]. eapply wp_mono; [apply r_slotval_spec | |]; cbn beta.
  - apply WF_live; [apply H1 | exact Hi].
  - intros _ w2 Hs2. eapply inv_post_frame; eauto.
  - intros w2 [].
Qed.

(* get the slot, render it, overwrite its payload *)
Lemma wp_slot_set tag j d (w : mworld) :
  WF (self w) -> j < len (self w) ->
  wp (r <- r_slotval tag j ;; set_dat j d ;; ret r) (fun _ => inv_post w) (inv_post w) w.
Proof.
  intros Hw Hj. assert (Hl : live (self w) j) by (apply WF_live; assumption).
  apply wp_bind. eapply wp_mono; [apply r_slotval_spec; exact Hl | |]; cbn beta; [|tauto].
  intros r w1 Hs1. apply wp_bind.
  eapply wp_mono; [apply set_dat_spec; rewrite Hs1; assumption | |]; cbn beta; [|tauto].
  intros _ w2 H2. apply wp_ret. apply keepl_inv. eapply keepl_base; eauto.
Qed.

Section EntryChain.
Context (debug : bool) (sc : script).
Notation Em := (env_map sc).

Definition chain_goal (c : Mm (list N)) (w : mworld) : Prop :=
  wp c (fun _ => inv_post w) (inv_post w) w.

Lemma ch_or_insert e v (w : mworld) : WF (self w) -> entry_ok e (self w) ->
  chain_goal (i <- or_insert Em debug e v ;; r_slotval 0 i) w.
Proof. intros Hw He. apply wp_then_slotval. apply or_insert_spec; assumption. Qed.

Lemma ch_or_insert_with e f (w : mworld) : WF (self w) -> entry_ok e (self w) ->
  chain_goal (i <- or_insert_with Em debug e f ;; r_slotval 0 i) w.
Proof. intros Hw He. apply wp_then_slotval. apply or_insert_with_spec; assumption. Qed.

Lemma ch_or_insert_with_key e f (w : mworld) : WF (self w) -> entry_ok e (self w) ->
  chain_goal (i <- or_insert_with_key Em debug e f ;; r_slotval 0 i) w.
Proof. intros Hw He. apply wp_then_slotval. apply or_insert_with_key_spec; assumption. Qed.

Lemma ch_and_modify e v (w : mworld) : WF (self w) -> entry_ok e (self w) ->
  chain_goal (e' <- and_modify e (modf_add sc) ;; i <- or_insert Em debug e' v ;; r_slotval 0 i) w.
Proof.
  intros Hw He. apply wp_bind.
  eapply wp_mono; [apply and_modify_spec; assumption | |]; cbn beta; [|auto].
  intros e' w1 (H1 & -> & Hl1).
  eapply wp_mono; [apply ch_or_insert with (e := e); [apply H1 | ] | |]; cbn beta.
  - destruct e; cbn [entry_ok] in *; [lia | exact I].
  - intros _ w2 H2. eapply inv_post_trans; eauto.
  - intros w2 H2. eapply inv_post_trans; eauto.
Qed.

Lemma ch_key e (w : mworld) : WF (self w) -> entry_ok e (self w) ->
  chain_goal (x <- entry_key e ;;
              match x with
              | inl j => p <- p_ref j ;; ret ([0%N; nn j] ++ r_key (fst p))
              | inr k' => drop_key Em k' ;; ret (1%N :: r_key k')
              end) w.
Proof.
  intros Hw He. apply wp_bind.
  eapply wp_mono; [apply entry_key_spec; assumption | |]; cbn beta; [|tauto].
  intros [j|k'] w1 [Hs1 Hj].
  - apply wp_bind. apply wp_p_ref_live; [rewrite Hs1; apply WF_live; assumption|].
    intros p. apply wp_ret. apply inv_post_refl; auto.
  - apply wp_frame_bind; [apply frame_drop_key | |].
    + intros _ w2 Hs2. apply wp_ret. apply inv_post_refl; [exact Hw | congruence].
    + intros w2 Hs2. apply inv_post_refl; [exact Hw | congruence].
Qed.

Lemma ch_get e (w : mworld) : WF (self w) -> entry_ok e (self w) ->
  chain_goal (match e with
              | Occupied i => j <- occ_get i ;; r_slotval 0 j
              | Vacant k' => drop_key Em k' ;; ret (1%N :: r_key k')
              end) w.
Proof.
  intros Hw He. destruct e as [i|k']; cbn [entry_ok] in He.
  - apply wp_then_slotval.
    eapply wp_mono; [apply occ_get_spec; assumption | |]; cbn beta; [|tauto].
    intros j w1 [-> Hs1]. split; [apply inv_post_refl; auto | rewrite Hs1; exact He].
  - apply wp_frame_bind; [apply frame_drop_key | |].
    + intros _ w2 Hs2. apply wp_ret. apply inv_post_refl; auto.
    + intros w2 Hs2. apply inv_post_refl; auto.
Qed.

Lemma ch_get_mut e v (w : mworld) : WF (self w) -> entry_ok e (self w) ->
  chain_goal (match e with
              | Occupied i => j <- occ_get_mut i ;; r <- r_slotval 0 j ;; set_dat j (vdat v) ;; ret r
              | Vacant k' => ret (1%N :: r_key k')
              end) w.
Proof.
  intros Hw He. destruct e as [i|k']; cbn [entry_ok] in He.
  - apply wp_bind.
    eapply wp_mono; [apply occ_get_mut_spec; assumption | |]; cbn beta; [|tauto].
    intros j w1 [-> Hs1].
    eapply wp_mono; [apply wp_slot_set with (j := i); rewrite Hs1; assumption | |]; cbn beta.
    + intros _ w2 H2. eapply inv_post_base; eauto.
    + intros w2 H2. eapply inv_post_base; eauto.
  - apply wp_ret. apply inv_post_refl; auto.
Qed.

Lemma ch_insert e v (w : mworld) : WF (self w) -> entry_ok e (self w) ->
  chain_goal (match e with
              | Occupied i => old <- occ_insert i v ;; ret (0%N :: r_val old)
              | Vacant k' => j <- vac_insert Em debug k' v ;; r_slotval 1 j
              end) w.
Proof.
  intros Hw He. destruct e as [i|k']; cbn [entry_ok] in He.
  - apply wp_bind.
    eapply wp_mono; [apply occ_insert_spec; assumption | |]; cbn beta; [|tauto].
    intros old w1 H1. apply wp_ret. exact H1.
  - apply wp_then_slotval. apply vac_insert_spec. exact Hw.
Qed.

Lemma ch_remove e (w : mworld) : WF (self w) -> entry_ok e (self w) ->
  chain_goal (match e with
              | Occupied i => old <- occ_remove Em debug i ;; ret (0%N :: r_val old)
              | Vacant k' => drop_key Em k' ;; ret [1%N]
              end) w.
Proof.
  intros Hw He. destruct e as [i|k']; cbn [entry_ok] in He.
  - apply wp_bind.
    eapply wp_mono; [apply occ_remove_spec; assumption | |]; cbn beta; [|auto].
    intros old w1 H1. apply wp_ret. exact H1.
  - apply wp_frame_bind; [apply frame_drop_key | |].
    + intros _ w2 Hs2. apply wp_ret. apply inv_post_refl; auto.
    + intros w2 Hs2. apply inv_post_refl; auto.
Qed.

Lemma ch_remove_entry e (w : mworld) : WF (self w) -> entry_ok e (self w) ->
  chain_goal (match e with
              | Occupied i => p <- occ_remove_entry debug i ;; ret (0%N :: r_pair p)
              | Vacant k' => ret (1%N :: r_key k')
              end) w.
Proof.
  intros Hw He. destruct e as [i|k']; cbn [entry_ok] in He.
  - apply wp_bind.
    eapply wp_mono; [apply occ_remove_entry_spec; assumption | |]; cbn beta; [|auto].
    intros old w1 H1. apply wp_ret. exact H1.
  - apply wp_ret. apply inv_post_refl; auto.
Qed.

Lemma ch_into_mut e v (w : mworld) : WF (self w) -> entry_ok e (self w) ->
  chain_goal (match e with
              | Occupied i => j <- occ_into_mut i ;; r <- r_slotval 0 j ;; set_dat j (vdat v) ;; ret r
              | Vacant k' => j <- vac_insert Em debug k' v ;; r_slotval 1 j
              end) w.
Proof.
  intros Hw He. destruct e as [i|k']; cbn [entry_ok] in He.
  - apply wp_bind.
    eapply wp_mono; [apply occ_into_mut_spec; assumption | |]; cbn beta; [|tauto].
    intros j w1 [-> Hs1].
    eapply wp_mono; [apply wp_slot_set with (j := i); rewrite Hs1; assumption | |]; cbn beta.
    + intros _ w2 H2. eapply inv_post_base; eauto.
    + intros w2 H2. eapply inv_post_base; eauto.
  - apply wp_then_slotval. apply vac_insert_spec. exact Hw.
Qed.

Lemma entry_chain_body e chain v (w : mworld) : WF (self w) -> entry_ok e (self w) ->
  chain_goal
    (match chain with
     | 0%N => i <- or_insert Em debug e v ;; r_slotval 0 i
     | 1%N => i <- or_insert_with Em debug e (mk_val sc v) ;; r_slotval 0 i
     | 2%N => i <- or_insert_with_key Em debug e (fun _ => mk_val sc v) ;; r_slotval 0 i
     | 3%N => i <- or_insert_with Em debug e (mk_default sc) ;; r_slotval 0 i
     | 4%N => e' <- and_modify e (modf_add sc) ;; i <- or_insert Em debug e' v ;; r_slotval 0 i
     | 5%N =>
         x <- entry_key e ;;
         match x with
         | inl j => p <- p_ref j ;; ret ([0%N; nn j] ++ r_key (fst p))
         | inr k' => drop_key Em k' ;; ret (1%N :: r_key k')
         end
     | 6%N =>
         match e with
         | Occupied i => j <- occ_get i ;; r_slotval 0 j
         | Vacant k' => drop_key Em k' ;; ret (1%N :: r_key k')
         end
     | 7%N =>
         match e with
         | Occupied i => j <- occ_get_mut i ;; r <- r_slotval 0 j ;; set_dat j (vdat v) ;; ret r
         | Vacant k' => ret (1%N :: r_key k')
         end
     | 8%N =>
         match e with
         | Occupied i => old <- occ_insert i v ;; ret (0%N :: r_val old)
         | Vacant k' => j <- vac_insert Em debug k' v ;; r_slotval 1 j
         end
     | 9%N =>
         match e with
         | Occupied i => old <- occ_remove Em debug i ;; ret (0%N :: r_val old)
         | Vacant k' => drop_key Em k' ;; ret [1%N]
         end
     | 10%N =>
         match e with
         | Occupied i => p <- occ_remove_entry debug i ;; ret (0%N :: r_pair p)
         | Vacant k' => ret (1%N :: r_key k')
         end
     | _ =>
         match e with
         | Occupied i => j <- occ_into_mut i ;; r <- r_slotval 0 j ;; set_dat j (vdat v) ;; ret r
         | Vacant k' => j <- vac_insert Em debug k' v ;; r_slotval 1 j
         end
     end) w.
Proof.
  intros Hw He.
  destruct chain as [|p]; [apply ch_or_insert; assumption|].
  repeat (match goal with
          | |- context [match ?q with xI _ => _ | xO _ => _ | xH => _ end] => is_var q; destruct q
          end);
  first [ apply ch_or_insert; assumption
        | apply ch_or_insert_with; assumption
        | apply ch_or_insert_with_key; assumption
        | apply ch_and_modify; assumption
        | apply ch_key; assumption
        | apply ch_get; assumption
        | apply ch_get_mut; assumption
        | apply ch_insert; assumption
        | apply ch_remove; assumption
        | apply ch_remove_entry; assumption
        | apply ch_into_mut; assumption ].
Qed.

Lemma keeps_entry_chain k chain v : keeps (entry_chain debug sc k chain v).
Proof.
  intros w Hw. unfold entry_chain. apply wp_bind.
  eapply wp_mono; [apply entry_of_spec; exact Hw | |]; cbn beta.
  - intros e w1 [Hs1 He].
    assert (Hw1 : WF (self w1)) by (rewrite Hs1; exact Hw).
    pose proof (entry_chain_body e chain v w1 Hw1) as Hb. rewrite Hs1 in Hb at 1.
    specialize (Hb He). unfold chain_goal in Hb.
    eapply wp_mono; [exact Hb | |]; cbn beta.
    + intros _ w2 H2. eapply inv_post_base; eauto.
    + intros w2 H2. eapply inv_post_base; eauto.
  - intros w1 Hs1. apply inv_post_refl; auto.
Qed.

End EntryChain.

(* ---- get_disjoint_mut ---- *)
Lemma disjoint_render_spec : forall l wd j (w : mworld),
  WF (self w) -> (forall i, In (Some i) l -> i < len (self w)) ->
  wp (disjoint_render l wd j) (fun _ w' => keepl w w') (fun _ => False) w.
Proof.
  induction l as [|[i|] l IH]; intros wd j w Hw Hl; cbn [disjoint_render].
  - apply wp_ret. apply keepl_refl; auto.
  - assert (Hi : i < len (self w)) by (apply Hl; left; reflexivity).
    apply wp_bind. apply wp_p_ref_live; [apply WF_live; assumption|]. intros p.
    apply wp_bind.
    eapply wp_mono; [apply set_dat_spec; [exact Hw | apply WF_live; assumption] | |]; cbn beta; [|tauto].
    intros _ w1 H1. apply wp_bind.
    eapply wp_mono; [apply IH; [eapply keepl_WF; eauto|] | |]; cbn beta; [| |tauto].
    + intros i' Hi'. destruct H1 as [_ ->]. apply Hl. right. exact Hi'.
    + intros r w2 H2. apply wp_ret. eapply keepl_trans; eauto.
  - apply wp_bind.
    eapply wp_mono; [apply IH; [exact Hw|] | |]; cbn beta; [| |tauto].
    + intros i' Hi'. apply Hl. right. exact Hi'.
    + intros r w2 H2. apply wp_ret. exact H2.
Qed.

Lemma keeps_disjoint_session sc unchecked qs wd : keeps (disjoint_session sc unchecked qs wd).
Proof.
  intros w Hw. unfold disjoint_session. apply wp_bind.
  assert (Hd : wp (if unchecked then get_disjoint_unchecked_mut (env_map sc) (List.map QCls qs)
                   else get_disjoint_mut (env_map sc) (List.map QCls qs))
                  (fun r w' => self w' = self w /\
                               (forall j i, nth_error r j = Some (Some i) -> i < len (self w)))
                  (fun w' => self w' = self w) w).
  { destruct unchecked.
    - eapply wp_mono; [apply disjoint_unchecked_safe; exact Hw | |]; cbn beta; [|auto].
      intros r w' (H1 & _ & H3 & _). auto.
    - eapply wp_mono; [apply disjoint_safe; exact Hw | |]; cbn beta; [|auto].
      intros r w' (H1 & _ & H3 & _). auto. }
  eapply wp_mono; [exact Hd | |]; cbn beta.
  - intros l w1 [Hs1 Hl].
    eapply wp_mono; [apply disjoint_render_spec | |]; cbn beta.
    + rewrite Hs1. exact Hw.
    + intros i Hi. apply In_nth_error in Hi. destruct Hi as [j Hj]. rewrite Hs1. eapply Hl; eauto.
    + intros _ w2 H2. apply keepl_inv. eapply keepl_base; eauto.
    + intros w2 [].
  - intros w1 Hs1. apply inv_post_refl; auto.
Qed.

(* ---- serde visitors ---- *)
Lemma frame_get_next_id {V} : frame (@get_next_id V).
Proof. intros w. reflexivity. Qed.
Lemma frame_bump_id {V} n : frame (@bump_id V n).
Proof. intros w. reflexivity. Qed.

Lemma keeps_visit_map debug sc items : keeps (visit_map debug sc items).
Proof.
  induction items as [|[k v] rest IH]; cbn [visit_map].
  - apply keeps_ret.
  - apply keeps_bind; [apply frame_keeps; apply frame_get_next_id|]. intros id.
    apply keeps_bind; [apply frame_keeps; apply frame_bump_id|]. intros _.
    apply keeps_bind; [apply keeps_insert|]. intros old.
    apply keeps_bind; [apply frame_keeps; apply frame_drop_opt_val|]. intros _. exact IH.
Qed.
Lemma keeps_visit_seq debug sc items : keeps (visit_seq debug sc items).
Proof.
  induction items as [|k rest IH]; cbn [visit_seq].
  - apply keeps_ret.
  - apply keeps_bind; [apply frame_keeps; apply frame_get_next_id|]. intros id.
    apply keeps_bind; [apply frame_keeps; apply frame_bump_id|]. intros _.
    apply keeps_bind; [apply keeps_s_insert|]. intros _. exact IH.
Qed.

(* a local container built by a [keeps] computation under finally_drop *)
Lemma finally_keeps_build {V} (E : env key V query cstate) (c : M key V cstate unit) n
      (w : world key V cstate) (w0 : world key V cstate) :
  keeps c -> self w0 = new_map n -> cap (self w) = n ->
  wp (finally_drop E c) (fun _ w' => WF (self w') /\ cap (self w') = cap (self w)) (fun _ => True) w0.
Proof.
  intros Hc Hs Hn. apply wp_finally_drop.
  assert (Hw0 : WF (self w0)) by (rewrite Hs; apply WF_new).
  eapply wp_mono; [apply Hc; exact Hw0 | |]; cbn beta.
  - intros _ w' [H1 H2]. split; [exact H1|]. rewrite H2, Hs, cap_new. auto.
  - intros w' [H1 _]. exact H1.
Qed.

(* ------------------------------------------------------------------ *)
(* 5. Set sessions                                                     *)
(* ------------------------------------------------------------------ *)
Lemma set_iter_steps_spec : forall n c acc (w : sworld),
  WF (self w) -> snd c <= len (self w) ->
  wp (set_iter_steps n c acc)
     (fun r w' => self w' = self w /\ snd (snd r) <= len (self w))
     (fun _ => False) w.
Proof.
  induction n as [|n IH]; intros c acc w Hw Hc; cbn [set_iter_steps].
  - apply wp_ret. cbn [snd]. auto.
  - cbv zeta. apply wp_bind.
    eapply wp_mono; [apply iter_next_spec; [exact Hw | exact Hc] | |]; cbn beta; [|tauto].
    intros [o c'] w1 [Hs1 Ho]. cbn [fst snd] in Ho.
    assert (Hw1 : WF (self w1)) by (rewrite Hs1; exact Hw).
    destruct o as [i|].
    + destruct Ho as (Hi & Hlt & Hc'). subst i c'.
      apply wp_bind. apply wp_p_ref_live; [apply WF_live; [exact Hw1 | rewrite Hs1; lia]|].
      intros p.
      eapply wp_mono; [apply IH; [exact Hw1 | cbn [snd]; rewrite Hs1; exact Hc] | |]; cbn beta; [|tauto].
      intros r w2 [Hs2 Hr]. rewrite Hs1 in Hr. split; [congruence | exact Hr].
    + destruct Ho as [_ ->].
      eapply wp_mono; [apply IH; [exact Hw1 | rewrite Hs1; exact Hc] | |]; cbn beta; [|tauto].
      intros r w2 [Hs2 Hr]. rewrite Hs1 in Hr. split; [congruence | exact Hr].
Qed.

Lemma rest_slots_s_spec : forall n lo (w : sworld),
  (forall j, lo <= j < lo + n -> live (self w) j) ->
  wp (rest_slots_s n lo) (fun _ w' => self w' = self w) (fun _ => False) w.
Proof.
  induction n as [|n IH]; intros lo w Hl; cbn [rest_slots_s].
  - apply wp_ret. reflexivity.
  - apply wp_bind. apply wp_p_ref_live; [apply Hl; lia|]. intros _. apply wp_bind.
    eapply wp_mono; [apply IH | |]; cbn beta; [| |tauto].
    + intros j Hj. apply Hl. lia.
    + intros r w' Hs. apply wp_ret. exact Hs.
Qed.

Lemma keeps_set_iter_session steps : keeps (set_iter_session steps).
Proof.
  intros w Hw. unfold set_iter_session. apply wp_bind.
  eapply wp_mono; [apply iter_spec; exact Hw | |]; cbn beta.
  - intros c w1 [Hs1 ->]. apply wp_bind.
    eapply wp_mono; [apply set_iter_steps_spec; [rewrite Hs1; exact Hw | cbn [snd]; rewrite Hs1; lia] | |];
      cbn beta; [|tauto].
    intros [acc c'] w2 [Hs2 Hc']. cbn [snd] in Hc'. rewrite Hs1 in Hc'.
    assert (Hs2' : self w2 = self w) by congruence.
    apply wp_bind.
    eapply wp_mono; [apply rest_slots_s_spec | |]; cbn beta; [| |tauto].
    + rewrite Hs2'. apply cursor_live; [exact Hw | exact Hc'].
    + intros r w3 Hs3. apply wp_ret. apply inv_post_refl; [exact Hw | congruence].
  - intros w1 Hs1. apply inv_post_refl; auto.
Qed.

Lemma keeps_set_into_steps : forall n acc, keeps (set_into_steps n acc).
Proof.
  induction n as [|n IH]; intros acc; cbn [set_into_steps].
  - apply keeps_ret.
  - apply keeps_bind; [apply frame_keeps; apply frame_get_len|]. intros l.
    apply keeps_bind; [apply keeps_into_iter_next|]. intros [p|]; apply IH.
Qed.

Lemma keeps_set_into_for_each sc : forall fuel cnt, keeps (set_into_for_each sc fuel cnt).
Proof.
  induction fuel as [|f IH]; intros cnt; cbn [set_into_for_each].
  - apply keeps_ret.
  - apply keeps_bind; [apply keeps_into_iter_next|]. intros [p|]; [|apply keeps_ret].
    apply keeps_bind.
    { apply frame_keeps. apply frame_on_unwind; [apply frame_unwind_key | apply frame_closure_call]. }
    intros _. apply IH.
Qed.

Lemma keeps_set_into_count sc : forall fuel cnt, keeps (set_into_count sc fuel cnt).
Proof.
  induction fuel as [|f IH]; intros cnt; cbn [set_into_count].
  - apply keeps_ret.
  - apply keeps_bind; [apply keeps_into_iter_next|]. intros [p|]; [|apply keeps_ret].
    apply keeps_bind; [apply frame_keeps; apply frame_drop_key|]. intros _. apply IH.
Qed.

Lemma keeps_op_s_into_iter sc take fate :
  keeps (c <- get_cap ;; old <- get_self ;; put_self (new_map c) ;;
         '(body, _) <- swap_self old
            (acc <- set_into_steps take [] ;; l <- get_len ;;
             tail <- (if N.eqb fate 0 then (drop_map (env_set sc) ;; ret [])
                      else if N.eqb fate 2
                           then (n <- finally_drop (env_set sc) (set_into_for_each sc (S l) 0) ;; ret [nn n])
                      else if N.eqb fate 3
                           then (n <- finally_drop (env_set sc) (set_into_count sc (S l) 0) ;; ret [nn n])
                           else ret []) ;;
             ret (acc ++ [nn l] ++ tail)) ;;
         ret body).
Proof.
  intros w Hw. apply wp_bind. apply wp_get_cap. apply wp_bind. apply wp_get_self.
  apply wp_bind. apply wp_put_self. apply wp_bind. apply wp_swap_self. simp_w.
  assert (Hn : inv_post w (with_self w (new_map (cap (self w))))).
  { unfold inv_post. simp_w. split; [apply WF_new | apply cap_new]. }
  assert (Hfin : forall w2 : sworld, inv_post w (with_self w2 (new_map (cap (self w))))).
  { intros w2. unfold inv_post in *. simp_w. exact Hn. }
  apply wp_bind.
  eapply wp_mono; [apply keeps_set_into_steps; simp_w; exact Hw | |]; cbn beta.
  - intros acc w1 [Hw1 _]. apply wp_bind. apply wp_get_len. apply wp_bind.
    destruct (N.eqb fate 0).
    + apply wp_bind.
      eapply wp_mono; [apply drop_map_safe; exact Hw1 | |]; cbn beta.
      * intros _ w2 _. apply wp_ret. apply wp_ret. apply wp_ret. apply Hfin.
      * intros w2 _. apply Hfin.
    + destruct (N.eqb fate 2).
      * apply wp_bind.
        eapply wp_mono; [apply wp_finally_keeps; [apply keeps_set_into_for_each | exact Hw1] | |];
          cbn beta.
        -- intros n w2 _. apply wp_ret. apply wp_ret. apply wp_ret. apply Hfin.
        -- intros w2 _. apply Hfin.
      * destruct (N.eqb fate 3).
        -- apply wp_bind.
           eapply wp_mono; [apply wp_finally_keeps; [apply keeps_set_into_count | exact Hw1] | |];
             cbn beta.
           ++ intros n w2 _. apply wp_ret. apply wp_ret. apply wp_ret. apply Hfin.
           ++ intros w2 _. apply Hfin.
        -- apply wp_ret. apply wp_ret. apply wp_ret. apply Hfin.
  - intros w1 _. apply Hfin.
Qed.

(* ---- set algebra sessions ---- *)
Section Alg.
Context (sc : script).
Notation Es := (env_set sc).
Notation smap := (map key unit).

Definition side_ok (a b : smap) (x : bool * nat) : Prop :=
  if fst x then snd x < len b else snd x < len a.

Lemma Forall_tag (a b : smap) (t : bool) (l : list nat) :
  Forall (fun i => i < len (if t then b else a)) l -> Forall (side_ok a b) (List.map (fun i => (t, i)) l).
Proof.
  induction 1 as [|i l Hi Hl IH]; cbn [List.map]; constructor; [|exact IH].
  unfold side_ok. cbn [fst snd]. destruct t; exact Hi.
Qed.

Lemma r_side_spec (a b : smap) x (w : sworld) :
  WF a -> WF b -> side_ok a b x ->
  wp (r_side a b x) (fun _ w' => self w' = self w) (fun _ => False) w.
Proof.
  intros Ha Hb Hx. destruct x as [t i]. unfold side_ok in Hx. cbn [fst snd] in Hx.
  unfold r_side. cbn [fst snd]. destruct t.
  - destruct (WF_live _ _ Hb Hx) as [p Hp]. rewrite Hp. apply wp_ret. reflexivity.
  - destruct (WF_live _ _ Ha Hx) as [p Hp]. rewrite Hp. apply wp_ret. reflexivity.
Qed.

Lemma r_sides_spec (a b : smap) : WF a -> WF b -> forall l (w : sworld),
  Forall (side_ok a b) l ->
  wp (r_sides a b l) (fun _ w' => self w' = self w) (fun _ => False) w.
Proof.
  intros Ha Hb. induction l as [|x t IH]; intros w Hl; cbn [r_sides].
  - apply wp_ret. reflexivity.
  - inversion Hl as [|x' t' Hx Ht]; subst.
    apply wp_bind. eapply wp_mono; [apply r_side_spec; assumption | |]; cbn beta; [|tauto].
    intros h w1 Hs1. apply wp_bind.
    eapply wp_mono; [apply IH; exact Ht | |]; cbn beta; [|tauto].
    intros r w2 Hs2. apply wp_ret. congruence.
Qed.

(* the custom folds: every slot pushed is a live slot of the left operand *)
Lemma filter_fold_spec (a b : smap) want : forall n lo acc (w : sworld),
  WF a -> WF b -> lo + n <= len a -> Forall (fun i => i < len a) acc ->
  wp (filter_fold Es a b want n lo acc)
     (fun l w' => self w' = self w /\ Forall (fun i => i < len a) l)
     (fun w' => self w' = self w) w.
Proof.
  induction n as [|n IH]; intros lo acc w Ha Hb Hn Hacc; cbn [filter_fold].
  - apply wp_ret. auto.
  - assert (Hlo : lo < len a) by lia.
    destruct (WF_live _ _ Ha Hlo) as [[k u] Hp]. rewrite Hp. cbn beta iota.
    apply wp_bind. eapply wp_mono; [apply contains_in_frame; exact Hb | |]; cbn beta.
    + intros inb w1 Hs1.
      eapply wp_mono; [apply IH; [exact Ha | exact Hb | lia |] | |]; cbn beta.
      * destruct (Bool.eqb inb want); [|exact Hacc].
        apply Forall_app. split; [exact Hacc | constructor; [exact Hlo | constructor]].
      * intros l w2 [Hs2 Hl]. split; [congruence | exact Hl].
      * intros w2 Hs2. congruence.
    + intros w1 Hs1. exact Hs1.
Qed.

Lemma diff_fold_spec (a b : smap) (c : cursor) (w : sworld) :
  WF a -> WF b -> fst c <= snd c -> snd c <= len a ->
  wp (diff_fold Es a b c [])
     (fun l w' => self w' = self w /\ Forall (fun i => i < len a) l)
     (fun w' => self w' = self w) w.
Proof.
  intros Ha Hb H1 H2. unfold diff_fold.
  apply filter_fold_spec; [exact Ha | exact Hb | unfold cursor_len; lia | constructor].
Qed.
Lemma inter_fold_spec (a b : smap) (c : cursor) (w : sworld) :
  WF a -> WF b -> fst c <= snd c -> snd c <= len a ->
  wp (inter_fold Es a b c [])
     (fun l w' => self w' = self w /\ Forall (fun i => i < len a) l)
     (fun w' => self w' = self w) w.
Proof.
  intros Ha Hb H1 H2. unfold inter_fold.
  apply filter_fold_spec; [exact Ha | exact Hb | unfold cursor_len; lia | constructor].
Qed.

Lemma siter_fold_spec (a b : smap) : forall n lo acc (w : sworld),
  WF b -> lo + n <= len b -> Forall (side_ok a b) acc ->
  wp (siter_fold b n lo acc)
     (fun l w' => self w' = self w /\ Forall (side_ok a b) l)
     (fun _ => False) w.
Proof.
  induction n as [|n IH]; intros lo acc w Hb Hn Hacc; cbn [siter_fold].
  - apply wp_ret. auto.
  - assert (Hlo : lo < len b) by lia.
    destruct (WF_live _ _ Hb Hlo) as [p Hp]. rewrite Hp.
    apply IH; [exact Hb | lia|].
    apply Forall_app. split; [exact Hacc | constructor; [exact Hlo | constructor]].
Qed.

(* the adaptors' state stays inside the operands *)
Definition ast_ok (a b : smap) (kind : N) (st : astate) : Prop :=
  match st with
  | ACur c => fst c <= snd c /\ snd c <= len a
  | AChain u => if N.eqb kind 2 then chain_ok (len b) (len a) u else chain_ok (len a) (len b) u
  end.

Definition yield_ok (a b : smap) (o : option (bool * nat)) : Prop :=
  match o with Some x => side_ok a b x | None => True end.

(* back half of a chain: a difference over [x] against [y], items tagged [t] *)
Lemma back_step (x y : smap) (t : bool) (bk : cursor) (la : nat) (w : sworld) :
  WF x -> WF y -> fst bk <= snd bk -> snd bk <= len x ->
  wp ('(r2, k') <- diff_next Es x y bk ;;
      ret (option_map (fun i => (t, i)) r2, {| front := None; back := k' |}))
     (fun r w' => self w' = self w /\ chain_ok la (len x) (snd r) /\
                  match fst r with Some z => fst z = t /\ snd z < len x | None => True end)
     (fun w' => self w' = self w) w.
Proof.
  intros Hx Hy H1 H2. apply wp_bind.
  eapply wp_mono; [apply diff_next_spec; [exact Hx | exact Hy | exact H2 | exact H1] | |]; cbn beta.
  - intros [r2 k'] w' (Hs & Ha & Hb & Hr). cbn [fst snd] in *. apply wp_ret.
    split; [exact Hs|]. split.
    + unfold chain_ok. cbn [snd front back]. auto.
    + cbn [fst]. destruct r2 as [i|]; cbn [option_map fst snd]; [split; [reflexivity | lia] | exact I].
  - intros w' Hs. exact Hs.
Qed.

Lemma union_next_spec (a b : smap) (u : chain) (w : sworld) :
  WF a -> WF b -> chain_ok (len b) (len a) u ->
  wp (union_next Es a b u)
     (fun r w' => self w' = self w /\ chain_ok (len b) (len a) (snd r) /\ yield_ok a b (fst r))
     (fun w' => self w' = self w) w.
Proof.
  intros Ha Hb Hu. destruct u as [fr bk]. unfold chain_ok in Hu. cbn [front back] in Hu.
  destruct Hu as (Hf & Hk1 & Hk2). unfold union_next. cbn [front back].
  assert (Hback : forall w0 : sworld, self w0 = self w ->
            wp ('(r2, k') <- diff_next Es a b bk ;;
                ret (option_map (fun i => (false, i)) r2, {| front := None; back := k' |}))
               (fun r w' => self w' = self w /\ chain_ok (len b) (len a) (snd r) /\ yield_ok a b (fst r))
               (fun w' => self w' = self w) w0).
  { intros w0 Hs0.
    eapply wp_mono; [apply back_step with (la := len b); assumption | |]; cbn beta.
    - intros r w' (Hs & Hc & Hy). split; [congruence|]. split; [exact Hc|].
      unfold yield_ok, side_ok. destruct (fst r) as [z|]; [|exact I].
      destruct Hy as [-> Hz]. exact Hz.
    - intros w' Hs. congruence. }
  destruct fr as [c|]; [|apply Hback; reflexivity].
  destruct Hf as [Hc1 Hc2]. apply wp_bind.
  eapply wp_mono; [apply siter_next_spec; [exact Hb | exact Hc1 | exact Hc2] | |]; cbn beta.
  - intros [r c'] w1 [Hs1 Hr]. cbn [fst snd] in Hr. destruct r as [i|].
    + destruct Hr as [Hi ->]. apply wp_ret. split; [exact Hs1|]. split.
      * unfold chain_ok. cbn [snd front back fst]. lia.
      * cbn [fst yield_ok]. unfold side_ok. cbn [fst snd]. lia.
    + apply Hback. exact Hs1.
  - intros w1 Hs1. exact Hs1.
Qed.

Lemma symdiff_next_spec (a b : smap) (u : chain) (w : sworld) :
  WF a -> WF b -> chain_ok (len a) (len b) u ->
  wp (symdiff_next Es a b u)
     (fun r w' => self w' = self w /\ chain_ok (len a) (len b) (snd r) /\ yield_ok a b (fst r))
     (fun w' => self w' = self w) w.
Proof.
  intros Ha Hb Hu. destruct u as [fr bk]. unfold chain_ok in Hu. cbn [front back] in Hu.
  destruct Hu as (Hf & Hk1 & Hk2). unfold symdiff_next. cbn [front back].
  assert (Hback : forall w0 : sworld, self w0 = self w ->
            wp ('(r2, k') <- diff_next Es b a bk ;;
                ret (option_map (fun i => (true, i)) r2, {| front := None; back := k' |}))
               (fun r w' => self w' = self w /\ chain_ok (len a) (len b) (snd r) /\ yield_ok a b (fst r))
               (fun w' => self w' = self w) w0).
  { intros w0 Hs0.
    eapply wp_mono; [apply back_step with (la := len a); assumption | |]; cbn beta.
    - intros r w' (Hs & Hc & Hy). split; [congruence|]. split; [exact Hc|].
      unfold yield_ok, side_ok. destruct (fst r) as [z|]; [|exact I].
      destruct Hy as [-> Hz]. exact Hz.
    - intros w' Hs. congruence. }
  destruct fr as [c|]; [|apply Hback; reflexivity].
  destruct Hf as [Hc1 Hc2]. apply wp_bind.
  eapply wp_mono; [apply diff_next_spec; [exact Ha | exact Hb | exact Hc2 | exact Hc1] | |]; cbn beta.
  - intros [r c'] w1 (Hs1 & Hr1 & Hr2 & Hr3). cbn [fst snd] in *. destruct r as [i|].
    + apply wp_ret. split; [exact Hs1|]. split.
      * unfold chain_ok. cbn [snd front back fst]. lia.
      * cbn [fst yield_ok]. unfold side_ok. cbn [fst snd]. lia.
    + apply Hback. exact Hs1.
  - intros w1 Hs1. exact Hs1.
Qed.

Lemma alg_init_spec kind (a b : smap) (w : sworld) :
  WF a -> WF b ->
  wp (alg_init kind a b) (fun st w' => self w' = self w /\ ast_ok a b kind st)
     (fun w' => self w' = self w) w.
Proof.
  intros Ha Hb. unfold alg_init. destruct (N.eqb kind 2) eqn:E2.
  - apply wp_bind. unfold union. apply wp_bind.
    eapply wp_mono; [apply on_map_iter_spec; exact Hb | |]; cbn beta; [|auto].
    intros f w1 [Hs1 ->]. apply wp_bind. unfold difference.
    eapply wp_mono; [apply on_map_iter_spec; exact Ha | |]; cbn beta; [|intros; congruence].
    intros k w2 [Hs2 ->]. apply wp_ret. apply wp_ret. split; [congruence|].
    cbn [ast_ok]. rewrite E2. unfold chain_ok. cbn [front back fst snd]. lia.
  - destruct (N.eqb kind 3).
    + apply wp_bind. unfold symdiff. apply wp_bind. unfold difference.
      eapply wp_mono; [apply on_map_iter_spec; exact Ha | |]; cbn beta; [|auto].
      intros f w1 [Hs1 ->]. apply wp_bind.
      eapply wp_mono; [apply on_map_iter_spec; exact Hb | |]; cbn beta; [|intros; congruence].
      intros k w2 [Hs2 ->]. apply wp_ret. apply wp_ret. split; [congruence|].
      cbn [ast_ok]. rewrite E2. unfold chain_ok. cbn [front back fst snd]. lia.
    + apply wp_bind. unfold difference.
      eapply wp_mono; [apply on_map_iter_spec; exact Ha | |]; cbn beta; [|auto].
      intros c w1 [Hs1 ->]. apply wp_ret. split; [exact Hs1|]. cbn [ast_ok fst snd]. lia.
Qed.

Lemma alg_next_spec kind (a b : smap) st (w : sworld) :
  WF a -> WF b -> ast_ok a b kind st ->
  wp (alg_next sc kind a b st)
     (fun r w' => self w' = self w /\ ast_ok a b kind (snd r) /\ yield_ok a b (fst r))
     (fun w' => self w' = self w) w.
Proof.
  intros Ha Hb Hst. destruct st as [c|u]; cbn [alg_next ast_ok] in *.
  - destruct Hst as [H1 H2]. apply wp_bind.
    assert (Hn : wp (if N.eqb kind 1 then inter_next Es a b c else diff_next Es a b c)
                    (fun r w' => self w' = self w /\ snd (snd r) <= len a /\ fst (snd r) <= snd (snd r) /\
                                 match fst r with Some i => fst c <= i < snd c | None => True end)
                    (fun w' => self w' = self w) w).
    { destruct (N.eqb kind 1); [apply inter_next_spec | apply diff_next_spec]; assumption. }
    eapply wp_mono; [exact Hn | |]; cbn beta; [|auto].
    intros r w1 (Hs1 & Hr1 & Hr2 & Hr3). apply wp_ret. split; [exact Hs1|].
    unfold tag_left. cbn [fst snd ast_ok]. split; [lia|].
    destruct (fst r) as [i|]; cbn [option_map yield_ok]; [|exact I].
    unfold side_ok. cbn [fst snd]. lia.
  - apply wp_bind. destruct (N.eqb kind 2) eqn:E2.
    + eapply wp_mono; [apply union_next_spec; assumption | |]; cbn beta; [|auto].
      intros [o u'] w1 (Hs1 & Hc & Hy). cbn [fst snd] in *. apply wp_ret.
      cbn [fst snd ast_ok]. rewrite E2. auto.
    + eapply wp_mono; [apply symdiff_next_spec; assumption | |]; cbn beta; [|auto].
      intros [o u'] w1 (Hs1 & Hc & Hy). cbn [fst snd] in *. apply wp_ret.
      cbn [fst snd ast_ok]. rewrite E2. auto.
Qed.

Lemma alg_fold_spec kind (a b : smap) st (w : sworld) :
  WF a -> WF b -> ast_ok a b kind st ->
  wp (alg_fold sc kind a b st)
     (fun l w' => self w' = self w /\ Forall (side_ok a b) l)
     (fun w' => self w' = self w) w.
Proof.
  intros Ha Hb Hst. destruct st as [c|u]; cbn [alg_fold ast_ok] in *.
  - destruct Hst as [H1 H2]. apply wp_bind.
    assert (Hn : wp (if N.eqb kind 1 then inter_fold Es a b c [] else diff_fold Es a b c [])
                    (fun l w' => self w' = self w /\ Forall (fun i => i < len a) l)
                    (fun w' => self w' = self w) w).
    { destruct (N.eqb kind 1); [apply inter_fold_spec | apply diff_fold_spec]; assumption. }
    eapply wp_mono; [exact Hn | |]; cbn beta; [|auto].
    intros l w1 [Hs1 Hl]. apply wp_ret. split; [exact Hs1|].
    apply (Forall_tag a b false). exact Hl.
  - destruct u as [fr bk]. destruct (N.eqb kind 2).
    + unfold chain_ok in Hst. cbn [front back] in Hst. destruct Hst as (Hf & Hk1 & Hk2).
      unfold union_fold. cbn [front back]. apply wp_bind.
      assert (Hfront : wp (match fr with
                           | Some c => siter_fold b (cursor_len c) (fst c) []
                           | None => ret []
                           end)
                          (fun l w' => self w' = self w /\ Forall (side_ok a b) l)
                          (fun w' => self w' = self w) w).
      { destruct fr as [c|].
        - eapply wp_mono; [apply (siter_fold_spec a b); [exact Hb | unfold cursor_len; lia | constructor] | |];
            cbn beta; [auto | tauto].
        - apply wp_ret. split; [reflexivity | constructor]. }
      eapply wp_mono; [exact Hfront | |]; cbn beta; [|auto].
      intros acc w1 [Hs1 Hacc]. apply wp_bind.
      eapply wp_mono; [apply diff_fold_spec; assumption | |]; cbn beta; [|intros; congruence].
      intros l w2 [Hs2 Hl]. apply wp_ret. split; [congruence|].
      apply Forall_app. split; [exact Hacc | apply (Forall_tag a b false); exact Hl].
    + unfold chain_ok in Hst. cbn [front back] in Hst. destruct Hst as (Hf & Hk1 & Hk2).
      unfold symdiff_fold. cbn [front back]. apply wp_bind.
      assert (Hfront : wp (match fr with
                           | Some c => diff_fold Es a b c []
                           | None => ret []
                           end)
                          (fun l w' => self w' = self w /\ Forall (fun i => i < len a) l)
                          (fun w' => self w' = self w) w).
      { destruct fr as [c|].
        - destruct Hf as [Hf1 Hf2]. apply diff_fold_spec; assumption.
        - apply wp_ret. split; [reflexivity | constructor]. }
      eapply wp_mono; [exact Hfront | |]; cbn beta; [|auto].
      intros l1 w1 [Hs1 Hl1]. apply wp_bind.
      eapply wp_mono; [apply diff_fold_spec; assumption | |]; cbn beta; [|intros; congruence].
      intros l2 w2 [Hs2 Hl2]. apply wp_ret. split; [congruence|].
      apply Forall_app. split; [apply (Forall_tag a b false); exact Hl1 | apply (Forall_tag a b true); exact Hl2].
Qed.

Lemma alg_steps_spec kind (a b : smap) : WF a -> WF b -> forall n st acc (w : sworld),
  ast_ok a b kind st ->
  wp (alg_steps sc kind a b n st acc)
     (fun r w' => self w' = self w /\ ast_ok a b kind (snd r))
     (fun w' => self w' = self w) w.
Proof.
  intros Ha Hb. induction n as [|n IH]; intros st acc w Hst; cbn [alg_steps].
  - apply wp_ret. cbn [snd]. auto.
  - destruct (alg_hint kind a b st) as [lo hi]. apply wp_bind.
    eapply wp_mono; [apply alg_next_spec; assumption | |]; cbn beta; [|auto].
    intros [o st'] w1 (Hs1 & Hst' & Hy). cbn [fst snd] in *. destruct o as [x|].
    + apply wp_bind.
      eapply wp_mono; [apply r_side_spec; assumption | |]; cbn beta; [|tauto].
      intros h w2 Hs2.
      eapply wp_mono; [apply IH; exact Hst' | |]; cbn beta.
      * intros r w3 [Hs3 Hr]. split; [congruence | exact Hr].
      * intros w3 Hs3. congruence.
    + eapply wp_mono; [apply IH; exact Hst' | |]; cbn beta.
      * intros r w3 [Hs3 Hr]. split; [congruence | exact Hr].
      * intros w3 Hs3. congruence.
Qed.

Lemma alg_session_frame kind (a b : smap) steps mode (w : sworld) :
  WF a -> WF b ->
  wp (alg_session sc kind a b steps mode) (fun _ w' => self w' = self w) (fun w' => self w' = self w) w.
Proof.
  intros Ha Hb. unfold alg_session. apply wp_bind.
  eapply wp_mono; [apply alg_init_spec; assumption | |]; cbn beta; [|auto].
  intros st w1 [Hs1 Hst]. apply wp_bind.
  eapply wp_mono; [apply alg_steps_spec; assumption | |]; cbn beta; [|intros; congruence].
  intros [acc st'] w2 [Hs2 Hst']. cbn [snd] in Hst'.
  destruct (alg_hint kind a b st') as [lo hi]. apply wp_bind.
  eapply wp_mono; [apply alg_fold_spec; assumption | |]; cbn beta; [|intros; congruence].
  intros dbg w3 [Hs3 _]. apply wp_bind.
  eapply wp_mono; [apply alg_fold_spec; assumption | |]; cbn beta; [|intros; congruence].
  intros rest w4 [Hs4 Hrest]. apply wp_bind.
  eapply wp_mono; [apply r_sides_spec; assumption | |]; cbn beta; [|tauto].
  intros rr w5 Hs5. apply wp_ret. congruence.
Qed.

End Alg.

(* turning a frame-at-w fact into a keeps-at-w fact *)
Lemma frame_at_keeps {K V T A} (c : M K V T A) (w : world K V T) :
  WF (self w) ->
  wp c (fun _ w' => self w' = self w) (fun w' => self w' = self w) w ->
  wp c (fun _ => inv_post w) (inv_post w) w.
Proof.
  intros Hw Hc. eapply wp_mono; [exact Hc | |]; cbn beta.
  - intros _ w' Hs. apply inv_post_refl; auto.
  - intros w' Hs. apply inv_post_refl; auto.
Qed.

Lemma keeps_then_ret {K V T A B} (c : M K V T A) (g : A -> B) :
  keeps c -> keeps (a <- c ;; ret (g a)).
Proof. intros Hc. apply keeps_bind; [exact Hc|]. intros a. apply keeps_ret. Qed.
Lemma keeps_then_ret_const {K V T A B} (c : M K V T A) (b : B) :
  keeps c -> keeps (c ;; ret b).
Proof. intros Hc. apply keeps_bind; [exact Hc|]. intros a. apply keeps_ret. Qed.

Lemma frame_then_ret_at {K V T A B} (c : M K V T A) (g : A -> B) (w : world K V T) :
  WF (self w) ->
  wp c (fun _ w' => self w' = self w) (fun w' => self w' = self w) w ->
  wp (a <- c ;; ret (g a)) (fun _ => inv_post w) (inv_post w) w.
Proof.
  intros Hw Hc. apply wp_bind. eapply wp_mono; [exact Hc | |]; cbn beta.
  - intros a w' Hs. apply wp_ret. apply inv_post_refl; auto.
  - intros w' Hs. apply inv_post_refl; auto.
Qed.

(* ---- building a fresh container for a register ---- *)
Lemma replace_build_at {V} (E : env key V query cstate) build body (w : world key V cstate) :
  WF (self w) ->
  (forall w0 : world key V cstate, WF (self w0) -> len (self w0) = 0 -> cap (self w0) = cap (self w) ->
     wp build (fun _ => inv_post w0) (fun _ => True) w0) ->
  wp (replace_with E build body) (fun _ => inv_post w) (inv_post w) w.
Proof.
  intros Hw Hb. apply replace_with_safe; [exact Hw|]. intros w0 Hs0.
  eapply wp_mono; [apply Hb | |]; cbn beta.
  - rewrite Hs0. apply WF_new.
  - rewrite Hs0. reflexivity.
  - rewrite Hs0. apply cap_new.
  - intros _ w' [H1 H2]. split; [exact H1|]. rewrite H2, Hs0. apply cap_new.
  - auto.
Qed.

Lemma keeps_op_with_capacity {V} (E : env key V query cstate) c :
  keeps (n <- get_cap ;; if with_capacity_ok c n then replace_with E (ret tt) [] else panic).
Proof.
  intros w Hw. apply wp_bind. apply wp_get_cap. destruct (with_capacity_ok c (cap (self w))).
  - apply replace_build_at; [exact Hw|]. intros w0 Hw0 _ _. apply wp_ret. apply inv_post_refl; auto.
  - apply wp_panic. apply inv_post_refl; auto.
Qed.

Lemma keeps_op_default {V} (E : env key V query cstate) body :
  keeps (replace_with E (ret tt) body).
Proof.
  intros w Hw. apply replace_build_at; [exact Hw|]. intros w0 Hw0 _ _.
  apply wp_ret. apply inv_post_refl; auto.
Qed.

Lemma op_clone_at {V} (E : env key V query cstate) (src : map key V) (w : world key V cstate) :
  WF src -> WF (self w) -> cap src = cap (self w) ->
  wp (replace_with E (clone_from_src E src) []) (fun _ => inv_post w) (inv_post w) w.
Proof.
  intros Hsrc Hw Hc. apply replace_build_at; [exact Hw|]. intros w0 Hw0 Hl0 Hc0.
  eapply wp_mono; [apply clone_safe; [exact Hsrc | exact Hw0 | exact Hl0 | congruence] | |]; cbn beta.
  - intros _ w' [H _]. exact H.
  - auto.
Qed.

Lemma keeps_op_from_iter {V} (E : env key V query cstate) debug nx items :
  keeps (replace_with E (from_iter E debug nx items) []).
Proof.
  intros w Hw. apply replace_build_at; [exact Hw|]. intros w0 Hw0 _ _.
  apply from_iter_safe. exact Hw0.
Qed.

Lemma keeps_op_s_from_iter (E : env key unit query cstate) debug nx items :
  keeps (replace_with E (s_from_iter E debug nx items) []).
Proof.
  intros w Hw. apply replace_build_at; [exact Hw|]. intros w0 Hw0 _ _.
  apply s_from_iter_safe. exact Hw0.
Qed.

Lemma keeps_op_finally {V} (E : env key V query cstate) (c : M key V cstate unit) body :
  keeps c -> keeps (replace_with E (finally_drop E c) body).
Proof.
  intros Hc w Hw. apply replace_build_at; [exact Hw|]. intros w0 Hw0 _ _.
  apply wp_finally_drop.
  eapply wp_mono; [apply Hc; exact Hw0 | |]; cbn beta; [auto|].
  intros w' [H _]. exact H.
Qed.

Lemma op_eq_at {V} (E : env key V query cstate) (a b : map key V) (w : world key V cstate) :
  WF a -> WF b -> WF (self w) ->
  wp (b' <- map_eq E a b ;; ret (r_bool b')) (fun _ => inv_post w) (inv_post w) w.
Proof. intros Ha Hb Hw. apply frame_then_ret_at; [exact Hw|]. apply map_eq_frame; assumption. Qed.

Lemma op_pred_at sc kind (a b : map key unit) (w : sworld) :
  WF a -> WF b -> WF (self w) ->
  wp (b' <- (if N.eqb kind 0 then is_disjoint (env_set sc) a b
             else if N.eqb kind 1 then is_subset (env_set sc) a b
             else is_superset (env_set sc) a b) ;; ret (r_bool b'))
     (fun _ => inv_post w) (inv_post w) w.
Proof.
  intros Ha Hb Hw. apply frame_then_ret_at; [exact Hw|].
  destruct (N.eqb kind 0); [apply is_disjoint_frame; assumption|].
  destruct (N.eqb kind 1); [apply is_subset_frame | apply is_superset_frame]; assumption.
Qed.

Lemma op_sub_at sc debug (a b : map key unit) (w : sworld) :
  WF a -> WF b -> WF (self w) ->
  wp ('(_, res) <- swap_self (new_map (cap a)) (set_sub (env_set sc) debug a b) ;;
      let body := nn (len res) :: flat_map r_spair (elems res) in
      '(_, _) <- swap_self res (drop_map (env_set sc)) ;;
      ret body)
     (fun _ => inv_post w) (inv_post w) w.
Proof.
  intros Ha Hb Hw. apply wp_bind. apply wp_swap_self.
  eapply wp_mono; [apply set_sub_safe; [exact Ha | exact Hb | simp_w; apply WF_new] | |]; cbn beta.
  - intros [] w1 [Hw1 _]. cbv zeta. apply wp_bind. apply wp_swap_self. simp_w.
    eapply wp_mono; [apply drop_map_safe; simp_w; exact Hw1 | |]; cbn beta.
    + intros [] w2 _. apply wp_ret. simp_w. apply inv_post_refl; [exact Hw | reflexivity].
    + intros w2 _. simp_w. apply inv_post_refl; [exact Hw | reflexivity].
  - intros w1 _. simp_w. apply inv_post_refl; [exact Hw | reflexivity].
Qed.

(* ------------------------------------------------------------------ *)
(* 5b. Iterator::nth sessions                                          *)
(* ------------------------------------------------------------------ *)
Section Nth.
Context {V : Type}.
Notation world := (world key V cstate).

(* ---- borrowing iterators: WF and snd c <= len ---- *)
Lemma iter_next_bound c (w : world) :
  WF (self w) -> snd c <= len (self w) ->
  wp (iter_next c)
     (fun r w' => self w' = self w /\ snd (snd r) <= len (self w) /\
                  match fst r with Some i => i < len (self w) | None => True end)
     (fun _ => False) w.
Proof.
  intros Hw Hc. eapply wp_mono; [apply iter_next_spec; assumption | |]; cbn beta; [|tauto].
  intros [o c'] w' [Hs Ho]. cbn [fst snd] in *. split; [exact Hs|]. destruct o as [i|].
  - destruct Ho as (Hi & Hlt & Hc'). subst i c'. cbn [snd]. split; lia.
  - destruct Ho as [_ Hc']. subst c'. auto.
Qed.

Lemma b_skip_spec : forall n c (w : world),
  WF (self w) -> snd c <= len (self w) ->
  wp (b_skip n c) (fun c' w' => self w' = self w /\ snd c' <= len (self w)) (fun _ => False) w.
Proof.
  induction n as [|n IH]; intros c w Hw Hc; cbn [b_skip].
  - apply wp_ret. auto.
  - apply wp_bind. eapply wp_mono; [apply iter_next_bound; assumption | |]; cbn beta; [|tauto].
    intros [o c'] w1 (Hs1 & Hc' & _). cbn [fst snd] in Hc'.
    eapply wp_mono; [apply IH; rewrite Hs1; assumption | |]; cbn beta; [|tauto].
    intros c2 w2 [Hs2 Hc2]. rewrite Hs1 in Hs2, Hc2. auto.
Qed.

Lemma b_nth_spec : forall n c (w : world),
  WF (self w) -> snd c <= len (self w) ->
  wp (b_nth n c)
     (fun r w' => self w' = self w /\ snd (snd r) <= len (self w) /\
                  match fst r with Some i => i < len (self w) | None => True end)
     (fun _ => False) w.
Proof.
  induction n as [|n IH]; intros c w Hw Hc; cbn [b_nth].
  - apply iter_next_bound; assumption.
  - apply wp_bind. eapply wp_mono; [apply iter_next_bound; assumption | |]; cbn beta; [|tauto].
    intros [o c'] w1 (Hs1 & Hc' & _). cbn [fst snd] in Hc'. destruct o as [i|].
    + eapply wp_mono; [apply IH; rewrite Hs1; assumption | |]; cbn beta; [|tauto].
      intros r w2 (Hs2 & H2 & H3). rewrite Hs1 in Hs2, H2, H3. auto.
    + apply wp_ret. cbn [fst snd]. auto.
Qed.

Lemma r_slot_item_spec (proj : key * V -> list N) o (w : world) :
  WF (self w) -> match o with Some i => i < len (self w) | None => True end ->
  wp (r_slot_item proj o) (fun _ w' => self w' = self w) (fun _ => False) w.
Proof.
  intros Hw Ho. destruct o as [i|]; cbn [r_slot_item].
  - apply wp_bind. apply wp_p_ref_live; [apply WF_live; assumption|]. intros p.
    apply wp_ret. reflexivity.
  - apply wp_ret. reflexivity.
Qed.

Lemma keeps_iter_nth_session (proj : key * V -> list N) pre nk :
  keeps (iter_nth_session proj pre nk).
Proof.
  intros w Hw. unfold iter_nth_session. apply wp_bind.
  eapply wp_mono; [apply iter_spec; exact Hw | |]; cbn beta;
    [|intros w' Hs; apply inv_post_refl; auto].
  intros c w1 [Hs1 Hc]. subst c. apply wp_bind.
  eapply wp_mono; [apply b_skip_spec; [rewrite Hs1; exact Hw | cbn [snd]; rewrite Hs1; lia] | |];
    cbn beta; [|tauto].
  intros c1 w2 [Hs2 Hc1]. assert (Hs2' : self w2 = self w) by congruence. rewrite Hs1 in Hc1.
  apply wp_bind.
  eapply wp_mono; [apply b_nth_spec; [rewrite Hs2'; exact Hw | rewrite Hs2'; exact Hc1] | |];
    cbn beta; [|tauto].
  intros [o c2] w3 (Hs3 & Hc2 & Ho). cbn [fst snd] in Hc2, Ho.
  assert (Hs3' : self w3 = self w) by congruence. rewrite Hs2' in Hc2, Ho.
  apply wp_bind.
  eapply wp_mono; [apply r_slot_item_spec; [rewrite Hs3'; exact Hw | rewrite Hs3'; exact Ho] | |];
    cbn beta; [|tauto].
  intros r w4 Hs4. assert (Hs4' : self w4 = self w) by congruence.
  apply wp_bind.
  eapply wp_mono; [apply iter_next_bound; [rewrite Hs4'; exact Hw | rewrite Hs4'; exact Hc2] | |];
    cbn beta; [|tauto].
  intros [o2 c3] w5 (Hs5 & _ & Ho2). cbn [fst snd] in Ho2.
  assert (Hs5' : self w5 = self w) by congruence. rewrite Hs4' in Ho2.
  apply wp_bind.
  eapply wp_mono; [apply r_slot_item_spec; [rewrite Hs5'; exact Hw | rewrite Hs5'; exact Ho2] | |];
    cbn beta; [|tauto].
  intros r2 w6 Hs6. apply wp_ret. apply inv_post_refl; [exact Hw | congruence].
Qed.

(* ---- drains: DrainInv ---- *)
Lemma d_skip_spec : forall n c (w : world),
  DrainInv c (self w) ->
  wp (d_skip n c) (fun c' w' => DrainInv c' (self w') /\ cap (self w') = cap (self w))
     (fun _ => False) w.
Proof.
  induction n as [|n IH]; intros c w HD; cbn [d_skip].
  - apply wp_ret. auto.
  - apply wp_bind. eapply wp_mono; [apply drain_next_spec; exact HD | |]; cbn beta; [|tauto].
    intros [o c'] w1 (HD1 & Hc1 & _). cbn [snd] in HD1.
    eapply wp_mono; [apply IH; exact HD1 | |]; cbn beta; [|tauto].
    intros c2 w2 [HD2 Hc2]. split; [exact HD2 | congruence].
Qed.

Lemma d_nth_spec (E : env key V query cstate) : forall n c (w : world),
  DrainInv c (self w) ->
  wp (d_nth E n c)
     (fun r w' => DrainInv (snd r) (self w') /\ cap (self w') = cap (self w))
     (fun w' => WF (self w') /\ cap (self w') = cap (self w)) w.
Proof.
  induction n as [|n IH]; intros c w HD; cbn [d_nth].
  - eapply wp_mono; [apply drain_next_spec; exact HD | |]; cbn beta; [|tauto].
    intros r w1 (H1 & H2 & _). auto.
  - apply wp_bind. eapply wp_mono; [apply drain_next_spec; exact HD | |]; cbn beta; [|tauto].
    intros [o c'] w1 (HD1 & Hc1 & _). cbn [snd] in HD1. destruct o as [p|].
    + apply wp_bind.
      eapply wp_mono; [apply drop_or_drain_spec; exact HD1 | |]; cbn beta.
      * intros _ w2 Hs2.
        eapply wp_mono; [apply IH; rewrite Hs2; exact HD1 | |]; cbn beta.
        -- intros r w3 [H3 Hc3]. split; [exact H3 | congruence].
        -- intros w3 [H3 Hc3]. split; [exact H3 | congruence].
      * intros w2 [Hw2 Hc2]. split; [exact Hw2 | congruence].
    + apply wp_ret. cbn [snd]. auto.
Qed.

Lemma keeps_drain_nth_session (E : env key V query cstate) rp pre nk :
  keeps (drain_nth_session E rp pre nk).
Proof.
  intros w Hw. unfold drain_nth_session. apply wp_bind.
  eapply wp_mono; [apply drain_spec; exact Hw | |]; cbn beta;
    [|intros w' Hs; apply inv_post_refl; auto].
  intros c w1 (HD1 & Hc1 & _). apply wp_bind.
  eapply wp_mono; [apply d_skip_spec; exact HD1 | |]; cbn beta; [|tauto].
  intros c1 w2 [HD2 Hc2]. apply wp_bind.
  eapply wp_mono; [apply d_nth_spec; exact HD2 | |]; cbn beta.
  2:{ intros w3 [Hw3 Hc3]. unfold inv_post. split; [exact Hw3 | congruence]. }
  intros [o c2] w3 [HD3 Hc3]. cbn [snd] in HD3. apply wp_bind.
  eapply wp_mono; [apply drain_next_spec; exact HD3 | |]; cbn beta; [|tauto].
  intros [o2 c3] w4 (HD4 & Hc4 & _). cbn [snd] in HD4. apply wp_bind.
  eapply wp_mono; [apply drain_drop_spec with (c := c3); exact HD4 | |]; cbn beta.
  - intros _ w5 (Hw5 & _ & Hc5). apply wp_ret. unfold inv_post. split; [exact Hw5 | congruence].
  - intros w5 (Hw5 & _ & Hc5). unfold inv_post. split; [exact Hw5 | congruence].
Qed.

(* ---- consuming iterators: WF of the owned container ---- *)
Section IntoNth.
Context (item : key * V -> M key V cstate (list N)) (rest : key * V -> M key V cstate unit)
        (Hitem : forall p, frame (item p)) (Hrest : forall p, frame (rest p)).

Lemma keeps_i_skip : forall n, keeps (i_skip item n).
Proof.
  induction n as [|n IH]; cbn [i_skip].
  - apply keeps_ret.
  - apply keeps_bind; [apply keeps_into_iter_next|]. intros [p|]; [|apply keeps_ret].
    apply keeps_bind; [apply frame_keeps; apply Hitem|]. intros _. exact IH.
Qed.

Lemma keeps_i_nth : forall n, keeps (i_nth item rest n).
Proof.
  induction n as [|n IH]; cbn [i_nth].
  - apply keeps_bind; [apply keeps_into_iter_next|]. intros [p|]; [|apply keeps_ret].
    apply keeps_bind; [apply frame_keeps; apply Hitem|]. intros r. apply keeps_ret.
  - apply keeps_bind; [apply keeps_into_iter_next|]. intros [p|]; [|apply keeps_ret].
    apply keeps_bind; [apply frame_keeps; apply Hitem|]. intros _.
    apply keeps_bind; [apply frame_keeps; apply Hrest|]. intros _. exact IH.
Qed.

Lemma wp_keeps_bind_true {A B} (c : M key V cstate A) (f : A -> M key V cstate B) (w : world) :
  keeps c -> WF (self w) ->
  (forall a (w' : world), WF (self w') -> wp (f a) (fun _ _ => True) (fun _ => True) w') ->
  wp (bind c f) (fun _ _ => True) (fun _ => True) w.
Proof.
  intros Hc Hw Hf. apply wp_bind. eapply wp_mono; [apply Hc; exact Hw | |]; cbn beta; [|auto].
  intros a w' [Hw' _]. apply Hf. exact Hw'.
Qed.

Lemma into_nth_session_safe (E : env key V query cstate) pre nk (w : world) :
  WF (self w) ->
  wp (into_nth_session E item rest pre nk) (fun _ _ => True) (fun _ => True) w.
Proof.
  intros Hw. unfold into_nth_session. apply wp_bind.
  eapply wp_mono; [apply wp_finally_keeps; [|exact Hw] | |]; cbn beta; [| |auto].
  { apply keeps_bind; [apply keeps_i_skip|]. intros _.
    apply keeps_bind; [apply frame_keeps; apply frame_get_len|]. intros l1.
    apply keeps_bind; [apply keeps_i_nth|]. intros r.
    apply keeps_bind; [apply frame_keeps; apply frame_get_len|]. intros l2.
    apply keeps_bind; [apply keeps_i_nth|]. intros r2.
    apply keeps_bind; [apply frame_keeps; apply frame_get_len|]. intros l3. apply keeps_ret. }
  intros body w1 Hw1. apply wp_bind.
  eapply wp_mono; [apply drop_map_safe; exact Hw1 | |]; cbn beta; [|auto].
  intros _ w2 _. apply wp_ret. exact I.
Qed.

Lemma keeps_op_into_nth (E : env key V query cstate) pre nk :
  keeps (c <- get_cap ;; old <- get_self ;; put_self (new_map c) ;;
         '(body, _) <- swap_self old (into_nth_session E item rest pre nk) ;; ret body).
Proof.
  intros w Hw. apply wp_bind. apply wp_get_cap. apply wp_bind. apply wp_get_self.
  apply wp_bind. apply wp_put_self. apply wp_bind. apply wp_swap_self. simp_w.
  assert (Hn : inv_post w (with_self w (new_map (cap (self w))))).
  { unfold inv_post. simp_w. split; [apply WF_new | apply cap_new]. }
  eapply wp_mono; [apply into_nth_session_safe; simp_w; exact Hw | |]; cbn beta.
  - intros body w2 _. apply wp_ret. unfold inv_post in *. simp_w. exact Hn.
  - intros w2 _. unfold inv_post in *. simp_w. exact Hn.
Qed.

End IntoNth.
End Nth.

(* ------------------------------------------------------------------ *)
(* 6. the history-level theorems                                       *)
(* ------------------------------------------------------------------ *)
Definition safe_step (x x' : xworld) (obs : list N) : Prop :=
  WFx x' /\ caps x' = caps x /\ obs <> [3%N].

Lemma safe_res_step x x' obs : safe_res x x' obs -> safe_step x x' obs.
Proof.
  intros (H1 & H2 & H3). split; [exact H1|]. split; [exact H2 | apply okobs_ne3; exact H3].
Qed.

Lemma safe_step_same x obs : WFx x -> obs <> [3%N] -> safe_step x x obs.
Proof. intros Hx Ho. split; [exact Hx|]. split; [reflexivity | exact Ho]. Qed.

Ltac kb H := apply keeps_bind; [apply H | intros; apply keeps_ret].
Ltac via_m Hx := apply safe_res_step; apply run_m_keeps; [exact Hx|].
Ltac via_s Hx := apply safe_res_step; apply run_s_keeps; [exact Hx|].
Ltac via_m_at Hx := apply safe_res_step; apply run_m_safe_at; [exact Hx|].
Ltac via_s_at Hx := apply safe_res_step; apply run_s_safe_at; [exact Hx|].

(* every operation, every script: no UB, registers stay well-formed, and the
   observation is never the UB observation *)
Theorem step_safe_obs debug sc o x :
  WFx x -> contract_ok debug o x ->
  safe_step x (snd (step debug sc o x)) (fst (step debug sc o x)).
Proof.
  intros Hx Hc. assert (Hd : xdead x = false) by apply Hx.
  unfold step. cbv beta zeta. rewrite Hd.
  destruct o.
  - (* OInsert *) via_m Hx. kb @keeps_insert.
  - (* OInsertKV *) via_m Hx. kb @keeps_insert_key_value.
  - (* OCheckedInsert *) via_m Hx. kb @keeps_checked_insert.
  - (* OInsertUnchecked *) via_m_at Hx. cbn [contract_ok] in Hc.
    apply wp_keeps_then_frame; [|intros; apply frame_ret].
    apply keeps_insert_unchecked; [apply WFx_get_m; exact Hx | exact Hc].
  - (* OGet *) via_m Hx. apply (keeps_scan_opt_slot (env_map sc)).
  - (* OGetMut *) via_m Hx. apply keeps_op_get_mut.
  - (* OGetKV *) via_m Hx. apply (keeps_scan_opt_slot (env_map sc)).
  - (* OContains *) via_m Hx. kb @keeps_contains_key.
  - (* OIndex *) via_m Hx. apply keeps_op_index.
  - (* OIndexMut *) via_m Hx. apply keeps_op_index_mut.
  - (* ORemove *) via_m Hx. kb @keeps_remove.
  - (* ORemoveEntry *) via_m Hx. kb @keeps_remove_entry.
  - (* ORetain *) via_m Hx. kb @keeps_retain.
  - (* OClear *) via_m Hx. kb @keeps_clear.
  - (* ODrain *) via_m Hx. apply keeps_drain_session.
  - (* OWithCapacity *) via_m Hx. apply keeps_op_with_capacity.
  - (* OIter *) via_m Hx. apply keeps_iter_session.
  - (* OIntoIter *) via_m Hx. apply keeps_op_into_iter.
  - (* OEntry *) via_m Hx. apply keeps_entry_chain.
  - (* ODisjoint *) via_m Hx. apply keeps_disjoint_session.
  - (* OClone *)
    destruct (Nat.eqb_spec (cap (get_m r x)) (cap (get_m r' x))) as [Heq|Hne].
    + via_m_at Hx. apply op_clone_at; [apply WFx_get_m; exact Hx | apply WFx_get_m; exact Hx | exact Heq].
    + cbn [fst snd]. apply safe_step_same; [exact Hx | discriminate].
  - (* OEq *) via_m_at Hx. apply op_eq_at; apply WFx_get_m; exact Hx.
  - (* OFromIter *) via_m Hx. apply keeps_op_from_iter.
  - (* OFormat *) via_m Hx. apply keeps_format_m.
  - (* OSerde *) via_m Hx. apply keeps_op_finally. apply keeps_visit_map.
  - (* SInsert *) via_s Hx. kb @keeps_s_insert.
  - (* SReplace *) via_s Hx. kb @keeps_s_replace.
  - (* SContains *) via_s Hx. kb @keeps_s_contains.
  - (* SGet *) via_s Hx. apply (keeps_scan_opt_slot (env_set sc)).
  - (* SRemove *) via_s Hx. kb @keeps_s_remove.
  - (* STake *) via_s Hx. kb @keeps_s_take.
  - (* SRetain *) via_s Hx. kb @keeps_s_retain.
  - (* SClear *) via_s Hx. kb @keeps_s_clear.
  - (* SDrain *) via_s Hx. apply keeps_drain_session.
  - (* SExtend *) via_s Hx. kb @keeps_s_extend.
  - (* SIter *) via_s Hx. apply keeps_set_iter_session.
  - (* SIntoIter *) via_s Hx. apply keeps_op_s_into_iter.
  - (* SClone *)
    destruct (Nat.eqb_spec (cap (get_s r x)) (cap (get_s r' x))) as [Heq|Hne].
    + via_s_at Hx. apply op_clone_at; [apply WFx_get_s; exact Hx | apply WFx_get_s; exact Hx | exact Heq].
    + cbn [fst snd]. apply safe_step_same; [exact Hx | discriminate].
  - (* SEq *) via_s_at Hx. apply op_eq_at; apply WFx_get_s; exact Hx.
  - (* SFromIter *) via_s Hx. apply keeps_op_s_from_iter.
  - (* SAlgebra *) via_s_at Hx. apply frame_at_keeps; [apply WFx_get_s; exact Hx|].
    apply alg_session_frame; apply WFx_get_s; exact Hx.
  - (* SPred *) via_s_at Hx. apply op_pred_at; apply WFx_get_s; exact Hx.
  - (* SSub *) via_s_at Hx. apply op_sub_at; apply WFx_get_s; exact Hx.
  - (* SFormat *) via_s Hx. apply keeps_format_s.
  - (* SSerde *) via_s Hx. apply keeps_op_finally. apply keeps_visit_seq.
  - (* OCloneFrom *)
    destruct (Nat.eqb_spec (cap (get_m r x)) (cap (get_m r' x))) as [Heq|Hne].
    + via_m_at Hx. apply op_clone_at; [apply WFx_get_m; exact Hx | apply WFx_get_m; exact Hx | exact Heq].
    + cbn [fst snd]. apply safe_step_same; [exact Hx | discriminate].
  - (* SCloneFrom *)
    destruct (Nat.eqb_spec (cap (get_s r x)) (cap (get_s r' x))) as [Heq|Hne].
    + via_s_at Hx. apply op_clone_at; [apply WFx_get_s; exact Hx | apply WFx_get_s; exact Hx | exact Heq].
    + cbn [fst snd]. apply safe_step_same; [exact Hx | discriminate].
  - (* ODefault *) via_m Hx. apply keeps_op_default.
  - (* SDefault *) via_s Hx. apply keeps_op_default.
  - (* OIterNth *) via_m Hx. apply keeps_iter_nth_session.
  - (* ODrainNth *) via_m Hx. apply keeps_drain_nth_session.
  - (* OIntoNth *) via_m Hx.
    apply keeps_op_into_nth; intros p; [apply frame_into_steps_item | apply frame_into_rest].
  - (* SIterNth *) via_s Hx. apply keeps_iter_nth_session.
  - (* SDrainNth *) via_s Hx. apply keeps_drain_nth_session.
  - (* SIntoNth *) via_s Hx.
    apply keeps_op_into_nth; intros p; [apply frame_ret | apply frame_drop_key].
  - (* OBad *) cbn [fst snd]. apply safe_step_same; [exact Hx | discriminate].
Qed.

Theorem step_safe debug sc o x :
  WFx x -> contract_ok debug o x ->
  WFx (snd (step debug sc o x)) /\ caps (snd (step debug sc o x)) = caps x.
Proof. intros Hx Hc. destruct (step_safe_obs debug sc o x Hx Hc) as (H1 & H2 & _). auto. Qed.

Lemma safe_op_contract debug o x : safe_op o -> contract_ok debug o x.
Proof. destruct o; cbn [safe_op contract_ok]; tauto. Qed.
Lemma debug_contract o x : contract_ok true o x.
Proof. destruct o; cbn [contract_ok]; auto. Qed.

(* the final teardown drops all four registers *)
Lemma teardown_safe sc x : WFx x -> fst (teardown sc x) <> [3%N].
Proof.
  intros Hx. assert (Hd : xdead x = false) by apply Hx.
  unfold teardown. cbv beta zeta. rewrite Hd.
  destruct (run_m_keeps 0 (drop_reg (env_map sc)) x Hx (keeps_drop_reg _)) as (Hx1 & _ & Hok).
  destruct (run_m 0 (drop_reg (env_map sc)) x) as [o0 x1]. cbn [fst snd] in Hx1, Hok.
  destruct (run_m_keeps 1 (drop_reg (env_map sc)) x1 Hx1 (keeps_drop_reg _)) as (Hx2 & _ & _).
  destruct (run_m 1 (drop_reg (env_map sc)) x1) as [o1 x2]. cbn [fst snd] in Hx2.
  destruct (run_s_keeps 2 (drop_reg (env_set sc)) x2 Hx2 (keeps_drop_reg _)) as (Hx3 & _ & _).
  destruct (run_s 2 (drop_reg (env_set sc)) x2) as [o2 x3]. cbn [fst snd] in Hx3.
  destruct (run_s 3 (drop_reg (env_set sc)) x3) as [o3 x4]. cbn [fst].
  apply okobs_ne3. apply okobs_app. exact Hok.
Qed.

Lemma censor_not_3 ids obs : obs <> [3%N] -> censor ids obs <> [3%N].
Proof.
  intros H. destruct obs as [|[|[p|[p|p|]|]] t]; try exact H.
  unfold censor. destruct (split_at 8888 t) as [pst ev]. destruct (split_at 8889 ev) as [dr cl].
  discriminate.
Qed.

Lemma run_safe_gen debug sc ops : forall x,
  WFx x -> (forall o, In o ops -> forall x', contract_ok debug o x') ->
  Forall (fun obs => obs <> [3%N]) (run_ops debug sc ops x).
Proof.
  induction ops as [|o t IH]; intros x Hx Hc; cbn [run_ops].
  - constructor; [apply teardown_safe; exact Hx | constructor].
  - destruct (step_safe_obs debug sc o x Hx (Hc o (or_introl eq_refl) x)) as (H1 & _ & H3).
    destruct (step debug sc o x) as [obs x']. cbn [fst snd] in H1, H3.
    constructor; [apply censor_not_3; exact H3|]. apply IH; [exact H1|].
    intros o' Ho'. apply Hc. right. exact Ho'.
Qed.

Theorem run_safe debug sc ops x :
  WFx x -> Forall safe_op ops ->
  Forall (fun obs => obs <> [3%N]) (run_ops debug sc ops x).
Proof.
  intros Hx Hs. apply run_safe_gen; [exact Hx|].
  intros o Ho x'. apply safe_op_contract. rewrite Forall_forall in Hs. apply Hs. exact Ho.
Qed.

Theorem run_safe_debug sc ops x :
  WFx x -> Forall (fun obs => obs <> [3%N]) (run_ops true sc ops x).
Proof. intros Hx. apply run_safe_gen; [exact Hx|]. intros o _ x'. apply debug_contract. Qed.

Theorem init_WFx c0 c1 c2 c3 : WFx (init_world c0 c1 c2 c3).
Proof.
  unfold WFx, init_world. cbn [xm0 xm1 xs0 xs1 xdead].
  repeat split; try apply WF_new; cbn [len new_map]; try lia; intros i Hi; lia.
Qed.

(* every case file line, whatever it contains *)
Theorem run_case_safe debug segs :
  debug = true \/ Forall safe_op (List.map decode (tl segs)) ->
  Forall (fun obs => obs <> [3%N]) (run_case debug segs).
Proof.
  intros Hc.
  assert (Hbad : Forall (fun obs : list N => obs <> [3%N]) [[9%N]]).
  { constructor; [discriminate | constructor]. }
  destruct segs as [|cfg ops]; [exact Hbad|].
  destruct cfg as [|adv [|seed [|fk [|fa [|c0 [|c1 [|c2 [|c3 [|z1 z2]]]]]]]]]; try exact Hbad.
  cbn [run_case tl] in *. destruct Hc as [-> | Hs].
  - apply run_safe_debug. apply init_WFx.
  - apply run_safe; [apply init_WFx | exact Hs].
Qed.

Corollary run_case_safe_debug segs :
  Forall (fun obs => obs <> [3%N]) (run_case true segs).
Proof. apply run_case_safe. left. reflexivity. Qed.

Corollary run_case_safe_release segs :
  Forall safe_op (List.map decode (tl segs)) ->
  Forall (fun obs => obs <> [3%N]) (run_case false segs).
Proof. intros H. apply run_case_safe. right. exact H. Qed.

(* why [contract_ok] is needed: insert_unchecked on a full map with an absent
   key in a release build is UB in the model (as documented for the crate's
   unsafe fn): a concrete well-formed world reaching the UB observation *)
Lemma insert_unchecked_contract_needed :
  WFx (init_world 0 0 0 0) /\
  fst (step false {| sc_adv := false; sc_seed := 0; sc_fk := 0; sc_fa := 0 |}
            (OInsertUnchecked 0 (mk 1 1) (mv 2 2)) (init_world 0 0 0 0)) = [3%N].
Proof. split; [apply init_WFx | vm_compute; reflexivity]. Qed.
