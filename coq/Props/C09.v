(* ========================================================================
   C09  Borrowing iterators visit every entry exactly once and report exact
        lengths

   STATEMENT (properties.jsonl):
     "iter, iter_mut, keys, values, values_mut and Set::iter each yield every
      stored entry exactly once and nothing else; before every step len() and
      size_hint report exactly the number of items still to come, count()
      agrees, and after the end they keep returning None. Iterating twice
      without an intervening mutation yields the same order, a cloned iterator
      continues identically to its original, and writes made through iter_mut
      or values_mut are exactly what later lookups return."
   QUANTIFIER:
     "every reachable container state x every iterator kind x every step of
      consumption"

   VOCABULARY
     cursor (lo,hi)      the state of a borrowing iterator: slots [lo,hi) are
                         still to come.  ALL six iterator kinds of the crate are
                         this one cursor in the model (Model/MapOps.v `iter`,
                         `iter_next`): next() returns the SLOT i the yielded
                         references point into; the kinds differ only in which
                         projection of slot i (pair, key, value, &mut value) the
                         caller receives.  cursor_len c = snd c - fst c is what
                         len()/size_hint()/count() report.
     iter_run n c        (defined in Proofs/IterSpec.v, not in the model) call
                         next() up to n times from cursor c, stop at the first
                         None; returns (slots yielded, final cursor).
     Spec.elems m        the stored entries of m in slot order.
     No hypothesis on the environment E: these iterators call no user code.
     Panic-postcondition False and wp's exclusion of UB: no panic, no UB.

   READING GUIDE (clause -> theorem)
   * "yield every stored entry exactly once and nothing else", every step of
     consumption:
       C09_iter_run_spec    a session of n steps from iter() yields the slots
                            0,1,...,min n len - 1 (= seq 0 (min n len)): each slot
                            once, in order, nothing else; container and log
                            unchanged.  With n >= len: all of 0..len-1.
       C09_iter_run_exact   the same with the strongest frame: the whole world
                            (container, log, callback state) is unchanged.
       C09_iter_yield_is_elem  slot i < len holds exactly entry i of the content.
   * "before every step len() and size_hint report exactly the number still to
     come": the cursor after j steps is (min j len, len) (snd r in
     C09_iter_run_spec) and
       C09_iter_exact_len   its cursor_len is len - min j len, i.e. the number
                            of slots the session has not yet yielded.
     (C09_iter_exact_len holds by unfolding cursor_len; the content is in
      C09_iter_run_spec's `snd r`.)
   * "after the end they keep returning None":
       C09_iter_fused       next() on the exhausted cursor (len,len) returns None
                            and the same cursor, so every later call does too.
   * "iterating twice without an intervening mutation yields the same order":
       C09_iter_stable_order  two sessions over equal containers yield the same
                            slot sequence.
   * "writes made through iter_mut / values_mut are exactly what later lookups
     return":
       C09_writes_visible   writing v' into the value of slot i replaces exactly
                            entry i of the content by (k, v') (key kept, all other
                            entries untouched) and keeps the container well-formed.
     What lookups return on a given content is C01/C05 (Lawful.get_lawful etc.).

   PARTLY / NOT COVERED BY A THEOREM (left to the correspondence check)
   * The six iterator kinds and Set::iter are ONE cursor in the model; that
     keys/values/values_mut/iter_mut/Set::iter project slot i as the crate
     does is checked by the harness (Exec.iter_session kinds 0-4), not proved.
   * count(): not a separate model function; it is cursor_len of the current
     cursor (same number as len()).
   * "a cloned iterator continues identically": a cursor is a plain value and
     C09_iter_run_exact shows a session neither changes the world nor depends on
     anything but the cursor and the container, so running the copy gives the
     same result; there is no separate theorem about Clone for Iter (the harness
     compares Exec.rest_slots of the clone).
   * "every reachable container state" enters as the hypothesis WF (self w)
     (reachable states are WF: ExecSafe.step_safe, C02/C04).
   ======================================================================== *)
Require Import Model.Base Model.Slots Model.MapOps Model.Exec.
Require Import Proofs.Hoare Proofs.Inv Proofs.Spec Proofs.IterSpec Proofs.Legacy.

Theorem C09_iter_run_spec :
  forall (K V T : Type) (n : nat) (w : world K V T),
    WF (self w) ->
    wp (c <- iter ;; iter_run n c)
       (fun (r : list nat * cursor) (w' : world K V T) =>
          self w' = self w /\ log w' = log w /\
          fst r = seq 0 (Nat.min n (len (self w))) /\
          snd r = (Nat.min n (len (self w)), len (self w)))
       (fun _ : world K V T => False) w.
Proof. exact (fun K V T => @iter_run_spec K V T). Qed.
Print Assumptions C09_iter_run_spec.

Theorem C09_iter_run_exact :
  forall (K V T : Type) (n : nat) (w : world K V T),
    WF (self w) ->
    wp (c <- iter ;; iter_run n c)
       (fun (r : list nat * cursor) (w' : world K V T) =>
          w' = w /\
          fst r = seq 0 (Nat.min n (len (self w))) /\
          snd r = (Nat.min n (len (self w)), len (self w)))
       (fun _ : world K V T => False) w.
Proof. exact (fun K V T => @iter_run_exact K V T). Qed.
Print Assumptions C09_iter_run_exact.

Theorem C09_iter_exact_len :
  forall (K V T : Type) (j : nat) (w : world K V T),
    cursor_len (Nat.min j (len (self w)), len (self w)) = len (self w) - Nat.min j (len (self w)).
Proof. exact (fun K V T => @iter_exact_len K V T). Qed.
Print Assumptions C09_iter_exact_len.

Theorem C09_iter_fused :
  forall (K V T : Type) (w : world K V T),
    WF (self w) ->
    wp (iter_next (len (self w), len (self w)))
       (fun (r : option nat * cursor) (w' : world K V T) =>
          self w' = self w /\ fst r = None /\ snd r = (len (self w), len (self w)))
       (fun _ : world K V T => False) w.
Proof. exact (fun K V T => @iter_fused K V T). Qed.
Print Assumptions C09_iter_fused.

Theorem C09_iter_yield_is_elem :
  forall (K V T : Type) (i : nat) (w : world K V T),
    WF (self w) -> i < len (self w) ->
    exists p : K * V,
      nth_error (Spec.elems (self w)) i = Some p /\ nth_error (slots (self w)) i = Some (Some p).
Proof. exact (fun K V T => @iter_yield_is_elem K V T). Qed.
Print Assumptions C09_iter_yield_is_elem.

Theorem C09_iter_stable_order :
  forall (K V T : Type) (n : nat) (w1 w2 : world K V T),
    WF (self w1) -> self w1 = self w2 ->
    wp (c <- iter ;; iter_run n c)
       (fun (r1 : list nat * cursor) (_ : world K V T) =>
          wp (c <- iter ;; iter_run n c)
             (fun (r2 : list nat * cursor) (_ : world K V T) =>
                fst r1 = fst r2 /\ fst r1 = seq 0 (Nat.min n (len (self w1))))
             (fun _ : world K V T => False) w2)
       (fun _ : world K V T => False) w1.
Proof. exact (fun K V T => @iter_stable_order K V T). Qed.
Print Assumptions C09_iter_stable_order.

Theorem C09_writes_visible :
  forall (K V T : Type) (i : nat) (v' : V) (w : world K V T),
    WF (self w) -> i < len (self w) ->
    forall (k : K) (v : V),
      nth_error (Spec.elems (self w)) i = Some (k, v) ->
      Spec.elems (set_slot_m (self w) i (Some (k, v'))) = upd (Spec.elems (self w)) i (k, v') /\
      WF (set_slot_m (self w) i (Some (k, v'))).
Proof. exact (fun K V T => @writes_visible K V T). Qed.
Print Assumptions C09_writes_visible.

(* ---------------------------------------------------------------------- *)
(* non-vacuity                                                              *)
(* ---------------------------------------------------------------------- *)

(* the 3-entry map m3 of Proofs/Legacy.v is well-formed *)
Example C09_example_WF : WF (self (w_of m3)) /\ len (self (w_of m3)) = 3.
Proof. split; [exact m3_WF | reflexivity]. Qed.

(* concrete sessions on m3: 2 steps yield slots 0,1 and leave cursor (2,3)
   (len() = 1); 5 steps yield 0,1,2 and stop at (3,3); a further next() is
   None; the world is unchanged *)
Example C09_example_runs :
  (c <- iter ;; iter_run 2 c) (w_of m3) = Ok ([0; 1], (2, 3)) (w_of m3) /\
  cursor_len (2, 3) = 1 /\
  (c <- iter ;; iter_run 5 c) (w_of m3) = Ok ([0; 1; 2], (3, 3)) (w_of m3) /\
  iter_next (3, 3) (w_of m3) = Ok (None, (3, 3)) (w_of m3).
Proof. vm_compute. repeat split; reflexivity. Qed.

(* a write through slot 1 is what the content shows afterwards *)
Example C09_example_write :
  Spec.elems (set_slot_m m3 1 (Some (k_ 3 6, v_ 40 80)))
  = [(k_ 1 5, v_ 2 7); (k_ 3 6, v_ 40 80); (k_ 5 7, v_ 6 9)].
Proof. reflexivity. Qed.
