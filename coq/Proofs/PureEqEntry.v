(* PureEqEntry.v — the entry API (Model/EntryOps.v) under an arbitrary
   OPERAND-DETERMINED == ([Related E ck cq R] of PureEq.v: == answers a relation R
   on the classes of its operands, stored key on the left, needle on the right;
   R need be neither reflexive nor symmetric nor transitive).
   VacantEntry::insert scans AGAIN (through insert_ii); under Related both scans
   compute the same [find_rel (ck k)] of the same live prefix. *)
Require Import Model.Base Model.Slots Model.MapOps Model.EntryOps Model.Exec.
Require Import Proofs.Hoare Proofs.Inv Proofs.Safety Proofs.Safety2 Proofs.Safety3
               Proofs.Spec Proofs.Lawful Proofs.Lawful2 Proofs.Lawful3 Proofs.PureEq.

Section PureEqEntry.
Context {K V Q T : Type} (E : env K V Q T) (debug : bool) (ck : K -> N) (cq : Q -> N)
        (R : N -> N -> bool) (HR : Related E ck cq R).
Notation M := (M K V T).
Notation world := (world K V T).
Notation map := (map K V).
Notation kv := (K * V)%type.

(* ---- helpers ---- *)
Lemma drop_val_rel v (w : world) :
  wp (drop_val E v)
     (fun _ w' => self w' = self w /\ logged w w' (ev_drops (idV E v))) (fun _ => False) w.
Proof.
  unfold drop_val. apply wp_bind. apply wp_emit. apply wp_bind. apply wp_cbd_eq.
  rewrite (rel_dropV E ck cq R HR). apply wp_ret. simp_w. split; reflexivity.
Qed.

Lemma drop_pair_rel p (w : world) :
  wp (drop_pair E p)
     (fun _ w' => self w' = self w /\ logged w w' (ev_drops (idK E (fst p) ++ idV E (snd p))))
     (fun _ => False) w.
Proof.
  unfold drop_pair. apply wp_bind. apply wp_emit. apply wp_bind. apply wp_cbd_eq.
  rewrite (rel_dropK E ck cq R HR). apply wp_bind. apply wp_cbd_eq.
  rewrite (rel_dropV E ck cq R HR). cbn [orb]. apply wp_ret. simp_w. split; reflexivity.
Qed.

(* appending one pair to a list in which nothing is related to the needle *)
Lemma find_rel_app_none c (l : list kv) p :
  find_rel ck R c l = None ->
  find_rel ck R c (l ++ [p]) = if R (ck (fst p)) c then Some (length l) else None.
Proof.
  induction l as [|h t IH]; intros H; cbn [find_rel app length] in *.
  - destruct (R (ck (fst p)) c); reflexivity.
  - destruct (R (ck (fst h)) c); [discriminate|].
    destruct (find_rel ck R c t) as [y|]; [discriminate|].
    rewrite (IH eq_refl). destruct (R (ck (fst p)) c); reflexivity.
Qed.

(* ---- 1. VacantEntry::insert (scans again) ---- *)
Lemma vac_insert_rel k v (w : world) :
  WF (self w) ->
  wp (vac_insert E debug k v)
     (fun i w' => WF (self w') /\ cap (self w') = cap (self w) /\
        match find_rel ck R (ck k) (elems (self w)) with
        | None => log w' = log w /\ elems (self w') = elems (self w) ++ [(k, v)] /\
                  i = len (self w) /\ len (self w) < cap (self w)
        | Some j => i = j /\
                    exists k0 v0, nth_error (elems (self w)) j = Some (k0, v0) /\
                                  R (ck k0) (ck k) = true /\
                                  elems (self w') = upd (elems (self w)) j (k0, v) /\
                                  logged w w' (ev_drops (idK E k ++ idV E v0))
        end)
     (fun w' => self w' = self w /\ logged w w' (ev_drops (idV E v ++ idK E k)) /\
                find_rel ck R (ck k) (elems (self w)) = None /\ len (self w) = cap (self w)) w.
Proof.
  intros Hw. unfold vac_insert. apply wp_bind.
  eapply wp_mono; [apply (insert_ii_rel E debug ck cq R HR k v false w Hw) | | intros w' H; exact H]; cbn beta.
  intros [index e] w1 (Hw1 & Hc1 & Hl1 & Hins & Hlt). cbn [fst snd] in Hins.
  unfold l_insert_rel in Hins.
  destruct (find_rel ck R (ck k) (elems (self w))) as [j|] eqn:Hf.
  - destruct (find_rel_inv ck R _ _ _ Hf) as [[[k0 v0] [Hp Hrel]] _]. cbn [fst] in Hrel.
    rewrite Hp in Hins. injection Hins as He Hidx Hel. subst index e.
    apply wp_bind. eapply wp_mono; [apply drop_pair_rel | | intros w' []]; cbn beta.
    intros _ w2 [Hs2 Hlg2]. cbn [fst snd] in Hlg2.
    assert (Hj : j < len (self w2)).
    { rewrite Hs2, <- (elems_length _ Hw1), He, upd_length.
      apply nth_error_Some. rewrite Hp. discriminate. }
    assert (Hw2 : WF (self w2)) by (rewrite Hs2; exact Hw1).
    destruct (WF_live _ _ Hw2 Hj) as [p Hpp].
    apply wp_bind. eapply wp_p_ref; [exact Hpp|]. apply wp_ret.
    split; [exact Hw2|]. split; [rewrite Hs2; exact Hc1|]. split; [reflexivity|].
    exists k0, v0. split; [exact Hp|]. split; [exact Hrel|]. split; [rewrite Hs2; exact He|].
    unfold logged in *. congruence.
  - injection Hins as He Hidx Hel. subst index e.
    apply wp_bind. apply wp_ret.
    assert (Hi : length (elems (self w)) < len (self w1)).
    { rewrite <- (elems_length _ Hw1), He, app_length. cbn [length]. lia. }
    destruct (WF_live _ _ Hw1 Hi) as [p Hpp].
    apply wp_bind. eapply wp_p_ref; [exact Hpp|]. apply wp_ret.
    split; [exact Hw1|]. split; [exact Hc1|]. split; [exact Hl1|]. split; [exact He|].
    split; [apply (elems_length _ Hw) | exact (Hlt eq_refl)].
Qed.

(* ---- 2. Entry::or_insert composed with entry ---- *)
Lemma or_insert_rel k v (w : world) :
  WF (self w) ->
  wp (e <- entry_of E k ;; or_insert E debug e v)
     (fun i w' => WF (self w') /\ cap (self w') = cap (self w) /\
                  match find_rel ck R (ck k) (elems (self w)) with
                  | Some j => i = j /\ self w' = self w /\
                              logged w w' (ev_drops (idK E k) ++ ev_drops (idV E v))
                  | None => i = len (self w) /\ len (self w) < cap (self w) /\
                            elems (self w') = elems (self w) ++ [(k, v)] /\ log w' = log w
                  end)
     (fun w' => self w' = self w /\ logged w w' (ev_drops (idV E v ++ idK E k)) /\
                find_rel ck R (ck k) (elems (self w)) = None /\
                len (self w) = cap (self w)) w.
Proof.
  intros Hw. apply wp_bind.
  eapply wp_mono; [apply (entry_of_rel E ck cq R HR k w Hw) | | intros w' []]; cbn beta.
  intros e w1 [Hs1 He].
  destruct (find_rel ck R (ck k) (elems (self w))) as [j|] eqn:Hf.
  - destruct He as [-> Hl1]. cbn [or_insert].
    pose proof (find_rel_lt ck R _ _ _ Hf) as Hj. rewrite (elems_length _ Hw) in Hj.
    destruct (WF_live _ _ Hw Hj) as [p Hp]. unfold occ_into_mut.
    apply wp_bind. apply wp_bind. eapply wp_p_ref; [rewrite Hs1; exact Hp|]. apply wp_ret.
    apply wp_bind. eapply wp_mono; [apply drop_val_rel | | intros w' []]; cbn beta.
    intros _ w3 [Hs3 Hl3]. apply wp_ret.
    assert (Hs : self w3 = self w) by congruence. rewrite Hs.
    split; [exact Hw|]. split; [reflexivity|]. split; [reflexivity|]. split; [reflexivity|].
    unfold logged in *. rewrite Hl3, Hl1, app_assoc. reflexivity.
  - destruct He as [-> Hl1]. cbn [or_insert].
    assert (Hw1 : WF (self w1)) by (rewrite Hs1; exact Hw).
    eapply wp_mono; [apply (vac_insert_rel k v w1 Hw1) | |]; cbn beta; rewrite Hs1, Hf.
    + intros i w2 (Hw2 & Hc2 & Hl2 & He2 & Hi2 & Hlt2).
      split; [exact Hw2|]. split; [exact Hc2|]. split; [exact Hi2|]. split; [exact Hlt2|].
      split; [exact He2 | congruence].
    + intros w2 (Hs2 & Hlg2 & Hn & Hc). split; [congruence|].
      split; [unfold logged in *; congruence | auto].
Qed.

(* ---- 3. or_insert then get ----
   "after or_insert k v, get q (same class) finds the returned slot" is FALSE for
   a non-reflexive R: the appended key k need not be related to itself (see
   [or_insert_then_get_can_miss] below).  The true statement: *)
Lemma or_insert_get_agree_rel k v q (w : world) :
  ck k = cq q -> WF (self w) ->
  wp (i <- (e <- entry_of E k ;; or_insert E debug e v) ;; g <- get E q ;; ret (i, g))
     (fun r w' => match find_rel ck R (ck k) (elems (self w)) with
                  | Some j => fst r = j /\ snd r = Some j
                  | None => fst r = len (self w) /\
                            snd r = if R (ck k) (cq q) then Some (len (self w)) else None
                  end)
     (fun w' => find_rel ck R (ck k) (elems (self w)) = None /\ len (self w) = cap (self w)) w.
Proof.
  intros Hc Hw. apply wp_bind.
  eapply wp_mono; [apply (or_insert_rel k v w Hw) | | intros w' (_ & _ & Hn & Hl); auto]; cbn beta.
  intros i w1 (Hw1 & Hc1 & Hi). apply wp_bind.
  eapply wp_mono; [apply (get_rel E ck cq R HR q w1 Hw1) | | intros w' []]; cbn beta.
  intros g w2 [_ ->]. apply wp_ret. cbn [fst snd].
  destruct (find_rel ck R (ck k) (elems (self w))) as [j|] eqn:Hf.
  - destruct Hi as (-> & Hs & _). split; [reflexivity|]. rewrite Hs, <- Hc. exact Hf.
  - destruct Hi as (-> & _ & He & _). split; [reflexivity|].
    rewrite He, <- Hc, (find_rel_app_none _ _ _ Hf). cbn [fst].
    rewrite (elems_length _ Hw). reflexivity.
Qed.

End PureEqEntry.

(* the counterexample to the naive reading of item 3, on the list machine:
   with the empty relation the appended pair is not found by the lookup *)
Example or_insert_then_get_can_miss :
  let R := fun _ _ : N => false in
  find_rel (fun n : N => n) R 7%N ([(1%N, tt)] ++ [(7%N, tt)]) = None.
Proof. reflexivity. Qed.

(* ======================================================================== *)
(* 4. NON-VACUITY: or_insert_rel at the interpreter's asymmetric == (R = N.leb) *)
Section Instance.

Example or_insert_asym sc k v (w : world key vobj cstate) (debug : bool) :
  asym sc = true -> sc_fk sc = 0%N -> WF (self w) ->
  wp (e <- entry_of (env_map sc) k ;; or_insert (env_map sc) debug e v)
     (fun i w' => WF (self w') /\ cap (self w') = cap (self w) /\
                  match find_rel kcls N.leb (kcls k) (elems (self w)) with
                  | Some j => i = j /\ self w' = self w /\
                              logged w w' (ev_drops (idK (env_map sc) k) ++ ev_drops (idV (env_map sc) v))
                  | None => i = len (self w) /\ len (self w) < cap (self w) /\
                            elems (self w') = elems (self w) ++ [(k, v)] /\ log w' = log w
                  end)
     (fun w' => self w' = self w /\
                logged w w' (ev_drops (idV (env_map sc) v ++ idK (env_map sc) k)) /\
                find_rel kcls N.leb (kcls k) (elems (self w)) = None /\
                len (self w) = cap (self w)) w.
Proof.
  intros Has Hf Hw.
  exact (or_insert_rel (env_map sc) debug kcls qcls N.leb (env_map_related sc Has Hf) k v w Hw).
Qed.

End Instance.
