#!/bin/bash
# trymut.sh <patch.diff> <Cxx> [Cxx...] : apply a seeded change to /repo, run the quick checks, undo it.
set -u
patch=$1; shift
cd /repo && git status --short | grep -v '^??' | head -1 | grep -q . && { echo "/repo is dirty"; exit 2; }
git -C /repo apply "$patch" || { echo "patch does not apply"; exit 2; }
for p in "$@"; do
  (cd /verif && ./check quick $p 2>&1 | grep -E "VIOLATION|KNOWN|quick:" | head -6)
done
git -C /repo checkout -- . && git -C /repo status --short | grep -v '^??'
