(* ========================================================================== *)
(* C06 — No heap: operations never allocate; elements live inside the
         container value

   STATEMENT (properties.jsonl):
     "No Map or Set operation requests heap memory on its own: with key and
      value types that do not allocate, every non-panicking operation -
      construction, insertion, lookup, removal, iteration, set algebra,
      cloning, comparison, formatting into a non-allocating sink - completes
      with zero allocator calls. Every element reference handed out points
      inside the bytes of the container value itself, and the crate builds
      without the standard library."

   QUANTIFIER (properties.jsonl):
     "all operations and operation sequences, capacities and element shapes;
      std feature on and off"

   WHAT IS, AND WHAT IS NOT, A THEOREM HERE
     This property is checked at level "other".  Its three headline clauses -
       (a) zero allocator calls,
       (b) the ADDRESS of every handed-out reference lies inside the bytes of
           the container value,
       (c) the crate builds without the standard library (no_std) -
     are RUNTIME / BUILD OBSERVATIONS MADE BY THE HARNESS: zero allocator calls
     (a counting #[global_allocator] around every container call,
     harness/src/main.rs, ops.rs), addresses inside the container value (the
     `inside` range check on every returned reference, harness/src/ops.rs) and
     the no_std build (a build of the crate without the std feature, driven by
     tools/mmcheck.py).
     The Coq model has no notion of allocator, address or build
     configuration, and no theorem below claims any of (a), (b), (c).

     What the model CAN say, and what the theorems below state, is the
     structural reason behind (a) and (b): the only storage a container has is
     its fixed array  slots m : list (option (K * V))  of length cap m; no
     operation ever grows, shrinks or replaces that array, and every element
     reference handed out is identified by an index of a LIVE slot of that
     array, i < len m <= cap m.

   READING GUIDE
     the storage is never grown or replaced: after ANY operation of ANY history
       (every script), returned or panicked, all four registers have the same
       capacity (= array length) as before         C06_step_safe   (caps x' = caps x)
     references handed out by lookups point into a live slot of the array
       (get / get_mut / get_key_value are the same scan)
                                                   C06_get_result_live
     what iteration yields at step i is slot i of the array, i < len
                                                   C06_iter_yield_is_elem
     get_disjoint_mut: every index returned is < len, indices pairwise distinct
                                                   C06_disjoint_safe
     entry API: VacantEntry::insert / or_insert return an index < len
                                                   C06_vac_insert_spec,
                                                   C06_or_insert_spec
     a live slot is inside the array: i < cap m    C06_live_lt_cap

   NOT COVERED BY A THEOREM (observations of the harness, level "other")
     - zero allocator calls (a); addresses inside the container value (b);
       no_std build (c); "formatting into a non-allocating sink";
     - that the Rust array `[MaybeUninit<(K,V)>; N]` is stored inline in the
       Map value (a fact of the type's layout, not of the model).
   ========================================================================== *)
Require Import Model.Base Model.Slots Model.MapOps Model.EntryOps Model.SetOps Model.Fmt Model.Exec.
Require Import Proofs.Hoare Proofs.Inv Proofs.Safety Proofs.Safety2 Proofs.Safety3 Proofs.Spec
               Proofs.IterSpec Proofs.ExecSafe Proofs.Legacy.

Theorem C06_step_safe :
  forall (debug : bool) (sc : script) (o : op) (x : xworld),
  WFx x ->
  contract_ok debug o x ->
  WFx (snd (step debug sc o x)) /\ caps (snd (step debug sc o x)) = caps x.
Proof. exact step_safe. Qed.
Print Assumptions C06_step_safe.

(* every environment; the container is untouched, the slot returned is live *)
Theorem C06_get_result_live :
  forall (K V Q T : Type) (E : env K V Q T) (q : Q) (w : world K V T),
  WF (self w) ->
  wp (get E q)
    (fun (r : option nat) (w' : world K V T) =>
       self w' = self w /\
       match r with
       | Some i => live (self w) i
       | None => True
       end)
    (fun w' : world K V T => self w' = self w)
    w.
Proof. exact (@get_result_live). Qed.
Print Assumptions C06_get_result_live.

Theorem C06_iter_yield_is_elem :
  forall (K V T : Type) (i : nat) (w : world K V T),
  WF (self w) ->
  i < len (self w) ->
  exists p : K * V,
    nth_error (Spec.elems (self w)) i = Some p /\
    nth_error (slots (self w)) i = Some (Some p).
Proof. exact (@iter_yield_is_elem). Qed.
Print Assumptions C06_iter_yield_is_elem.

Theorem C06_disjoint_safe :
  forall (K V Q T : Type) (E : env K V Q T) (ks : list Q) (w : world K V T),
  WF (self w) ->
  wp (get_disjoint_mut E ks)
    (fun (r : list (option nat)) (w' : world K V T) =>
       self w' = self w /\
       length r = length ks /\
       (forall j i : nat, nth_error r j = Some (Some i) -> i < len (self w)) /\
       (forall j1 j2 i : nat,
          nth_error r j1 = Some (Some i) -> nth_error r j2 = Some (Some i) -> j1 = j2))
    (fun w' : world K V T => self w' = self w)
    w.
Proof. exact (@disjoint_safe). Qed.
Print Assumptions C06_disjoint_safe.

Theorem C06_vac_insert_spec :
  forall (K V Q T : Type) (E : env K V Q T) (debug : bool) (k : K) (v : V) (w : world K V T),
  WF (self w) ->
  wp (vac_insert E debug k v)
    (fun (i : nat) (w' : world K V T) =>
       (WF (self w') /\ cap (self w') = cap (self w)) /\ i < len (self w'))
    (fun w' : world K V T => WF (self w') /\ cap (self w') = cap (self w))
    w.
Proof. exact (@vac_insert_spec). Qed.
Print Assumptions C06_vac_insert_spec.

(* entry_ok e m := match e with Occupied i => i < len m | Vacant _ => True end *)
Theorem C06_or_insert_spec :
  forall (K V Q T : Type) (E : env K V Q T) (debug : bool) (e : @entry K) (v : V)
         (w : world K V T),
  WF (self w) ->
  entry_ok e (self w) ->
  wp (or_insert E debug e v)
    (fun (i : nat) (w' : world K V T) =>
       (WF (self w') /\ cap (self w') = cap (self w)) /\ i < len (self w'))
    (fun w' : world K V T => WF (self w') /\ cap (self w') = cap (self w))
    w.
Proof. exact (@or_insert_spec). Qed.
Print Assumptions C06_or_insert_spec.

Theorem C06_live_lt_cap :
  forall (K V : Type) (m : map K V) (i : nat), live m i -> i < cap m.
Proof. exact (@live_lt_cap). Qed.
Print Assumptions C06_live_lt_cap.

(* -------------------------------------------------------------------------- *)
(* non-vacuity                                                                *)
Example C06_example_WFx : WFx (init_world 4 0 2 2).
Proof. exact (init_WFx 4 0 2 2). Qed.

Example C06_example_WF : WF (self (w_of m3)).
Proof. exact m3_WF. Qed.

(* looking up class 6 in m3 hands out slot 1, a live slot of the 3-slot array *)
Example C06_example_get :
  match get (env_map {| sc_adv := false; sc_seed := 0; sc_fk := 0; sc_fa := 0 |})
            (QCls 6) (w_of m3) with
  | Ok r w' => r = Some 1 /\ self w' = m3 /\
               nth_error (slots m3) 1 = Some (Some (k_ 3 6, v_ 4 8)) /\ 1 < cap m3
  | _ => False
  end.
Proof. vm_compute. repeat split; try reflexivity. repeat constructor. Qed.

(* a step of the interpreter leaves all capacities unchanged (insert into a
   capacity-4 Map register) *)
Example C06_example_caps :
  caps (snd (step false {| sc_adv := false; sc_seed := 0; sc_fk := 0; sc_fa := 0 |}
                  (OInsert 0 (mk 1 5) (mv 2 7)) (init_world 4 0 2 2))) = (4, 0, 2, 2).
Proof. vm_compute. reflexivity. Qed.
