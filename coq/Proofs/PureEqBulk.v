(* PureEqBulk.v — the bulk constructors (Extend, FromIterator, From<[_; N]>)
   under an arbitrary OPERAND-DETERMINED == (Related, PureEq.v).  The loop
   extend_loop IS a loop of [insert], so whatever relation R the user's ==
   answers, building a Map from an iterator gives exactly the container
   obtained by inserting the items one at a time, in order, with the
   find_rel-based list machine. *)
Require Import Model.Base Model.Slots Model.MapOps Model.EntryOps Model.Exec.
Require Import Proofs.Hoare Proofs.Inv Proofs.Safety Proofs.Safety2 Proofs.Safety3
               Proofs.Spec Proofs.Lawful Proofs.Lawful2 Proofs.Lawful3 Proofs.Bulk Proofs.PureEq.

Section PureEqBulk.
Context {K V Q T : Type} (E : env K V Q T) (debug : bool) (ck : K -> N) (cq : Q -> N)
        (R : N -> N -> bool) (HR : Related E ck cq R).
Notation M := (M K V T).
Notation world := (world K V T).
Notation map := (map K V).
Notation kv := (K * V)%type.

(* the list after one insert (update_key = false) *)
Notation insr l k v := (fst (fst (l_insert_rel ck R l k v false))).

(* ---------------------------------------------------------------------- *)
(* the pure fold: None = overflow                                          *)
(* ---------------------------------------------------------------------- *)
Fixpoint bulk_rel (l : list kv) (items : list kv) (cap : nat) : option (list kv) :=
  match items with
  | [] => Some l
  | (k, v) :: rest =>
      match find_rel ck R (ck k) l with
      | Some _ => bulk_rel (insr l k v) rest cap
      | None => if length l <? cap then bulk_rel (insr l k v) rest cap else None
      end
  end.

(* one step of the fold, as an option-valued function *)
Definition bulk_step (cap : nat) (acc : option (list kv)) (p : kv) : option (list kv) :=
  match acc with
  | None => None
  | Some a =>
      match find_rel ck R (ck (fst p)) a with
      | Some _ => Some (insr a (fst p) (snd p))
      | None => if length a <? cap then Some (insr a (fst p) (snd p)) else None
      end
  end.

Lemma insr_none (l : list kv) k v :
  find_rel ck R (ck k) l = None -> insr l k v = l ++ [(k, v)].
Proof. intros H. unfold l_insert_rel. rewrite H. reflexivity. Qed.

Lemma length_upd_kv (l : list kv) i x : length (upd l i x) = length l.
Proof.
  revert i; induction l as [|h t IH]; intros i; destruct i as [|i]; cbn [upd length]; auto.
Qed.

Lemma insr_some_length (l : list kv) k v i :
  find_rel ck R (ck k) l = Some i -> length (insr l k v) = length l.
Proof.
  intros H. unfold l_insert_rel. rewrite H.
  destruct (nth_error l i) as [[k0 v0]|]; cbn [fst]; [apply length_upd_kv | reflexivity].
Qed.

(* a successful step is one l_insert_rel *)
Lemma bulk_rel_cons_ok cap (l : list kv) k v rest :
  length (insr l k v) <= cap ->
  bulk_rel l ((k, v) :: rest) cap = bulk_rel (insr l k v) rest cap.
Proof.
  intros H. cbn [bulk_rel]. destruct (find_rel ck R (ck k) l) as [i|] eqn:Hf; [reflexivity|].
  rewrite (insr_none l k v Hf) in H. rewrite app_length in H. cbn [length] in H.
  destruct (Nat.ltb_spec (length l) cap); [reflexivity | lia].
Qed.

(* an unrelated key arriving at a full container stops everything *)
Lemma bulk_rel_cons_full cap (l : list kv) k v rest :
  find_rel ck R (ck k) l = None -> cap <= length l -> bulk_rel l ((k, v) :: rest) cap = None.
Proof.
  intros Hf H. cbn [bulk_rel]. rewrite Hf. destruct (Nat.ltb_spec (length l) cap); [lia | reflexivity].
Qed.

(* ---------------------------------------------------------------------- *)
(* 2. bulk_rel is the fold of single inserts                               *)
(* ---------------------------------------------------------------------- *)
Lemma bulk_step_none cap (items : list kv) : fold_left (bulk_step cap) items None = None.
Proof. induction items as [|p t IH]; [reflexivity | exact IH]. Qed.

Lemma bulk_rel_is_fold_insert (l : list kv) items cap :
  bulk_rel l items cap = fold_left (bulk_step cap) items (Some l).
Proof.
  revert l. induction items as [|[k v] rest IH]; intros l; [reflexivity|].
  cbn [fold_left bulk_step bulk_rel fst snd].
  destruct (find_rel ck R (ck k) l) as [i|]; [apply IH|].
  destruct (length l <? cap); [apply IH | symmetry; apply bulk_step_none].
Qed.

Lemma bulk_rel_app (l : list kv) items1 items2 cap :
  bulk_rel l (items1 ++ items2) cap =
  match bulk_rel l items1 cap with Some l1 => bulk_rel l1 items2 cap | None => None end.
Proof.
  revert l. induction items1 as [|[k v] rest IH]; intros l; [reflexivity|].
  cbn [app bulk_rel].
  destruct (find_rel ck R (ck k) l) as [i|]; [apply IH|].
  destruct (length l <? cap); [apply IH | reflexivity].
Qed.

(* a successful build never exceeds the capacity it started under *)
Lemma bulk_rel_length cap items : forall l res : list kv,
  bulk_rel l items cap = Some res -> length l <= cap -> length res <= cap.
Proof.
  induction items as [|[k v] rest IH]; intros l res H Hn.
  - cbn [bulk_rel] in H. injection H as <-. exact Hn.
  - cbn [bulk_rel] in H. destruct (find_rel ck R (ck k) l) as [i|] eqn:Hf.
    + apply (IH _ _ H). rewrite (insr_some_length l k v i Hf). exact Hn.
    + destruct (Nat.ltb_spec (length l) cap) as [Hlt|Hge]; [|discriminate].
      apply (IH _ _ H). rewrite (insr_none l k v Hf), app_length. cbn [length]. lia.
Qed.

(* ---------------------------------------------------------------------- *)
(* 4. under equality of classes bulk_rel is the lawful fold l_extend       *)
(* ---------------------------------------------------------------------- *)
Lemma bulk_rel_eqb (l : list kv) items cap :
  (forall a b, R a b = N.eqb a b) -> bulk_rel l items cap = l_extend ck cap l items.
Proof.
  intros HRe. revert l. induction items as [|[k v] rest IH]; intros l; [reflexivity|].
  cbn [bulk_rel l_extend]. rewrite (find_rel_eqb ck R _ _ HRe).
  rewrite (l_insert_rel_eqb ck R l k v false HRe).
  destruct (find_idx ck (ck k) l) as [i|] eqn:Hf; [apply IH|].
  destruct (length l <? cap); [|reflexivity].
  rewrite IH. rewrite (l_insert_fst_none ck l k v Hf). reflexivity.
Qed.

(* ---------------------------------------------------------------------- *)
(* 1. the loop computes bulk_rel                                           *)
(* ---------------------------------------------------------------------- *)
Lemma drop_val_rel v (w : world) :
  wp (drop_val E v)
     (fun _ w' => self w' = self w /\ logged w w' (ev_drops (idV E v))) (fun _ => False) w.
Proof.
  unfold drop_val. apply wp_bind. apply wp_emit. apply wp_bind. apply wp_cbd_eq.
  rewrite (rel_dropV E ck cq R HR). apply wp_ret. simp_w. split; reflexivity.
Qed.

Lemma drop_opt_val_rel o (w : world) :
  wp (drop_opt_val E o)
     (fun _ w' => self w' = self w /\
                  logged w w' (match o with Some v => ev_drops (idV E v) | None => [] end))
     (fun _ => False) w.
Proof.
  destruct o as [v|]; cbn [drop_opt_val].
  - apply drop_val_rel.
  - apply wp_ret. split; [reflexivity | apply logged_nil].
Qed.

(* Normal exit: all the items went in, one at a time.
   Panic exit: some item (k, v) overflowed; the items before it have been
   inserted (the container holds exactly bulk_rel of that prefix), (k, v) is
   related to no stored key and the container is full. *)
Lemma extend_loop_rel nx items :
  (forall s, fst (nx s) <> Boom) -> forall w : world, WF (self w) ->
  wp (extend_loop E debug nx items)
     (fun _ w' => WF (self w') /\ cap (self w') = cap (self w) /\
                  bulk_rel (elems (self w)) items (cap (self w)) = Some (elems (self w')))
     (fun w' => WF (self w') /\ cap (self w') = cap (self w) /\
                bulk_rel (elems (self w)) items (cap (self w)) = None /\
                exists items1 k v items2,
                  items = items1 ++ (k, v) :: items2 /\
                  bulk_rel (elems (self w)) items1 (cap (self w)) = Some (elems (self w')) /\
                  find_rel ck R (ck k) (elems (self w')) = None /\
                  len (self w') = cap (self w')) w.
Proof.
  intros Hnx. induction items as [|[k v] rest IH]; intros w Hw; cbn [extend_loop].
  - eapply wp_mono; [apply call_next_lawful; exact Hnx | | intros ? []]; cbn beta.
    intros _ w1 [Hs1 Hl1]. rewrite Hs1. split; [exact Hw|]. split; reflexivity.
  - apply wp_bind. apply wp_on_unwind_nopanic.
    eapply wp_mono; [apply call_next_lawful; exact Hnx | | intros ? []]; cbn beta.
    intros _ w1 [Hs1 Hl1].
    assert (Hw1 : WF (self w1)) by (rewrite Hs1; exact Hw).
    apply wp_bind. apply wp_on_unwind_frame; [apply frame_unwind_pairs|].
    apply wp_bind. eapply wp_mono; [apply (insert_rel E debug ck cq R HR k v w1 Hw1) | |]; cbn beta.
    + intros old w2 (Hw2 & Hc2 & He2 & _ & Hlg2). rewrite Hs1 in Hc2, He2.
      eapply wp_mono; [apply drop_opt_val_rel | | intros ? []]; cbn beta.
      intros _ w3 [Hs3 Hlg3].
      assert (Hw3 : WF (self w3)) by (rewrite Hs3; exact Hw2).
      assert (Hstep : forall rest', bulk_rel (elems (self w)) ((k, v) :: rest') (cap (self w)) =
                      bulk_rel (elems (self w2)) rest' (cap (self w2))).
      { intros rest'. rewrite bulk_rel_cons_ok.
        - rewrite <- He2, <- Hc2. reflexivity.
        - rewrite <- He2, (elems_length _ Hw2), <- Hc2. apply WF_len_le_cap. exact Hw2. }
      eapply wp_mono; [apply (IH w3 Hw3) | |]; cbn beta.
      * intros _ w4 (Hw4 & Hc4 & Hex). rewrite Hs3 in Hc4, Hex.
        split; [exact Hw4|]. split; [congruence|]. rewrite Hstep. exact Hex.
      * intros w4 (Hw4 & Hc4 & Hex & items1 & k' & v' & items2 & Hit & Hpre & Hfn & Hfull).
        rewrite Hs3 in Hc4, Hex, Hpre.
        split; [exact Hw4|]. split; [congruence|]. split; [rewrite Hstep; exact Hex|].
        exists ((k, v) :: items1), k', v', items2.
        split; [rewrite Hit; reflexivity|]. split; [rewrite Hstep; exact Hpre|]. split; assumption.
    + intros w2 (Hs2 & _ & Hf & Hfull) w3 Hs3. rewrite Hs1 in Hf, Hfull. rewrite Hs3, Hs2, Hs1.
      split; [exact Hw|]. split; [reflexivity|]. split.
      { apply bulk_rel_cons_full; [exact Hf|]. rewrite (elems_length _ Hw). lia. }
      exists [], k, v, rest. split; [reflexivity|]. split; [reflexivity|]. split; assumption.
Qed.

(* ---------------------------------------------------------------------- *)
(* 3. FromIterator / From<[_; N]>                                          *)
(* ---------------------------------------------------------------------- *)
Lemma from_iter_rel nx items (w : world) :
  (forall s, fst (nx s) <> Boom) -> WF (self w) -> len (self w) = 0 ->
  wp (from_iter E debug nx items)
     (fun _ w' => WF (self w') /\ cap (self w') = cap (self w) /\
                  bulk_rel [] items (cap (self w)) = Some (elems (self w')))
     (fun _ => bulk_rel [] items (cap (self w)) = None) w.
Proof.
  intros Hnx Hw Hlen. unfold from_iter. apply wp_finally_drop_prop.
  assert (He : elems (self w) = []) by (unfold elems; rewrite Hlen; reflexivity).
  eapply wp_mono; [apply (extend_loop_rel nx items Hnx w Hw) | |]; cbn beta; rewrite He.
  - intros _ w' H. exact H.
  - intros w' (H1 & _ & H3 & _). split; assumption.
Qed.

End PureEqBulk.

(* ======================================================================== *)
(* 5. NON-VACUITY: R = N.leb on classes (stored <= needle), K = N, ck = id.  *)
(* ======================================================================== *)
Section Examples.
Let idN := (fun n : N => n).

(* classes 5, 3, 4 into an empty container of capacity 3:
   5 appended; 3: 5<=3 false -> appended; 4: 5<=4 false, 3<=4 true -> the value
   at index 1 is replaced, the stored key 3 is kept *)
Example bulk_rel_leb_534 :
  bulk_rel idN N.leb [] [(5%N, 50); (3%N, 30); (4%N, 40)] 3 = Some [(5%N, 50); (3%N, 40)].
Proof. vm_compute. reflexivity. Qed.

(* the same items in the order 3, 4, 5: 3 appended; 4: 3<=4 -> replaces at 0;
   5: 3<=5 -> replaces at 0: one pair is left *)
Example bulk_rel_leb_345 :
  bulk_rel idN N.leb [] [(3%N, 30); (4%N, 40); (5%N, 50)] 3 = Some [(3%N, 50)].
Proof. vm_compute. reflexivity. Qed.

(* the order of the items matters for the SIZE of the result (it does not under
   a lawful ==) *)
Example bulk_rel_leb_order_matters :
  option_map (@length (N * nat)) (bulk_rel idN N.leb [] [(5%N, 50); (3%N, 30); (4%N, 40)] 3) <>
  option_map (@length (N * nat)) (bulk_rel idN N.leb [] [(3%N, 30); (4%N, 40); (5%N, 50)] 3).
Proof. vm_compute. discriminate. Qed.

(* overflow: descending classes are pairwise unrelated, so a capacity of 2 is
   exceeded by the third item, although ascending order needs one slot only *)
Example bulk_rel_leb_overflow :
  bulk_rel idN N.leb [] [(5%N, 50); (4%N, 40); (3%N, 30)] 2 = None /\
  bulk_rel idN N.leb [] [(3%N, 30); (4%N, 40); (5%N, 50)] 2 = Some [(3%N, 50)].
Proof. vm_compute. split; reflexivity. Qed.

(* under equality of classes the three items are three entries *)
Example bulk_rel_eqb_534 :
  bulk_rel idN N.eqb [] [(5%N, 50); (3%N, 30); (4%N, 40)] 3 = Some [(5%N, 50); (3%N, 30); (4%N, 40)].
Proof. vm_compute. reflexivity. Qed.

End Examples.
