(* Hoare.v — a weakest-precondition calculus for the model's monad with two
   postconditions (normal return / unwinding) and UB excluded. *)
Require Import Model.Base Model.Slots.

Section Hoare.
Context {K V Q T : Type}.
Notation M := (M K V T).
Notation world := (world K V T).
Notation map := (map K V).

Definition wp {A} (c : M A) (Qn : A -> world -> Prop) (Qp : world -> Prop) (w : world) : Prop :=
  match c w with
  | Ok a w' => Qn a w'
  | Panic w' => Qp w'
  | UB => False
  end.

Definition with_cb (w : world) (s : T) : world := {| cb := s; log := log w; self := self w |}.
Definition with_self (w : world) (m : map) : world := {| cb := cb w; log := log w; self := m |}.
Definition with_log (w : world) (l : list event) : world := {| cb := cb w; log := l; self := self w |}.

Lemma wp_ret {A} (a : A) (Qn : A -> world -> Prop) (Qp : world -> Prop) w : Qn a w -> wp (ret a) Qn Qp w.
Proof. exact (fun H => H). Qed.

Lemma wp_bind {A B} (c : M A) (f : A -> M B) (Qn : B -> world -> Prop) (Qp : world -> Prop) w :
  wp c (fun a w' => wp (f a) Qn Qp w') Qp w -> wp (bind c f) Qn Qp w.
Proof. unfold wp, bind. destruct (c w); auto. Qed.

Lemma wp_bind_inv {A B} (c : M A) (f : A -> M B) (Qn : B -> world -> Prop) (Qp : world -> Prop) w :
  wp (bind c f) Qn Qp w -> wp c (fun a w' => wp (f a) Qn Qp w') Qp w.
Proof. unfold wp, bind. destruct (c w); auto. Qed.

Lemma wp_mono {A} (c : M A) (Qn Qn' : A -> world -> Prop) (Qp Qp' : world -> Prop) w :
  wp c Qn Qp w ->
  (forall a w', Qn a w' -> Qn' a w') -> (forall w', Qp w' -> Qp' w') ->
  wp c Qn' Qp' w.
Proof. unfold wp. destruct (c w); auto. Qed.

Lemma wp_conj {A} (c : M A) Qn1 Qn2 Qp1 Qp2 w :
  wp c Qn1 Qp1 w -> wp c Qn2 Qp2 w ->
  wp c (fun a w' => Qn1 a w' /\ Qn2 a w') (fun w' => Qp1 w' /\ Qp2 w') w.
Proof. unfold wp. destruct (c w); auto. Qed.

Lemma wp_panic {A} (Qn : A -> world -> Prop) (Qp : world -> Prop) w : Qp w -> wp (@panic K V T A) Qn Qp w.
Proof. exact (fun H => H). Qed.

Lemma wp_get_self (Qn : map -> world -> Prop) (Qp : world -> Prop) w : Qn (self w) w -> wp get_self Qn Qp w.
Proof. exact (fun H => H). Qed.
Lemma wp_put_self m (Qn : unit -> world -> Prop) (Qp : world -> Prop) w : Qn tt (with_self w m) -> wp (put_self m) Qn Qp w.
Proof. exact (fun H => H). Qed.
Lemma wp_emit e (Qn : unit -> world -> Prop) (Qp : world -> Prop) w : Qn tt (with_log w (log w ++ e)) -> wp (emit e) Qn Qp w.
Proof. exact (fun H => H). Qed.

(* a boolean user callback: any answer, any new callback state, or a panic *)
Lemma wp_cbk (f : T -> ans * T) (Qn : bool -> world -> Prop) (Qp : world -> Prop) w :
  (forall s, Qn true (with_cb w s)) -> (forall s, Qn false (with_cb w s)) ->
  (forall s, Qp (with_cb w s)) -> wp (cbk f) Qn Qp w.
Proof.
  intros H1 H2 H3. unfold wp, cbk. destruct (f (cb w)) as [a s].
  destruct a; [apply H1 | apply H2 | apply H3].
Qed.

(* exact form, for environments whose answer is known *)
Lemma wp_cbk_eq (f : T -> ans * T) (Qn : bool -> world -> Prop) (Qp : world -> Prop) w :
  match fst (f (cb w)) with
  | Yes => Qn true (with_cb w (snd (f (cb w))))
  | No => Qn false (with_cb w (snd (f (cb w))))
  | Boom => Qp (with_cb w (snd (f (cb w))))
  end -> wp (cbk f) Qn Qp w.
Proof. unfold wp, cbk. destruct (f (cb w)) as [a s]. destruct a; auto. Qed.

Lemma wp_cbo {A} (f : T -> option A * T) (Qn : A -> world -> Prop) (Qp : world -> Prop) w :
  (forall x s, Qn x (with_cb w s)) -> (forall s, Qp (with_cb w s)) -> wp (cbo f) Qn Qp w.
Proof.
  intros H1 H2. unfold wp, cbo. destruct (f (cb w)) as [a s]. destruct a; [apply H1 | apply H2].
Qed.

Lemma wp_cbo_eq {A} (f : T -> option A * T) (Qn : A -> world -> Prop) (Qp : world -> Prop) w :
  match fst (f (cb w)) with
  | Some x => Qn x (with_cb w (snd (f (cb w))))
  | None => Qp (with_cb w (snd (f (cb w))))
  end -> wp (cbo f) Qn Qp w.
Proof. unfold wp, cbo. destruct (f (cb w)) as [a s]. destruct a; auto. Qed.

Lemma wp_cbd (f : T -> bool * T) (Qn : bool -> world -> Prop) (Qp : world -> Prop) w :
  (forall b s, Qn b (with_cb w s)) -> wp (cbd f) Qn Qp w.
Proof. intros H. unfold wp, cbd. destruct (f (cb w)) as [b s]. apply H. Qed.

Lemma wp_cbd_eq (f : T -> bool * T) (Qn : bool -> world -> Prop) (Qp : world -> Prop) w :
  Qn (fst (f (cb w))) (with_cb w (snd (f (cb w)))) -> wp (cbd f) Qn Qp w.
Proof. unfold wp, cbd. destruct (f (cb w)) as [b s]. auto. Qed.

(* slot primitives *)
Definition set_len_m (m : map) (n : nat) : map := {| len := n; slots := slots m |}.
Definition set_slot_m (m : map) (i : nat) (x : option (K * V)) : map :=
  {| len := len m; slots := upd (slots m) i x |}.

Lemma wp_get_len (Qn : nat -> world -> Prop) (Qp : world -> Prop) w : Qn (len (self w)) w -> wp get_len Qn Qp w.
Proof. exact (fun H => H). Qed.
Lemma wp_get_cap (Qn : nat -> world -> Prop) (Qp : world -> Prop) w : Qn (cap (self w)) w -> wp get_cap Qn Qp w.
Proof. exact (fun H => H). Qed.
Lemma wp_set_len n (Qn : unit -> world -> Prop) (Qp : world -> Prop) w : Qn tt (with_self w (set_len_m (self w) n)) -> wp (set_len n) Qn Qp w.
Proof. exact (fun H => H). Qed.
Lemma wp_set_slot i x (Qn : unit -> world -> Prop) (Qp : world -> Prop) w :
  Qn tt (with_self w (set_slot_m (self w) i x)) -> wp (set_slot i x) Qn Qp w.
Proof. exact (fun H => H). Qed.

Lemma wp_p_ref i p (Qn : (K * V) -> world -> Prop) (Qp : world -> Prop) w :
  nth_error (slots (self w)) i = Some (Some p) -> Qn p w -> wp (p_ref i) Qn Qp w.
Proof. intros H HQ. unfold wp, p_ref. rewrite H. exact HQ. Qed.

Lemma wp_p_read i p (Qn : (K * V) -> world -> Prop) (Qp : world -> Prop) w :
  nth_error (slots (self w)) i = Some (Some p) ->
  Qn p (with_self w (set_slot_m (self w) i None)) -> wp (p_read i) Qn Qp w.
Proof.
  intros H HQ. unfold p_read. apply wp_bind. eapply wp_p_ref; [exact H|].
  apply wp_bind. apply wp_set_slot. apply wp_ret. exact HQ.
Qed.

Lemma wp_p_write i x (Qn : unit -> world -> Prop) (Qp : world -> Prop) w :
  i < cap (self w) ->
  Qn tt (with_self w (set_slot_m (self w) i (Some x))) -> wp (p_write i x) Qn Qp w.
Proof.
  intros H HQ. unfold p_write. apply wp_bind. apply wp_get_cap.
  destruct (Nat.ltb_spec i (cap (self w))); [|lia]. apply wp_set_slot. exact HQ.
Qed.

Lemma wp_p_write_checked i x (Qn : unit -> world -> Prop) (Qp : world -> Prop) w :
  (i < cap (self w) -> Qn tt (with_self w (set_slot_m (self w) i (Some x)))) ->
  (cap (self w) <= i -> Qp w) -> wp (p_write_checked i x) Qn Qp w.
Proof.
  intros H1 H2. unfold p_write_checked. apply wp_bind. apply wp_get_cap.
  destruct (Nat.ltb_spec i (cap (self w))); [apply wp_set_slot; auto | apply wp_panic; auto].
Qed.

Lemma wp_p_replace i f p (Qn : (K * V) -> world -> Prop) (Qp : world -> Prop) w :
  nth_error (slots (self w)) i = Some (Some p) ->
  Qn p (with_self w (set_slot_m (self w) i (Some (f p)))) -> wp (p_replace i f) Qn Qp w.
Proof.
  intros H HQ. unfold p_replace. apply wp_bind. eapply wp_p_ref; [exact H|].
  apply wp_bind. apply wp_set_slot. apply wp_ret. exact HQ.
Qed.

Lemma wp_p_prefix (Qn : unit -> world -> Prop) (Qp : world -> Prop) w :
  (len (self w) <= cap (self w) -> Qn tt w) -> (cap (self w) < len (self w) -> Qp w) ->
  wp p_prefix Qn Qp w.
Proof.
  intros H1 H2. unfold p_prefix. apply wp_bind. apply wp_get_len. apply wp_bind. apply wp_get_cap.
  destruct (Nat.leb_spec (len (self w)) (cap (self w))); [apply wp_ret | apply wp_panic]; auto.
Qed.

Lemma wp_dbg_assert debug c (Qn : unit -> world -> Prop) (Qp : world -> Prop) w :
  (c = true \/ debug = false -> Qn tt w) -> (debug = true -> c = false -> Qp w) ->
  wp (dbg_assert debug c) Qn Qp w.
Proof.
  intros H1 H2. unfold dbg_assert.
  destruct debug, c; cbn [andb negb].
  - apply wp_ret. apply H1. left. reflexivity.
  - apply wp_panic. apply H2; reflexivity.
  - apply wp_ret. apply H1. left. reflexivity.
  - apply wp_ret. apply H1. right. reflexivity.
Qed.

Lemma wp_dec_len debug n (Qn : unit -> world -> Prop) (Qp : world -> Prop) w :
  len (self w) = S n -> Qn tt (with_self w (set_len_m (self w) n)) -> wp (dec_len debug) Qn Qp w.
Proof.
  intros H HQ. unfold dec_len. apply wp_bind. apply wp_get_len. rewrite H. apply wp_set_len. exact HQ.
Qed.

(* unwinding through a frame that owns locals: the cleanup runs on the panic path *)
Lemma wp_on_unwind {A} (cleanup : M unit) (c : M A) (Qn : A -> world -> Prop) (Qp : world -> Prop) w :
  wp c Qn (fun w' => wp cleanup (fun _ => Qp) Qp w') w -> wp (on_unwind cleanup c) Qn Qp w.
Proof.
  unfold wp, on_unwind. destruct (c w) as [a w'|w'|]; auto.
  destruct (cleanup w') as [u w''|w''|]; auto.
Qed.

Lemma wp_on_unwind_nopanic {A} (cleanup : M unit) (c : M A) (Qn : A -> world -> Prop) (Qp : world -> Prop) w :
  wp c Qn (fun _ => False) w -> wp (on_unwind cleanup c) Qn Qp w.
Proof.
  unfold wp, on_unwind. destruct (c w) as [a w'|w'|]; auto. intros [].
Qed.

Lemma wp_check_index i (Qn : unit -> world -> Prop) (Qp : world -> Prop) w :
  (i < cap (self w) -> Qn tt w) -> (cap (self w) <= i -> Qp w) -> wp (check_index i) Qn Qp w.
Proof.
  intros H1 H2. unfold check_index. apply wp_bind. apply wp_get_cap.
  destruct (Nat.ltb_spec i (cap (self w))); [apply wp_ret | apply wp_panic]; auto.
Qed.

End Hoare.

(* list facts about [upd] *)
Section Upd.
Context {A : Type}.

Lemma upd_length (l : list A) i x : length (upd l i x) = length l.
Proof. revert i; induction l as [|h t IH]; intros [|i]; cbn [upd length]; auto. Qed.

Lemma nth_error_upd_eq (l : list A) i x : i < length l -> nth_error (upd l i x) i = Some x.
Proof.
  revert i; induction l as [|h t IH]; intros [|i] H; cbn [length] in H; cbn [upd nth_error]; try lia; auto.
  apply IH; lia.
Qed.

Lemma nth_error_upd_neq (l : list A) i j x : i <> j -> nth_error (upd l i x) j = nth_error l j.
Proof.
  revert i j; induction l as [|h t IH]; intros [|i] [|j] H; cbn [upd nth_error]; auto; try lia.
Qed.

Lemma upd_oob (l : list A) i x : length l <= i -> upd l i x = l.
Proof.
  revert i; induction l as [|h t IH]; intros [|i] H; cbn [length] in H; cbn [upd]; auto; try lia.
  f_equal. apply IH. lia.
Qed.

Lemma nth_error_upd (l : list A) i j x :
  nth_error (upd l i x) j = if Nat.eqb i j then (if j <? length l then Some x else None) else nth_error l j.
Proof.
  destruct (Nat.eqb_spec i j) as [->|Hn].
  - destruct (Nat.ltb_spec j (length l)).
    + apply nth_error_upd_eq; auto.
    + rewrite upd_oob by lia. apply nth_error_None. lia.
  - apply nth_error_upd_neq; auto.
Qed.

End Upd.

(* --- tactics --- *)
Ltac simp_w :=
  cbn [with_self with_cb with_log self cb log set_len_m set_slot_m len slots] in *.

Ltac wp_pure :=
  first
    [ apply wp_ret
    | apply wp_bind
    | apply wp_get_len
    | apply wp_get_cap
    | apply wp_get_self
    | apply wp_put_self
    | apply wp_set_len
    | apply wp_set_slot
    | apply wp_emit
    | apply wp_panic ].
