(* ========================================================================
   C11  Entry API is equivalent to the corresponding direct map operations

   STATEMENT (properties.jsonl):
     "entry(k) is Occupied exactly when k is present; or_insert,
      or_insert_with, or_insert_with_key and or_default insert only when vacant
      (running their closure exactly once and only then) and return a reference
      to the entry's current value, while and_modify runs its closure only when
      occupied. OccupiedEntry key/get/get_mut/insert/remove/remove_entry/
      into_mut and VacantEntry key/into_key/insert have the same results and
      effects as the direct map operations on that key and touch no other
      entry."
   QUANTIFIER:
     "every reachable map state x every key (present or absent) x every entry
      method chain"

   VOCABULARY
     Spec.elems m          the stored pairs of m in slot order.
     find_idx ck c l       index of the first pair of l whose key has class c
                           (= the slot the linear scan finds), None when absent.
     l_insert / l_remove / swap_remove   the list machine of Proofs/Spec.v: what
                           Map::insert / Map::remove do to the content (proved for
                           the direct operations in Lawful2/Lawful3, C01/C03).
     entry                 Occupied i (index of the slot found) | Vacant k (owns
                           the supplied key).
     A "reference" returned by the API is modelled by the SLOT INDEX it points
     into (or_insert... return nat; entry_key returns inl slot | inr key).
     logged w w' evs       log w' = log w ++ evs.  ev_drops ids = one EvDrop per
                           identity; EvCall 2 = a value-producing closure was
                           called, EvCall 3 = an and_modify closure was called.
     stable w w'           self and log unchanged.
     All theorems assume `Lawful E ck cq` (== is class equality and never
     panics; Drop never panics) unless they have no E at all.

   READING GUIDE (clause -> theorem)
   * "entry(k) is Occupied exactly when k is present":
       C11_entry_of_lawful   Occupied i iff find_idx = Some i (the supplied key is
                             then destroyed: the entry does not keep it), Vacant k
                             iff absent; container untouched either way.
   * "or_insert / or_insert_with / or_insert_with_key / or_default insert only
     when vacant, run their closure exactly once and only then, return a
     reference to the entry's current value":
       C11_or_insert_lawful            present -> returns the slot found, container
                                       unchanged, the unused key and default destroyed;
                                       absent -> (k,v) appended, returns the new slot
       C11_or_insert_with_lawful       present -> NO EvCall (closure not run);
       C11_or_insert_with_key_lawful   absent -> exactly one EvCall 2, (k, its result)
                                       appended, new slot returned
       (or_default is or_insert_with(Default::default) in the crate and the model.)
       C11_or_insert_keeps_key         on an occupied entry the stored pair (hence the
                                       stored key object) is exactly what it was
       panic clauses: only "map full and key absent" panics; the container is
                                       unchanged and the rejected key and value (for
                                       or_insert_with*: the value the closure just made,
                                       after its one EvCall 2) are destroyed exactly once
                                       by unwinding: logged w w' (ev_drops (idV E v ++ idK E k)).
   * "and_modify runs its closure only when occupied":
       C11_and_modify_lawful  present -> exactly one EvCall 3, value of that slot
                              becomes g v0, key kept, all other entries untouched;
                              absent -> nothing happens (no EvCall), still Vacant k.
   * "OccupiedEntry insert / remove / remove_entry ... same results and effects as
     the direct map operations, touch no other entry":
       C11_occ_insert_lawful + C11_occ_insert_is_insert
                              occ_insert returns the old value and replaces only
                              the value of slot i = the content l_insert (i.e.
                              Map::insert) computes for a present key
       C11_occ_remove_entry_lawful, C11_occ_remove_lawful + C11_occ_remove_is_remove
                              swap-remove of slot i, returning its pair / its value
                              (key destroyed) = the content and result l_remove
                              (i.e. Map::remove_entry / remove) computes
   * "OccupiedEntry key / VacantEntry key, into_key":
       C11_entry_key_lawful   Occupied -> the slot of the STORED key; Vacant -> the
                              supplied key itself.
   * "OccupiedEntry key / get / get_mut / into_mut":
       C11_occ_get_lawful, C11_occ_get_mut_lawful, C11_occ_key_lawful,
       C11_occ_into_mut_lawful   return slot i, the whole world unchanged
       C11_entry_get_lawful, C11_entry_get_mut_lawful
                              entry(k) then get / get_mut = the slot find_idx
                              finds (= what Map::get / get_mut return), None when
                              vacant; container unchanged
   * "VacantEntry insert":
       C11_vac_insert_lawful  appends (k,v) at index len, returns that slot; panics
                              iff the map is full: container unchanged, the rejected
                              k and v destroyed once by unwinding (EvDrop events).

   PARTLY / NOT COVERED BY A THEOREM (left to the correspondence check)
   * OccupiedEntry::get / get_mut / key / into_mut: CLOSED by C11_occ_get_lawful
     ... C11_entry_get_mut_lawful.  In the model the four are the same text
     `_ <- p_ref i ;; ret i`; that get returns &V, get_mut / into_mut &mut V and
     key &K of that slot (which projection, which lifetime) is not visible in the
     model and is left to the harness (Exec.entry_chain).
   * The closure hypotheses: C11_or_insert_with*_lawful assume the closure does
     not panic, C11_and_modify_lawful that it does not panic and computes a pure
     function g of the old value.  CLOSED in the AUDIT CLOSURE section at the end
     of this file: C11_or_insert_with_vacant_exact / _closure_panics (the stored
     value is the closure's result in the state at the call; a panicking closure
     inserts nothing and the VacantEntry's key is destroyed once by unwinding), C11_and_modify_stateful (any closure, panicking included).
   * "every entry method chain": the theorems of the first part cover entry(k)
     followed by ONE method.  CLOSED in the AUDIT CLOSURE section:
     C11_and_modify_chain_or_insert (chains of any length of and_modify, then
     or_insert) and C11_chain0_spec ... C11_chain11_spec (result-level
     specification of every chain of Exec.entry_chain).
   * the equivalence with the direct operation is stated, in the first part,
     through the list machine (l_insert, l_remove).  CLOSED in the SECOND AUDIT
     CLOSURE section: C11_entry_insert_is_insert, C11_entry_remove_vs_remove,
     C11_entry_remove_entry_vs_remove_entry, C11_entry_get_vs_get,
     C11_or_insert_is_direct equate the entry programs with Map::insert /
     remove / remove_entry / get / contains_key+insert+index_mut themselves.
   ======================================================================== *)
Require Import Model.Base Model.Slots Model.MapOps Model.EntryOps Model.Exec.
Require Import Proofs.Hoare Proofs.Inv Proofs.Spec Proofs.Lawful Proofs.EntrySpec
               Proofs.FmtSerde Proofs.Legacy Proofs.Gaps Proofs.PureEq.

Theorem C11_entry_of_lawful :
  forall (K V Q T : Type) (E : env K V Q T) (ck : K -> N) (cq : Q -> N) (HL : Lawful E ck cq)
         (k : K) (w : world K V T),
    WF (self w) ->
    wp (entry_of E k)
       (fun (e : @entry K) (w' : world K V T) =>
          self w' = self w /\
          match find_idx ck (ck k) (Spec.elems (self w)) with
          | Some i => e = Occupied i /\ logged w w' (ev_drops (idK E k))
          | None => e = Vacant k /\ log w' = log w
          end)
       (fun _ : world K V T => False) w.
Proof. exact (fun K V Q T E ck cq HL => entry_of_lawful E ck cq HL). Qed.
Print Assumptions C11_entry_of_lawful.

Theorem C11_occ_insert_lawful :
  forall (K V T : Type) (i : nat) (v : V) (w : world K V T),
    WF (self w) ->
    forall (k0 : K) (v0 : V),
      nth_error (Spec.elems (self w)) i = Some (k0, v0) ->
      wp (occ_insert i v)
         (fun (r : V) (w' : world K V T) =>
            WF (self w') /\ cap (self w') = cap (self w) /\ log w' = log w /\ r = v0 /\
            Spec.elems (self w') = upd (Spec.elems (self w)) i (k0, v))
         (fun _ : world K V T => False) w.
Proof. exact (fun K V T => @occ_insert_lawful K V T). Qed.
Print Assumptions C11_occ_insert_lawful.

Theorem C11_occ_insert_is_insert :
  forall (K V : Type) (ck : K -> N) (l : list (K * V)) (k : K) (v : V) (i : nat) (k0 : K) (v0 : V),
    find_idx ck (ck k) l = Some i ->
    nth_error l i = Some (k0, v0) ->
    fst (fst (l_insert ck l k v false)) = upd l i (k0, v) /\
    snd (l_insert ck l k v false) = Some (k, v0).
Proof. exact (fun K V => @occ_insert_is_insert K V). Qed.
Print Assumptions C11_occ_insert_is_insert.

Theorem C11_occ_remove_entry_lawful :
  forall (K V T : Type) (debug : bool) (i : nat) (w : world K V T),
    WF (self w) -> i < len (self w) ->
    wp (occ_remove_entry debug i)
       (fun (p : K * V) (w' : world K V T) =>
          WF (self w') /\ cap (self w') = cap (self w) /\ log w' = log w /\
          nth_error (Spec.elems (self w)) i = Some p /\
          Spec.elems (self w') = swap_remove (Spec.elems (self w)) i)
       (fun _ : world K V T => False) w.
Proof. exact (fun K V T => @occ_remove_entry_lawful K V T). Qed.
Print Assumptions C11_occ_remove_entry_lawful.

Theorem C11_occ_remove_lawful :
  forall (K V Q T : Type) (E : env K V Q T) (debug : bool) (ck : K -> N) (cq : Q -> N)
         (HL : Lawful E ck cq) (i : nat) (w : world K V T),
    WF (self w) -> i < len (self w) ->
    wp (occ_remove E debug i)
       (fun (v : V) (w' : world K V T) =>
          WF (self w') /\ cap (self w') = cap (self w) /\
          exists k0 : K,
            nth_error (Spec.elems (self w)) i = Some (k0, v) /\
            Spec.elems (self w') = swap_remove (Spec.elems (self w)) i /\
            logged w w' (ev_drops (idK E k0)))
       (fun _ : world K V T => False) w.
Proof. exact (fun K V Q T E debug ck cq HL => occ_remove_lawful E debug ck cq HL). Qed.
Print Assumptions C11_occ_remove_lawful.

Theorem C11_occ_remove_is_remove :
  forall (K V : Type) (ck : K -> N) (l : list (K * V)) (c : N) (i : nat),
    find_idx ck c l = Some i -> l_remove ck l c = (swap_remove l i, nth_error l i).
Proof. exact (fun K V => @occ_remove_is_remove K V). Qed.
Print Assumptions C11_occ_remove_is_remove.

Theorem C11_vac_insert_lawful :
  forall (K V Q T : Type) (E : env K V Q T) (debug : bool) (ck : K -> N) (cq : Q -> N)
         (HL : Lawful E ck cq) (k : K) (v : V) (w : world K V T),
    WF (self w) ->
    find_idx ck (ck k) (Spec.elems (self w)) = None ->
    wp (vac_insert E debug k v)
       (fun (i : nat) (w' : world K V T) =>
          WF (self w') /\ cap (self w') = cap (self w) /\ log w' = log w /\
          Spec.elems (self w') = Spec.elems (self w) ++ [(k, v)] /\
          i = length (Spec.elems (self w)) /\ len (self w) < cap (self w))
       (fun w' : world K V T =>
          self w' = self w /\ logged w w' (ev_drops (idV E v ++ idK E k)) /\
          len (self w) = cap (self w)) w.
Proof. exact (fun K V Q T E debug ck cq HL => vac_insert_lawful E debug ck cq HL). Qed.
Print Assumptions C11_vac_insert_lawful.

Theorem C11_or_insert_lawful :
  forall (K V Q T : Type) (E : env K V Q T) (debug : bool) (ck : K -> N) (cq : Q -> N)
         (HL : Lawful E ck cq) (k : K) (v : V) (w : world K V T),
    WF (self w) ->
    wp (e <- entry_of E k ;; or_insert E debug e v)
       (fun (i : nat) (w' : world K V T) =>
          WF (self w') /\ cap (self w') = cap (self w) /\
          match find_idx ck (ck k) (Spec.elems (self w)) with
          | Some j => i = j /\ self w' = self w /\
                      logged w w' (ev_drops (idK E k) ++ ev_drops (idV E v))
          | None => i = length (Spec.elems (self w)) /\
                    Spec.elems (self w') = Spec.elems (self w) ++ [(k, v)] /\ log w' = log w
          end)
       (fun w' : world K V T =>
          self w' = self w /\
          logged w w' (ev_drops (idV E v ++ idK E k)) /\
          find_idx ck (ck k) (Spec.elems (self w)) = None /\ len (self w) = cap (self w)) w.
Proof. exact (fun K V Q T E debug ck cq HL => or_insert_lawful E debug ck cq HL). Qed.
Print Assumptions C11_or_insert_lawful.

Theorem C11_or_insert_with_lawful :
  forall (K V Q T : Type) (E : env K V Q T) (debug : bool) (ck : K -> N) (cq : Q -> N)
         (HL : Lawful E ck cq) (k : K) (f : T -> option V * T) (w : world K V T),
    WF (self w) ->
    (forall s : T, exists (v : V) (s' : T), f s = (Some v, s')) ->
    wp (e <- entry_of E k ;; or_insert_with E debug e f)
       (fun (i : nat) (w' : world K V T) =>
          WF (self w') /\ cap (self w') = cap (self w) /\
          match find_idx ck (ck k) (Spec.elems (self w)) with
          | Some j => i = j /\ self w' = self w /\ logged w w' (ev_drops (idK E k))
          | None => i = length (Spec.elems (self w)) /\
                    (exists v : V, Spec.elems (self w') = Spec.elems (self w) ++ [(k, v)]) /\
                    logged w w' [EvCall 2]
          end)
       (fun w' : world K V T =>
          self w' = self w /\
          (exists (v : V) (s s' : T),
              f s = (Some v, s') /\
              logged w w' ([EvCall 2] ++ ev_drops (idV E v ++ idK E k))) /\
          find_idx ck (ck k) (Spec.elems (self w)) = None /\ len (self w) = cap (self w)) w.
Proof. exact (fun K V Q T E debug ck cq HL => or_insert_with_lawful E debug ck cq HL). Qed.
Print Assumptions C11_or_insert_with_lawful.

Theorem C11_or_insert_with_key_lawful :
  forall (K V Q T : Type) (E : env K V Q T) (debug : bool) (ck : K -> N) (cq : Q -> N)
         (HL : Lawful E ck cq) (k : K) (f : K -> T -> option V * T) (w : world K V T),
    WF (self w) ->
    (forall s : T, exists (v : V) (s' : T), f k s = (Some v, s')) ->
    wp (e <- entry_of E k ;; or_insert_with_key E debug e f)
       (fun (i : nat) (w' : world K V T) =>
          WF (self w') /\ cap (self w') = cap (self w) /\
          match find_idx ck (ck k) (Spec.elems (self w)) with
          | Some j => i = j /\ self w' = self w /\ logged w w' (ev_drops (idK E k))
          | None => i = length (Spec.elems (self w)) /\
                    (exists v : V, Spec.elems (self w') = Spec.elems (self w) ++ [(k, v)]) /\
                    logged w w' [EvCall 2]
          end)
       (fun w' : world K V T =>
          self w' = self w /\
          (exists (v : V) (s s' : T),
              f k s = (Some v, s') /\
              logged w w' ([EvCall 2] ++ ev_drops (idV E v ++ idK E k))) /\
          find_idx ck (ck k) (Spec.elems (self w)) = None /\ len (self w) = cap (self w)) w.
Proof. exact (fun K V Q T E debug ck cq HL => or_insert_with_key_lawful E debug ck cq HL). Qed.
Print Assumptions C11_or_insert_with_key_lawful.

Theorem C11_and_modify_lawful :
  forall (K V Q T : Type) (E : env K V Q T) (ck : K -> N) (cq : Q -> N) (HL : Lawful E ck cq)
         (k : K) (f : @modf_t V T) (g : V -> V) (w : world K V T),
    WF (self w) ->
    (forall (s : T) (v : V), fst (f s v) = (false, g v)) ->
    wp (e <- entry_of E k ;; and_modify e f)
       (fun (e' : @entry K) (w' : world K V T) =>
          WF (self w') /\ cap (self w') = cap (self w) /\
          match find_idx ck (ck k) (Spec.elems (self w)) with
          | Some j =>
              e' = Occupied j /\
              (exists (k0 : K) (v0 : V),
                  nth_error (Spec.elems (self w)) j = Some (k0, v0) /\
                  Spec.elems (self w') = upd (Spec.elems (self w)) j (k0, g v0)) /\
              logged w w' (ev_drops (idK E k) ++ [EvCall 3])
          | None => e' = Vacant k /\ self w' = self w /\ log w' = log w
          end)
       (fun _ : world K V T => False) w.
Proof. exact (fun K V Q T E ck cq HL => and_modify_lawful E ck cq HL). Qed.
Print Assumptions C11_and_modify_lawful.

Theorem C11_entry_key_lawful :
  forall (K V Q T : Type) (E : env K V Q T) (ck : K -> N) (cq : Q -> N) (HL : Lawful E ck cq)
         (k : K) (w : world K V T),
    WF (self w) ->
    wp (e <- entry_of E k ;; entry_key e)
       (fun (r : nat + K) (w' : world K V T) =>
          self w' = self w /\
          match find_idx ck (ck k) (Spec.elems (self w)) with
          | Some j => r = inl j
          | None => r = inr k
          end)
       (fun _ : world K V T => False) w.
Proof. exact (fun K V Q T E ck cq HL => entry_key_lawful E ck cq HL). Qed.
Print Assumptions C11_entry_key_lawful.

Theorem C11_or_insert_keeps_key :
  forall (K V Q T : Type) (E : env K V Q T) (debug : bool) (ck : K -> N) (cq : Q -> N)
         (HL : Lawful E ck cq) (k : K) (v : V) (j : nat) (w : world K V T),
    WF (self w) ->
    find_idx ck (ck k) (Spec.elems (self w)) = Some j ->
    wp (e <- entry_of E k ;; or_insert E debug e v)
       (fun (i : nat) (w' : world K V T) =>
          i = j /\
          Spec.elems (self w') = Spec.elems (self w) /\
          nth_error (Spec.elems (self w')) j = nth_error (Spec.elems (self w)) j /\
          exists (k0 : K) (v0 : V),
            nth_error (Spec.elems (self w')) j = Some (k0, v0) /\ ck k0 = ck k)
       (fun _ : world K V T => False) w.
Proof. exact (fun K V Q T E debug ck cq HL => or_insert_keeps_key E debug ck cq HL). Qed.
Print Assumptions C11_or_insert_keeps_key.

(* ---------------------------------------------------------------------- *)
(* OccupiedEntry::get / get_mut / key / into_mut (Proofs/Gaps.v): each returns *)
(* (a reference into) slot i and changes NOTHING - the whole world is equal;  *)
(* no environment is involved (no user code runs)                             *)
(* ---------------------------------------------------------------------- *)

Theorem C11_occ_get_lawful :
  forall (K V T : Type) (i : nat) (w : world K V T),
    WF (self w) -> i < len (self w) ->
    wp (occ_get i)
       (fun (j : nat) (w' : world K V T) => j = i /\ w' = w)
       (fun _ : world K V T => False) w.
Proof. exact (fun K V T => @occ_get_lawful K V T). Qed.
Print Assumptions C11_occ_get_lawful.

Theorem C11_occ_get_mut_lawful :
  forall (K V T : Type) (i : nat) (w : world K V T),
    WF (self w) -> i < len (self w) ->
    wp (occ_get_mut i)
       (fun (j : nat) (w' : world K V T) => j = i /\ w' = w)
       (fun _ : world K V T => False) w.
Proof. exact (fun K V T => @occ_get_mut_lawful K V T). Qed.
Print Assumptions C11_occ_get_mut_lawful.

Theorem C11_occ_key_lawful :
  forall (K V T : Type) (i : nat) (w : world K V T),
    WF (self w) -> i < len (self w) ->
    wp (occ_key i)
       (fun (j : nat) (w' : world K V T) => j = i /\ w' = w)
       (fun _ : world K V T => False) w.
Proof. exact (fun K V T => @occ_key_lawful K V T). Qed.
Print Assumptions C11_occ_key_lawful.

Theorem C11_occ_into_mut_lawful :
  forall (K V T : Type) (i : nat) (w : world K V T),
    WF (self w) -> i < len (self w) ->
    wp (occ_into_mut i)
       (fun (j : nat) (w' : world K V T) => j = i /\ w' = w)
       (fun _ : world K V T => False) w.
Proof. exact (fun K V T => @occ_into_mut_lawful K V T). Qed.
Print Assumptions C11_occ_into_mut_lawful.

(* "same results as the direct map operations on that key": the chain
   entry(k) -> OccupiedEntry::get (None when Vacant) returns exactly the slot
   find_idx finds, i.e. what Map::get(k) returns (Lawful.get_lawful, C01), and
   leaves the container unchanged; the same through get_mut *)
Theorem C11_entry_get_lawful :
  forall (K V Q T : Type) (E : env K V Q T) (ck : K -> N) (cq : Q -> N) (HL : Lawful E ck cq)
         (k : K) (w : world K V T),
    WF (self w) ->
    wp (e <- entry_of E k ;;
        match e with
        | Occupied i => j <- occ_get i ;; ret (Some j)
        | Vacant _ => ret None
        end)
       (fun (r : option nat) (w' : world K V T) =>
          self w' = self w /\ r = find_idx ck (ck k) (Spec.elems (self w)))
       (fun _ : world K V T => False) w.
Proof. exact (fun K V Q T E ck cq HL => entry_get_lawful E ck cq HL). Qed.
Print Assumptions C11_entry_get_lawful.

Theorem C11_entry_get_mut_lawful :
  forall (K V Q T : Type) (E : env K V Q T) (ck : K -> N) (cq : Q -> N) (HL : Lawful E ck cq)
         (k : K) (w : world K V T),
    WF (self w) ->
    wp (e <- entry_of E k ;;
        match e with
        | Occupied i => j <- occ_get_mut i ;; ret (Some j)
        | Vacant _ => ret None
        end)
       (fun (r : option nat) (w' : world K V T) =>
          self w' = self w /\ r = find_idx ck (ck k) (Spec.elems (self w)))
       (fun _ : world K V T => False) w.
Proof. exact (fun K V Q T E ck cq HL => entry_get_mut_lawful E ck cq HL). Qed.
Print Assumptions C11_entry_get_mut_lawful.

(* ---------------------------------------------------------------------- *)
(* non-vacuity                                                              *)
(* ---------------------------------------------------------------------- *)

(* hypotheses: the 3-entry map m3 (classes 5,6,7), an honest script, a closure
   that never panics, a pure modifier *)
Example C11_example_hyps :
  let sc0 := {| sc_adv := false; sc_seed := 0; sc_fk := 0; sc_fa := 0 |} in
  WF (self (w_of m3)) /\ Lawful (env_map sc0) kcls qcls /\
  find_idx kcls 6 (Spec.elems m3) = Some 1 /\ find_idx kcls 9 (Spec.elems m3) = None /\
  (forall s : cstate, exists (v : vobj) (s' : cstate),
      (fun s0 : cstate => (Some (v_ 50 1), s0)) s = (Some v, s')) /\
  (forall (s : cstate) (v : vobj),
      fst ((fun (s0 : cstate) (v0 : vobj) => ((false, v_ (vid v0) 0), s0)) s v)
      = (false, (fun v0 : vobj => v_ (vid v0) 0) v)).
Proof.
  intros sc0. split; [exact m3_WF|].
  split; [apply env_map_lawful; split; reflexivity|].
  split; [reflexivity|]. split; [reflexivity|].
  split; [intros s; eexists; eexists; reflexivity | intros s v; reflexivity].
Qed.

(* entry(key of class 6) on m3 (with one spare slot) is Occupied 1 and the
   supplied key object (id 90) is destroyed; or_insert returns slot 1, leaves
   the content alone and destroys the unused default (id 91);
   entry(key of class 9).or_insert appends at slot 3 *)
Example C11_example_runs :
  let E := env_map {| sc_adv := false; sc_seed := 0; sc_fk := 0; sc_fa := 0 |} in
  let m : map key vobj := {| len := 3; slots := slots m3 ++ [None] |} in
  match entry_of E (k_ 90 6) (w_of m) with
  | Ok e w' => e = Occupied 1 /\ log w' = [EvDrop 90] /\ self w' = m
  | _ => False
  end /\
  match (e <- entry_of E (k_ 90 6) ;; or_insert E true e (v_ 91 0)) (w_of m) with
  | Ok i w' => i = 1 /\ self w' = m /\ log w' = [EvDrop 90; EvDrop 91]
  | _ => False
  end /\
  match (e <- entry_of E (k_ 90 9) ;; or_insert E true e (v_ 91 0)) (w_of m) with
  | Ok i w' => i = 3 /\ Spec.elems (self w') = Spec.elems m ++ [(k_ 90 9, v_ 91 0)] /\ log w' = []
  | _ => False
  end /\
  (* full map, absent key: panics, container unchanged, the rejected key (id 90)
     and value (id 91) destroyed once by unwinding *)
  match (e <- entry_of E (k_ 90 9) ;; or_insert E true e (v_ 91 0)) (w_of m3) with
  | Panic w' => self w' = m3 /\ log w' = [EvDrop 91; EvDrop 90]
  | _ => False
  end.
Proof. vm_compute. repeat split; reflexivity. Qed.

(* entry(key of class 6).get() on m3 returns slot 1 (what find_idx finds) and
   only the supplied key object is destroyed; OccupiedEntry::get_mut on slot 2
   leaves the world as it is; entry(absent key).get() is None *)
Example C11_example_get :
  let E := env_map {| sc_adv := false; sc_seed := 0; sc_fk := 0; sc_fa := 0 |} in
  match (e <- entry_of E (k_ 90 6) ;;
         match e with Occupied i => j <- occ_get i ;; ret (Some j) | Vacant _ => ret None end)
          (w_of m3) with
  | Ok r w' => r = Some 1 /\ self w' = m3 /\ log w' = [EvDrop 90]
  | _ => False
  end /\
  occ_get_mut 2 (w_of m3) = Ok 2 (w_of m3) /\
  match (e <- entry_of E (k_ 90 9) ;;
         match e with Occupied i => j <- occ_get i ;; ret (Some j) | Vacant _ => ret None end)
          (w_of m3) with
  | Ok r w' => r = None /\ self w' = m3
  | _ => False
  end.
Proof. vm_compute. repeat split; reflexivity. Qed.

(* ========================================================================
   AUDIT CLOSURE (Proofs/MoreEntry.v)

   The theorems below close the findings of the independent audit of C11:
   (1) the value stored by or_insert_with / or_insert_with_key / or_default IS
       the value the closure returned, called once in the callback state the
       scan left;  (2) "touch no other entry" as a statement about every other
       class;  (3) VacantEntry::key / into_key, through the interpreter's
       chains;  (4) result-level specification of EVERY chain of
       Exec.entry_chain (returned tokens, new content, log);  (5) and_modify
       with a stateful / panicking closure and chains of and_modify;
       (6) concrete runs of and_modify, or_insert_with, occ_insert, occ_remove,
       vac_insert.

   ADDITIONAL VOCABULARY
     scan_cb E k l s        the callback state after comparing the supplied key
                            k with the stored pairs of l, in order, starting
                            from s (fold of `snd (eqK E s stored k)`).
     scan_pref ck k l       the pairs the scan actually compares: up to and
                            including the first pair of k's class; all of l when
                            there is none.
     entry_cb E ck k l s    the callback state when entry(k) returns: scan_cb
                            over scan_pref, then (present key only) the Drop
                            of the supplied key object.
     lookup ck l c          the dictionary view: the stored (key object, value)
                            of class c, None when absent (Proofs/Spec.v).
     and_modify_all e fs    e.and_modify(f1).and_modify(f2)... (a Fixpoint of
                            Proofs/MoreEntry.v over the list fs).
     logged w w' evs        log w' = log w ++ evs.
   ======================================================================== *)
Require Import Proofs.MoreEntry.
From Coq Require Import Permutation.

(* ---------------------------------------------------------------------- *)
(* Finding 1.  "running their closure exactly once ... insert": the value   *)
(* appended is the closure's own result.                                    *)
(* ---------------------------------------------------------------------- *)

(* entry(k) with the callback state it leaves behind — the state the closure
   of the next method is called in.  Hypotheses: a lawful environment, a
   well-formed container. *)
Theorem C11_entry_of_cb :
  forall (K V Q T : Type) (E : env K V Q T) (ck : K -> N) (cq : Q -> N) (HL : Lawful E ck cq)
         (k : K) (w : world K V T),
    WF (self w) ->
    wp (entry_of E k)
       (fun (e : @entry K) (w' : world K V T) =>
          self w' = self w /\ cb w' = entry_cb E ck k (Spec.elems (self w)) (cb w) /\
          match find_idx ck (ck k) (Spec.elems (self w)) with
          | Some i => e = Occupied i /\ logged w w' (ev_drops (idK E k))
          | None => e = Vacant k /\ log w' = log w
          end)
       (fun _ : world K V T => False) w.
Proof. exact (fun K V Q T E ck cq HL => entry_of_cb E ck cq HL). Qed.
Print Assumptions C11_entry_of_cb.

(* The statement proposed by the audit.  Hypotheses of
   C11_or_insert_with_lawful plus: k is absent, the map is not full.  The v
   that is appended is f's result in the state `scan_cb ...` (the caller's
   state after the scan's comparisons, none of which matched). *)
Theorem C11_or_insert_with_vacant_tied :
  forall (K V Q T : Type) (E : env K V Q T) (debug : bool) (ck : K -> N) (cq : Q -> N)
         (HL : Lawful E ck cq) (k : K) (f : T -> option V * T) (w : world K V T),
    WF (self w) ->
    (forall s : T, exists (v : V) (s' : T), f s = (Some v, s')) ->
    find_idx ck (ck k) (Spec.elems (self w)) = None ->
    len (self w) < cap (self w) ->
    wp (e <- entry_of E k ;; or_insert_with E debug e f)
       (fun (i : nat) (w' : world K V T) =>
          exists (v : V) (s' : T),
            f (scan_cb E k (Spec.elems (self w)) (cb w)) = (Some v, s') /\
            Spec.elems (self w') = Spec.elems (self w) ++ [(k, v)] /\
            i = length (Spec.elems (self w)) /\
            WF (self w') /\ cap (self w') = cap (self w) /\ logged w w' [EvCall 2])
       (fun _ : world K V T => False) w.
Proof. exact (fun K V Q T E debug ck cq HL => or_insert_with_vacant_tied E debug ck cq HL). Qed.
Print Assumptions C11_or_insert_with_vacant_tied.

(* Stronger: the closure only has to return normally in THAT state (it may do
   anything elsewhere); the full-map outcome is included: the value the closure
   just made is the one destroyed (with k) by the unwinding. *)
Theorem C11_or_insert_with_vacant_exact :
  forall (K V Q T : Type) (E : env K V Q T) (debug : bool) (ck : K -> N) (cq : Q -> N)
         (HL : Lawful E ck cq) (k : K) (f : T -> option V * T) (v : V) (s' : T) (w : world K V T),
    WF (self w) ->
    find_idx ck (ck k) (Spec.elems (self w)) = None ->
    f (scan_cb E k (Spec.elems (self w)) (cb w)) = (Some v, s') ->
    wp (e <- entry_of E k ;; or_insert_with E debug e f)
       (fun (i : nat) (w' : world K V T) =>
          WF (self w') /\ cap (self w') = cap (self w) /\
          Spec.elems (self w') = Spec.elems (self w) ++ [(k, v)] /\
          i = length (Spec.elems (self w)) /\
          logged w w' [EvCall 2] /\ len (self w) < cap (self w))
       (fun w' : world K V T =>
          self w' = self w /\
          logged w w' ([EvCall 2] ++ ev_drops (idV E v ++ idK E k)) /\
          len (self w) = cap (self w)) w.
Proof. exact (fun K V Q T E debug ck cq HL => or_insert_with_vacant_exact E debug ck cq HL). Qed.
Print Assumptions C11_or_insert_with_vacant_exact.

(* the closure panics in that state: it was called once, nothing is inserted,
   and the key object k — owned by the VacantEntry, which is alive while the
   closure runs — is destroyed exactly once by the unwinding (one ev_drops
   (idK E k) after the one EvCall 2; the callback state goes through dropK) *)
Theorem C11_or_insert_with_vacant_closure_panics :
  forall (K V Q T : Type) (E : env K V Q T) (debug : bool) (ck : K -> N) (cq : Q -> N)
         (HL : Lawful E ck cq) (k : K) (f : T -> option V * T) (s' : T) (w : world K V T),
    WF (self w) ->
    find_idx ck (ck k) (Spec.elems (self w)) = None ->
    f (scan_cb E k (Spec.elems (self w)) (cb w)) = (None, s') ->
    wp (e <- entry_of E k ;; or_insert_with E debug e f)
       (fun (_ : nat) (_ : world K V T) => False)
       (fun w' : world K V T =>
          self w' = self w /\ logged w w' ([EvCall 2] ++ ev_drops (idK E k)) /\
          cb w' = snd (dropK E s' k)) w.
Proof. exact (fun K V Q T E debug ck cq HL => or_insert_with_vacant_closure_panics E debug ck cq HL). Qed.
Print Assumptions C11_or_insert_with_vacant_closure_panics.

Theorem C11_or_insert_with_key_vacant_closure_panics :
  forall (K V Q T : Type) (E : env K V Q T) (debug : bool) (ck : K -> N) (cq : Q -> N)
         (HL : Lawful E ck cq) (k : K) (f : K -> T -> option V * T) (s' : T) (w : world K V T),
    WF (self w) ->
    find_idx ck (ck k) (Spec.elems (self w)) = None ->
    f k (scan_cb E k (Spec.elems (self w)) (cb w)) = (None, s') ->
    wp (e <- entry_of E k ;; or_insert_with_key E debug e f)
       (fun (_ : nat) (_ : world K V T) => False)
       (fun w' : world K V T =>
          self w' = self w /\ logged w w' ([EvCall 2] ++ ev_drops (idK E k)) /\
          cb w' = snd (dropK E s' k)) w.
Proof. exact (fun K V Q T E debug ck cq HL => or_insert_with_key_vacant_closure_panics E debug ck cq HL). Qed.
Print Assumptions C11_or_insert_with_key_vacant_closure_panics.

(* or_insert_with_key: the closure receives the supplied key k *)
Theorem C11_or_insert_with_key_vacant_tied :
  forall (K V Q T : Type) (E : env K V Q T) (debug : bool) (ck : K -> N) (cq : Q -> N)
         (HL : Lawful E ck cq) (k : K) (f : K -> T -> option V * T) (w : world K V T),
    WF (self w) ->
    (forall s : T, exists (v : V) (s' : T), f k s = (Some v, s')) ->
    find_idx ck (ck k) (Spec.elems (self w)) = None ->
    len (self w) < cap (self w) ->
    wp (e <- entry_of E k ;; or_insert_with_key E debug e f)
       (fun (i : nat) (w' : world K V T) =>
          exists (v : V) (s' : T),
            f k (scan_cb E k (Spec.elems (self w)) (cb w)) = (Some v, s') /\
            Spec.elems (self w') = Spec.elems (self w) ++ [(k, v)] /\
            i = length (Spec.elems (self w)) /\
            WF (self w') /\ cap (self w') = cap (self w) /\ logged w w' [EvCall 2])
       (fun _ : world K V T => False) w.
Proof. exact (fun K V Q T E debug ck cq HL => or_insert_with_key_vacant_tied E debug ck cq HL). Qed.
Print Assumptions C11_or_insert_with_key_vacant_tied.

Theorem C11_or_insert_with_key_vacant_exact :
  forall (K V Q T : Type) (E : env K V Q T) (debug : bool) (ck : K -> N) (cq : Q -> N)
         (HL : Lawful E ck cq) (k : K) (f : K -> T -> option V * T) (v : V) (s' : T) (w : world K V T),
    WF (self w) ->
    find_idx ck (ck k) (Spec.elems (self w)) = None ->
    f k (scan_cb E k (Spec.elems (self w)) (cb w)) = (Some v, s') ->
    wp (e <- entry_of E k ;; or_insert_with_key E debug e f)
       (fun (i : nat) (w' : world K V T) =>
          WF (self w') /\ cap (self w') = cap (self w) /\
          Spec.elems (self w') = Spec.elems (self w) ++ [(k, v)] /\
          i = length (Spec.elems (self w)) /\
          logged w w' [EvCall 2] /\ len (self w) < cap (self w))
       (fun w' : world K V T =>
          self w' = self w /\
          logged w w' ([EvCall 2] ++ ev_drops (idV E v ++ idK E k)) /\
          len (self w) = cap (self w)) w.
Proof. exact (fun K V Q T E debug ck cq HL => or_insert_with_key_vacant_exact E debug ck cq HL). Qed.
Print Assumptions C11_or_insert_with_key_vacant_exact.

(* "only then": on a PRESENT key the closure is not called, whatever it is (no
   hypothesis on f): no EvCall in the log, the container is untouched, the
   supplied key object is destroyed, the slot found is returned *)
Theorem C11_or_insert_with_occupied :
  forall (K V Q T : Type) (E : env K V Q T) (debug : bool) (ck : K -> N) (cq : Q -> N)
         (HL : Lawful E ck cq) (k : K) (f : T -> option V * T) (j : nat) (w : world K V T),
    WF (self w) ->
    find_idx ck (ck k) (Spec.elems (self w)) = Some j ->
    wp (e <- entry_of E k ;; or_insert_with E debug e f)
       (fun (i : nat) (w' : world K V T) =>
          i = j /\ self w' = self w /\ logged w w' (ev_drops (idK E k)) /\
          exists (k0 : K) (v0 : V),
            nth_error (Spec.elems (self w')) j = Some (k0, v0) /\ ck k0 = ck k)
       (fun _ : world K V T => False) w.
Proof. exact (fun K V Q T E debug ck cq HL => or_insert_with_occupied E debug ck cq HL). Qed.
Print Assumptions C11_or_insert_with_occupied.

Theorem C11_or_insert_with_key_occupied :
  forall (K V Q T : Type) (E : env K V Q T) (debug : bool) (ck : K -> N) (cq : Q -> N)
         (HL : Lawful E ck cq) (k : K) (f : K -> T -> option V * T) (j : nat) (w : world K V T),
    WF (self w) ->
    find_idx ck (ck k) (Spec.elems (self w)) = Some j ->
    wp (e <- entry_of E k ;; or_insert_with_key E debug e f)
       (fun (i : nat) (w' : world K V T) =>
          i = j /\ self w' = self w /\ logged w w' (ev_drops (idK E k)) /\
          exists (k0 : K) (v0 : V),
            nth_error (Spec.elems (self w')) j = Some (k0, v0) /\ ck k0 = ck k)
       (fun _ : world K V T => False) w.
Proof. exact (fun K V Q T E debug ck cq HL => or_insert_with_key_occupied E debug ck cq HL). Qed.
Print Assumptions C11_or_insert_with_key_occupied.
(* or_default = or_insert_with(Default::default): the instance with the
   interpreter's Default closure (Exec.mk_default) is C11_chain3_spec below. *)

(* ---------------------------------------------------------------------- *)
(* Finding 2.  "touch no other entry".  remove / remove_entry are a         *)
(* swap_remove (the last pair moves into the hole): every OTHER class still *)
(* maps to the same (key object, value); the removed class maps to nothing. *)
(* Uniq ck l = the keys of l have pairwise different classes (the invariant *)
(* of every reachable map, C01/C02).                                        *)
(* ---------------------------------------------------------------------- *)
Theorem C11_lookup_swap_remove_other :
  forall (K V : Type) (ck : K -> N) (l : list (K * V)) (i : nat) (p : K * V) (c : N),
    Uniq ck l -> nth_error l i = Some p -> c <> ck (fst p) ->
    lookup ck (swap_remove l i) c = lookup ck l c.
Proof. exact (fun K V => @lookup_swap_remove_other K V). Qed.
Print Assumptions C11_lookup_swap_remove_other.

Theorem C11_lookup_swap_remove_self :
  forall (K V : Type) (ck : K -> N) (l : list (K * V)) (i : nat) (p : K * V),
    Uniq ck l -> nth_error l i = Some p -> lookup ck (swap_remove l i) (ck (fst p)) = None.
Proof. exact (fun K V => @lookup_swap_remove_self K V). Qed.
Print Assumptions C11_lookup_swap_remove_self.

Theorem C11_occ_remove_entry_others :
  forall (K V T : Type) (debug : bool) (ck : K -> N) (i : nat) (w : world K V T),
    WF (self w) -> Uniq ck (Spec.elems (self w)) -> i < len (self w) ->
    wp (occ_remove_entry debug i)
       (fun (p : K * V) (w' : world K V T) =>
          nth_error (Spec.elems (self w)) i = Some p /\ log w' = log w /\
          WF (self w') /\ Uniq ck (Spec.elems (self w')) /\
          Permutation (Spec.elems (self w)) (p :: Spec.elems (self w')) /\
          lookup ck (Spec.elems (self w')) (ck (fst p)) = None /\
          forall c : N, c <> ck (fst p) ->
            lookup ck (Spec.elems (self w')) c = lookup ck (Spec.elems (self w)) c)
       (fun _ : world K V T => False) w.
Proof. exact (fun K V T debug ck => @occ_remove_entry_others K V T debug ck). Qed.
Print Assumptions C11_occ_remove_entry_others.

Theorem C11_occ_remove_others :
  forall (K V Q T : Type) (E : env K V Q T) (debug : bool) (ck : K -> N) (cq : Q -> N)
         (HL : Lawful E ck cq) (i : nat) (w : world K V T),
    WF (self w) -> Uniq ck (Spec.elems (self w)) -> i < len (self w) ->
    wp (occ_remove E debug i)
       (fun (v : V) (w' : world K V T) =>
          exists k0 : K,
            nth_error (Spec.elems (self w)) i = Some (k0, v) /\
            logged w w' (ev_drops (idK E k0)) /\
            WF (self w') /\ Uniq ck (Spec.elems (self w')) /\
            Permutation (Spec.elems (self w)) ((k0, v) :: Spec.elems (self w')) /\
            lookup ck (Spec.elems (self w')) (ck k0) = None /\
            forall c : N, c <> ck k0 ->
              lookup ck (Spec.elems (self w')) c = lookup ck (Spec.elems (self w)) c)
       (fun _ : world K V T => False) w.
Proof. exact (fun K V Q T E debug ck cq HL => occ_remove_others E debug ck cq HL). Qed.
Print Assumptions C11_occ_remove_others.

(* through entry(k): entry(k) on a present key, then OccupiedEntry::remove *)
Theorem C11_entry_remove_others :
  forall (K V Q T : Type) (E : env K V Q T) (debug : bool) (ck : K -> N) (cq : Q -> N)
         (HL : Lawful E ck cq) (k : K) (j : nat) (w : world K V T),
    WF (self w) -> Uniq ck (Spec.elems (self w)) ->
    find_idx ck (ck k) (Spec.elems (self w)) = Some j ->
    wp (e <- entry_of E k ;; match e with Occupied i => occ_remove E debug i | Vacant _ => panic end)
       (fun (v : V) (w' : world K V T) =>
          exists k0 : K,
            nth_error (Spec.elems (self w)) j = Some (k0, v) /\ ck k0 = ck k /\
            logged w w' (ev_drops (idK E k) ++ ev_drops (idK E k0)) /\
            lookup ck (Spec.elems (self w')) (ck k) = None /\
            forall c : N, c <> ck k ->
              lookup ck (Spec.elems (self w')) c = lookup ck (Spec.elems (self w)) c)
       (fun _ : world K V T => False) w.
Proof. exact (fun K V Q T E debug ck cq HL => entry_remove_others E debug ck cq HL). Qed.
Print Assumptions C11_entry_remove_others.

(* OccupiedEntry::insert: same key objects in the same slots, only the value
   of slot i changes, every other class untouched *)
Theorem C11_occ_insert_others :
  forall (K V T : Type) (ck : K -> N) (i : nat) (v : V) (w : world K V T),
    WF (self w) ->
    forall (k0 : K) (v0 : V),
      nth_error (Spec.elems (self w)) i = Some (k0, v0) ->
      wp (occ_insert i v)
         (fun (r : V) (w' : world K V T) =>
            r = v0 /\ log w' = log w /\ WF (self w') /\
            nth_error (Spec.elems (self w')) i = Some (k0, v) /\
            List.map fst (Spec.elems (self w')) = List.map fst (Spec.elems (self w)) /\
            forall c : N, c <> ck k0 ->
              lookup ck (Spec.elems (self w')) c = lookup ck (Spec.elems (self w)) c)
         (fun _ : world K V T => False) w.
Proof. exact (fun K V T ck => @occ_insert_others K V T ck). Qed.
Print Assumptions C11_occ_insert_others.

Theorem C11_vac_insert_others :
  forall (K V Q T : Type) (E : env K V Q T) (debug : bool) (ck : K -> N) (cq : Q -> N)
         (HL : Lawful E ck cq) (k : K) (v : V) (w : world K V T),
    WF (self w) ->
    find_idx ck (ck k) (Spec.elems (self w)) = None -> len (self w) < cap (self w) ->
    wp (vac_insert E debug k v)
       (fun (i : nat) (w' : world K V T) =>
          i = length (Spec.elems (self w)) /\ log w' = log w /\ WF (self w') /\
          lookup ck (Spec.elems (self w')) (ck k) = Some (k, v) /\
          forall c : N, c <> ck k ->
            lookup ck (Spec.elems (self w')) c = lookup ck (Spec.elems (self w)) c)
       (fun _ : world K V T => False) w.
Proof. exact (fun K V Q T E debug ck cq HL => vac_insert_others E debug ck cq HL). Qed.
Print Assumptions C11_vac_insert_others.

(* or_insert / or_insert_with / or_insert_with_key, on EVERY outcome (present,
   absent, full; for the closures: ANY closure, it may panic — no hypothesis on
   f): no other class changes; a panic leaves the container as it was *)
Theorem C11_or_insert_others :
  forall (K V Q T : Type) (E : env K V Q T) (debug : bool) (ck : K -> N) (cq : Q -> N)
         (HL : Lawful E ck cq) (k : K) (v : V) (w : world K V T),
    WF (self w) ->
    wp (e <- entry_of E k ;; or_insert E debug e v)
       (fun (_ : nat) (w' : world K V T) =>
          forall c : N, c <> ck k ->
            lookup ck (Spec.elems (self w')) c = lookup ck (Spec.elems (self w)) c)
       (fun w' : world K V T => self w' = self w) w.
Proof. exact (fun K V Q T E debug ck cq HL => or_insert_others E debug ck cq HL). Qed.
Print Assumptions C11_or_insert_others.

Theorem C11_or_insert_with_others :
  forall (K V Q T : Type) (E : env K V Q T) (debug : bool) (ck : K -> N) (cq : Q -> N)
         (HL : Lawful E ck cq) (k : K) (f : T -> option V * T) (w : world K V T),
    WF (self w) ->
    wp (e <- entry_of E k ;; or_insert_with E debug e f)
       (fun (_ : nat) (w' : world K V T) =>
          forall c : N, c <> ck k ->
            lookup ck (Spec.elems (self w')) c = lookup ck (Spec.elems (self w)) c)
       (fun w' : world K V T => self w' = self w) w.
Proof. exact (fun K V Q T E debug ck cq HL => or_insert_with_others E debug ck cq HL). Qed.
Print Assumptions C11_or_insert_with_others.

Theorem C11_or_insert_with_key_others :
  forall (K V Q T : Type) (E : env K V Q T) (debug : bool) (ck : K -> N) (cq : Q -> N)
         (HL : Lawful E ck cq) (k : K) (f : K -> T -> option V * T) (w : world K V T),
    WF (self w) ->
    wp (e <- entry_of E k ;; or_insert_with_key E debug e f)
       (fun (_ : nat) (w' : world K V T) =>
          forall c : N, c <> ck k ->
            lookup ck (Spec.elems (self w')) c = lookup ck (Spec.elems (self w)) c)
       (fun w' : world K V T => self w' = self w) w.
Proof. exact (fun K V Q T E debug ck cq HL => or_insert_with_key_others E debug ck cq HL). Qed.
Print Assumptions C11_or_insert_with_key_others.

(* and_modify with ANY closure (stateful, may panic), on both outcomes: the key
   objects are the same objects in the same slots, no other class changes *)
Theorem C11_and_modify_others :
  forall (K V Q T : Type) (E : env K V Q T) (ck : K -> N) (cq : Q -> N) (HL : Lawful E ck cq)
         (k : K) (f : @modf_t V T) (w : world K V T),
    WF (self w) ->
    wp (e <- entry_of E k ;; and_modify e f)
       (fun (_ : @entry K) (w' : world K V T) =>
          List.map fst (Spec.elems (self w')) = List.map fst (Spec.elems (self w)) /\
          forall c : N, c <> ck k ->
            lookup ck (Spec.elems (self w')) c = lookup ck (Spec.elems (self w)) c)
       (fun w' : world K V T =>
          List.map fst (Spec.elems (self w')) = List.map fst (Spec.elems (self w)) /\
          forall c : N, c <> ck k ->
            lookup ck (Spec.elems (self w')) c = lookup ck (Spec.elems (self w)) c) w.
Proof. exact (fun K V Q T E ck cq HL => and_modify_others E ck cq HL). Qed.
Print Assumptions C11_and_modify_others.

(* ---------------------------------------------------------------------- *)
(* Finding 5.  and_modify with a closure that may read and change the       *)
(* callback state and may panic (modf_t = T -> V -> (bool * V) * T; the     *)
(* bool says "panics"; the V is what it left in the slot).                  *)
(* ---------------------------------------------------------------------- *)
Theorem C11_call_modf_stateful :
  forall (K V T : Type) (f : @modf_t V T) (i : nat) (w : world K V T),
    WF (self w) ->
    forall (k0 : K) (v0 : V),
      nth_error (Spec.elems (self w)) i = Some (k0, v0) ->
      wp (call_modf f i)
         (fun (_ : unit) (w' : world K V T) =>
            fst (fst (f (cb w) v0)) = false /\
            WF (self w') /\ cap (self w') = cap (self w) /\
            Spec.elems (self w') = upd (Spec.elems (self w)) i (k0, snd (fst (f (cb w) v0))) /\
            logged w w' [EvCall 3] /\ cb w' = snd (f (cb w) v0))
         (fun w' : world K V T =>
            fst (fst (f (cb w) v0)) = true /\
            WF (self w') /\ cap (self w') = cap (self w) /\
            Spec.elems (self w') = upd (Spec.elems (self w)) i (k0, snd (fst (f (cb w) v0))) /\
            logged w w' [EvCall 3] /\ cb w' = snd (f (cb w) v0)) w.
Proof. exact (fun K V T => @call_modf_stateful K V T). Qed.
Print Assumptions C11_call_modf_stateful.

(* entry(k).and_modify(f), any f.  Present at slot j holding (k0, v0): f runs
   exactly once (one EvCall 3), on v0, in the callback state entry(k) left;
   whatever value it leaves — ALSO WHEN IT THEN PANICS (second postcondition) —
   is the value now stored under the same key object k0.  Absent: f does not
   run, nothing changes. *)
Theorem C11_and_modify_stateful :
  forall (K V Q T : Type) (E : env K V Q T) (ck : K -> N) (cq : Q -> N) (HL : Lawful E ck cq)
         (k : K) (f : @modf_t V T) (w : world K V T),
    WF (self w) ->
    wp (e <- entry_of E k ;; and_modify e f)
       (fun (e' : @entry K) (w' : world K V T) =>
          match find_idx ck (ck k) (Spec.elems (self w)) with
          | Some j =>
              e' = Occupied j /\
              exists (k0 : K) (v0 : V),
                nth_error (Spec.elems (self w)) j = Some (k0, v0) /\
                let r := f (entry_cb E ck k (Spec.elems (self w)) (cb w)) v0 in
                fst (fst r) = false /\
                WF (self w') /\ cap (self w') = cap (self w) /\
                Spec.elems (self w') = upd (Spec.elems (self w)) j (k0, snd (fst r)) /\
                cb w' = snd r /\
                logged w w' (ev_drops (idK E k) ++ [EvCall 3])
          | None => e' = Vacant k /\ self w' = self w /\ log w' = log w
          end)
       (fun w' : world K V T =>
          exists (j : nat) (k0 : K) (v0 : V),
            find_idx ck (ck k) (Spec.elems (self w)) = Some j /\
            nth_error (Spec.elems (self w)) j = Some (k0, v0) /\
            let r := f (entry_cb E ck k (Spec.elems (self w)) (cb w)) v0 in
            fst (fst r) = true /\
            WF (self w') /\ cap (self w') = cap (self w) /\
            Spec.elems (self w') = upd (Spec.elems (self w)) j (k0, snd (fst r)) /\
            cb w' = snd r /\
            logged w w' (ev_drops (idK E k) ++ [EvCall 3])) w.
Proof. exact (fun K V Q T E ck cq HL => and_modify_stateful E ck cq HL). Qed.
Print Assumptions C11_and_modify_stateful.

(* chains of and_modify (by induction over the list of modifiers): each fi is
   a non-panicking closure computing the pure function gi of the old value *)
Theorem C11_and_modify_all_occ :
  forall (K V T : Type) (fs : list (@modf_t V T)) (gs : list (V -> V)),
    Forall2 (fun (f : @modf_t V T) (g : V -> V) => forall (s : T) (v : V), fst (f s v) = (false, g v)) fs gs ->
    forall (j : nat) (w : world K V T),
      WF (self w) ->
      forall (k0 : K) (v0 : V),
        nth_error (Spec.elems (self w)) j = Some (k0, v0) ->
        wp (and_modify_all (Occupied j) fs)
           (fun (e' : @entry K) (w' : world K V T) =>
              e' = Occupied j /\ WF (self w') /\ cap (self w') = cap (self w) /\
              Spec.elems (self w') =
                upd (Spec.elems (self w)) j (k0, fold_left (fun (a : V) (g : V -> V) => g a) gs v0) /\
              logged w w' (repeat (EvCall 3) (length fs)))
           (fun _ : world K V T => False) w.
Proof. exact (fun K V T => @and_modify_all_occ K V T). Qed.
Print Assumptions C11_and_modify_all_occ.

(* entry(k).and_modify(f1)....and_modify(fn).or_insert(v): present -> the
   value becomes gn(...(g1 v0)) under the same key object, each fi ran once, k
   and the unused v are destroyed; absent -> no fi runs, (k, v) is appended;
   panic only for "absent and full" *)
Theorem C11_and_modify_chain_or_insert :
  forall (K V Q T : Type) (E : env K V Q T) (debug : bool) (ck : K -> N) (cq : Q -> N)
         (HL : Lawful E ck cq) (k : K) (fs : list (@modf_t V T)) (gs : list (V -> V)) (v : V)
         (w : world K V T),
    WF (self w) ->
    Forall2 (fun (f : @modf_t V T) (g : V -> V) => forall (s : T) (v : V), fst (f s v) = (false, g v)) fs gs ->
    wp (e <- entry_of E k ;; e' <- and_modify_all e fs ;; or_insert E debug e' v)
       (fun (i : nat) (w' : world K V T) =>
          WF (self w') /\ cap (self w') = cap (self w) /\
          match find_idx ck (ck k) (Spec.elems (self w)) with
          | Some j =>
              i = j /\
              exists (k0 : K) (v0 : V),
                nth_error (Spec.elems (self w)) j = Some (k0, v0) /\
                Spec.elems (self w') =
                  upd (Spec.elems (self w)) j (k0, fold_left (fun (a : V) (g : V -> V) => g a) gs v0) /\
                logged w w' (ev_drops (idK E k) ++ repeat (EvCall 3) (length fs) ++ ev_drops (idV E v))
          | None =>
              i = length (Spec.elems (self w)) /\
              Spec.elems (self w') = Spec.elems (self w) ++ [(k, v)] /\ log w' = log w
          end)
       (fun w' : world K V T =>
          self w' = self w /\ logged w w' (ev_drops (idV E v ++ idK E k)) /\
          find_idx ck (ck k) (Spec.elems (self w)) = None /\ len (self w) = cap (self w)) w.
Proof. exact (fun K V Q T E debug ck cq HL => and_modify_chain_or_insert E debug ck cq HL). Qed.
Print Assumptions C11_and_modify_chain_or_insert.

(* ---------------------------------------------------------------------- *)
(* Findings 3 and 4.  "every entry method chain": result-level              *)
(* specification of ALL the chains the interpreter (Exec.entry_chain, the    *)
(* program the harness mirrors) can run: for each chain number and for a     *)
(* present key (stored at slot j as (k0, v0)) / an absent key / an absent    *)
(* key in a full map: the returned tokens (tag, slot, rendered object), the  *)
(* new content, the log.                                                     *)
(*   Hypotheses: `honest sc` — the script makes every == truthful and no     *)
(*   callback panic (so env_map sc is Lawful: FmtSerde.env_map_lawful, and    *)
(*   the scripted closures mk_val / mk_default / modf_add return normally);   *)
(*   WF (self w).  debug is arbitrary.  r_key k = [kid k; kcls k],            *)
(*   r_val v = [vid v; vdat v], nn = N.of_nat.  EvDrop (kid k) = the object   *)
(*   k was destroyed.                                                         *)
(* Finding 3 (VacantEntry::key / into_key, no model function of their own)   *)
(* is the `None` branch of chains 5, 6 (key(): a borrow — the supplied key    *)
(* object is rendered, then destroyed exactly once when the entry is dropped, *)
(* container untouched) and of chains 7, 10 (into_key(): the caller keeps     *)
(* the supplied key object — rendered, NOT destroyed: log unchanged);        *)
(* the `Some` branch of chain 5 is Entry::key on a present key: the STORED    *)
(* key object k0 is rendered and the supplied one is destroyed.              *)
(* ---------------------------------------------------------------------- *)

(* chain 0: entry(k).or_insert(v) *)
Theorem C11_chain0_spec :
  forall (debug : bool) (sc : script), honest sc ->
  forall (k : key) (v : vobj) (w : world key vobj cstate),
    WF (self w) ->
    wp (entry_chain debug sc k 0 v)
       (fun (r : list N) (w' : world key vobj cstate) =>
          WF (self w') /\ cap (self w') = cap (self w) /\
          match find_idx kcls (kcls k) (Spec.elems (self w)) with
          | Some j =>
              exists (k0 : key) (v0 : vobj),
                nth_error (Spec.elems (self w)) j = Some (k0, v0) /\
                r = [0%N; nn j] ++ r_val v0 /\ self w' = self w /\
                logged w w' [EvDrop (kid k); EvDrop (vid v)]
          | None =>
              r = [0%N; nn (len (self w))] ++ r_val v /\
              Spec.elems (self w') = Spec.elems (self w) ++ [(k, v)] /\ log w' = log w /\
              len (self w) < cap (self w)
          end)
       (fun w' : world key vobj cstate =>
          self w' = self w /\ logged w w' [EvDrop (vid v); EvDrop (kid k)] /\
          find_idx kcls (kcls k) (Spec.elems (self w)) = None /\ len (self w) = cap (self w)) w.
Proof. exact chain0_spec. Qed.
Print Assumptions C11_chain0_spec.

(* chain 1: entry(k).or_insert_with(|| v) — present: no EvCall; absent: one
   EvCall 2 and the closure's value v stored; full: v and k destroyed after
   the one call *)
Theorem C11_chain1_spec :
  forall (debug : bool) (sc : script), honest sc ->
  forall (k : key) (v : vobj) (w : world key vobj cstate),
    WF (self w) ->
    wp (entry_chain debug sc k 1 v)
       (fun (r : list N) (w' : world key vobj cstate) =>
          WF (self w') /\ cap (self w') = cap (self w) /\
          match find_idx kcls (kcls k) (Spec.elems (self w)) with
          | Some j =>
              exists (k0 : key) (v0 : vobj),
                nth_error (Spec.elems (self w)) j = Some (k0, v0) /\
                r = [0%N; nn j] ++ r_val v0 /\ self w' = self w /\ logged w w' [EvDrop (kid k)]
          | None =>
              r = [0%N; nn (len (self w))] ++ r_val v /\
              Spec.elems (self w') = Spec.elems (self w) ++ [(k, v)] /\ logged w w' [EvCall 2] /\
              len (self w) < cap (self w)
          end)
       (fun w' : world key vobj cstate =>
          self w' = self w /\ logged w w' [EvCall 2; EvDrop (vid v); EvDrop (kid k)] /\
          find_idx kcls (kcls k) (Spec.elems (self w)) = None /\ len (self w) = cap (self w)) w.
Proof. exact chain1_spec. Qed.
Print Assumptions C11_chain1_spec.

(* chain 2: entry(k).or_insert_with_key(|_| v) *)
Theorem C11_chain2_spec :
  forall (debug : bool) (sc : script), honest sc ->
  forall (k : key) (v : vobj) (w : world key vobj cstate),
    WF (self w) ->
    wp (entry_chain debug sc k 2 v)
       (fun (r : list N) (w' : world key vobj cstate) =>
          WF (self w') /\ cap (self w') = cap (self w) /\
          match find_idx kcls (kcls k) (Spec.elems (self w)) with
          | Some j =>
              exists (k0 : key) (v0 : vobj),
                nth_error (Spec.elems (self w)) j = Some (k0, v0) /\
                r = [0%N; nn j] ++ r_val v0 /\ self w' = self w /\ logged w w' [EvDrop (kid k)]
          | None =>
              r = [0%N; nn (len (self w))] ++ r_val v /\
              Spec.elems (self w') = Spec.elems (self w) ++ [(k, v)] /\ logged w w' [EvCall 2] /\
              len (self w) < cap (self w)
          end)
       (fun w' : world key vobj cstate =>
          self w' = self w /\ logged w w' [EvCall 2; EvDrop (vid v); EvDrop (kid k)] /\
          find_idx kcls (kcls k) (Spec.elems (self w)) = None /\ len (self w) = cap (self w)) w.
Proof. exact chain2_spec. Qed.
Print Assumptions C11_chain2_spec.

(* chain 3: entry(k).or_default() — the instance of or_insert_with with the
   Default closure: the value made is a FRESH object (identity = the next free
   one, next_id (cb w): comparisons allocate nothing) with payload 0 *)
Theorem C11_chain3_spec :
  forall (debug : bool) (sc : script), honest sc ->
  forall (k : key) (v : vobj) (w : world key vobj cstate),
    WF (self w) ->
    let dv := {| vid := next_id (cb w); vdat := 0 |} in
    wp (entry_chain debug sc k 3 v)
       (fun (r : list N) (w' : world key vobj cstate) =>
          WF (self w') /\ cap (self w') = cap (self w) /\
          match find_idx kcls (kcls k) (Spec.elems (self w)) with
          | Some j =>
              exists (k0 : key) (v0 : vobj),
                nth_error (Spec.elems (self w)) j = Some (k0, v0) /\
                r = [0%N; nn j] ++ r_val v0 /\ self w' = self w /\ logged w w' [EvDrop (kid k)]
          | None =>
              r = [0%N; nn (len (self w))] ++ r_val dv /\
              Spec.elems (self w') = Spec.elems (self w) ++ [(k, dv)] /\ logged w w' [EvCall 2] /\
              len (self w) < cap (self w)
          end)
       (fun w' : world key vobj cstate =>
          self w' = self w /\ logged w w' [EvCall 2; EvDrop (vid dv); EvDrop (kid k)] /\
          find_idx kcls (kcls k) (Spec.elems (self w)) = None /\ len (self w) = cap (self w)) w.
Proof. exact chain3_spec. Qed.
Print Assumptions C11_chain3_spec.

(* chain 4: entry(k).and_modify(|x| x.dat += 100).or_insert(v) *)
Theorem C11_chain4_spec :
  forall (debug : bool) (sc : script), honest sc ->
  forall (k : key) (v : vobj) (w : world key vobj cstate),
    WF (self w) ->
    wp (entry_chain debug sc k 4 v)
       (fun (r : list N) (w' : world key vobj cstate) =>
          WF (self w') /\ cap (self w') = cap (self w) /\
          match find_idx kcls (kcls k) (Spec.elems (self w)) with
          | Some j =>
              exists (k0 : key) (v0 : vobj),
                nth_error (Spec.elems (self w)) j = Some (k0, v0) /\
                let v1 := {| vid := vid v0; vdat := vdat v0 + 100 |} in
                r = [0%N; nn j] ++ r_val v1 /\
                Spec.elems (self w') = upd (Spec.elems (self w)) j (k0, v1) /\
                logged w w' [EvDrop (kid k); EvCall 3; EvDrop (vid v)]
          | None =>
              r = [0%N; nn (len (self w))] ++ r_val v /\
              Spec.elems (self w') = Spec.elems (self w) ++ [(k, v)] /\ log w' = log w /\
              len (self w) < cap (self w)
          end)
       (fun w' : world key vobj cstate =>
          self w' = self w /\ logged w w' [EvDrop (vid v); EvDrop (kid k)] /\
          find_idx kcls (kcls k) (Spec.elems (self w)) = None /\ len (self w) = cap (self w)) w.
Proof. exact chain4_spec. Qed.
Print Assumptions C11_chain4_spec.

(* chain 5: Entry::key() *)
Theorem C11_chain5_spec :
  forall (debug : bool) (sc : script), honest sc ->
  forall (k : key) (v : vobj) (w : world key vobj cstate),
    WF (self w) ->
    wp (entry_chain debug sc k 5 v)
       (fun (r : list N) (w' : world key vobj cstate) =>
          self w' = self w /\ logged w w' [EvDrop (kid k)] /\
          match find_idx kcls (kcls k) (Spec.elems (self w)) with
          | Some j =>
              exists (k0 : key) (v0 : vobj),
                nth_error (Spec.elems (self w)) j = Some (k0, v0) /\ r = [0%N; nn j] ++ r_key k0
          | None => r = 1%N :: r_key k
          end)
       (fun _ : world key vobj cstate => False) w.
Proof. exact chain5_spec. Qed.
Print Assumptions C11_chain5_spec.

(* chain 6: OccupiedEntry::get() / VacantEntry::key() *)
Theorem C11_chain6_spec :
  forall (debug : bool) (sc : script), honest sc ->
  forall (k : key) (v : vobj) (w : world key vobj cstate),
    WF (self w) ->
    wp (entry_chain debug sc k 6 v)
       (fun (r : list N) (w' : world key vobj cstate) =>
          self w' = self w /\ logged w w' [EvDrop (kid k)] /\
          match find_idx kcls (kcls k) (Spec.elems (self w)) with
          | Some j =>
              exists (k0 : key) (v0 : vobj),
                nth_error (Spec.elems (self w)) j = Some (k0, v0) /\ r = [0%N; nn j] ++ r_val v0
          | None => r = 1%N :: r_key k
          end)
       (fun _ : world key vobj cstate => False) w.
Proof. exact chain6_spec. Qed.
Print Assumptions C11_chain6_spec.

(* chain 7: OccupiedEntry::get_mut() and a write of v's payload through it /
   VacantEntry::into_key() *)
Theorem C11_chain7_spec :
  forall (debug : bool) (sc : script), honest sc ->
  forall (k : key) (v : vobj) (w : world key vobj cstate),
    WF (self w) ->
    wp (entry_chain debug sc k 7 v)
       (fun (r : list N) (w' : world key vobj cstate) =>
          WF (self w') /\ cap (self w') = cap (self w) /\
          match find_idx kcls (kcls k) (Spec.elems (self w)) with
          | Some j =>
              exists (k0 : key) (v0 : vobj),
                nth_error (Spec.elems (self w)) j = Some (k0, v0) /\
                r = [0%N; nn j] ++ r_val v0 /\
                Spec.elems (self w') =
                  upd (Spec.elems (self w)) j (k0, {| vid := vid v0; vdat := vdat v |}) /\
                logged w w' [EvDrop (kid k)]
          | None => r = 1%N :: r_key k /\ self w' = self w /\ log w' = log w
          end)
       (fun _ : world key vobj cstate => False) w.
Proof. exact chain7_spec. Qed.
Print Assumptions C11_chain7_spec.

(* chain 8: OccupiedEntry::insert(v) (returns the old value, keeps the stored
   key object) / VacantEntry::insert(v) *)
Theorem C11_chain8_spec :
  forall (debug : bool) (sc : script), honest sc ->
  forall (k : key) (v : vobj) (w : world key vobj cstate),
    WF (self w) ->
    wp (entry_chain debug sc k 8 v)
       (fun (r : list N) (w' : world key vobj cstate) =>
          WF (self w') /\ cap (self w') = cap (self w) /\
          match find_idx kcls (kcls k) (Spec.elems (self w)) with
          | Some j =>
              exists (k0 : key) (v0 : vobj),
                nth_error (Spec.elems (self w)) j = Some (k0, v0) /\
                r = 0%N :: r_val v0 /\
                Spec.elems (self w') = upd (Spec.elems (self w)) j (k0, v) /\
                logged w w' [EvDrop (kid k)]
          | None =>
              r = [1%N; nn (len (self w))] ++ r_val v /\
              Spec.elems (self w') = Spec.elems (self w) ++ [(k, v)] /\ log w' = log w /\
              len (self w) < cap (self w)
          end)
       (fun w' : world key vobj cstate =>
          self w' = self w /\ logged w w' [EvDrop (vid v); EvDrop (kid k)] /\
          find_idx kcls (kcls k) (Spec.elems (self w)) = None /\ len (self w) = cap (self w)) w.
Proof. exact chain8_spec. Qed.
Print Assumptions C11_chain8_spec.

(* chain 9: OccupiedEntry::remove() (value returned, stored key object k0
   destroyed, swap_remove) / a vacant entry that is just dropped *)
Theorem C11_chain9_spec :
  forall (debug : bool) (sc : script), honest sc ->
  forall (k : key) (v : vobj) (w : world key vobj cstate),
    WF (self w) ->
    wp (entry_chain debug sc k 9 v)
       (fun (r : list N) (w' : world key vobj cstate) =>
          WF (self w') /\ cap (self w') = cap (self w) /\
          match find_idx kcls (kcls k) (Spec.elems (self w)) with
          | Some j =>
              exists (k0 : key) (v0 : vobj),
                nth_error (Spec.elems (self w)) j = Some (k0, v0) /\
                r = 0%N :: r_val v0 /\
                Spec.elems (self w') = swap_remove (Spec.elems (self w)) j /\
                logged w w' [EvDrop (kid k); EvDrop (kid k0)]
          | None => r = [1%N] /\ self w' = self w /\ logged w w' [EvDrop (kid k)]
          end)
       (fun _ : world key vobj cstate => False) w.
Proof. exact chain9_spec. Qed.
Print Assumptions C11_chain9_spec.

(* chain 10: OccupiedEntry::remove_entry() (the STORED pair handed out, nothing
   but the supplied key destroyed) / VacantEntry::into_key() *)
Theorem C11_chain10_spec :
  forall (debug : bool) (sc : script), honest sc ->
  forall (k : key) (v : vobj) (w : world key vobj cstate),
    WF (self w) ->
    wp (entry_chain debug sc k 10 v)
       (fun (r : list N) (w' : world key vobj cstate) =>
          WF (self w') /\ cap (self w') = cap (self w) /\
          match find_idx kcls (kcls k) (Spec.elems (self w)) with
          | Some j =>
              exists (k0 : key) (v0 : vobj),
                nth_error (Spec.elems (self w)) j = Some (k0, v0) /\
                r = 0%N :: r_pair (k0, v0) /\
                Spec.elems (self w') = swap_remove (Spec.elems (self w)) j /\
                logged w w' [EvDrop (kid k)]
          | None => r = 1%N :: r_key k /\ self w' = self w /\ log w' = log w
          end)
       (fun _ : world key vobj cstate => False) w.
Proof. exact chain10_spec. Qed.
Print Assumptions C11_chain10_spec.

(* chain 11: OccupiedEntry::into_mut() and a write through it /
   VacantEntry::insert(v) *)
Theorem C11_chain11_spec :
  forall (debug : bool) (sc : script), honest sc ->
  forall (k : key) (v : vobj) (w : world key vobj cstate),
    WF (self w) ->
    wp (entry_chain debug sc k 11 v)
       (fun (r : list N) (w' : world key vobj cstate) =>
          WF (self w') /\ cap (self w') = cap (self w) /\
          match find_idx kcls (kcls k) (Spec.elems (self w)) with
          | Some j =>
              exists (k0 : key) (v0 : vobj),
                nth_error (Spec.elems (self w)) j = Some (k0, v0) /\
                r = [0%N; nn j] ++ r_val v0 /\
                Spec.elems (self w') =
                  upd (Spec.elems (self w)) j (k0, {| vid := vid v0; vdat := vdat v |}) /\
                logged w w' [EvDrop (kid k)]
          | None =>
              r = [1%N; nn (len (self w))] ++ r_val v /\
              Spec.elems (self w') = Spec.elems (self w) ++ [(k, v)] /\ log w' = log w /\
              len (self w) < cap (self w)
          end)
       (fun w' : world key vobj cstate =>
          self w' = self w /\ logged w w' [EvDrop (vid v); EvDrop (kid k)] /\
          find_idx kcls (kcls k) (Spec.elems (self w)) = None /\ len (self w) = cap (self w)) w.
Proof. exact chain11_spec. Qed.
Print Assumptions C11_chain11_spec.

(* there are no other chains: every chain number >= 11 is chain 11 *)
Theorem C11_entry_chain_ge11 :
  forall (debug : bool) (sc : script) (k : key) (chain : N) (v : vobj),
    (11 <= chain)%N -> entry_chain debug sc k chain v = entry_chain debug sc k 11 v.
Proof. exact entry_chain_ge11. Qed.
Print Assumptions C11_entry_chain_ge11.

(* ---------------------------------------------------------------------- *)
(* Finding 6.  non-vacuity: concrete runs on the 3-entry map m3 = [(K1c5,   *)
(* V2d7); (K3c6, V4d8); (K5c7, V6d9)] (full: len = cap = 3) and on m = m3    *)
(* with one spare slot; supplied key object id 90, supplied value id 91.     *)
(* ---------------------------------------------------------------------- *)

(* the hypotheses of the theorems above on these states *)
Example C11_example_hyps2 :
  let sc0 := {| sc_adv := false; sc_seed := 0; sc_fk := 0; sc_fa := 0 |} in
  let m : map key vobj := {| len := 3; slots := slots m3 ++ [None] |} in
  honest sc0 /\ WF (self (w_of m3)) /\ Uniq kcls (Spec.elems m3) /\ 1 < len m3 /\
  WF m /\ len m < cap m /\ len m3 = cap m3 /\
  find_idx kcls (kcls (k_ 90 6)) (Spec.elems m3) = Some 1 /\
  find_idx kcls (kcls (k_ 90 7)) (Spec.elems m3) = Some 2 /\
  find_idx kcls (kcls (k_ 90 9)) (Spec.elems m3) = None /\
  mk_val sc0 (v_ 91 0) (scan_cb (env_map sc0) (k_ 90 9) (Spec.elems m3) cs0)
    = (Some (v_ 91 0), {| n_eq := 3; n_clone := 0; n_call := 1; next_id := 100000 |}) /\
  Forall2 (fun (f : @modf_t vobj cstate) (g : vobj -> vobj) =>
             forall (s : cstate) (v : vobj), fst (f s v) = (false, g v))
          [modf_add sc0; modf_add sc0]
          [fun v => v_ (vid v) (vdat v + 100); fun v => v_ (vid v) (vdat v + 100)].
Proof.
  intros sc0 m. assert (Hh : honest sc0) by (split; reflexivity).
  split; [exact Hh|]. split; [exact m3_WF|].
  split; [vm_compute; repeat constructor; cbn; intuition discriminate|].
  split; [cbn; lia|].
  split.
  { split; [cbn; lia|]. intros i Hi. cbn [len m] in Hi.
    destruct i as [|[|[|i]]]; try lia; eexists; reflexivity. }
  split; [cbn; lia|]. split; [reflexivity|]. split; [reflexivity|]. split; [reflexivity|].
  split; [reflexivity|]. split; [reflexivity|].
  repeat constructor; intros s v; apply (modf_add_pure sc0 Hh).
Qed.

(* and_modify(|x| x.dat += 100) on the MIDDLE slot (class 6), on the LAST slot
   (class 7), on an absent key; twice in a chain followed by or_insert *)
Example C11_example_and_modify :
  let sc0 := {| sc_adv := false; sc_seed := 0; sc_fk := 0; sc_fa := 0 |} in
  let E := env_map sc0 in
  match (e <- entry_of E (k_ 90 6) ;; and_modify e (modf_add sc0)) (w_of m3) with
  | Ok e' w' => e' = Occupied 1 /\ log w' = [EvDrop 90; EvCall 3] /\
                Spec.elems (self w') = [(k_ 1 5, v_ 2 7); (k_ 3 6, v_ 4 108); (k_ 5 7, v_ 6 9)]
  | _ => False
  end /\
  match (e <- entry_of E (k_ 90 7) ;; and_modify e (modf_add sc0)) (w_of m3) with
  | Ok e' w' => e' = Occupied 2 /\ log w' = [EvDrop 90; EvCall 3] /\
                Spec.elems (self w') = [(k_ 1 5, v_ 2 7); (k_ 3 6, v_ 4 8); (k_ 5 7, v_ 6 109)]
  | _ => False
  end /\
  match (e <- entry_of E (k_ 90 9) ;; and_modify e (modf_add sc0)) (w_of m3) with
  | Ok e' w' => e' = Vacant (k_ 90 9) /\ log w' = [] /\ self w' = m3
  | _ => False
  end /\
  match (e <- entry_of E (k_ 90 6) ;; e' <- and_modify_all e [modf_add sc0; modf_add sc0] ;;
         or_insert E true e' (v_ 91 0)) (w_of m3) with
  | Ok i w' => i = 1 /\ log w' = [EvDrop 90; EvCall 3; EvCall 3; EvDrop 91] /\
               Spec.elems (self w') = [(k_ 1 5, v_ 2 7); (k_ 3 6, v_ 4 208); (k_ 5 7, v_ 6 9)]
  | _ => False
  end /\
  (* a closure that writes 55 and then panics: the new value stays *)
  match (e <- entry_of E (k_ 90 6) ;;
         and_modify e (fun (s : cstate) (x : vobj) => ((true, v_ (vid x) 55), s))) (w_of m3) with
  | Panic w' => log w' = [EvDrop 90; EvCall 3] /\
                Spec.elems (self w') = [(k_ 1 5, v_ 2 7); (k_ 3 6, v_ 4 55); (k_ 5 7, v_ 6 9)]
  | _ => False
  end.
Proof. vm_compute. repeat split; reflexivity. Qed.

(* or_insert_with(|| V91): middle slot (not called), spare slot (called once,
   its value stored at slot 3), full map (called once, then K90 and V91 destroyed) *)
Example C11_example_or_insert_with :
  let sc0 := {| sc_adv := false; sc_seed := 0; sc_fk := 0; sc_fa := 0 |} in
  let E := env_map sc0 in
  let m : map key vobj := {| len := 3; slots := slots m3 ++ [None] |} in
  match (e <- entry_of E (k_ 90 6) ;; or_insert_with E true e (mk_val sc0 (v_ 91 0))) (w_of m3) with
  | Ok i w' => i = 1 /\ self w' = m3 /\ log w' = [EvDrop 90]
  | _ => False
  end /\
  match (e <- entry_of E (k_ 90 7) ;; or_insert_with E true e (mk_val sc0 (v_ 91 0))) (w_of m3) with
  | Ok i w' => i = 2 /\ self w' = m3 /\ log w' = [EvDrop 90]
  | _ => False
  end /\
  match (e <- entry_of E (k_ 90 9) ;; or_insert_with E true e (mk_val sc0 (v_ 91 0))) (w_of m) with
  | Ok i w' => i = 3 /\ log w' = [EvCall 2] /\
               Spec.elems (self w') = Spec.elems m3 ++ [(k_ 90 9, v_ 91 0)]
  | _ => False
  end /\
  match (e <- entry_of E (k_ 90 9) ;; or_insert_with E true e (mk_val sc0 (v_ 91 0))) (w_of m3) with
  | Panic w' => self w' = m3 /\ log w' = [EvCall 2; EvDrop 91; EvDrop 90]
  | _ => False
  end /\
  (* a closure that panics (absent key, spare slot): called once, nothing inserted,
     the supplied key K90 destroyed exactly once by the unwinding *)
  match (e <- entry_of E (k_ 90 9) ;; or_insert_with E true e (fun s : cstate => (None, s))) (w_of m) with
  | Panic w' => self w' = m /\ log w' = [EvCall 2; EvDrop 90]
  | _ => False
  end /\
  (* or_default on the spare slot: a fresh object (id 100000 = next_id) with payload 0 *)
  match (e <- entry_of E (k_ 90 9) ;; or_insert_with E true e (mk_default sc0)) (w_of m) with
  | Ok i w' => i = 3 /\ log w' = [EvCall 2] /\
               Spec.elems (self w') = Spec.elems m3 ++ [(k_ 90 9, v_ 100000 0)]
  | _ => False
  end.
Proof. vm_compute. repeat split; reflexivity. Qed.

(* occ_insert / occ_remove / occ_remove_entry on the middle and on the last
   slot; vac_insert with a spare slot and on the full map *)
Example C11_example_occ_vac :
  let sc0 := {| sc_adv := false; sc_seed := 0; sc_fk := 0; sc_fa := 0 |} in
  let E := env_map sc0 in
  let m : map key vobj := {| len := 3; slots := slots m3 ++ [None] |} in
  match occ_insert 1 (v_ 91 0) (w_of m3) with
  | Ok r w' => r = v_ 4 8 /\ log w' = [] /\
               Spec.elems (self w') = [(k_ 1 5, v_ 2 7); (k_ 3 6, v_ 91 0); (k_ 5 7, v_ 6 9)]
  | _ => False
  end /\
  match occ_insert 2 (v_ 91 0) (w_of m3) with
  | Ok r w' => r = v_ 6 9 /\ log w' = [] /\
               Spec.elems (self w') = [(k_ 1 5, v_ 2 7); (k_ 3 6, v_ 4 8); (k_ 5 7, v_ 91 0)]
  | _ => False
  end /\
  (* middle slot removed: the last pair moves into it; the other two pairs survive *)
  match occ_remove E true 1 (w_of m3) with
  | Ok r w' => r = v_ 4 8 /\ log w' = [EvDrop 3] /\
               Spec.elems (self w') = [(k_ 1 5, v_ 2 7); (k_ 5 7, v_ 6 9)]
  | _ => False
  end /\
  match occ_remove E true 2 (w_of m3) with
  | Ok r w' => r = v_ 6 9 /\ log w' = [EvDrop 5] /\
               Spec.elems (self w') = [(k_ 1 5, v_ 2 7); (k_ 3 6, v_ 4 8)]
  | _ => False
  end /\
  match occ_remove_entry true 0 (w_of m3) with
  | Ok r w' => r = (k_ 1 5, v_ 2 7) /\ log w' = [] /\
               Spec.elems (self w') = [(k_ 5 7, v_ 6 9); (k_ 3 6, v_ 4 8)]
  | _ => False
  end /\
  match vac_insert E true (k_ 90 9) (v_ 91 0) (w_of m) with
  | Ok i w' => i = 3 /\ log w' = [] /\ Spec.elems (self w') = Spec.elems m3 ++ [(k_ 90 9, v_ 91 0)]
  | _ => False
  end /\
  match vac_insert E true (k_ 90 9) (v_ 91 0) (w_of m3) with
  | Panic w' => self w' = m3 /\ log w' = [EvDrop 91; EvDrop 90]
  | _ => False
  end.
Proof. vm_compute. repeat split; reflexivity. Qed.

(* the interpreter's chains on m3: Entry::key on a present key renders the
   STORED object K3c6 and destroys the supplied K90; on an absent key renders
   the supplied K90c9 and destroys it once (chain 5) / keeps it (chain 10);
   chain 9 removes the middle entry *)
Example C11_example_chains :
  let sc0 := {| sc_adv := false; sc_seed := 0; sc_fk := 0; sc_fa := 0 |} in
  match entry_chain true sc0 (k_ 90 6) 5 (v_ 91 0) (w_of m3) with
  | Ok r w' => r = [0; 1; 3; 6]%N /\ self w' = m3 /\ log w' = [EvDrop 90]
  | _ => False
  end /\
  match entry_chain true sc0 (k_ 90 9) 5 (v_ 91 0) (w_of m3) with
  | Ok r w' => r = [1; 90; 9]%N /\ self w' = m3 /\ log w' = [EvDrop 90]
  | _ => False
  end /\
  match entry_chain true sc0 (k_ 90 9) 6 (v_ 91 0) (w_of m3) with
  | Ok r w' => r = [1; 90; 9]%N /\ self w' = m3 /\ log w' = [EvDrop 90]
  | _ => False
  end /\
  match entry_chain true sc0 (k_ 90 9) 10 (v_ 91 0) (w_of m3) with
  | Ok r w' => r = [1; 90; 9]%N /\ self w' = m3 /\ log w' = []
  | _ => False
  end /\
  match entry_chain true sc0 (k_ 90 9) 7 (v_ 91 0) (w_of m3) with
  | Ok r w' => r = [1; 90; 9]%N /\ self w' = m3 /\ log w' = []
  | _ => False
  end /\
  match entry_chain true sc0 (k_ 90 6) 9 (v_ 91 0) (w_of m3) with
  | Ok r w' => r = [0; 4; 8]%N /\ log w' = [EvDrop 90; EvDrop 3] /\
               Spec.elems (self w') = [(k_ 1 5, v_ 2 7); (k_ 5 7, v_ 6 9)]
  | _ => False
  end /\
  match entry_chain true sc0 (k_ 90 6) 10 (v_ 91 0) (w_of m3) with
  | Ok r w' => r = [0; 3; 6; 4; 8]%N /\ log w' = [EvDrop 90] /\
               Spec.elems (self w') = [(k_ 1 5, v_ 2 7); (k_ 5 7, v_ 6 9)]
  | _ => False
  end.
Proof. vm_compute. repeat split; reflexivity. Qed.

(* ========================================================================
   SECOND AUDIT CLOSURE (Proofs/MoreEntry.v, sections 7-12)

   (1) "same results and effects as the direct map operations": EQUATIONS
       between an entry program and Map::insert / remove / remove_entry / get /
       "if !contains_key { insert }; index_mut", on what a caller observes;
   (2) chains: any list of and_modify with ARBITRARY closures followed by any
       terminal method;
   (3) "every reachable map state": WF and Uniq discharged from reachability;
   (4) chain-level panic exits of Exec.entry_chain when a closure panics.

   ADDITIONAL VOCABULARY
     obs r                  what a caller observes of an outcome r: Some (result
                            or None for a panic, the WHOLE container, the log);
                            None for UB.  The callback state is not observed (it
                            differs: VacantEntry::insert scans once more).
                            C11_obs_def unfolds it.
     ins_self ck m k v u, rm_self ck m c, rir_self m i
                            the container (all slots) after insert_ii / after
                            removing class c / after remove_index_read of slot i:
                            C11_ins_self_def, C11_rm_self_def, C11_rir_self_def
                            unfold them; C11_rm_self_elems: its content is l_remove's.
     am_frame i m m'        what and_modify on slot i may change: m' is well
                            formed, same capacity and length, the same key
                            OBJECTS in the same slots, every slot other than i
                            identical (C11_am_frame_def unfolds it).
     and_modify_all e fs    e.and_modify(f1).and_modify(f2)...
     mfinal2 E debug ops w0 the world after the history ops (Proofs/Dict2.v: the
                            13 map operations, drain, iteration,
                            entry(k).or_insert(v), extend), None on UB.
     closure_fault sc       the script sc answers every == truthfully, no Drop or
                            Clone panics, and closure call number sc_fa panics.
   ======================================================================== *)
Require Import Proofs.Dict Proofs.Dict2.

(* ---------------------------------------------------------------------- *)
(* the definitions, unfolded (all by reflexivity)                           *)
(* ---------------------------------------------------------------------- *)

Theorem C11_obs_def :
  forall (K V T A : Type) (r : res K V T A),
  obs r =
  match r with
  | Ok a w => Some (Some a, self w, log w)
  | Panic w => Some (None, self w, log w)
  | UB => None
  end.
Proof. exact (@obs_def). Qed.
Print Assumptions C11_obs_def.

Theorem C11_am_frame_def :
  forall (K V : Type) (i : nat) (m m' : map K V),
  am_frame i m m' <->
  WF m' /\
  cap m' = cap m /\
  len m' = len m /\
  List.map fst (Spec.elems m') = List.map fst (Spec.elems m) /\
  (forall j : nat, j <> i -> nth_error (Spec.elems m') j = nth_error (Spec.elems m) j).
Proof. exact (@am_frame_def). Qed.
Print Assumptions C11_am_frame_def.

Theorem C11_ins_self_def :
  forall (K V : Type) (ck : K -> N) (m : map K V) (k : K) (v : V) (u : bool),
  ins_self ck m k v u =
  match find_idx ck (ck k) (Spec.elems m) with
  | Some i =>
      match nth_error (Spec.elems m) i with
      | Some (k0, _) => set_slot_m m i (Some (if u then (k, v) else (k0, v)))
      | None => m
      end
  | None => set_len_m (set_slot_m m (len m) (Some (k, v))) (S (len m))
  end.
Proof. exact (@ins_self_def). Qed.
Print Assumptions C11_ins_self_def.

Theorem C11_rir_self_def :
  forall (K V : Type) (m : map K V) (i : nat),
  rir_self m i =
  (if i =? len m - 1
   then {| len := len m - 1; slots := upd (slots m) i None |}
   else
    match nth_error (slots m) (len m - 1) with
    | Some (Some q) =>
        {| len := len m - 1; slots := upd (upd (upd (slots m) i None) (len m - 1) None) i (Some q) |}
    | _ => m
    end).
Proof. exact (@rir_self_def). Qed.
Print Assumptions C11_rir_self_def.

Theorem C11_rm_self_def :
  forall (K V : Type) (ck : K -> N) (m : map K V) (c : N),
  rm_self ck m c = match find_idx ck c (Spec.elems m) with
                   | Some j => rir_self m j
                   | None => m
                   end.
Proof. exact (@rm_self_def). Qed.
Print Assumptions C11_rm_self_def.

Theorem C11_rm_self_elems :
  forall (K V : Type) (ck : K -> N) (m : map K V) (c : N),
  WF m -> Spec.elems (rm_self ck m c) = fst (l_remove ck (Spec.elems m) c).
Proof. exact (@rm_self_elems). Qed.
Print Assumptions C11_rm_self_elems.


(* ---------------------------------------------------------------------- *)
(* Finding 1.  OccupiedEntry insert / remove / remove_entry / get and        *)
(* VacantEntry insert have the same results and effects as the direct        *)
(* map operations on that key.  Hypotheses: lawful environment, well-formed  *)
(* container; q is any borrowed form of k (cq q = ck k).                     *)
(* ---------------------------------------------------------------------- *)

(* entry(k) then OccupiedEntry::insert(v) / VacantEntry::insert(v)  IS
   Map::insert(k, v): same result (old value / None / panic), same container
   slot for slot, same log (present: the supplied key object is destroyed on
   both sides; absent and full: both panic, value then key destroyed) *)

Theorem C11_entry_insert_is_insert :
  forall (K V Q T : Type) (E : env K V Q T) (debug : bool) (ck : K -> N) (cq : Q -> N),
  Lawful E ck cq ->
  forall (k : K) (v : V) (w : world K V T),
  WF (self w) -> obs ((e <- entry_of E k ;; match e with Occupied i => o <- occ_insert i v ;; ret (Some o) | Vacant k' => _ <- vac_insert E debug k' v ;; ret None end) w) = obs (insert E debug k v w).
Proof. exact (@entry_insert_is_insert). Qed.
Print Assumptions C11_entry_insert_is_insert.


(* entry(k) then OccupiedEntry::remove() (a Vacant entry is dropped) against
   Map::remove(q): same result r, same container; the logs differ by exactly
   one thing — the entry side has destroyed the supplied key object k FIRST
   (entry(k) consumed it), then both destroy the stored key object k0 *)

Theorem C11_entry_remove_vs_remove :
  forall (K V Q T : Type) (E : env K V Q T) (debug : bool) (ck : K -> N) (cq : Q -> N),
  Lawful E ck cq ->
  forall (k : K) (q : Q) (w : world K V T),
  WF (self w) ->
  cq q = ck k ->
  let r := option_map snd (snd (l_remove ck (Spec.elems (self w)) (ck k))) in
  let evs :=
    match snd (l_remove ck (Spec.elems (self w)) (ck k)) with
    | Some (k0, _) => ev_drops (idK E k0)
    | None => []
    end in
  obs ((e <- entry_of E k ;; match e with Occupied i => v <- occ_remove E debug i ;; ret (Some v) | Vacant k' => drop_key E k' ;; ret None end) w) =
  Some (Some r, rm_self ck (self w) (ck k), log w ++ ev_drops (idK E k) ++ evs) /\
  obs (remove E debug q w) = Some (Some r, rm_self ck (self w) (ck k), log w ++ evs).
Proof. exact (@entry_remove_vs_remove). Qed.
Print Assumptions C11_entry_remove_vs_remove.


(* remove_entry: the stored pair is handed out on both sides, nothing but the
   supplied key (entry side only) is destroyed *)

Theorem C11_entry_remove_entry_vs_remove_entry :
  forall (K V Q T : Type) (E : env K V Q T) (debug : bool) (ck : K -> N) (cq : Q -> N),
  Lawful E ck cq ->
  forall (k : K) (q : Q) (w : world K V T),
  WF (self w) ->
  cq q = ck k ->
  let r := snd (l_remove ck (Spec.elems (self w)) (ck k)) in
  obs ((e <- entry_of E k ;; match e with Occupied i => p <- occ_remove_entry debug i ;; ret (Some p) | Vacant k' => drop_key E k' ;; ret None end) w) =
  Some (Some r, rm_self ck (self w) (ck k), log w ++ ev_drops (idK E k)) /\
  obs (remove_entry E debug q w) = Some (Some r, rm_self ck (self w) (ck k), log w).
Proof. exact (@entry_remove_entry_vs_remove_entry). Qed.
Print Assumptions C11_entry_remove_entry_vs_remove_entry.


(* OccupiedEntry::get against Map::get: the same slot, container untouched *)

Theorem C11_entry_get_vs_get :
  forall (K V Q T : Type) (E : env K V Q T) (ck : K -> N) (cq : Q -> N),
  Lawful E ck cq ->
  forall (k : K) (q : Q) (w : world K V T),
  WF (self w) ->
  cq q = ck k ->
  let r := find_idx ck (ck k) (Spec.elems (self w)) in
  obs ((e <- entry_of E k ;; match e with Occupied i => j <- occ_get i ;; ret (Some j) | Vacant k' => drop_key E k' ;; ret None end) w) = Some (Some r, self w, log w ++ ev_drops (idK E k)) /\
  obs (get E q w) = Some (Some r, self w, log w).
Proof. exact (@entry_get_vs_get). Qed.
Print Assumptions C11_entry_get_vs_get.


(* entry(k).or_insert(v) IS
     if !self.contains_key(q) { self.insert(k, v); } else { drop k, v };  &mut self[q]
   — same slot returned, same container, same log; both panic exactly when k is
   absent and the map full, with the same log *)

Theorem C11_or_insert_is_direct :
  forall (K V Q T : Type) (E : env K V Q T) (debug : bool) (ck : K -> N) (cq : Q -> N),
  Lawful E ck cq ->
  forall (k : K) (q : Q) (v : V) (w : world K V T),
  WF (self w) ->
  cq q = ck k ->
  obs ((e <- entry_of E k;; or_insert E debug e v) w) = obs ((b <- contains_key E q ;; (if b then drop_key E k ;; drop_val E v else (_ <- insert E debug k v ;; ret tt)) ;; index_mut E q) w).
Proof. exact (@or_insert_is_direct). Qed.
Print Assumptions C11_or_insert_is_direct.


(* ---------------------------------------------------------------------- *)
(* Finding 2.  "every entry method chain".                                  *)
(* ---------------------------------------------------------------------- *)

(* the methods on a bare entry, by definition *)

Theorem C11_or_insert_with_occ_eq :
  forall (K V Q T : Type) (E : env K V Q T) (debug : bool) (j : nat) (f : T -> option V * T),
  or_insert_with E debug (Occupied j) f = occ_into_mut j.
Proof. exact (@or_insert_with_occ_eq). Qed.
Print Assumptions C11_or_insert_with_occ_eq.

Theorem C11_or_insert_with_key_occ_eq :
  forall (K V Q T : Type) (E : env K V Q T) (debug : bool) (j : nat) (f : K -> T -> option V * T),
  or_insert_with_key E debug (Occupied j) f = occ_into_mut j.
Proof. exact (@or_insert_with_key_occ_eq). Qed.
Print Assumptions C11_or_insert_with_key_occ_eq.

Theorem C11_or_insert_occ_eq :
  forall (K V Q T : Type) (E : env K V Q T) (debug : bool) (j : nat) (v : V),
  or_insert E debug (Occupied j) v = i <- occ_into_mut j;; drop_val E v;; ret i.
Proof. exact (@or_insert_occ_eq). Qed.
Print Assumptions C11_or_insert_occ_eq.

Theorem C11_entry_key_occ_eq :
  forall (K V T : Type) (j : nat), @entry_key K V T (Occupied j) = i <- occ_key j;; ret (inl i).
Proof. exact (@entry_key_occ_eq). Qed.
Print Assumptions C11_entry_key_occ_eq.

Theorem C11_and_modify_vac_eq :
  forall (K V T : Type) (k : K) (f : (@modf_t V T)), @and_modify K V T (Vacant k) f = ret (Vacant k).
Proof. exact (@and_modify_vac_eq). Qed.
Print Assumptions C11_and_modify_vac_eq.

Theorem C11_and_modify_all_vacant_run :
  forall (K V T : Type) (k : K) (fs : list (@modf_t V T)) (w : world K V T),
  and_modify_all (Vacant k) fs w = Ok (Vacant k) w.
Proof. exact (@and_modify_all_vacant_run). Qed.
Print Assumptions C11_and_modify_all_vacant_run.


(* the frame of a chain of and_modify with ARBITRARY closures (they may read and
   change the callback state and may panic).  Premise `Safety3.entry_ok e m`:
   an Occupied i designates a live slot (i < len m) — what entry(k) returns;
   the audit's statement without it is false (and_modify uses unchecked access).
   Normal return: the entry is the same, every closure ran once; a panic: some
   closure (the n-th, 1 <= n <= length fs) panicked; in both cases am_frame. *)

Theorem C11_and_modify_all_frame :
  forall (K V T : Type) (fs : list (@modf_t V T)) (e : @entry K) (w : world K V T),
  WF (self w) ->
  Safety3.entry_ok e (self w) ->
  wp (and_modify_all e fs)
    (fun (e' : @entry K) (w' : world K V T) =>
     e' = e /\
     match e with
     | Occupied i => am_frame i (self w) (self w') /\ logged w w' (repeat (EvCall 3) (length fs))
     | Vacant _ => w' = w
     end)
    (fun w' : world K V T =>
     match e with
     | Occupied i =>
         am_frame i (self w) (self w') /\
         (exists n : nat, 1 <= n <= length fs /\ logged w w' (repeat (EvCall 3) n))
     | Vacant _ => False
     end) w.
Proof. exact (@and_modify_all_frame). Qed.
Print Assumptions C11_and_modify_all_frame.


(* the form proposed by the audit (plus entry_ok) *)

Theorem C11_and_modify_all_frame_keys :
  forall (K V T : Type) (fs : list (@modf_t V T)) (e : @entry K) (w : world K V T),
  WF (self w) ->
  Safety3.entry_ok e (self w) ->
  wp (and_modify_all e fs)
    (fun (e' : @entry K) (w' : world K V T) =>
     e' = e /\ WF (self w') /\ List.map fst (Spec.elems (self w')) = List.map fst (Spec.elems (self w)))
    (fun w' : world K V T =>
     WF (self w') /\ List.map fst (Spec.elems (self w')) = List.map fst (Spec.elems (self w))) w.
Proof. exact (@and_modify_all_frame_keys). Qed.
Print Assumptions C11_and_modify_all_frame_keys.

Theorem C11_am_frame_slot :
  forall (K V : Type) (i : nat) (m m' : map K V) (k0 : K) (v0 : V),
  am_frame i m m' ->
  nth_error (Spec.elems m) i = Some (k0, v0) -> exists v' : V, nth_error (Spec.elems m') i = Some (k0, v').
Proof. exact (@am_frame_slot). Qed.
Print Assumptions C11_am_frame_slot.

Theorem C11_am_frame_lookup :
  forall (K V : Type) (ck : K -> N) (i : nat) (m m' : map K V) (k0 : K) (v0 : V) (c : N),
  am_frame i m m' ->
  nth_error (Spec.elems m) i = Some (k0, v0) -> c <> ck k0 -> lookup ck (Spec.elems m') c = lookup ck (Spec.elems m) c.
Proof. exact (@am_frame_lookup). Qed.
Print Assumptions C11_am_frame_lookup.


(* COMPOSITION.  Absent key: for EVERY terminal Tm the chain of and_modify
   disappears — the program IS entry(k) followed by Tm, so every theorem about
   `e <- entry_of E k ;; Tm e` on an absent key (C11_or_insert_with_vacant_exact,
   C11_vac_insert_lawful, ...) applies verbatim *)

Theorem C11_chain_vacant_skip :
  forall (K V Q T : Type) (E : env K V Q T) (ck : K -> N) (cq : Q -> N),
  Lawful E ck cq ->
  forall (A : Type) (k : K) (fs : list (@modf_t V T)) (Tm : @entry K -> M K V T A) (w : world K V T),
  WF (self w) ->
  find_idx ck (ck k) (Spec.elems (self w)) = None ->
  (e <- entry_of E k;; e' <- and_modify_all e fs;; Tm e') w = (e <- entry_of E k;; Tm e) w.
Proof. exact (@chain_vacant_skip). Qed.
Print Assumptions C11_chain_vacant_skip.


(* Present key (slot j): the terminal runs on Occupied j in a world w1 related to
   the start by am_frame and by the log of entry(k) and of the closures; if a
   closure panics the terminal does not run *)

Theorem C11_chain_occupied :
  forall (K V Q T : Type) (E : env K V Q T) (ck : K -> N) (cq : Q -> N),
  Lawful E ck cq ->
  forall (A : Type) (k : K) (fs : list (@modf_t V T)) (Tm : @entry K -> M K V T A) (j : nat)
    (Qn : A -> world K V T -> Prop) (Qp : world K V T -> Prop) (w : world K V T),
  WF (self w) ->
  find_idx ck (ck k) (Spec.elems (self w)) = Some j ->
  (forall w1 : world K V T,
   am_frame j (self w) (self w1) ->
   logged w w1 (ev_drops (idK E k) ++ repeat (EvCall 3) (length fs)) -> wp (Tm (Occupied j)) Qn Qp w1) ->
  (forall (w1 : world K V T) (n : nat),
   am_frame j (self w) (self w1) ->
   1 <= n <= length fs -> logged w w1 (ev_drops (idK E k) ++ repeat (EvCall 3) n) -> Qp w1) ->
  wp (e <- entry_of E k;; e' <- and_modify_all e fs;; Tm e') Qn Qp w.
Proof. exact (@chain_occupied). Qed.
Print Assumptions C11_chain_occupied.


(* the instances, present key at slot j; the panic exit is always "a closure
   panicked" *)

Theorem C11_chain_or_insert_with :
  forall (K V Q T : Type) (E : env K V Q T) (debug : bool) (ck : K -> N) (cq : Q -> N),
  Lawful E ck cq ->
  forall (k : K) (fs : list (@modf_t V T)) (f : T -> option V * T) (j : nat) (w : world K V T),
  WF (self w) ->
  find_idx ck (ck k) (Spec.elems (self w)) = Some j ->
  wp (e <- entry_of E k;; e' <- and_modify_all e fs;; or_insert_with E debug e' f)
    (fun (i : nat) (w' : world K V T) =>
     i = j /\
     am_frame j (self w) (self w') /\ logged w w' (ev_drops (idK E k) ++ repeat (EvCall 3) (length fs)))
    (fun w' : world K V T => am_frame j (self w) (self w') /\ exists n : nat, 1 <= n <= length fs /\ logged w w' (ev_drops (idK E k) ++ repeat (EvCall 3) n)) w.
Proof. exact (@chain_or_insert_with). Qed.
Print Assumptions C11_chain_or_insert_with.

Theorem C11_chain_or_insert_with_key :
  forall (K V Q T : Type) (E : env K V Q T) (debug : bool) (ck : K -> N) (cq : Q -> N),
  Lawful E ck cq ->
  forall (k : K) (fs : list (@modf_t V T)) (f : K -> T -> option V * T) (j : nat) (w : world K V T),
  WF (self w) ->
  find_idx ck (ck k) (Spec.elems (self w)) = Some j ->
  wp (e <- entry_of E k;; e' <- and_modify_all e fs;; or_insert_with_key E debug e' f)
    (fun (i : nat) (w' : world K V T) =>
     i = j /\
     am_frame j (self w) (self w') /\ logged w w' (ev_drops (idK E k) ++ repeat (EvCall 3) (length fs)))
    (fun w' : world K V T => am_frame j (self w) (self w') /\ exists n : nat, 1 <= n <= length fs /\ logged w w' (ev_drops (idK E k) ++ repeat (EvCall 3) n)) w.
Proof. exact (@chain_or_insert_with_key). Qed.
Print Assumptions C11_chain_or_insert_with_key.

Theorem C11_chain_key :
  forall (K V Q T : Type) (E : env K V Q T) (ck : K -> N) (cq : Q -> N),
  Lawful E ck cq ->
  forall (k : K) (fs : list (@modf_t V T)) (j : nat) (w : world K V T),
  WF (self w) ->
  find_idx ck (ck k) (Spec.elems (self w)) = Some j ->
  wp (e <- entry_of E k;; e' <- and_modify_all e fs;; entry_key e')
    (fun (r : nat + K) (w' : world K V T) =>
     r = inl j /\
     am_frame j (self w) (self w') /\ logged w w' (ev_drops (idK E k) ++ repeat (EvCall 3) (length fs)))
    (fun w' : world K V T => am_frame j (self w) (self w') /\ exists n : nat, 1 <= n <= length fs /\ logged w w' (ev_drops (idK E k) ++ repeat (EvCall 3) n)) w.
Proof. exact (@chain_key). Qed.
Print Assumptions C11_chain_key.

Theorem C11_chain_get :
  forall (K V Q T : Type) (E : env K V Q T) (ck : K -> N) (cq : Q -> N),
  Lawful E ck cq ->
  forall (k : K) (fs : list (@modf_t V T)) (j : nat) (w : world K V T),
  WF (self w) ->
  find_idx ck (ck k) (Spec.elems (self w)) = Some j ->
  wp (e <- entry_of E k;; e' <- and_modify_all e fs;; match e' with Occupied i => j0 <- occ_get i ;; ret (Some j0) | Vacant k' => drop_key E k' ;; ret None end)
    (fun (r : option nat) (w' : world K V T) =>
     r = Some j /\
     am_frame j (self w) (self w') /\ logged w w' (ev_drops (idK E k) ++ repeat (EvCall 3) (length fs)))
    (fun w' : world K V T => am_frame j (self w) (self w') /\ exists n : nat, 1 <= n <= length fs /\ logged w w' (ev_drops (idK E k) ++ repeat (EvCall 3) n)) w.
Proof. exact (@chain_get). Qed.
Print Assumptions C11_chain_get.

Theorem C11_chain_or_insert :
  forall (K V Q T : Type) (E : env K V Q T) (debug : bool) (ck : K -> N) (cq : Q -> N),
  Lawful E ck cq ->
  forall (k : K) (fs : list (@modf_t V T)) (v : V) (j : nat) (w : world K V T),
  WF (self w) ->
  find_idx ck (ck k) (Spec.elems (self w)) = Some j ->
  wp (e <- entry_of E k;; e' <- and_modify_all e fs;; or_insert E debug e' v)
    (fun (i : nat) (w' : world K V T) =>
     i = j /\
     am_frame j (self w) (self w') /\
     logged w w' (ev_drops (idK E k) ++ repeat (EvCall 3) (length fs) ++ ev_drops (idV E v)))
    (fun w' : world K V T => am_frame j (self w) (self w') /\ exists n : nat, 1 <= n <= length fs /\ logged w w' (ev_drops (idK E k) ++ repeat (EvCall 3) n)) w.
Proof. exact (@chain_or_insert). Qed.
Print Assumptions C11_chain_or_insert.

Theorem C11_chain_insert :
  forall (K V Q T : Type) (E : env K V Q T) (debug : bool) (ck : K -> N) (cq : Q -> N),
  Lawful E ck cq ->
  forall (k : K) (fs : list (@modf_t V T)) (v : V) (j : nat) (k0 : K) (v0 : V) (w : world K V T),
  WF (self w) ->
  find_idx ck (ck k) (Spec.elems (self w)) = Some j ->
  nth_error (Spec.elems (self w)) j = Some (k0, v0) ->
  wp (e <- entry_of E k;; e' <- and_modify_all e fs;; match e' with Occupied i => o <- occ_insert i v ;; ret (Some o) | Vacant k' => _ <- vac_insert E debug k' v ;; ret None end)
    (fun (r : option V) (w' : world K V T) =>
     (exists v' : V, r = Some v') /\
     am_frame j (self w) (self w') /\
     nth_error (Spec.elems (self w')) j = Some (k0, v) /\
     logged w w' (ev_drops (idK E k) ++ repeat (EvCall 3) (length fs))) (fun w' : world K V T => am_frame j (self w) (self w') /\ exists n : nat, 1 <= n <= length fs /\ logged w w' (ev_drops (idK E k) ++ repeat (EvCall 3) n)) w.
Proof. exact (@chain_insert). Qed.
Print Assumptions C11_chain_insert.

Theorem C11_chain_remove_entry :
  forall (K V Q T : Type) (E : env K V Q T) (debug : bool) (ck : K -> N) (cq : Q -> N),
  Lawful E ck cq ->
  forall (k : K) (fs : list (@modf_t V T)) (j : nat) (k0 : K) (v0 : V) (w : world K V T),
  WF (self w) ->
  find_idx ck (ck k) (Spec.elems (self w)) = Some j ->
  nth_error (Spec.elems (self w)) j = Some (k0, v0) ->
  wp (e <- entry_of E k;; e' <- and_modify_all e fs;; match e' with Occupied i => p <- occ_remove_entry debug i ;; ret (Some p) | Vacant k' => drop_key E k' ;; ret None end)
    (fun (r : option (K * V)) (w' : world K V T) =>
     exists (v' : V) (l1 : list (K * V)),
       r = Some (k0, v') /\
       WF (self w') /\
       cap (self w') = cap (self w) /\
       l1 = upd (Spec.elems (self w)) j (k0, v') /\
       Spec.elems (self w') = swap_remove l1 j /\
       logged w w' (ev_drops (idK E k) ++ repeat (EvCall 3) (length fs))) (fun w' : world K V T => am_frame j (self w) (self w') /\ exists n : nat, 1 <= n <= length fs /\ logged w w' (ev_drops (idK E k) ++ repeat (EvCall 3) n)) w.
Proof. exact (@chain_remove_entry). Qed.
Print Assumptions C11_chain_remove_entry.

Theorem C11_chain_remove :
  forall (K V Q T : Type) (E : env K V Q T) (debug : bool) (ck : K -> N) (cq : Q -> N),
  Lawful E ck cq ->
  forall (k : K) (fs : list (@modf_t V T)) (j : nat) (k0 : K) (v0 : V) (w : world K V T),
  WF (self w) ->
  find_idx ck (ck k) (Spec.elems (self w)) = Some j ->
  nth_error (Spec.elems (self w)) j = Some (k0, v0) ->
  wp (e <- entry_of E k;; e' <- and_modify_all e fs;; match e' with Occupied i => x <- occ_remove E debug i ;; ret (Some x) | Vacant k' => drop_key E k' ;; ret None end)
    (fun (r : option V) (w' : world K V T) =>
     exists (v' : V) (l1 : list (K * V)),
       r = Some v' /\
       WF (self w') /\
       cap (self w') = cap (self w) /\
       l1 = upd (Spec.elems (self w)) j (k0, v') /\
       Spec.elems (self w') = swap_remove l1 j /\
       logged w w' (ev_drops (idK E k) ++ repeat (EvCall 3) (length fs) ++ ev_drops (idK E k0)))
    (fun w' : world K V T => am_frame j (self w) (self w') /\ exists n : nat, 1 <= n <= length fs /\ logged w w' (ev_drops (idK E k) ++ repeat (EvCall 3) n)) w.
Proof. exact (@chain_remove). Qed.
Print Assumptions C11_chain_remove.


(* ---------------------------------------------------------------------- *)
(* Finding 3.  QUANTIFIER "every reachable map state": the hypotheses WF     *)
(* and Uniq are discharged — wf is the state reached from Map::new() of ANY   *)
(* capacity n by ANY history ops, under a lawful environment.                 *)
(* ---------------------------------------------------------------------- *)

Theorem C11_reachable2_inv :
  forall (K V Q T : Type) (E : env K V Q T) (debug : bool) (ck : K -> N) (cq : Q -> N),
  Lawful E ck cq ->
  forall (n : nat) (ops : list (@dop2 K V Q)) (s : T) (lg : list event),
  exists wf : world K V T,
    mfinal2 E debug ops {| cb := s; log := lg; self := new_map n |} = Some wf /\
    WF (self wf) /\ Uniq ck (Spec.elems (self wf)) /\ cap (self wf) = n.
Proof. exact (@reachable2_inv). Qed.
Print Assumptions C11_reachable2_inv.

Theorem C11_reachable2_elim :
  forall (K V Q T : Type) (E : env K V Q T) (debug : bool) (ck : K -> N) (cq : Q -> N),
  Lawful E ck cq ->
  forall P : world K V T -> Prop,
  (forall w : world K V T, WF (self w) -> Uniq ck (Spec.elems (self w)) -> P w) ->
  forall (n : nat) (ops : list (@dop2 K V Q)) (s : T) (lg : list event),
  exists wf : world K V T,
    mfinal2 E debug ops {| cb := s; log := lg; self := new_map n |} = Some wf /\ P wf.
Proof. exact (@reachable2_elim). Qed.
Print Assumptions C11_reachable2_elim.

Theorem C11_entry_of_reachable :
  forall (K V Q T : Type) (E : env K V Q T) (debug : bool) (ck : K -> N) (cq : Q -> N),
  Lawful E ck cq ->
  forall (n : nat) (ops : list (@dop2 K V Q)) (s : T) (lg : list event),
  exists wf : world K V T,
    mfinal2 E debug ops {| cb := s; log := lg; self := new_map n |} = Some wf /\
    (forall k : K,
     wp (entry_of E k)
       (fun (e : @entry K) (w' : world K V T) =>
        self w' = self wf /\
        cb w' = entry_cb E ck k (Spec.elems (self wf)) (cb wf) /\
        match find_idx ck (ck k) (Spec.elems (self wf)) with
        | Some i => e = Occupied i /\ logged wf w' (ev_drops (idK E k))
        | None => e = Vacant k /\ log w' = log wf
        end) (fun _ : world K V T => False) wf).
Proof. exact (@entry_of_reachable). Qed.
Print Assumptions C11_entry_of_reachable.

Theorem C11_or_insert_reachable :
  forall (K V Q T : Type) (E : env K V Q T) (debug : bool) (ck : K -> N) (cq : Q -> N),
  Lawful E ck cq ->
  forall (n : nat) (ops : list (@dop2 K V Q)) (s : T) (lg : list event),
  exists wf : world K V T,
    mfinal2 E debug ops {| cb := s; log := lg; self := new_map n |} = Some wf /\
    (forall (k : K) (v : V),
     wp (e <- entry_of E k;; or_insert E debug e v)
       (fun (i : nat) (w' : world K V T) =>
        WF (self w') /\
        cap (self w') = cap (self wf) /\
        match find_idx ck (ck k) (Spec.elems (self wf)) with
        | Some j =>
            i = j /\ self w' = self wf /\ logged wf w' (ev_drops (idK E k) ++ ev_drops (idV E v))
        | None =>
            i = length (Spec.elems (self wf)) /\
            Spec.elems (self w') = Spec.elems (self wf) ++ [(k, v)] /\ log w' = log wf
        end)
       (fun w' : world K V T =>
        self w' = self wf /\
        logged wf w' (ev_drops (idV E v ++ idK E k)) /\
        find_idx ck (ck k) (Spec.elems (self wf)) = None /\ len (self wf) = cap (self wf)) wf).
Proof. exact (@or_insert_reachable). Qed.
Print Assumptions C11_or_insert_reachable.

Theorem C11_or_insert_with_reachable :
  forall (K V Q T : Type) (E : env K V Q T) (debug : bool) (ck : K -> N) (cq : Q -> N),
  Lawful E ck cq ->
  forall (n : nat) (ops : list (@dop2 K V Q)) (s : T) (lg : list event),
  exists wf : world K V T,
    mfinal2 E debug ops {| cb := s; log := lg; self := new_map n |} = Some wf /\
    (forall (k : K) (f : T -> option V * T),
     match find_idx ck (ck k) (Spec.elems (self wf)) with
     | Some j =>
         wp (e <- entry_of E k;; or_insert_with E debug e f)
           (fun (i : nat) (w' : world K V T) =>
            i = j /\
            self w' = self wf /\
            logged wf w' (ev_drops (idK E k)) /\
            (exists (k0 : K) (v0 : V), nth_error (Spec.elems (self w')) j = Some (k0, v0) /\ ck k0 = ck k))
           (fun _ : world K V T => False) wf
     | None =>
         forall (v : V) (s' : T),
         f (scan_cb E k (Spec.elems (self wf)) (cb wf)) = (Some v, s') ->
         wp (e <- entry_of E k;; or_insert_with E debug e f)
           (fun (i : nat) (w' : world K V T) =>
            WF (self w') /\
            cap (self w') = cap (self wf) /\
            Spec.elems (self w') = Spec.elems (self wf) ++ [(k, v)] /\
            i = length (Spec.elems (self wf)) /\ logged wf w' [EvCall 2] /\ len (self wf) < cap (self wf))
           (fun w' : world K V T =>
            self w' = self wf /\
            logged wf w' ([EvCall 2] ++ ev_drops (idV E v ++ idK E k)) /\ len (self wf) = cap (self wf))
           wf
     end).
Proof. exact (@or_insert_with_reachable). Qed.
Print Assumptions C11_or_insert_with_reachable.

Theorem C11_and_modify_others_reachable :
  forall (K V Q T : Type) (E : env K V Q T) (debug : bool) (ck : K -> N) (cq : Q -> N),
  Lawful E ck cq ->
  forall (n : nat) (ops : list (@dop2 K V Q)) (s : T) (lg : list event),
  exists wf : world K V T,
    mfinal2 E debug ops {| cb := s; log := lg; self := new_map n |} = Some wf /\
    (forall (k : K) (f : (@modf_t V T)),
     wp (e <- entry_of E k;; and_modify e f)
       (fun (_ : @entry K) (w' : world K V T) =>
        List.map fst (Spec.elems (self w')) = List.map fst (Spec.elems (self wf)) /\
        (forall c : N, c <> ck k -> lookup ck (Spec.elems (self w')) c = lookup ck (Spec.elems (self wf)) c))
       (fun w' : world K V T =>
        List.map fst (Spec.elems (self w')) = List.map fst (Spec.elems (self wf)) /\
        (forall c : N, c <> ck k -> lookup ck (Spec.elems (self w')) c = lookup ck (Spec.elems (self wf)) c)) wf).
Proof. exact (@and_modify_others_reachable). Qed.
Print Assumptions C11_and_modify_others_reachable.

Theorem C11_entry_remove_others_reachable :
  forall (K V Q T : Type) (E : env K V Q T) (debug : bool) (ck : K -> N) (cq : Q -> N),
  Lawful E ck cq ->
  forall (n : nat) (ops : list (@dop2 K V Q)) (s : T) (lg : list event),
  exists wf : world K V T,
    mfinal2 E debug ops {| cb := s; log := lg; self := new_map n |} = Some wf /\
    (forall (k : K) (j : nat),
     find_idx ck (ck k) (Spec.elems (self wf)) = Some j ->
     wp (e <- entry_of E k;; match e with
                             | Occupied i => occ_remove E debug i
                             | Vacant _ => panic
                             end)
       (fun (v : V) (w' : world K V T) =>
        exists k0 : K,
          nth_error (Spec.elems (self wf)) j = Some (k0, v) /\
          ck k0 = ck k /\
          logged wf w' (ev_drops (idK E k) ++ ev_drops (idK E k0)) /\
          lookup ck (Spec.elems (self w')) (ck k) = None /\
          (forall c : N, c <> ck k -> lookup ck (Spec.elems (self w')) c = lookup ck (Spec.elems (self wf)) c))
       (fun _ : world K V T => False) wf).
Proof. exact (@entry_remove_others_reachable). Qed.
Print Assumptions C11_entry_remove_others_reachable.

Theorem C11_entry_vs_direct_reachable :
  forall (K V Q T : Type) (E : env K V Q T) (debug : bool) (ck : K -> N) (cq : Q -> N),
  Lawful E ck cq ->
  forall (n : nat) (ops : list (@dop2 K V Q)) (s : T) (lg : list event),
  exists wf : world K V T,
    mfinal2 E debug ops {| cb := s; log := lg; self := new_map n |} = Some wf /\
    (forall (k : K) (v : V), obs ((e <- entry_of E k ;; match e with Occupied i => o <- occ_insert i v ;; ret (Some o) | Vacant k' => _ <- vac_insert E debug k' v ;; ret None end) wf) = obs (insert E debug k v wf)) /\
    (forall (k : K) (q : Q) (v : V),
     cq q = ck k ->
     obs ((e <- entry_of E k;; or_insert E debug e v) wf) = obs ((b <- contains_key E q ;; (if b then drop_key E k ;; drop_val E v else (_ <- insert E debug k v ;; ret tt)) ;; index_mut E q) wf)).
Proof. exact (@entry_vs_direct_reachable). Qed.
Print Assumptions C11_entry_vs_direct_reachable.


(* ---------------------------------------------------------------------- *)
(* Finding 4.  chain-level panic exits of the interpreter's chains when the  *)
(* closure panics (closure_fault sc, and the next closure call is the faulty *)
(* one: n_call (cb w) = sc_fa sc).  Chains 1, 2, 3 (absent key): the closure  *)
(* was called once, nothing is inserted, the container is untouched, and the  *)
(* supplied key — owned by the VacantEntry — is destroyed exactly once.       *)
(* Chain 4 (present key): the and_modify closure ran once; what it left in    *)
(* the slot stays (the scripted closure panics before writing: the content is *)
(* unchanged; for an arbitrary closure see C11_and_modify_stateful); the      *)
(* supplied key was destroyed by entry(k); or_insert does not run.            *)
(* ---------------------------------------------------------------------- *)

Theorem C11_env_map_lawful_cf :
  forall sc : script, closure_fault sc -> Lawful (env_map sc) kcls qcls.
Proof. exact (@env_map_lawful_cf). Qed.
Print Assumptions C11_env_map_lawful_cf.

Theorem C11_chain1_closure_panics :
  forall (debug : bool) (sc : script),
  closure_fault sc ->
  forall (k : key) (v : vobj) (w : world key vobj cstate),
  WF (self w) ->
  find_idx kcls (kcls k) (Spec.elems (self w)) = None ->
  n_call (cb w) = sc_fa sc ->
  wp (entry_chain debug sc k 1 v) (fun (_ : list N) (_ : world key vobj cstate) => False)
    (fun w' : world key vobj cstate => self w' = self w /\ logged w w' [EvCall 2; EvDrop (kid k)]) w.
Proof. exact (@chain1_closure_panics). Qed.
Print Assumptions C11_chain1_closure_panics.

Theorem C11_chain2_closure_panics :
  forall (debug : bool) (sc : script),
  closure_fault sc ->
  forall (k : key) (v : vobj) (w : world key vobj cstate),
  WF (self w) ->
  find_idx kcls (kcls k) (Spec.elems (self w)) = None ->
  n_call (cb w) = sc_fa sc ->
  wp (entry_chain debug sc k 2 v) (fun (_ : list N) (_ : world key vobj cstate) => False)
    (fun w' : world key vobj cstate => self w' = self w /\ logged w w' [EvCall 2; EvDrop (kid k)]) w.
Proof. exact (@chain2_closure_panics). Qed.
Print Assumptions C11_chain2_closure_panics.

Theorem C11_chain3_closure_panics :
  forall (debug : bool) (sc : script),
  closure_fault sc ->
  forall (k : key) (v : vobj) (w : world key vobj cstate),
  WF (self w) ->
  find_idx kcls (kcls k) (Spec.elems (self w)) = None ->
  n_call (cb w) = sc_fa sc ->
  wp (entry_chain debug sc k 3 v) (fun (_ : list N) (_ : world key vobj cstate) => False)
    (fun w' : world key vobj cstate => self w' = self w /\ logged w w' [EvCall 2; EvDrop (kid k)]) w.
Proof. exact (@chain3_closure_panics). Qed.
Print Assumptions C11_chain3_closure_panics.

Theorem C11_chain4_closure_panics :
  forall (debug : bool) (sc : script),
  closure_fault sc ->
  forall (k : key) (v : vobj) (j : nat) (w : world key vobj cstate),
  WF (self w) ->
  find_idx kcls (kcls k) (Spec.elems (self w)) = Some j ->
  n_call (cb w) = sc_fa sc ->
  wp (entry_chain debug sc k 4 v) (fun (_ : list N) (_ : world key vobj cstate) => False)
    (fun w' : world key vobj cstate =>
     WF (self w') /\
     cap (self w') = cap (self w) /\
     Spec.elems (self w') = Spec.elems (self w) /\ logged w w' [EvDrop (kid k); EvCall 3]) w.
Proof. exact (@chain4_closure_panics). Qed.
Print Assumptions C11_chain4_closure_panics.

(* ---------------------------------------------------------------------- *)
(* non-vacuity of the second closure: concrete runs                         *)
(* ---------------------------------------------------------------------- *)

(* the equations of finding 1 on m3 (full, classes 5 6 7): both sides computed.
   Present key (class 6): old value returned, supplied K90 destroyed on both
   sides; absent key on the full map: both panic, V91 then K90 destroyed;
   remove: the entry side's log has the extra leading EvDrop 90 *)
Example C11_example_obs :
  let sc0 := {| sc_adv := false; sc_seed := 0; sc_fk := 0; sc_fa := 0 |} in
  let E := env_map sc0 in
  let m' : map key vobj :=
    {| len := 3; slots := [Some (k_ 1 5, v_ 2 7); Some (k_ 3 6, v_ 91 0); Some (k_ 5 7, v_ 6 9)] |} in
  let m2 : map key vobj :=
    {| len := 2; slots := [Some (k_ 1 5, v_ 2 7); Some (k_ 5 7, v_ 6 9); None] |} in
  obs ((e <- entry_of E (k_ 90 6) ;;
        match e with
        | Occupied i => o <- occ_insert i (v_ 91 0) ;; ret (Some o)
        | Vacant k' => _ <- vac_insert E true k' (v_ 91 0) ;; ret None
        end) (w_of m3)) = Some (Some (Some (v_ 4 8)), m', [EvDrop 90]) /\
  obs (insert E true (k_ 90 6) (v_ 91 0) (w_of m3)) = Some (Some (Some (v_ 4 8)), m', [EvDrop 90]) /\
  obs ((e <- entry_of E (k_ 90 9) ;;
        match e with
        | Occupied i => o <- occ_insert i (v_ 91 0) ;; ret (Some o)
        | Vacant k' => _ <- vac_insert E true k' (v_ 91 0) ;; ret None
        end) (w_of m3)) = Some (None, m3, [EvDrop 91; EvDrop 90]) /\
  obs (insert E true (k_ 90 9) (v_ 91 0) (w_of m3)) = Some (None, m3, [EvDrop 91; EvDrop 90]) /\
  obs ((e <- entry_of E (k_ 90 6) ;;
        match e with
        | Occupied i => v <- occ_remove E true i ;; ret (Some v)
        | Vacant k' => drop_key E k' ;; ret None
        end) (w_of m3)) = Some (Some (Some (v_ 4 8)), m2, [EvDrop 90; EvDrop 3]) /\
  obs (remove E true (QCls 6) (w_of m3)) = Some (Some (Some (v_ 4 8)), m2, [EvDrop 3]) /\
  rm_self kcls m3 6 = m2 /\ ins_self kcls m3 (k_ 90 6) (v_ 91 0) false = m'.
Proof. vm_compute. repeat split; reflexivity. Qed.

(* chains with stateful / panicking closures on the middle slot of m3:
   +100, +100, then remove_entry hands out the STORED key object K3 with 208;
   +100, then a closure that writes 55 and panics: the terminal (or_insert_with)
   does not run, its closure is never called, 55 stays under K3 *)
Example C11_example_chains2 :
  let sc0 := {| sc_adv := false; sc_seed := 0; sc_fk := 0; sc_fa := 0 |} in
  let E := env_map sc0 in
  match (e <- entry_of E (k_ 90 6) ;; e' <- and_modify_all e [modf_add sc0; modf_add sc0] ;;
         match e' with
         | Occupied i => p <- occ_remove_entry true i ;; ret (Some p)
         | Vacant k' => drop_key E k' ;; ret None
         end) (w_of m3) with
  | Ok r w' => r = Some (k_ 3 6, v_ 4 208) /\ log w' = [EvDrop 90; EvCall 3; EvCall 3] /\
               Spec.elems (self w') = [(k_ 1 5, v_ 2 7); (k_ 5 7, v_ 6 9)]
  | _ => False
  end /\
  match (e <- entry_of E (k_ 90 6) ;;
         e' <- and_modify_all e [modf_add sc0;
                                 fun (s : cstate) (x : vobj) => ((true, v_ (vid x) 55), s)] ;;
         or_insert_with E true e' (mk_val sc0 (v_ 91 0))) (w_of m3) with
  | Panic w' => log w' = [EvDrop 90; EvCall 3; EvCall 3] /\
                Spec.elems (self w') = [(k_ 1 5, v_ 2 7); (k_ 3 6, v_ 4 55); (k_ 5 7, v_ 6 9)]
  | _ => False
  end /\
  (* absent key: the modifiers are skipped *)
  (e <- entry_of E (k_ 90 9) ;; e' <- and_modify_all e [modf_add sc0; modf_add sc0] ;;
   or_insert E true e' (v_ 91 0)) (w_of m3) =
  (e <- entry_of E (k_ 90 9) ;; or_insert E true e (v_ 91 0)) (w_of m3).
Proof. vm_compute. repeat split; reflexivity. Qed.

(* a script whose first closure call panics: chains 1, 2, 3 on an absent key
   (map m with a spare slot) and chain 4 on a present key (m3) *)
Example C11_example_closure_fault :
  let scf := {| sc_adv := false; sc_seed := 0; sc_fk := 4; sc_fa := 0 |} in
  let m : map key vobj := {| len := 3; slots := slots m3 ++ [None] |} in
  closure_fault scf /\ n_call (cb (w_of m)) = sc_fa scf /\
  find_idx kcls (kcls (k_ 90 9)) (Spec.elems m) = None /\
  match entry_chain true scf (k_ 90 9) 1 (v_ 91 0) (w_of m) with
  | Panic w' => self w' = m /\ log w' = [EvCall 2; EvDrop 90]
  | _ => False
  end /\
  match entry_chain true scf (k_ 90 9) 2 (v_ 91 0) (w_of m) with
  | Panic w' => self w' = m /\ log w' = [EvCall 2; EvDrop 90]
  | _ => False
  end /\
  match entry_chain true scf (k_ 90 9) 3 (v_ 91 0) (w_of m) with
  | Panic w' => self w' = m /\ log w' = [EvCall 2; EvDrop 90]
  | _ => False
  end /\
  match entry_chain true scf (k_ 90 6) 4 (v_ 91 0) (w_of m3) with
  | Panic w' => Spec.elems (self w') = Spec.elems m3 /\ log w' = [EvDrop 90; EvCall 3]
  | _ => False
  end.
Proof. vm_compute. repeat split; reflexivity. Qed.

(* a reachable state: Map::new() of capacity 2, insert K1, entry(K90 = K1).or_insert
   (kept: K1), insert K2, insert K3 (overflow: panics, state unchanged) *)
Example C11_example_reachable :
  let sc0 := {| sc_adv := false; sc_seed := 0; sc_fk := 0; sc_fa := 0 |} in
  let ops : list (@dop2 key vobj query) :=
    [DBase (DInsert (k_ 1 6) (v_ 2 7)); DOrInsert (k_ 90 6) (v_ 91 8);
     DBase (DInsert (k_ 3 7) (v_ 4 9)); DBase (DInsert (k_ 5 8) (v_ 6 9))] in
  match mfinal2 (env_map sc0) true ops {| cb := cs0; log := []; self := new_map 2 |} with
  | Some wf => Spec.elems (self wf) = [(k_ 1 6, v_ 2 7); (k_ 3 7, v_ 4 9)] /\ cap (self wf) = 2
  | None => False
  end.
Proof. vm_compute. repeat split; reflexivity. Qed.

(* ------------------------------------------------------------------------
   OPERAND-DETERMINED == THAT IS NO EQUIVALENCE (Proofs/PureEq.v).
   [Related E ck cq R]: the user's == answers an arbitrary relation R on the
   classes of its operands, stored key on the LEFT, supplied key / borrowed
   needle on the RIGHT (the order every scan of the crate uses); R need be
   neither reflexive nor symmetric nor transitive.  [find_rel ck R c l] is the
   first stored key k with R (ck k) c.  "entry(k) is Occupied exactly when k is
   present" then still holds in the only sense available: entry and the direct
   lookups find the SAME slot, because they put the operands the same way
   round.  (A change that swaps the operands in one of them breaks exactly
   these theorems; the interpreter's fifth kind of misbehaving ==, a <= on
   classes, makes that observable in the correspondence.)
   ------------------------------------------------------------------------ *)
Theorem C11_entry_of_any_relation :
  forall (K V Q T : Type) (E : env K V Q T) (ck : K -> N) (cq : Q -> N) (R : N -> N -> bool)
         (HR : Related E ck cq R) (k : K) (w : world K V T),
    WF (self w) ->
    wp (entry_of E k)
       (fun (e : @entry K) (w' : world K V T) =>
          self w' = self w /\
          match find_rel ck R (ck k) (Spec.elems (self w)) with
          | Some i => e = Occupied i /\ logged w w' (ev_drops (idK E k))
          | None => e = Vacant k /\ log w' = log w
          end)
       (fun _ : world K V T => False) w.
Proof. exact (fun K V Q T E ck cq R HR => entry_of_rel E ck cq R HR). Qed.
Print Assumptions C11_entry_of_any_relation.

Theorem C11_get_any_relation :
  forall (K V Q T : Type) (E : env K V Q T) (ck : K -> N) (cq : Q -> N) (R : N -> N -> bool)
         (HR : Related E ck cq R) (q : Q) (w : world K V T),
    WF (self w) ->
    wp (get E q)
       (fun (r : option nat) (w' : world K V T) =>
          stable w w' /\ r = find_rel ck R (cq q) (Spec.elems (self w)))
       (fun _ : world K V T => False) w.
Proof. exact (fun K V Q T E ck cq R HR => get_rel E ck cq R HR). Qed.
Print Assumptions C11_get_any_relation.

Theorem C11_entry_get_agree_any_relation :
  forall (K V Q T : Type) (E : env K V Q T) (ck : K -> N) (cq : Q -> N) (R : N -> N -> bool)
         (HR : Related E ck cq R) (k : K) (q : Q) (w : world K V T),
    ck k = cq q -> WF (self w) ->
    wp (entry_of E k)
       (fun (r : @entry K) (_ : world K V T) =>
          wp (get E q)
             (fun (g : option nat) (_ : world K V T) =>
                match r with Occupied i => g = Some i | Vacant _ => g = None end)
             (fun _ : world K V T => False) w)
       (fun _ : world K V T => False) w.
Proof. exact (fun K V Q T E ck cq R HR => entry_get_agree_rel E ck cq R HR). Qed.
Print Assumptions C11_entry_get_agree_any_relation.

Theorem C11_entry_contains_agree_any_relation :
  forall (K V Q T : Type) (E : env K V Q T) (ck : K -> N) (cq : Q -> N) (R : N -> N -> bool)
         (HR : Related E ck cq R) (k : K) (q : Q) (w : world K V T),
    ck k = cq q -> WF (self w) ->
    wp (entry_of E k)
       (fun (r : @entry K) (_ : world K V T) =>
          wp (contains_key E q)
             (fun (g : bool) (_ : world K V T) =>
                match r with Occupied _ => g = true | Vacant _ => g = false end)
             (fun _ : world K V T => False) w)
       (fun _ : world K V T => False) w.
Proof. exact (fun K V Q T E ck cq R HR => entry_contains_agree_rel E ck cq R HR). Qed.
Print Assumptions C11_entry_contains_agree_any_relation.

(* ... and for the lookup made AFTER entry(k) returned, in the world it left *)
Theorem C11_entry_then_get_agree_any_relation :
  forall (K V Q T : Type) (E : env K V Q T) (ck : K -> N) (cq : Q -> N) (R : N -> N -> bool)
         (HR : Related E ck cq R) (k : K) (q : Q) (w : world K V T),
    ck k = cq q -> WF (self w) ->
    wp (e <- entry_of E k ;; g <- get E q ;; ret (e, g))
       (fun (r : @entry K * option nat) (_ : world K V T) =>
          match fst r with Occupied i => snd r = Some i | Vacant _ => snd r = None end)
       (fun _ : world K V T => False) w.
Proof. exact (fun K V Q T E ck cq R HR => entry_then_get_agree_rel E ck cq R HR). Qed.
Print Assumptions C11_entry_then_get_agree_any_relation.

(* the hypothesis is met by the interpreter's environment under a script of the fifth kind
   (adversarial, seed mod 5 = 3, no injected fault) with R = "<=" on classes ... *)
Theorem C11_env_map_related :
  forall sc : script, asym sc = true -> sc_fk sc = 0%N -> Related (env_map sc) kcls qcls N.leb.
Proof. exact env_map_related. Qed.
Print Assumptions C11_env_map_related.

Theorem C11_entry_get_agree_asym :
  forall (sc : script) (k : key) (q : query) (w : world key vobj cstate),
    asym sc = true -> sc_fk sc = 0%N -> kcls k = qcls q -> WF (self w) ->
    wp (entry_of (env_map sc) k)
       (fun (r : @entry key) (_ : world key vobj cstate) =>
          wp (get (env_map sc) q)
             (fun (g : option nat) (_ : world key vobj cstate) =>
                match r with Occupied i => g = Some i | Vacant _ => g = None end)
             (fun _ : world key vobj cstate => False) w)
       (fun _ : world key vobj cstate => False) w.
Proof. exact entry_get_agree_asym. Qed.
Print Assumptions C11_entry_get_agree_asym.

(* ... such scripts exist, and under "<=" the side on which the stored key stands decides the slot:
   stored classes [5; 2], needle class 3 *)
Theorem C11_example_operand_order_matters :
  (let sc := {| sc_adv := true; sc_seed := 3; sc_fk := 0; sc_fa := 0 |} in asym sc = true /\ sc_fk sc = 0%N) /\
  find_rel (fun n : N => n) N.leb 3%N [(5%N, tt); (2%N, tt)] = Some 1 /\
  find_rel (fun n : N => n) (fun a b => N.leb b a) 3%N [(5%N, tt); (2%N, tt)] = Some 0.
Proof. exact (conj asym_script_exists (conj find_rel_leb_stored_left find_rel_leb_stored_right)). Qed.
Print Assumptions C11_example_operand_order_matters.

(* the entry chain entry(k).or_insert(v) under ANY operand-determined == (Proofs/PureEqEntry.v): the two scans
   (entry(), then VacantEntry::insert) compute the same find_rel, because nothing changes in between *)
Require Import Proofs.PureEqEntry.

Theorem C11_or_insert_any_relation :
  forall (K V Q T : Type) (E : env K V Q T) (debug : bool) (ck : K -> N) (cq : Q -> N) (R : N -> N -> bool)
         (HR : Related E ck cq R) (k : K) (v : V) (w : world K V T),
    WF (self w) ->
    wp (e <- entry_of E k ;; or_insert E debug e v)
       (fun (i : nat) (w' : world K V T) =>
          WF (self w') /\ cap (self w') = cap (self w) /\
          match find_rel ck R (ck k) (Spec.elems (self w)) with
          | Some j => i = j /\ self w' = self w /\
                      logged w w' (ev_drops (idK E k) ++ ev_drops (idV E v))
          | None => i = len (self w) /\ len (self w) < cap (self w) /\
                    Spec.elems (self w') = Spec.elems (self w) ++ [(k, v)] /\ log w' = log w
          end)
       (fun w' : world K V T =>
          self w' = self w /\ logged w w' (ev_drops (idV E v ++ idK E k)) /\
          find_rel ck R (ck k) (Spec.elems (self w)) = None /\ len (self w) = cap (self w)) w.
Proof. exact (fun K V Q T E debug ck cq R HR => or_insert_rel E debug ck cq R HR). Qed.
Print Assumptions C11_or_insert_any_relation.

(* VacantEntry::insert alone, WITHOUT the assumption that the key is absent (its own scan decides) *)
Theorem C11_vac_insert_any_relation :
  forall (K V Q T : Type) (E : env K V Q T) (debug : bool) (ck : K -> N) (cq : Q -> N) (R : N -> N -> bool)
         (HR : Related E ck cq R) (k : K) (v : V) (w : world K V T),
    WF (self w) ->
    wp (vac_insert E debug k v)
       (fun (i : nat) (w' : world K V T) =>
          WF (self w') /\ cap (self w') = cap (self w) /\
          match find_rel ck R (ck k) (Spec.elems (self w)) with
          | None => log w' = log w /\ Spec.elems (self w') = Spec.elems (self w) ++ [(k, v)] /\
                    i = len (self w) /\ len (self w) < cap (self w)
          | Some j => i = j /\
                      exists k0 v0, nth_error (Spec.elems (self w)) j = Some (k0, v0) /\
                                    R (ck k0) (ck k) = true /\
                                    Spec.elems (self w') = upd (Spec.elems (self w)) j (k0, v) /\
                                    logged w w' (ev_drops (idK E k ++ idV E v0))
          end)
       (fun w' : world K V T =>
          self w' = self w /\ logged w w' (ev_drops (idV E v ++ idK E k)) /\
          find_rel ck R (ck k) (Spec.elems (self w)) = None /\ len (self w) = cap (self w)) w.
Proof. exact (fun K V Q T E debug ck cq R HR => vac_insert_rel E debug ck cq R HR). Qed.
Print Assumptions C11_vac_insert_any_relation.

(* what a lookup sees afterwards: the returned slot in the Occupied case; in the appended case only if the new key is
   related to itself (R need not be reflexive) *)
Theorem C11_or_insert_then_get_any_relation :
  forall (K V Q T : Type) (E : env K V Q T) (debug : bool) (ck : K -> N) (cq : Q -> N) (R : N -> N -> bool)
         (HR : Related E ck cq R) (k : K) (v : V) (q : Q) (w : world K V T),
    ck k = cq q -> WF (self w) ->
    wp (i <- (e <- entry_of E k ;; or_insert E debug e v) ;; g <- get E q ;; ret (i, g))
       (fun (r : nat * option nat) (_ : world K V T) =>
          match find_rel ck R (ck k) (Spec.elems (self w)) with
          | Some j => fst r = j /\ snd r = Some j
          | None => fst r = len (self w) /\
                    snd r = if R (ck k) (cq q) then Some (len (self w)) else None
          end)
       (fun _ : world K V T => find_rel ck R (ck k) (Spec.elems (self w)) = None /\ len (self w) = cap (self w)) w.
Proof. exact (fun K V Q T E debug ck cq R HR => or_insert_get_agree_rel E debug ck cq R HR). Qed.
Print Assumptions C11_or_insert_then_get_any_relation.
