(* ========================================================================== *)
(* C16 — Bulk construction equals inserting the items one by one in order

   STATEMENT (properties.jsonl):
     "Building a Map or Set from an iterator or array (FromIterator/collect,
      From<[_; N]>, Extend) gives exactly the container obtained by inserting
      the items one at a time in order: for repeated keys the last value wins
      and the first key object is kept, repeats do not consume capacity, and
      the source is consumed exactly once, front to back."
   QUANTIFIER:
     "all item sequences (with arbitrary repetition patterns, lengths below, at
      and above N) for all capacities"

   READING GUIDE
   -------------
   Model (Model/MapOps.v, Model/SetOps.v):
     extend_loop E debug nx items   — the loop `for (k, v) in iter { self.insert(k, v); }`
                                      of src/from.rs (and of Extend); [items] is the
                                      sequence the source yields, [nx] is the source's
                                      next() as a callback (it may panic), called once
                                      before every item and once more for the final None;
                                      each call is logged by the model as [EvCall 1];
                                      [on_unwind (unwind_pairs E l) c] (Model/Slots.v) = run c,
                                      and if c panics destroy the pairs of l (EvDrop events +
                                      Drop callbacks) before unwinding further: the items not
                                      yet yielded are locals of the loop's frame (they belong
                                      to the source iterator) and die with it.  It does
                                      nothing when c returns normally;
     from_iter E debug nx items     — the same loop on a fresh container (self = Map::new(),
                                      len 0), with the destructor of the partly built
                                      container run on unwinding (finally_drop).
                                      FromIterator and From<[(K,V); N]> are both this
                                      function (an array source is one whose next() never
                                      panics);
     s_extend_loop / s_from_iter    — the same for Set (src/set/extend.rs, src/set/from.rs),
                                      each item k being inserted as (k, ()).
   Specification vocabulary (Proofs/Spec.v, Proofs/Bulk.v):
     Spec.elems m                   — the live prefix of m as a list, in slot/iteration order;
     l_insert ck l k v false        — the pure single insert on such a list (find the first
                                      entry whose key has class [ck k]: overwrite its VALUE,
                                      keep its KEY; else append (k, v)); it is what
                                      Map::insert computes (Lawful3.insert_lawful, Props/C03.v,
                                      Props/C12.v);
     l_extend ck N l items          — Some l' if inserting the items one by one, in order,
                                      into l under capacity N succeeds with result l';
                                      None if some item of a NEW class arrives while the
                                      list already has N entries (Map::insert panics);
     first_key ck c items           — the key object of the FIRST item of class c;
     last_val ck c items            — the value of the LAST item of class c;
     lookup ck l c                  — the entry of l stored for class c (dictionary view);
     is_pull e                      — "event e is a call of the source's next()" (EvCall 1).
   Premises: [Lawful E ck cq] (== is equality of classes and never panics, Drop never
   panics), [forall s, fst (nx s) <> Boom] (the source's next() does not panic), [WF (self w)]
   (representation invariant; true of every reachable state).

   * "gives exactly the container obtained by inserting the items one at a time in order"
       C16_extend_loop_is_inserts : the loop IS, syntactically, pull / insert / drop the
         displaced value / continue, item by item from the head of the sequence (each of the
         two steps wrapped in the unwinding cleanup of the items the source still holds:
         all remaining items if next() panics, those after the current one if insert or the
         Drop of the displaced value panics);
       C16_extend_loop_lawful     : from ANY well-formed starting container (Extend) it ends
         with elems = the l_extend of the starting elems (capacity unchanged), and it panics
         only if l_extend = None;
       C16_from_iter_lawful       : FromIterator / From<[_; N]>: the same from the empty
         container;
       C16_l_extend_fold          : l_extend is literally a left fold of the single insert
         l_insert over the items, with the overflow check;
       C16_s_extend_loop_lawful, C16_s_from_iter_lawful : the same for Set.
   * "for repeated keys the last value wins and the first key object is kept"
       C16_bulk_lookup : in the result, class c maps to (first_key c items, last_val c items),
         and to nothing if no item has class c.   C16_bulk_uniq : the result has pairwise
         different keys.
   * "repeats do not consume capacity" / lengths below, at and above N
       C16_bulk_size     : the result has exactly as many entries as there are DISTINCT
         classes among the items, however long the sequence is;
       C16_bulk_overflow : the build fails (panics: see the panic postcondition of
         C16_from_iter_lawful) if and only if the items contain MORE than N distinct
         classes.  So a sequence longer than N with at most N distinct keys succeeds.
   * "the source is consumed exactly once, front to back"
       C16_source_pulled_once, C16_from_iter_pulled_once : on normal return the log grew by
         a list of events containing exactly (length items + 1) calls of next(): one per
         item plus the final one that returns None.  "Front to back" is the order in which
         C16_extend_loop_is_inserts / l_extend walk the list (head first).
       C16_s_source_pulled_once : the same count for Set (s_extend_loop).

   PARTLY COVERED / NOT COVERED BY A THEOREM
     - the pull count is stated for normal return only (panic postcondition True); the Set
       twin is now C16_s_source_pulled_once (for the loop s_extend_loop; there is no Set
       analogue of C16_from_iter_pulled_once: s_from_iter is `finally_drop` around that loop).
     - a source whose next() panics, or an unlawful ==: only memory safety and the absence of
       leaks/double drops are claimed (Safety2.from_iter_safe, Safety2.keeps_extend_loop,
       Safety3.s_from_iter_safe in Props/C04.v; Owned.from_iter_acct in Props/C02.v).
     - that Rust's FromIterator, From<[_; N]> and Extend impls are this loop, and that the
       array source cannot panic, is the correspondence check's business (ops OFromIter with
       arr = true/false, SFromIter, SExtend).                                              *)
(* ========================================================================== *)
Require Import Model.Base Model.Slots Model.MapOps Model.SetOps Model.Exec.
Require Import Proofs.Hoare Proofs.Inv Proofs.Safety Proofs.Safety2 Proofs.Spec Proofs.Lawful Proofs.Lawful2 Proofs.Lawful3.
Require Import Proofs.Bulk Proofs.FmtSerde Proofs.Legacy.

(* -------------------------------------------------------------------------- *)
(* Bulk.extend_loop_is_inserts                                                 *)
Theorem C16_extend_loop_is_inserts :
  forall (K V Q T : Type) (E : env K V Q T) (debug : bool) (nx : T -> ans * T) (items : list (K * V)),
    extend_loop E debug nx items =
    (fix go (its : list (K * V)) : M K V T unit :=
       match its with
       | [] => call_next nx
       | (k, v) :: rest =>
           on_unwind (unwind_pairs E its) (call_next nx) ;;
           on_unwind (unwind_pairs E rest) (old <- insert E debug k v ;; drop_opt_val E old) ;;
           go rest
       end) items.
Proof. exact (@extend_loop_is_inserts). Qed.
Print Assumptions C16_extend_loop_is_inserts.

(* -------------------------------------------------------------------------- *)
(* Bulk.extend_loop_lawful                                                     *)
Theorem C16_extend_loop_lawful :
  forall (K V Q T : Type) (E : env K V Q T) (debug : bool) (ck : K -> N) (cq : Q -> N),
    Lawful E ck cq ->
    forall (nx : T -> ans * T) (items : list (K * V)) (w : world K V T),
      (forall s : T, fst (nx s) <> Boom) ->
      WF (self w) ->
      wp (extend_loop E debug nx items)
         (fun (_ : unit) (w' : world K V T) =>
            WF (self w') /\
            cap (self w') = cap (self w) /\
            l_extend ck (cap (self w)) (Spec.elems (self w)) items = Some (Spec.elems (self w')))
         (fun w' : world K V T =>
            WF (self w') /\
            cap (self w') = cap (self w) /\
            l_extend ck (cap (self w)) (Spec.elems (self w)) items = None)
         w.
Proof. exact (@extend_loop_lawful). Qed.
Print Assumptions C16_extend_loop_lawful.

(* -------------------------------------------------------------------------- *)
(* Bulk.source_pulled_once                                                     *)
Theorem C16_source_pulled_once :
  forall (K V Q T : Type) (E : env K V Q T) (debug : bool) (ck : K -> N) (cq : Q -> N),
    Lawful E ck cq ->
    forall (nx : T -> ans * T) (items : list (K * V)) (w : world K V T),
      (forall s : T, fst (nx s) <> Boom) ->
      WF (self w) ->
      wp (extend_loop E debug nx items)
         (fun (_ : unit) (w' : world K V T) =>
            exists evs : list event,
              log w' = log w ++ evs /\ length (filter is_pull evs) = S (length items))
         (fun _ : world K V T => True)
         w.
Proof. exact (@source_pulled_once). Qed.
Print Assumptions C16_source_pulled_once.

(* -------------------------------------------------------------------------- *)
(* Bulk.from_iter_lawful                                                       *)
Theorem C16_from_iter_lawful :
  forall (K V Q T : Type) (E : env K V Q T) (debug : bool) (ck : K -> N) (cq : Q -> N),
    Lawful E ck cq ->
    forall (nx : T -> ans * T) (items : list (K * V)) (w : world K V T),
      (forall s : T, fst (nx s) <> Boom) ->
      WF (self w) ->
      len (self w) = 0 ->
      wp (from_iter E debug nx items)
         (fun (_ : unit) (w' : world K V T) =>
            WF (self w') /\
            cap (self w') = cap (self w) /\
            l_extend ck (cap (self w)) [] items = Some (Spec.elems (self w')))
         (fun _ : world K V T => l_extend ck (cap (self w)) [] items = None)
         w.
Proof. exact (@from_iter_lawful). Qed.
Print Assumptions C16_from_iter_lawful.

(* -------------------------------------------------------------------------- *)
(* Bulk.from_iter_pulled_once                                                  *)
Theorem C16_from_iter_pulled_once :
  forall (K V Q T : Type) (E : env K V Q T) (debug : bool) (ck : K -> N) (cq : Q -> N),
    Lawful E ck cq ->
    forall (nx : T -> ans * T) (items : list (K * V)) (w : world K V T),
      (forall s : T, fst (nx s) <> Boom) ->
      WF (self w) ->
      wp (from_iter E debug nx items)
         (fun (_ : unit) (w' : world K V T) =>
            exists evs : list event,
              log w' = log w ++ evs /\ length (filter is_pull evs) = S (length items))
         (fun _ : world K V T => True)
         w.
Proof. exact (@from_iter_pulled_once). Qed.
Print Assumptions C16_from_iter_pulled_once.

(* -------------------------------------------------------------------------- *)
(* Bulk.bulk_uniq, bulk_lookup, bulk_size, bulk_overflow — the pure content     *)
Theorem C16_bulk_uniq :
  forall (K V : Type) (ck : K -> N) (n : nat) (items res : list (K * V)),
    l_extend ck n [] items = Some res -> Uniq ck res.
Proof. exact (@bulk_uniq). Qed.
Print Assumptions C16_bulk_uniq.

Theorem C16_bulk_lookup :
  forall (K V : Type) (ck : K -> N) (n : nat) (items res : list (K * V)) (c : N),
    l_extend ck n [] items = Some res ->
    lookup ck res c =
    match first_key ck c items, last_val ck c items with
    | Some k, Some v => Some (k, v)
    | _, _ => None
    end.
Proof. exact (@bulk_lookup). Qed.
Print Assumptions C16_bulk_lookup.

Theorem C16_bulk_size :
  forall (K V : Type) (ck : K -> N) (n : nat) (items res : list (K * V)),
    l_extend ck n [] items = Some res ->
    length res = length (nodup N.eq_dec (List.map (fun p : K * V => ck (fst p)) items)).
Proof. exact (@bulk_size). Qed.
Print Assumptions C16_bulk_size.

Theorem C16_bulk_overflow :
  forall (K V : Type) (ck : K -> N) (n : nat) (items : list (K * V)),
    l_extend ck n [] items = None <->
    n < length (nodup N.eq_dec (List.map (fun p : K * V => ck (fst p)) items)).
Proof. exact (@bulk_overflow). Qed.
Print Assumptions C16_bulk_overflow.

(* -------------------------------------------------------------------------- *)
(* Bulk.s_extend_loop_lawful, s_from_iter_lawful — Set                         *)
Theorem C16_s_extend_loop_lawful :
  forall (K Q T : Type) (E : env K unit Q T) (debug : bool) (ck : K -> N) (cq : Q -> N),
    Lawful E ck cq ->
    forall (nx : T -> ans * T) (items : list K) (w : world K unit T),
      (forall s : T, fst (nx s) <> Boom) ->
      WF (self w) ->
      wp (s_extend_loop E debug nx items)
         (fun (_ : unit) (w' : world K unit T) =>
            WF (self w') /\
            cap (self w') = cap (self w) /\
            l_extend ck (cap (self w)) (Spec.elems (self w)) (List.map (fun k : K => (k, tt)) items) =
            Some (Spec.elems (self w')))
         (fun w' : world K unit T =>
            WF (self w') /\
            cap (self w') = cap (self w) /\
            l_extend ck (cap (self w)) (Spec.elems (self w)) (List.map (fun k : K => (k, tt)) items) = None)
         w.
Proof. exact (@s_extend_loop_lawful). Qed.
Print Assumptions C16_s_extend_loop_lawful.

Theorem C16_s_from_iter_lawful :
  forall (K Q T : Type) (E : env K unit Q T) (debug : bool) (ck : K -> N) (cq : Q -> N),
    Lawful E ck cq ->
    forall (nx : T -> ans * T) (items : list K) (w : world K unit T),
      (forall s : T, fst (nx s) <> Boom) ->
      WF (self w) ->
      len (self w) = 0 ->
      wp (s_from_iter E debug nx items)
         (fun (_ : unit) (w' : world K unit T) =>
            WF (self w') /\
            cap (self w') = cap (self w) /\
            l_extend ck (cap (self w)) [] (List.map (fun k : K => (k, tt)) items) =
            Some (Spec.elems (self w')))
         (fun _ : world K unit T =>
            l_extend ck (cap (self w)) [] (List.map (fun k : K => (k, tt)) items) = None)
         w.
Proof. exact (@s_from_iter_lawful). Qed.
Print Assumptions C16_s_from_iter_lawful.

(* Bulk.s_source_pulled_once: the Set twin of C16_source_pulled_once - Set::extend
   (and hence collect / From<[T; N]>) pulls its source exactly length items + 1
   times on normal return *)
Theorem C16_s_source_pulled_once :
  forall (K Q T : Type) (E : env K unit Q T) (debug : bool) (ck : K -> N) (cq : Q -> N),
    Lawful E ck cq ->
    forall (nx : T -> ans * T) (items : list K) (w : world K unit T),
      (forall s : T, fst (nx s) <> Boom) ->
      WF (self w) ->
      wp (s_extend_loop E debug nx items)
         (fun (_ : unit) (w' : world K unit T) =>
            exists evs : list event,
              log w' = log w ++ evs /\ length (filter is_pull evs) = S (length items))
         (fun _ : world K unit T => True)
         w.
Proof. exact (@s_source_pulled_once). Qed.
Print Assumptions C16_s_source_pulled_once.

(* -------------------------------------------------------------------------- *)
(* Bulk.l_extend_fold                                                          *)
Theorem C16_l_extend_fold :
  forall (K V : Type) (ck : K -> N) (n : nat) (l items : list (K * V)),
    l_extend ck n l items =
    fold_left
      (fun (acc : option (list (K * V))) (p : K * V) =>
         match acc with
         | Some a =>
             if length (fst (fst (l_insert ck a (fst p) (snd p) false))) <=? n
             then Some (fst (fst (l_insert ck a (fst p) (snd p) false)))
             else
               if match find_idx ck (ck (fst p)) a with
                  | Some _ => true
                  | None => false
                  end
               then Some (fst (fst (l_insert ck a (fst p) (snd p) false)))
               else None
         | None => None
         end)
      items (Some l).
Proof. exact (@l_extend_fold). Qed.
Print Assumptions C16_l_extend_fold.

(* -------------------------------------------------------------------------- *)
(* Non-vacuity.  Three items, two distinct keys (classes 5, 6, 5), capacity 2:
   longer than N but at most N distinct keys.                                  *)
Definition C16_sc0 : script := {| sc_adv := false; sc_seed := 0; sc_fk := 0; sc_fa := 0 |}.
Definition C16_items : list (key * vobj) := [(k_ 1 5, v_ 2 7); (k_ 3 6, v_ 4 8); (k_ 5 5, v_ 6 9)].

Example C16_example_honest : honest C16_sc0.
Proof. split; reflexivity. Qed.

Example C16_example_lawful_map : Lawful (env_map C16_sc0) kcls qcls.
Proof. exact (env_map_lawful C16_sc0 C16_example_honest). Qed.

Example C16_example_lawful_set : Lawful (env_set C16_sc0) kcls qcls.
Proof. exact (env_set_lawful C16_sc0 C16_example_honest). Qed.

Example C16_example_source_ok : forall s : cstate, fst (nx_none s) <> Boom.
Proof. intros s. cbn. discriminate. Qed.

Example C16_example_start :
  WF (self (w_of (new_map 2))) /\ len (self (w_of (new_map 2))) = 0.
Proof. split; [apply WF_new | reflexivity]. Qed.

(* Extend starts from a non-empty container as well *)
Example C16_example_start_nonempty : WF (self (w_of m3)).
Proof. exact m3_WF. Qed.

(* the pure machine: the first key object of class 5 (K1) is kept, the last
   value of class 5 (V6 d9) wins, two entries for three items *)
Example C16_example_l_extend :
  l_extend kcls 2 [] C16_items = Some [(k_ 1 5, v_ 6 9); (k_ 3 6, v_ 4 8)].
Proof. vm_compute. reflexivity. Qed.

Example C16_example_lookup :
  lookup kcls [(k_ 1 5, v_ 6 9); (k_ 3 6, v_ 4 8)] 5 = Some (k_ 1 5, v_ 6 9) /\
  first_key kcls 5 C16_items = Some (k_ 1 5) /\ last_val kcls 5 C16_items = Some (v_ 6 9).
Proof. vm_compute. repeat split. Qed.

(* capacity 1 is too small for two distinct keys *)
Example C16_example_overflow :
  l_extend kcls 1 [] C16_items = None /\
  length (nodup N.eq_dec (List.map (fun p : key * vobj => kcls (fst p)) C16_items)) = 2.
Proof. vm_compute. split; reflexivity. Qed.

(* the model run: 4 calls of next() (EvCall 1) for 3 items; the duplicate key
   object K5 and the displaced value V2 are destroyed *)
Example C16_example_run :
  from_iter (env_map C16_sc0) false nx_none C16_items (w_of (new_map 2)) =
  Ok tt
     {| cb := {| n_eq := 2; n_clone := 0; n_call := 0; next_id := 100000 |};
        log := [EvCall 1; EvCall 1; EvCall 1; EvDrop 5; EvDrop 2; EvCall 1];
        self := {| len := 2;
                   slots := [Some (k_ 1 5, v_ 6 9); Some (k_ 3 6, v_ 4 8)] |} |}.
Proof. vm_compute. reflexivity. Qed.

Example C16_example_run_overflow :
  match from_iter (env_map C16_sc0) false nx_none C16_items (w_of (new_map 1)) with
  | Panic _ => True
  | _ => False
  end.
Proof. vm_compute. exact I. Qed.

Example C16_example_run_set :
  s_from_iter (env_set C16_sc0) false nx_none [k_ 1 5; k_ 3 6; k_ 5 5]
              {| cb := cs0; log := []; self := new_map 2 |} =
  Ok tt
     {| cb := {| n_eq := 2; n_clone := 0; n_call := 0; next_id := 100000 |};
        log := [EvCall 1; EvCall 1; EvCall 1; EvDrop 5; EvCall 1];
        self := {| len := 2; slots := [Some (k_ 1 5, tt); Some (k_ 3 6, tt)] |} |}.
Proof. vm_compute. reflexivity. Qed.

(* Set::extend onto a non-empty set: 3 items, 4 pulls (EvCall 1 is next()) *)
Example C16_example_run_set_extend :
  match s_extend_loop (env_set C16_sc0) false nx_none [k_ 1 5; k_ 3 6; k_ 5 5]
                      {| cb := cs0; log := []; self := new_map 2 |} with
  | Ok _ w' => length (filter is_pull (log w')) = 4 /\ len (self w') = 2
  | _ => False
  end.
Proof. vm_compute. split; reflexivity. Qed.
