(* ========================================================================== *)
(* C18 — Unsafe fast paths equal their safe counterparts whenever their
         contract is met

   STATEMENT (properties.jsonl):
     "insert_unchecked, whenever the map is not full or the key is already
      present, behaves exactly like insert; get_disjoint_unchecked_mut,
      whenever the requested keys are pairwise different, behaves exactly like
      get_disjoint_mut. Within those preconditions both uphold every other
      guarantee (ownership, key uniqueness, bounds, stored-key identity)."
   QUANTIFIER:
     "every reachable state x every argument satisfying the documented
      precondition"

   READING GUIDE
   -------------
   Model (Model/MapOps.v):
     insert_ii E debug k v u   — src/map.rs:699-724, the scan-based find-or-append used by
                                 insert (u = update_key);  insert = insert_ii .. false, then
                                 the displaced key is destroyed and the old value returned;
     insert_i  E debug k v u   — src/map.rs:666-694, the hand-written loop with unchecked slot
                                 accessors (moves the found pair OUT of its slot and writes it
                                 back with the new value); insert_unchecked = insert_i .. false,
                                 then the same tail as insert;
     scan (test_k E k)         — the linear search `stored == k` both of them start with; its
                                 outcome [Ok (Some i) _] is what "the key is already present"
                                 means operationally (for a lawful == this is "a key of the
                                 same class is stored": Lawful.scan_lawful);
     get_disjoint_mut / get_disjoint_unchecked_mut — src/map.rs:464-566; the references handed
                                 out are identified by their slot index (option nat per
                                 requested key).
   A computation is a function world -> outcome (Ok result world' | Panic world' | UB), so an
   EQUATION  insert_unchecked E debug k v w = insert E debug k v w  says: same outcome kind
   (in particular no UB on one side only), same returned value, same container, same event
   log (drops), same callback state — "behaves exactly like".

   * "insert_unchecked, whenever the map is not full ..., behaves exactly like insert"
       C18_insert_unchecked_eq_insert  (len < cap; ANY environment, both values of debug);
       C18_insert_i_eq_insert_ii       the same one level below, for both values of update_key.
   * "... or the key is already present"
       C18_insert_unchecked_eq_insert_found, C18_insert_i_eq_insert_ii_found  (the search
       finds the key; the map may be full; ANY environment).
       C18_insert_unchecked_eq_insert_present : the same with "present" meaning "a key of
       the same class is stored" (find_idx ... = Some i), for a lawful ==;
       C18_insert_unchecked_present_spec : ... composed with insert's specification - on a
       present key, full map or not, release or debug, insert_unchecked returns normally,
       keeps WF / capacity, replaces the value in place, keeps the stored key object,
       returns the old value, destroys the supplied key once.
       C18_insert_i_eq_general combines the cases and adds a third one in which the two also
       coincide: a == comparison panics during the search.
   * "get_disjoint_unchecked_mut, whenever the requested keys are pairwise different, behaves
      exactly like get_disjoint_mut"
       C18_disjoint_unchecked_eq : lawful environment, pairwise different stored keys
       (Uniq), pairwise different requested keys (NoDup of their classes): both return
       normally with THE SAME list of slots, and both leave container and log unchanged
       ([stable]).  The final callback states w1 / w2 are not claimed equal: the checked
       variant performs additional q == q' comparisons (the overlap assertion).  What the
       common result is (the slot get_mut finds for each key) is Disjoint.disjoint_lawful /
       disjoint_unchecked_lawful, Props/C13.v.
   * "within those preconditions both uphold every other guarantee"
       - By the equations above every guarantee proved for insert (ownership: C02; capacity
         and len <= cap: C03; key uniqueness / dictionary semantics: C01; stored-key identity:
         C12; exception safety: C04) transfers verbatim to insert_unchecked on the states
         where the contract holds.  In addition, directly and for ANY environment:
       C18_keeps_insert_unchecked     : with room (or with debug assertions on) it never
         causes UB and keeps the representation invariant and the capacity on return and on
         panic (bounds: nothing written outside the array);
       C18_conserves_insert_unchecked : ... and conserves ownership: every identity handed in
         is afterwards stored, returned or destroyed exactly once ([acct] is a permutation
         between the two ledgers), nothing is lost from a tidy state, nothing is duplicated
         even on panic.
       - get_disjoint_unchecked_mut: no aliasing / in-bounds for ANY environment and any
         requested keys is Safety2.disjoint_unchecked_safe, Props/C13.v and Props/C17.v.
   * the precondition is necessary
       C18_insert_unchecked_contract_needed : on a full (capacity 0) map, an absent key and
       a release build (debug = false) the interpreter reaches the UB observation [3] — as
       documented for the crate's unsafe fn.

   PARTLY COVERED / NOT COVERED BY A THEOREM
     [UPDATE, audit: see the APPENDED SECTION at the end of this file: the
      environment-independent equation between the two disjoint variants incl.
      the final callback state (C18_disjoint_mut_eq_unchecked), insert's full
      specification and key uniqueness for insert_unchecked under the whole
      contract (C18_insert_unchecked_spec, C18_insert_unchecked_keeps_uniq),
      and histories containing insert_unchecked calls (C18_run_u_refines).]
     - C18_keeps_insert_unchecked / C18_conserves_insert_unchecked are stated for "room or
       debug".  For "full, key present, release build": safety, WF, capacity, content, result
       and drops are NOW the composed theorem C18_insert_unchecked_present_spec (lawful ==);
       the ledger form of ownership (acct) in that case still follows only through
       C18_insert_unchecked_eq_insert_present + C02_conserves_insert.
     - CLOSED: "key present" used to be only the operational [scan .. = Ok (Some i) w1];
       C18_insert_unchecked_eq_insert_present states it as "a key of this class is stored"
       for a lawful ==.
     - C18_disjoint_unchecked_eq needs a lawful environment; with lying == only safety is
       claimed (Props/C13.v, C17.v).  The equality of the two final callback states is not
       claimed (and is false: see C18_example_disjoint).                                   *)
(* ========================================================================== *)
Require Import Model.Base Model.Slots Model.MapOps Model.Exec.
Require Import Proofs.Hoare Proofs.Inv Proofs.Safety Proofs.Safety2 Proofs.Spec Proofs.Lawful Proofs.Lawful2.
Require Import Proofs.Disjoint Proofs.Owned Proofs.ExecSafe Proofs.FmtSerde Proofs.Legacy Proofs.Gaps.

(* -------------------------------------------------------------------------- *)
(* Disjoint.insert_i_eq_general                                                *)
Theorem C18_insert_i_eq_general :
  forall (K V Q T : Type) (E : env K V Q T) (debug : bool) (k : K) (v : V) (u : bool) (w : world K V T),
    WF (self w) ->
    len (self w) < cap (self w) \/
    (exists (i : nat) (w1 : world K V T), scan (test_k E k) w = Ok (Some i) w1) \/
    (exists w1 : world K V T, scan (test_k E k) w = Panic w1) ->
    insert_i E debug k v u w = insert_ii E debug k v u w.
Proof. exact (@insert_i_eq_general). Qed.
Print Assumptions C18_insert_i_eq_general.

(* Disjoint.insert_i_eq_insert_ii                                              *)
Theorem C18_insert_i_eq_insert_ii :
  forall (K V Q T : Type) (E : env K V Q T) (debug : bool) (k : K) (v : V) (u : bool) (w : world K V T),
    WF (self w) ->
    len (self w) < cap (self w) ->
    insert_i E debug k v u w = insert_ii E debug k v u w.
Proof. exact (@insert_i_eq_insert_ii). Qed.
Print Assumptions C18_insert_i_eq_insert_ii.

(* Disjoint.insert_unchecked_eq_insert                                         *)
Theorem C18_insert_unchecked_eq_insert :
  forall (K V Q T : Type) (E : env K V Q T) (debug : bool) (k : K) (v : V) (w : world K V T),
    WF (self w) ->
    len (self w) < cap (self w) ->
    insert_unchecked E debug k v w = insert E debug k v w.
Proof. exact (@insert_unchecked_eq_insert). Qed.
Print Assumptions C18_insert_unchecked_eq_insert.

(* Disjoint.insert_i_eq_insert_ii_found                                        *)
Theorem C18_insert_i_eq_insert_ii_found :
  forall (K V Q T : Type) (E : env K V Q T) (debug : bool) (k : K) (v : V) (u : bool)
         (w : world K V T) (i : nat) (w1 : world K V T),
    WF (self w) ->
    scan (test_k E k) w = Ok (Some i) w1 ->
    insert_i E debug k v u w = insert_ii E debug k v u w.
Proof. exact (@insert_i_eq_insert_ii_found). Qed.
Print Assumptions C18_insert_i_eq_insert_ii_found.

(* Disjoint.insert_unchecked_eq_insert_found                                   *)
Theorem C18_insert_unchecked_eq_insert_found :
  forall (K V Q T : Type) (E : env K V Q T) (debug : bool) (k : K) (v : V)
         (w : world K V T) (i : nat) (w1 : world K V T),
    WF (self w) ->
    scan (test_k E k) w = Ok (Some i) w1 ->
    insert_unchecked E debug k v w = insert E debug k v w.
Proof. exact (@insert_unchecked_eq_insert_found). Qed.
Print Assumptions C18_insert_unchecked_eq_insert_found.

(* -------------------------------------------------------------------------- *)
(* Disjoint.disjoint_unchecked_eq                                              *)
Theorem C18_disjoint_unchecked_eq :
  forall (K V Q T : Type) (E : env K V Q T) (ck : K -> N) (cq : Q -> N),
    Lawful E ck cq ->
    forall (ks : list Q) (w : world K V T),
      WF (self w) ->
      Uniq ck (Spec.elems (self w)) ->
      NoDup (List.map cq ks) ->
      exists (r : list (option nat)) (w1 w2 : world K V T),
        get_disjoint_unchecked_mut E ks w = Ok r w1 /\
        get_disjoint_mut E ks w = Ok r w2 /\
        stable w w1 /\ stable w w2.
Proof. exact (@disjoint_unchecked_eq). Qed.
Print Assumptions C18_disjoint_unchecked_eq.

(* -------------------------------------------------------------------------- *)
(* Safety2.keeps_insert_unchecked — every environment                          *)
Theorem C18_keeps_insert_unchecked :
  forall (K V Q T : Type) (E : env K V Q T) (debug : bool) (k : K) (v : V) (w : world K V T),
    WF (self w) ->
    debug = true \/ len (self w) < cap (self w) ->
    wp (insert_unchecked E debug k v)
       (fun (_ : option V) (w' : world K V T) => inv_post w w')
       (fun w' : world K V T => inv_post w w')
       w.
Proof. exact (@Safety2.keeps_insert_unchecked). Qed.
Print Assumptions C18_keeps_insert_unchecked.

(* -------------------------------------------------------------------------- *)
(* Owned.conserves_insert_unchecked — every environment                        *)
Theorem C18_conserves_insert_unchecked :
  forall (K V Q T : Type) (E : env K V Q T) (debug : bool) (k : K) (v : V) (w : world K V T),
    WF (self w) ->
    debug = true \/ len (self w) < cap (self w) ->
    wp (insert_unchecked E debug k v)
       (fun (r : option V) (w' : world K V T) =>
          WF (self w') /\
          cap (self w') = cap (self w) /\
          exists lost : list N,
            acct E w w' (ids_pair E (k, v)) (match r with Some v0 => idV E v0 | None => [] end) lost /\
            (Tidy (self w) -> lost = [] /\ Tidy (self w')))
       (fun w' : world K V T =>
          WF (self w') /\
          cap (self w') = cap (self w) /\
          exists lost : list N, acct E w w' (ids_pair E (k, v)) [] lost)
       w.
Proof. exact (@conserves_insert_unchecked). Qed.
Print Assumptions C18_conserves_insert_unchecked.

(* -------------------------------------------------------------------------- *)
(* ExecSafe.insert_unchecked_contract_needed                                   *)
Theorem C18_insert_unchecked_contract_needed :
  WFx (init_world 0 0 0 0) /\
  fst (step false {| sc_adv := false; sc_seed := 0; sc_fk := 0; sc_fa := 0 |}
            (OInsertUnchecked 0 (mk 1 1) (mv 2 2)) (init_world 0 0 0 0)) = [3%N].
Proof. exact insert_unchecked_contract_needed. Qed.
Print Assumptions C18_insert_unchecked_contract_needed.

(* -------------------------------------------------------------------------- *)
(* Gaps.insert_unchecked_eq_insert_present / insert_unchecked_present_spec:
   "the key is already present" in its SPECIFICATION-level form - a key of the same
   class is stored (find_idx ck (ck k) (Spec.elems (self w)) = Some i), lawful ==,
   the map may be FULL, release or debug build                                   *)
Theorem C18_insert_unchecked_eq_insert_present :
  forall (K V Q T : Type) (E : env K V Q T) (debug : bool) (ck : K -> N) (cq : Q -> N),
    Lawful E ck cq ->
    forall (k : K) (v : V) (i : nat) (w : world K V T),
      WF (self w) ->
      find_idx ck (ck k) (Spec.elems (self w)) = Some i ->
      insert_unchecked E debug k v w = insert E debug k v w.
Proof. exact (@insert_unchecked_eq_insert_present). Qed.
Print Assumptions C18_insert_unchecked_eq_insert_present.

(* ... composed with the specification of insert: in that situation
   insert_unchecked never panics, never reaches UB, keeps WF and the capacity,
   computes the list machine's l_insert (value replaced in place, stored key
   object kept), returns the old value and destroys exactly the supplied
   duplicate key *)
Theorem C18_insert_unchecked_present_spec :
  forall (K V Q T : Type) (E : env K V Q T) (debug : bool) (ck : K -> N) (cq : Q -> N),
    Lawful E ck cq ->
    forall (k : K) (v : V) (i : nat) (w : world K V T),
      WF (self w) ->
      find_idx ck (ck k) (Spec.elems (self w)) = Some i ->
      wp (insert_unchecked E debug k v)
         (fun (r : option V) (w' : world K V T) =>
            WF (self w') /\
            cap (self w') = cap (self w) /\
            Spec.elems (self w') = fst (fst (l_insert ck (Spec.elems (self w)) k v false)) /\
            r = option_map snd (snd (l_insert ck (Spec.elems (self w)) k v false)) /\
            logged w w' (match snd (l_insert ck (Spec.elems (self w)) k v false) with
                         | Some (k', _) => ev_drops (idK E k')
                         | None => []
                         end))
         (fun _ : world K V T => False)
         w.
Proof. exact (@insert_unchecked_present_spec). Qed.
Print Assumptions C18_insert_unchecked_present_spec.

(* -------------------------------------------------------------------------- *)
(* Non-vacuity.  m3 (Proofs/Legacy.v): full, 3 entries of classes 5, 6, 7,
   capacity 3.  C18_m1: one entry, capacity 2 (room left).                     *)
Definition C18_sc0 : script := {| sc_adv := false; sc_seed := 0; sc_fk := 0; sc_fa := 0 |}.
Definition C18_m1 : map key vobj := {| len := 1; slots := [Some (k_ 1 5, v_ 2 7); None] |}.

Example C18_example_WF_full : WF (self (w_of m3)) /\ len (self (w_of m3)) = cap (self (w_of m3)).
Proof. split; [exact m3_WF | reflexivity]. Qed.

Example C18_example_WF_room : WF (self (w_of C18_m1)) /\ len (self (w_of C18_m1)) < cap (self (w_of C18_m1)).
Proof.
  split; [|cbn; lia]. split; [cbn; lia|]. intros i Hi. cbn [self w_of len C18_m1] in Hi.
  destruct i as [|i]; [eexists; reflexivity | lia].
Qed.

Example C18_example_Tidy_room : Tidy (self (w_of C18_m1)).
Proof.
  intros i Hi Hn. cbn [self w_of len C18_m1] in Hi.
  destruct i as [|[|i]]; [lia | reflexivity | exfalso; apply Hn; destruct i; reflexivity].
Qed.

Example C18_example_honest : honest C18_sc0.
Proof. split; reflexivity. Qed.

Example C18_example_lawful : Lawful (env_map C18_sc0) kcls qcls.
Proof. exact (env_map_lawful C18_sc0 C18_example_honest). Qed.

Example C18_example_Uniq : Uniq kcls (Spec.elems (self (w_of m3))).
Proof.
  unfold Uniq. vm_compute.
  repeat (constructor; [cbn [In]; intuition discriminate|]). constructor.
Qed.

(* "key already present" on the FULL map m3: the search for a key of class 6 finds slot 1 *)
Example C18_example_found :
  exists w1, scan (test_k (env_map C18_sc0) (k_ 9 6)) (w_of m3) = Ok (Some 1) w1.
Proof. eexists. vm_compute. reflexivity. Qed.

(* ... and insert_unchecked does what insert does: value replaced, STORED key
   object K3 kept, the supplied duplicate K9 destroyed, old value V4 returned *)
Example C18_example_run_found :
  insert_unchecked (env_map C18_sc0) false (k_ 9 6) (v_ 10 1) (w_of m3) =
  Ok (Some (v_ 4 8))
     {| cb := {| n_eq := 2; n_clone := 0; n_call := 0; next_id := 100000 |};
        log := [EvDrop 9];
        self := {| len := 3;
                   slots := [Some (k_ 1 5, v_ 2 7); Some (k_ 3 6, v_ 10 1); Some (k_ 5 7, v_ 6 9)] |} |}
  /\ insert (env_map C18_sc0) false (k_ 9 6) (v_ 10 1) (w_of m3) =
     insert_unchecked (env_map C18_sc0) false (k_ 9 6) (v_ 10 1) (w_of m3).
Proof. split; vm_compute; reflexivity. Qed.

(* room left, key absent: appended *)
Example C18_example_run_room :
  insert_unchecked (env_map C18_sc0) false (k_ 9 6) (v_ 10 1) (w_of C18_m1) =
  Ok None
     {| cb := {| n_eq := 1; n_clone := 0; n_call := 0; next_id := 100000 |};
        log := [];
        self := {| len := 2; slots := [Some (k_ 1 5, v_ 2 7); Some (k_ 9 6, v_ 10 1)] |} |}.
Proof. vm_compute. reflexivity. Qed.

(* three pairwise different requested keys (classes 7, 1, 5) on m3: the same
   slots from both variants, container and log untouched; the checked variant
   has made 3 more comparisons (n_eq 10 vs 7) *)
Example C18_example_disjoint_distinct : NoDup (List.map qcls [QCls 7; QCls 1; QCls 5]).
Proof.
  vm_compute. repeat (constructor; [cbn [In]; intuition discriminate|]). constructor.
Qed.

Example C18_example_disjoint :
  get_disjoint_unchecked_mut (env_map C18_sc0) [QCls 7; QCls 1; QCls 5] (w_of m3) =
    Ok [Some 2; None; Some 0]
       {| cb := {| n_eq := 7; n_clone := 0; n_call := 0; next_id := 100000 |}; log := []; self := m3 |}
  /\
  get_disjoint_mut (env_map C18_sc0) [QCls 7; QCls 1; QCls 5] (w_of m3) =
    Ok [Some 2; None; Some 0]
       {| cb := {| n_eq := 10; n_clone := 0; n_call := 0; next_id := 100000 |}; log := []; self := m3 |}.
Proof. split; vm_compute; reflexivity. Qed.

(* the hypothesis of C18_insert_unchecked_eq_insert_present / _present_spec on the
   FULL map m3: a key of class 6 is stored at slot 1 (the run is C18_example_run_found) *)
Example C18_example_present :
  find_idx kcls (kcls (k_ 9 6)) (Spec.elems (self (w_of m3))) = Some 1 /\
  len (self (w_of m3)) = cap (self (w_of m3)) /\
  l_insert kcls (Spec.elems m3) (k_ 9 6) (v_ 10 1) false
    = ([(k_ 1 5, v_ 2 7); (k_ 3 6, v_ 10 1); (k_ 5 7, v_ 6 9)], 1, Some (k_ 9 6, v_ 4 8)).
Proof. repeat split; vm_compute; reflexivity. Qed.

(* ========================================================================== *)
(* APPENDED SECTION — audit findings closed (Proofs/MoreEq.v)                   *)
(*                                                                            *)
(* 10. get_disjoint_unchecked_mut vs get_disjoint_mut WITHOUT the narrowing      *)
(*     hypotheses of C18_disjoint_unchecked_eq (no Lawful, no Uniq, no WF) and   *)
(*     WITH the final callback state:                                            *)
(*       C18_disjoint_mut_eq_unchecked, C18_disjoint_mut_panics,                 *)
(*       C18_assert_distinct_ok, C18_disjoint_mut_eq_unchecked_lawful            *)
(* 11. key uniqueness and the full specification of insert for insert_unchecked: *)
(*       C18_keepsU_insert_unchecked, C18_Uniq_l_insert, C18_Uniq_l_insert_gen,  *)
(*       C18_insert_unchecked_spec, C18_insert_unchecked_keeps_uniq              *)
(* 12. every reachable state: histories containing insert_unchecked calls:       *)
(*       C18_mstep_u_eq, C18_run_u_eq, C18_run_u_refines, C18_run_u_refines_new  *)
(* ========================================================================== *)
Require Import Proofs.Dict Proofs.ExecUniq Proofs.MoreEq.

(* -------------------------------------------------------------------------- *)
(* 10. The model (as the crate) defines get_disjoint_mut as the overlap assertion
   assert_distinct followed by get_disjoint_unchecked_mut.  Hence, for ANY
   environment (== may lie or panic), any state, any requested keys: if the
   assertion returns in world w1, get_disjoint_mut from w IS
   get_disjoint_unchecked_mut from w1 - same outcome kind, same slots, same
   container, same log, same final callback state.  If the assertion panics in
   w1, get_disjoint_mut panics in w1. *)
Theorem C18_disjoint_mut_eq_unchecked :
  forall (K V Q T : Type) (E : env K V Q T) (ks : list Q) (w w1 : world K V T),
    assert_distinct E ks w = Ok tt w1 ->
    get_disjoint_mut E ks w = get_disjoint_unchecked_mut E ks w1.
Proof. exact (@disjoint_mut_eq_unchecked). Qed.
Print Assumptions C18_disjoint_mut_eq_unchecked.

Theorem C18_disjoint_mut_panics :
  forall (K V Q T : Type) (E : env K V Q T) (ks : list Q) (w w1 : world K V T),
    assert_distinct E ks w = Panic w1 -> get_disjoint_mut E ks w = Panic w1.
Proof. exact (@disjoint_mut_panics). Qed.
Print Assumptions C18_disjoint_mut_panics.

(* "whenever the requested keys are pairwise different": under a lawful == and
   pairwise different requested classes (NoDup (map cq ks)) the assertion RETURNS,
   and the world it returns in is w with only the callback state replaced
   (with_cb w s1: the q == q' calls it made advanced the callback state; container
   and log are those of w).  Nothing is assumed about the container. *)
Theorem C18_assert_distinct_ok :
  forall (K V Q T : Type) (E : env K V Q T) (ck : K -> N) (cq : Q -> N),
    Lawful E ck cq ->
    forall (ks : list Q) (w : world K V T),
      NoDup (List.map cq ks) ->
      exists s1 : T, assert_distinct E ks w = Ok tt (with_cb w s1).
Proof. exact (@assert_distinct_ok). Qed.
Print Assumptions C18_assert_distinct_ok.

Theorem C18_disjoint_mut_eq_unchecked_lawful :
  forall (K V Q T : Type) (E : env K V Q T) (ck : K -> N) (cq : Q -> N),
    Lawful E ck cq ->
    forall (ks : list Q) (w : world K V T),
      NoDup (List.map cq ks) ->
      exists s1 : T,
        assert_distinct E ks w = Ok tt (with_cb w s1) /\
        get_disjoint_mut E ks w = get_disjoint_unchecked_mut E ks (with_cb w s1).
Proof. exact (@disjoint_mut_eq_unchecked_lawful). Qed.
Print Assumptions C18_disjoint_mut_eq_unchecked_lawful.

(* on m3 with the three distinct keys of C18_example_disjoint: the assertion makes
   3 comparisons and changes nothing else; the unchecked variant started in that
   world gives literally the outcome of the checked variant (n_eq 10).  Second
   part: an ADVERSARIAL script (== lies on about a quarter of the calls): whatever the
   assertion and the search then do, the equation holds *)
Example C18_example_disjoint_eq :
  assert_distinct (env_map C18_sc0) [QCls 7; QCls 1; QCls 5] (w_of m3) =
    Ok tt {| cb := {| n_eq := 3; n_clone := 0; n_call := 0; next_id := 100000 |}; log := []; self := m3 |} /\
  get_disjoint_mut (env_map C18_sc0) [QCls 7; QCls 1; QCls 5] (w_of m3) =
  get_disjoint_unchecked_mut (env_map C18_sc0) [QCls 7; QCls 1; QCls 5]
    {| cb := {| n_eq := 3; n_clone := 0; n_call := 0; next_id := 100000 |}; log := []; self := m3 |} /\
  let adv := {| sc_adv := true; sc_seed := 3; sc_fk := 0; sc_fa := 0 |} in
  match assert_distinct (env_map adv) [QCls 7; QCls 1; QCls 5] (w_of m3) with
  | Ok _ w1 => get_disjoint_mut (env_map adv) [QCls 7; QCls 1; QCls 5] (w_of m3) =
               get_disjoint_unchecked_mut (env_map adv) [QCls 7; QCls 1; QCls 5] w1
  | Panic w1 => get_disjoint_mut (env_map adv) [QCls 7; QCls 1; QCls 5] (w_of m3) = Panic w1
  | UB => False
  end.
Proof. split; [vm_compute; reflexivity|]. split; vm_compute; reflexivity. Qed.

(* -------------------------------------------------------------------------- *)
(* 11. "Within those preconditions both uphold every other guarantee (... key
   uniqueness ... stored-key identity)".
   C18_keepsU_insert_unchecked (ExecUniq.keepsU_insert_unchecked, the lemma the
   history theorem ExecUniq.step_uniq uses): lawful ==, well-formed container
   with pairwise different keys, room left (or debug assertions on): in BOTH
   outcomes (return / panic) the container is well formed, keeps its capacity and
   its keys are still pairwise different.
   C18_Uniq_l_insert / _gen: the list-level fact: the list machine's insert keeps
   keys pairwise different. *)
Theorem C18_keepsU_insert_unchecked :
  forall (V : Type) (E : env key V query cstate) (debug : bool),
    Lawful E kcls qcls ->
    forall (k : key) (v : V) (w : world key V cstate),
      WF (self w) ->
      Uniq kcls (Spec.elems (self w)) ->
      debug = true \/ len (self w) < cap (self w) ->
      wp (insert_unchecked E debug k v)
         (fun (_ : option V) (w' : world key V cstate) =>
            WF (self w') /\ cap (self w') = cap (self w) /\ Uniq kcls (Spec.elems (self w')))
         (fun w' : world key V cstate =>
            WF (self w') /\ cap (self w') = cap (self w) /\ Uniq kcls (Spec.elems (self w')))
         w.
Proof. exact (@keepsU_insert_unchecked). Qed.
Print Assumptions C18_keepsU_insert_unchecked.

Theorem C18_Uniq_l_insert :
  forall (V : Type) (l : list (key * V)) (k : key) (v : V) (u : bool),
    Uniq kcls l -> Uniq kcls (fst (fst (l_insert kcls l k v u))).
Proof. exact (@Uniq_l_insert). Qed.
Print Assumptions C18_Uniq_l_insert.

Theorem C18_Uniq_l_insert_gen :
  forall (K V : Type) (ck : K -> N) (l : list (K * V)) (k : K) (v : V) (u : bool),
    Uniq ck l -> Uniq ck (fst (fst (l_insert ck l k v u))).
Proof. exact (@Uniq_l_insert_gen). Qed.
Print Assumptions C18_Uniq_l_insert_gen.

(* The WHOLE contract in its specification-level form - "the map is not full OR
   a key of the same class is stored" - lawful ==, release or debug build: then
   insert_unchecked has the normal-return specification of insert
   (Lawful3.insert_lawful, Props/C01.v: the list machine's l_insert on the
   content, so a present key keeps the STORED key object and only the value
   changes; the old value is returned; exactly the displaced duplicate key is
   destroyed) and - unlike insert - can neither panic nor reach UB. *)
Theorem C18_insert_unchecked_spec :
  forall (K V Q T : Type) (E : env K V Q T) (debug : bool) (ck : K -> N) (cq : Q -> N),
    Lawful E ck cq ->
    forall (k : K) (v : V) (w : world K V T),
      WF (self w) ->
      len (self w) < cap (self w) \/ (exists i : nat, find_idx ck (ck k) (Spec.elems (self w)) = Some i) ->
      wp (insert_unchecked E debug k v)
         (fun (r : option V) (w' : world K V T) =>
            WF (self w') /\
            cap (self w') = cap (self w) /\
            Spec.elems (self w') = fst (fst (l_insert ck (Spec.elems (self w)) k v false)) /\
            r = option_map snd (snd (l_insert ck (Spec.elems (self w)) k v false)) /\
            logged w w' (match snd (l_insert ck (Spec.elems (self w)) k v false) with
                         | Some (k', _) => ev_drops (idK E k')
                         | None => []
                         end))
         (fun _ : world K V T => False)
         w.
Proof. exact (@insert_unchecked_spec). Qed.
Print Assumptions C18_insert_unchecked_spec.

(* ... and key uniqueness under the whole contract, for a general class function *)
Theorem C18_insert_unchecked_keeps_uniq :
  forall (K V Q T : Type) (E : env K V Q T) (debug : bool) (ck : K -> N) (cq : Q -> N),
    Lawful E ck cq ->
    forall (k : K) (v : V) (w : world K V T),
      WF (self w) ->
      Uniq ck (Spec.elems (self w)) ->
      len (self w) < cap (self w) \/ (exists i : nat, find_idx ck (ck k) (Spec.elems (self w)) = Some i) ->
      wp (insert_unchecked E debug k v)
         (fun (_ : option V) (w' : world K V T) =>
            WF (self w') /\ cap (self w') = cap (self w) /\ Uniq ck (Spec.elems (self w')))
         (fun _ : world K V T => False)
         w.
Proof. exact (@insert_unchecked_keeps_uniq). Qed.
Print Assumptions C18_insert_unchecked_keeps_uniq.

(* both disjuncts of the contract are inhabited: C18_example_WF_room (room) and
   C18_example_present (present on the FULL map m3) *)
Example C18_example_contract :
  (len (self (w_of C18_m1)) < cap (self (w_of C18_m1)) \/
   exists i : nat, find_idx kcls (kcls (k_ 9 6)) (Spec.elems (self (w_of C18_m1))) = Some i) /\
  (len (self (w_of m3)) < cap (self (w_of m3)) \/
   exists i : nat, find_idx kcls (kcls (k_ 9 6)) (Spec.elems (self (w_of m3))) = Some i).
Proof. split; [left; cbn; lia | right; exists 1; vm_compute; reflexivity]. Qed.

(* -------------------------------------------------------------------------- *)
(* 12. "every reachable state".  Histories of dictionary operations in which any
   number of inserts go through insert_unchecked:
     uop                       UBase o (one of the 13 operations of Dict.dop) or
                               UInsertUnchecked k v;
     mstep_u / mrun_u / mfinal_u   the model running such an operation / history
                               (results; final world, None = UB on the way);
     erase                     UInsertUnchecked k v |-> DInsert k v;
     contract_u ck n o d       the documented contract of insert_unchecked checked
                               on the IDEAL dictionary d of capacity n: the key's
                               class is present (d_find .. <> None) or
                               length d < n; True for the other operations;
     contracts_u ck cq n ops d the contract holds at every insert_unchecked of the
                               history, along the ideal run (Dict.dstep).
   From any state that abstracts to an ideal dictionary (Dict.Abs: well formed,
   keys pairwise different, same associations) - in particular from the empty
   container - such a history has EXACTLY the results and the final world (the
   container, the event log, the callback state) of the history in which every
   insert_unchecked is replaced by insert; hence (Dict.run_refines) the results
   of the ideal dictionary, no UB, and a final container that again abstracts to
   the ideal final dictionary: every guarantee proved for reachable states holds
   on states reached through insert_unchecked within its contract. *)
Theorem C18_mstep_u_eq :
  forall (K V Q T : Type) (E : env K V Q T) (debug : bool) (ck : K -> N) (cq : Q -> N),
    Lawful E ck cq ->
    forall (n : nat) (o : @uop K V Q) (w : world K V T) (d : list (K * V)),
      Abs ck (self w) d ->
      cap (self w) = n ->
      contract_u ck n o d ->
      mstep_u E debug o w = mstep E debug (erase o) w.
Proof. exact (@mstep_u_eq). Qed.
Print Assumptions C18_mstep_u_eq.

Theorem C18_run_u_eq :
  forall (K V Q T : Type) (E : env K V Q T) (debug : bool) (ck : K -> N) (cq : Q -> N),
    Lawful E ck cq ->
    forall (n : nat) (ops : list (@uop K V Q)) (w : world K V T) (d : list (K * V)),
      Abs ck (self w) d ->
      cap (self w) = n ->
      contracts_u ck cq n ops d ->
      mrun_u E debug ops w = mrun E debug (List.map erase ops) w /\
      mfinal_u E debug ops w = mfinal E debug (List.map erase ops) w.
Proof. exact (@run_u_eq). Qed.
Print Assumptions C18_run_u_eq.

Theorem C18_run_u_refines :
  forall (K V Q T : Type) (E : env K V Q T) (debug : bool) (ck : K -> N) (cq : Q -> N),
    Lawful E ck cq ->
    forall (n : nat) (ops : list (@uop K V Q)) (w : world K V T) (d : list (K * V)),
      Abs ck (self w) d ->
      cap (self w) = n ->
      contracts_u ck cq n ops d ->
      mrun_u E debug ops w = drun ck cq n (List.map erase ops) d /\
      (exists wf : world K V T,
          mfinal_u E debug ops w = Some wf /\
          Abs ck (self wf) (dfinal ck cq n (List.map erase ops) d) /\ cap (self wf) = n).
Proof. exact (@run_u_refines). Qed.
Print Assumptions C18_run_u_refines.

Theorem C18_run_u_refines_new :
  forall (K V Q T : Type) (E : env K V Q T) (debug : bool) (ck : K -> N) (cq : Q -> N),
    Lawful E ck cq ->
    forall (n : nat) (ops : list (@uop K V Q)) (s : T) (lg : list event),
      contracts_u ck cq n ops [] ->
      mrun_u E debug ops {| cb := s; log := lg; self := new_map n |} = drun ck cq n (List.map erase ops) [] /\
      (exists wf : world K V T,
          mfinal_u E debug ops {| cb := s; log := lg; self := new_map n |} = Some wf /\
          Abs ck (self wf) (dfinal ck cq n (List.map erase ops) []) /\ cap (self wf) = n).
Proof. exact (@run_u_refines_new). Qed.
Print Assumptions C18_run_u_refines_new.

(* a history on a map of capacity 2 whose contract holds everywhere: unchecked
   insert with room; checked insert (map now FULL); unchecked insert of a PRESENT
   class on the full map; removal; unchecked insert with room again.  The run:
   results and final container *)
Example C18_example_history :
  let ops : list (@uop key vobj query) :=
    [UInsertUnchecked (k_ 1 5) (v_ 2 7); UBase (DInsert (k_ 3 6) (v_ 4 8));
     UInsertUnchecked (k_ 9 6) (v_ 10 1); UBase (DRemove (QCls 5));
     UInsertUnchecked (k_ 11 4) (v_ 12 3)] in
  contracts_u kcls qcls 2 ops [] /\
  mrun_u (env_map C18_sc0) false ops (w_of (new_map 2)) =
    [RNone; RNone; RVal (v_ 4 8); RVal (v_ 2 7); RNone] /\
  match mfinal_u (env_map C18_sc0) false ops (w_of (new_map 2)) with
  | Some wf => self wf = {| len := 2; slots := [Some (k_ 3 6, v_ 10 1); Some (k_ 11 4, v_ 12 3)] |}
  | None => False
  end.
Proof.
  cbv zeta. split.
  - cbn [contracts_u contract_u erase]. split; [right; cbn; lia|]. split; [exact I|].
    split; [left; vm_compute; discriminate|]. split; [exact I|].
    split; [right; vm_compute; lia | exact I].
  - split; vm_compute; reflexivity.
Qed.

(* ========================================================================== *)
(* ROUND 2 — second audit (Proofs/MoreEq.v, Part G)                             *)
(*  7. the ownership ledger of insert_unchecked within its WHOLE contract, as    *)
(*     one statement:                      C18_insert_unchecked_acct             *)
(*  8. histories that also contain get_disjoint_unchecked_mut calls under their   *)
(*     contract: same results as the checked calls, in every reachable state:     *)
(*       C18_step_w_refines, C18_run_w_refines, C18_run_w_eq_checked              *)
(* ========================================================================== *)
Require Import Proofs.Owned Proofs.ExecView.

(* -------------------------------------------------------------------------- *)
(* 7. Lawful ==, well-formed container, the contract in its specification-level
   form "not full OR a key of the same class is stored", release or debug build:
   insert_unchecked cannot panic (nor reach UB), keeps WF and the capacity, and
   the ledger balances: [acct E w w' ins outs lost] is the permutation
     stored after ++ handed back (the displaced old value) ++ lost ++ destroyed
     after  =  stored before ++ handed in (k, v) ++ destroyed before;
   from a tidy container nothing is lost and the container is tidy again.
   (C18_conserves_insert_unchecked has the same ledger for "room or debug" only,
   and allows a panic.) *)
Theorem C18_insert_unchecked_acct :
  forall (K V Q T : Type) (E : env K V Q T) (debug : bool) (ck : K -> N) (cq : Q -> N),
    Lawful E ck cq ->
    forall (k : K) (v : V) (w : world K V T),
      WF (self w) ->
      len (self w) < cap (self w) \/ (exists i : nat, find_idx ck (ck k) (Spec.elems (self w)) = Some i) ->
      wp (insert_unchecked E debug k v)
         (fun (r : option V) (w' : world K V T) =>
            WF (self w') /\
            cap (self w') = cap (self w) /\
            (exists lost : list N,
                acct E w w' (ids_pair E (k, v)) (match r with Some v0 => idV E v0 | None => [] end) lost /\
                (Tidy (self w) -> lost = [] /\ Tidy (self w'))))
         (fun _ : world K V T => False)
         w.
Proof. exact (@insert_unchecked_acct). Qed.
Print Assumptions C18_insert_unchecked_acct.

(* -------------------------------------------------------------------------- *)
(* 8. Histories with BOTH kinds of unchecked calls.
     wop                    WBase o (o : uop: one of the 13 dictionary operations
                            or insert_unchecked, as in C18_run_u_refines) or
                            WDisjoint unchecked ks (get_disjoint_unchecked_mut /
                            get_disjoint_mut on the requested keys ks);
     mstep_w                the model running it; for WDisjoint the observable
                            result is what the returned references point to
                            (read_opt_slots: the stored pair, or None, per key);
     dstep_w ck cq n o d    the IDEAL dictionary: WDisjoint answers the association
                            of each requested class (d_find), or panics when two
                            requested classes coincide - whether the call is the
                            checked or the unchecked one does not occur;
     contract_w             insert_unchecked: as before; get_disjoint_unchecked_mut:
                            "the requested keys are pairwise different"
                            (NoDup (map cq ks)); nothing for the checked call;
     erase_w                replaces every unchecked call by its checked twin.
   From any state abstracting to an ideal dictionary (in particular the empty
   container), a history whose unchecked calls meet their contracts refines the
   ideal dictionary step by step (no UB; a panic exactly where the ideal run
   panics, container untouched), has EXACTLY the results of the history with
   every unchecked call replaced by the checked one, and both end in containers
   abstracting to the same ideal dictionary with the same capacity.  (The final
   callback states may differ: the checked disjoint call makes additional q == q'
   comparisons; under a lawful == nothing observable depends on that.) *)
Theorem C18_step_w_refines :
  forall (K V Q T : Type) (E : env K V Q T) (debug : bool) (ck : K -> N) (cq : Q -> N),
    Lawful E ck cq ->
    forall (n : nat) (o : @wop K V Q) (w : world K V T) (d : list (K * V)),
      Abs ck (self w) d ->
      cap (self w) = n ->
      contract_w ck cq n o d ->
      match mstep_w E debug o w with
      | Ok r w' =>
          fst (dstep_w ck cq n o d) = r /\ Abs ck (self w') (snd (dstep_w ck cq n o d)) /\ cap (self w') = n
      | Panic w' =>
          fst (dstep_w ck cq n o d) = WR RPanic /\ snd (dstep_w ck cq n o d) = d /\ self w' = self w
      | UB => False
      end.
Proof. exact (@step_w_refines). Qed.
Print Assumptions C18_step_w_refines.

Theorem C18_run_w_refines :
  forall (K V Q T : Type) (E : env K V Q T) (debug : bool) (ck : K -> N) (cq : Q -> N),
    Lawful E ck cq ->
    forall (n : nat) (ops : list (@wop K V Q)) (w : world K V T) (d : list (K * V)),
      Abs ck (self w) d ->
      cap (self w) = n ->
      contracts_w ck cq n ops d ->
      mrun_w E debug ops w = drun_w ck cq n ops d /\
      (exists wf : world K V T,
          mfinal_w E debug ops w = Some wf /\ Abs ck (self wf) (dfinal_w ck cq n ops d) /\ cap (self wf) = n).
Proof. exact (@run_w_refines). Qed.
Print Assumptions C18_run_w_refines.

Theorem C18_run_w_eq_checked :
  forall (K V Q T : Type) (E : env K V Q T) (debug : bool) (ck : K -> N) (cq : Q -> N),
    Lawful E ck cq ->
    forall (n : nat) (ops : list (@wop K V Q)) (w : world K V T) (d : list (K * V)),
      Abs ck (self w) d ->
      cap (self w) = n ->
      contracts_w ck cq n ops d ->
      mrun_w E debug ops w = mrun_w E debug (List.map erase_w ops) w /\
      (exists wf wf' : world K V T,
          mfinal_w E debug ops w = Some wf /\
          mfinal_w E debug (List.map erase_w ops) w = Some wf' /\
          Abs ck (self wf) (dfinal_w ck cq n ops d) /\
          Abs ck (self wf') (dfinal_w ck cq n ops d) /\ cap (self wf) = n /\ cap (self wf') = n).
Proof. exact (@run_w_eq_checked). Qed.
Print Assumptions C18_run_w_eq_checked.

(* a history on an empty map of capacity 2 whose contracts hold everywhere:
   unchecked insert (room), checked insert, unchecked disjoint access with the
   pairwise different classes 6, 9, 5, unchecked insert of a present class on the
   FULL map, checked disjoint access: results of the run, and of the run with
   every unchecked call replaced by its checked twin *)
Example C18_example_history_w :
  let ops : list (@wop key vobj query) :=
    [WBase (UInsertUnchecked (k_ 1 5) (v_ 2 7)); WBase (UBase (DInsert (k_ 3 6) (v_ 4 8)));
     WDisjoint true [QCls 6; QCls 9; QCls 5];
     WBase (UInsertUnchecked (k_ 9 6) (v_ 10 1)); WDisjoint false [QCls 5; QCls 6]] in
  contracts_w kcls qcls 2 ops [] /\
  mrun_w (env_map C18_sc0) false ops (w_of (new_map 2)) =
    [WR RNone; WR RNone; WMany [Some (k_ 3 6, v_ 4 8); None; Some (k_ 1 5, v_ 2 7)];
     WR (RVal (v_ 4 8)); WMany [Some (k_ 1 5, v_ 2 7); Some (k_ 3 6, v_ 10 1)]] /\
  mrun_w (env_map C18_sc0) false (List.map erase_w ops) (w_of (new_map 2)) =
  mrun_w (env_map C18_sc0) false ops (w_of (new_map 2)).
Proof.
  cbv zeta. split.
  - cbn [contracts_w contract_w contract_u erase dstep_w snd].
    split; [right; cbn; lia|]. split; [exact I|].
    split; [vm_compute; repeat (constructor; [cbn [In]; intuition discriminate|]); constructor|].
    split; [left; vm_compute; discriminate|]. split; exact I.
  - split; vm_compute; reflexivity.
Qed.
