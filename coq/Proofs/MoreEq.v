(* MoreEq.v — closing audit findings for C14 (equality), C15 (clone) and C18
   (unchecked fast paths): the existing run-level and list-level facts of
   EqClone / Owned2 / Disjoint / Dict composed into single statements about the
   model's own functions, plus the Exec-level "only the target register
   changes" facts for EVERY script. *)
Require Import Model.Base Model.Slots Model.MapOps Model.EntryOps Model.SetOps Model.Fmt Model.Exec.
Require Import Proofs.Hoare Proofs.Inv Proofs.Safety Proofs.Safety2 Proofs.Spec Proofs.Lawful Proofs.Lawful2 Proofs.Lawful3.
Require Import Proofs.EqClone Proofs.Disjoint Proofs.Dict Proofs.Bulk Proofs.Owned Proofs.Owned2 Proofs.FmtSerde.
Require Import Proofs.ExecSafe Proofs.ExecUniq Proofs.ExecView Proofs.Gaps Proofs.Legacy.
From Coq Require Import Permutation.

(* ======================================================================== *)
(* PART A — C14: == under a lawful environment                               *)
(* ======================================================================== *)
Section EqIff.
Context {K V Q T : Type} (E : env K V Q T).
Context (ck : K -> N) (cq : Q -> N) (HL : Lawful E ck cq).
Context (veq : V -> V -> bool) (HV : forall s a b, fst (eqV E s a b) = if veq a b then Yes else No).
Notation world := (world K V T). Notation map := (map K V). Notation kv := (K * V)%type.

(* A1 (finding 1): ONE statement about map_eq itself: it returns, changes
   nothing, and answers true exactly when the two dictionaries agree at every
   class *)
Lemma map_eq_iff (a b : map) (w : world) :
  WF a -> WF b -> Uniq ck (elems a) -> Uniq ck (elems b) ->
  wp (map_eq E a b)
     (fun r w' => stable w w' /\
        (r = true <->
         forall c, match lookup ck (elems a) c, lookup ck (elems b) c with
                   | Some (_, v), Some (_, v') => veq v' v = true
                   | None, None => True
                   | _, _ => False
                   end))
     (fun _ => False) w.
Proof.
  intros Ha Hb Hua Hub.
  eapply wp_mono; [apply (map_eq_lawful E ck cq HL veq HV a b w Ha Hb) | | auto]; cbn beta.
  intros r w' [Hst ->]. split; [exact Hst|].
  rewrite <- (elems_length a Ha), <- (elems_length b Hb).
  apply map_eq_extensional; assumption.
Qed.

(* the same as an equation between outcomes *)
Lemma map_eq_run (a b : map) (w : world) :
  WF a -> WF b ->
  exists w', map_eq E a b w =
             Ok ((length (elems a) =? length (elems b)) && forallb (entry_ok_in ck veq (elems b)) (elems a)) w' /\
             stable w w'.
Proof.
  intros Ha Hb. pose proof (map_eq_lawful E ck cq HL veq HV a b w Ha Hb) as H. unfold wp in H.
  destruct (map_eq E a b w) as [r w'|w'|]; [|contradiction|contradiction].
  destruct H as [Hst ->]. exists w'. split; [|exact Hst].
  rewrite (elems_length a Ha), (elems_length b Hb). reflexivity.
Qed.

(* A2 (finding 2): symmetry and reflexivity of the RUN.  The laws of V's == are
   stated on the environment: x == x answers Yes; x == y and y == x answer alike *)
Lemma veq_sym_of_env (s : T) :
  (forall s s' x y, fst (eqV E s x y) = fst (eqV E s' y x)) -> forall x y, veq x y = veq y x.
Proof.
  intros Hs x y. pose proof (Hs s s x y) as H. rewrite !HV in H.
  destruct (veq x y), (veq y x); try reflexivity; discriminate.
Qed.

Lemma veq_refl_of_env (s : T) :
  (forall s x, fst (eqV E s x x) = Yes) -> forall x, veq x x = true.
Proof.
  intros Hr x. pose proof (Hr s x) as H. rewrite HV in H. destruct (veq x x); [reflexivity | discriminate].
Qed.

Lemma map_eq_sym_run (a b : map) (w : world) :
  (forall s s' x y, fst (eqV E s x y) = fst (eqV E s' y x)) ->
  WF a -> WF b -> Uniq ck (elems a) -> Uniq ck (elems b) ->
  exists r w1 w2, map_eq E a b w = Ok r w1 /\ map_eq E b a w = Ok r w2 /\ stable w w1 /\ stable w w2.
Proof.
  intros Hs Ha Hb Hua Hub.
  destruct (map_eq_run a b w Ha Hb) as (w1 & H1 & Hst1).
  destruct (map_eq_run b a w Hb Ha) as (w2 & H2 & Hst2).
  rewrite (map_eq_sym ck veq (elems b) (elems a) Hub Hua (veq_sym_of_env (cb w) Hs)) in H2.
  eauto 10.
Qed.

Lemma map_eq_refl_run (a : map) (w : world) :
  (forall s x, fst (eqV E s x x) = Yes) ->
  WF a -> Uniq ck (elems a) ->
  exists w', map_eq E a a w = Ok true w' /\ stable w w'.
Proof.
  intros Hr Ha Hua. destruct (map_eq_run a a w Ha Ha) as (w' & H & Hst).
  rewrite (map_eq_refl ck veq (elems a) Hua (veq_refl_of_env (cb w) Hr)) in H. eauto.
Qed.

(* A5 (finding 5): "regardless of the history".  Two histories of dictionary
   operations (Dict.dop) run from empty containers of capacities na, nb: both
   runs exist, and == on the two results answers true exactly when the two IDEAL
   dictionaries (Dict.dfinal) agree at every class *)
Lemma abs_lookup_dfind (m : map) (d : list kv) c : Abs ck m d -> lookup ck (elems m) c = d_find ck d c.
Proof. intros (_ & Hu & Hp). rewrite <- (d_find_perm ck _ _ c Hu Hp). symmetry. apply d_find_lookup. Qed.

Lemma map_eq_abs (a b : map) (da db : list kv) (w : world) :
  Abs ck a da -> Abs ck b db ->
  wp (map_eq E a b)
     (fun r w' => stable w w' /\
        (r = true <->
         forall c, match d_find ck da c, d_find ck db c with
                   | Some (_, v), Some (_, v') => veq v' v = true
                   | None, None => True
                   | _, _ => False
                   end))
     (fun _ => False) w.
Proof.
  intros Aa Ab. pose proof Aa as (Ha & Hua & _). pose proof Ab as (Hb & Hub & _).
  eapply wp_mono; [apply (map_eq_iff a b w Ha Hb Hua Hub) | | auto]; cbn beta.
  intros r w' [Hst Hiff]. split; [exact Hst|]. rewrite Hiff.
  split; intros H c; specialize (H c);
    rewrite ?(abs_lookup_dfind a da c Aa), ?(abs_lookup_dfind b db c Ab) in *; exact H.
Qed.

Lemma map_eq_histories (debug : bool) (na nb : nat) (ops_a ops_b : list (@dop K V Q))
      (sa sb : T) (la lb : list event) :
  exists wa wb,
    mfinal E debug ops_a {| cb := sa; log := la; self := new_map na |} = Some wa /\
    mfinal E debug ops_b {| cb := sb; log := lb; self := new_map nb |} = Some wb /\
    cap (self wa) = na /\ cap (self wb) = nb /\
    forall w : world,
      wp (map_eq E (self wa) (self wb))
         (fun r w' => stable w w' /\
            (r = true <->
             forall c, match d_find ck (dfinal ck cq na ops_a []) c, d_find ck (dfinal ck cq nb ops_b []) c with
                       | Some (_, v), Some (_, v') => veq v' v = true
                       | None, None => True
                       | _, _ => False
                       end))
         (fun _ => False) w.
Proof.
  destruct (run_refines_state_new E debug ck cq HL na ops_a sa la) as (wa & Hfa & Aa & Hca).
  destruct (run_refines_state_new E debug ck cq HL nb ops_b sb lb) as (wb & Hfb & Ab & Hcb).
  exists wa, wb. repeat (split; [assumption|]). intros w. apply map_eq_abs; assumption.
Qed.

(* with a reflexive V ==: histories whose ideal dictionaries are the same finite
   map produce containers that compare equal *)
Lemma map_eq_same_dict (debug : bool) (na nb : nat) (ops_a ops_b : list (@dop K V Q))
      (sa sb : T) (la lb : list event) :
  (forall s x, fst (eqV E s x x) = Yes) ->
  (forall c, d_find ck (dfinal ck cq na ops_a []) c = d_find ck (dfinal ck cq nb ops_b []) c) ->
  exists wa wb,
    mfinal E debug ops_a {| cb := sa; log := la; self := new_map na |} = Some wa /\
    mfinal E debug ops_b {| cb := sb; log := lb; self := new_map nb |} = Some wb /\
    forall w : world, exists w', map_eq E (self wa) (self wb) w = Ok true w' /\ stable w w'.
Proof.
  intros Hr Hd.
  destruct (map_eq_histories debug na nb ops_a ops_b sa sb la lb) as (wa & wb & Hfa & Hfb & _ & _ & H).
  exists wa, wb. split; [exact Hfa|]. split; [exact Hfb|]. intros w.
  specialize (H w). unfold wp in H.
  destruct (map_eq E (self wa) (self wb) w) as [r w'|w'|]; [|contradiction|contradiction].
  destruct H as [Hst Hiff]. exists w'. split; [|exact Hst]. f_equal.
  apply Hiff. intros c. rewrite (Hd c).
  destruct (d_find ck (dfinal ck cq nb ops_b []) c) as [[k v]|]; [|exact I].
  apply (veq_refl_of_env (cb w) Hr).
Qed.

(* ---------------------------------------------------------------------- *)
(* C15, finding 6: clone, then ==, in one statement                         *)
Context (HCK : forall s k, exists k' s', cloneK E s k = (Some k', s') /\ ck k' = ck k).
Context (HCV : forall s v, exists v' s', cloneV E s v = (Some v', s') /\ veq v' v = true).

Lemma clone_compares_equal (src : map) (w : world) :
  WF src -> WF (self w) -> len (self w) = 0 -> cap (self w) = cap src -> Uniq ck (elems src) ->
  wp (clone_from_src E src)
     (fun _ w' => WF (self w') /\ Uniq ck (elems (self w')) /\
                  forall w0 : world,
                    wp (map_eq E src (self w')) (fun r w1 => r = true /\ stable w0 w1) (fun _ => False) w0)
     (fun _ => False) w.
Proof.
  intros Hsrc Hw Hl Hc Hu.
  eapply wp_mono; [apply (clone_lawful E ck veq HCK HCV src w Hsrc Hw Hl Hc) | | auto]; cbn beta.
  intros _ w' (Hw' & _ & Hlen & Hf & _).
  destruct (clone_equal ck veq _ _ Hu Hf) as [Hu' Hb].
  split; [exact Hw'|]. split; [exact Hu'|]. intros w0.
  eapply wp_mono; [apply (map_eq_lawful E ck cq HL veq HV src (self w') w0 Hsrc Hw') | | auto]; cbn beta.
  intros r w1 [Hst ->]. split; [|exact Hst].
  rewrite <- (elems_length src Hsrc), <- (elems_length (self w') Hw'). exact Hb.
Qed.

End EqIff.

(* A3 (finding 3): sets.  Set<T,N> = Map<T,(),N>; when () == () answers Yes, two
   sets compare equal exactly when they hold the same element classes *)
Section SetEq.
Context {K Q T : Type} (E : env K unit Q T).
Context (ck : K -> N) (cq : Q -> N) (HL : Lawful E ck cq).
Context (HVu : forall s a b, fst (eqV E s a b) = if (fun _ _ : unit => true) a b then Yes else No).

Lemma set_eq_iff (a b : map K unit) (w : world K unit T) :
  WF a -> WF b -> Uniq ck (elems a) -> Uniq ck (elems b) ->
  wp (map_eq E a b)
     (fun r w' => stable w w' /\
        (r = true <->
         forall c, In c (List.map (fun p => ck (fst p)) (elems a)) <->
                   In c (List.map (fun p => ck (fst p)) (elems b))))
     (fun _ => False) w.
Proof.
  intros Ha Hb Hua Hub.
  eapply wp_mono; [apply (map_eq_iff E ck cq HL (fun _ _ : unit => true) HVu a b w Ha Hb Hua Hub) | | auto]; cbn beta.
  intros r w' [Hst Hiff]. split; [exact Hst|]. rewrite Hiff.
  fold (classes ck (elems a)). fold (classes ck (elems b)).
  split.
  - intros H c. specialize (H c). rewrite <- !(lookup_Some_iff ck).
    destruct (lookup ck (elems a) c) as [[k v]|]; destruct (lookup ck (elems b) c) as [[k' v']|];
      try contradiction; split; intros [p Hp]; try discriminate; eexists; reflexivity.
  - intros H c. specialize (H c). rewrite <- !(lookup_Some_iff ck) in H.
    destruct (lookup ck (elems a) c) as [[k v]|]; destruct (lookup ck (elems b) c) as [[k' v']|];
      try reflexivity; try exact I.
    + destruct (proj1 H (ex_intro _ _ eq_refl)) as [p Hp]. discriminate.
    + destruct (proj2 H (ex_intro _ _ eq_refl)) as [p Hp]. discriminate.
Qed.

End SetEq.

(* the Set environment of the correspondence check *)
Lemma set_eq_iff_env_set sc (a b : map key unit) (w : world key unit cstate) :
  honest sc -> WF a -> WF b -> Uniq kcls (Spec.elems a) -> Uniq kcls (Spec.elems b) ->
  wp (map_eq (env_set sc) a b)
     (fun r w' => stable w w' /\
        (r = true <->
         forall c, In c (List.map (fun p => kcls (fst p)) (Spec.elems a)) <->
                   In c (List.map (fun p => kcls (fst p)) (Spec.elems b))))
     (fun _ => False) w.
Proof.
  intros Hh. apply (set_eq_iff (env_set sc) kcls qcls (env_set_lawful sc Hh) (env_set_eqV sc)).
Qed.

(* ======================================================================== *)
(* PART B — C15: independence of a clone, relative to THE RUN that made it   *)
(* ======================================================================== *)
Section CloneRun.
Context {K V Q T : Type} (E : env K V Q T).
Notation world := (world K V T). Notation map := (map K V). Notation kv := (K * V)%type.

(* B7 (finding 7): ANY environment.  [made] = the identities returned by the
   Clone calls of this very run that were written into the clone
   (Owned2.clone_made replays them from cb w); [orphan] = the identities of the
   key made by K::clone whose value's Clone then panicked (Owned2.clone_orphans;
   [] when no Clone panics) - one more object made by this run, destroyed by the
   unwinding.  If no identity of [made] is held by the source, then on normal
   return the clone and the source share no identity.  If a Clone panics, the
   abandoned clone holds nothing and what the unwinding destroyed (d) is exactly
   made ++ orphan: no identity of the source either, as soon as the orphan key
   is new as well. *)
Lemma clone_disjoint_run (src : map) (w : world) :
  WF src -> WF (self w) -> len (self w) = 0 -> cap (self w) = cap src -> Tidy (self w) ->
  let made := flat_map (ids_pair E) (clone_made E src (len src) 0 (cb w)) in
  let orphan := clone_orphans E src (len src) 0 (cb w) in
  (forall x, In x made -> ~ In x (owned E src)) ->
  wp (clone_from_src E src)
     (fun _ w' => WF (self w') /\ Tidy (self w') /\
                  Permutation (owned E (self w')) made /\
                  dropped (log w') = dropped (log w) /\
                  (forall x, In x (owned E (self w')) -> ~ In x (owned E src)) /\
                  (forall x, In x (owned E src) -> ~ In x (owned E (self w'))))
     (fun w' => owned E (self w') = [] /\
                exists d, dropped (log w') = dropped (log w) ++ d /\
                          Permutation d (made ++ orphan) /\
                          ((forall x, In x orphan -> ~ In x (owned E src)) ->
                           forall x, In x d -> ~ In x (owned E src)))
     w.
Proof.
  intros Hsrc Hw Hl Hc Ht made orphan Hfresh.
  eapply wp_mono; [apply (clone_acct E src w Hsrc Hw Hl Hc Ht) | |]; cbn beta; fold made; fold orphan.
  - intros _ w' (Hw' & Ht' & _ & _ & Hd & HP).
    split; [exact Hw'|]. split; [exact Ht'|]. split; [exact HP|]. split; [exact Hd|].
    split.
    + intros x Hx. apply Hfresh. eapply Permutation_in; [exact HP | exact Hx].
    + intros x Hx Hx'. apply (Hfresh x); [eapply Permutation_in; [exact HP | exact Hx'] | exact Hx].
  - intros w' (Ho & d & Hd & HP). split; [exact Ho|]. exists d. split; [exact Hd|]. split; [exact HP|].
    intros Horph x Hx. pose proof (Permutation_in x HP Hx) as Hin. apply in_app_or in Hin.
    destruct Hin as [Hin|Hin]; [apply Hfresh; exact Hin | apply Horph; exact Hin].
Qed.

(* B8a (finding 8, destruction): destroying a container destroys only identities
   it holds - so nothing of a container it shares no identity with.  ANY
   environment (Drop may panic: both outcomes). *)
Lemma drop_map_only_own (other : map) (w : world) :
  WF (self w) ->
  (forall x, In x (owned E (self w)) -> ~ In x (owned E other)) ->
  let post := fun w' : world =>
    exists d, dropped (log w') = dropped (log w) ++ d /\
              (forall x, In x d -> In x (owned E (self w))) /\
              (forall x, In x d -> ~ In x (owned E other)) in
  wp (drop_map E) (fun _ => post) post w.
Proof.
  intros Hw Hdis post.
  assert (Hgen : forall w' : world,
             (exists d, dropped (log w') = dropped (log w) ++ d /\
                        Permutation (owned E (self w') ++ d) (owned E (self w))) -> post w').
  { intros w' (d & Hd & HP). exists d. split; [exact Hd|].
    assert (Hin : forall x, In x d -> In x (owned E (self w))).
    { intros x Hx. eapply Permutation_in; [exact HP|]. apply in_or_app. right. exact Hx. }
    split; [exact Hin|]. intros x Hx. apply Hdis. apply Hin. exact Hx. }
  eapply wp_mono; [apply (drop_map_log E w Hw) | |]; cbn beta.
  - intros _ w'. apply Hgen.
  - intros w'. apply Hgen.
Qed.

(* clone, then destroy EITHER copy (from any later world holding it): the
   identities destroyed are none of the other copy's *)
Lemma clone_destruction_independent (src : map) (w : world) :
  WF src -> WF (self w) -> len (self w) = 0 -> cap (self w) = cap src -> Tidy (self w) ->
  (forall x, In x (flat_map (ids_pair E) (clone_made E src (len src) 0 (cb w))) -> ~ In x (owned E src)) ->
  wp (clone_from_src E src)
     (fun _ w' =>
        (* the clone is destroyed *)
        (forall w2 : world, self w2 = self w' ->
           wp (drop_map E)
              (fun _ w3 => exists d, dropped (log w3) = dropped (log w2) ++ d /\
                                     forall x, In x d -> In x (owned E (self w')) /\ ~ In x (owned E src))
              (fun w3 => exists d, dropped (log w3) = dropped (log w2) ++ d /\
                                   forall x, In x d -> In x (owned E (self w')) /\ ~ In x (owned E src)) w2) /\
        (* the original is destroyed *)
        (forall w2 : world, self w2 = src ->
           wp (drop_map E)
              (fun _ w3 => exists d, dropped (log w3) = dropped (log w2) ++ d /\
                                     forall x, In x d -> In x (owned E src) /\ ~ In x (owned E (self w')))
              (fun w3 => exists d, dropped (log w3) = dropped (log w2) ++ d /\
                                   forall x, In x d -> In x (owned E src) /\ ~ In x (owned E (self w'))) w2))
     (fun _ => True) w.
Proof.
  intros Hsrc Hw Hl Hc Ht Hfresh.
  eapply wp_mono; [apply (clone_disjoint_run src w Hsrc Hw Hl Hc Ht Hfresh) | | auto]; cbn beta.
  intros _ w' (Hw' & _ & _ & _ & Hd1 & Hd2). split.
  - intros w2 Hs2.
    assert (Hw2 : WF (self w2)) by (rewrite Hs2; exact Hw').
    assert (Hdis : forall x, In x (owned E (self w2)) -> ~ In x (owned E src)) by (rewrite Hs2; exact Hd1).
    eapply wp_mono; [apply (drop_map_only_own src w2 Hw2 Hdis) | |]; cbn beta;
      intros; match goal with H : exists _, _ |- _ => destruct H as (d & Hd & Hi & Hn) end;
      exists d; (split; [exact Hd|]); intros x Hx; (split; [rewrite <- Hs2; apply Hi; exact Hx | apply Hn; exact Hx]).
  - intros w2 Hs2.
    assert (Hw2 : WF (self w2)) by (rewrite Hs2; exact Hsrc).
    assert (Hdis : forall x, In x (owned E (self w2)) -> ~ In x (owned E (self w'))) by (rewrite Hs2; exact Hd2).
    eapply wp_mono; [apply (drop_map_only_own (self w') w2 Hw2 Hdis) | |]; cbn beta;
      intros; match goal with H : exists _, _ |- _ => destruct H as (d & Hd & Hi & Hn) end;
      exists d; (split; [exact Hd|]); intros x Hx; (split; [rewrite <- Hs2; apply Hi; exact Hx | apply Hn; exact Hx]).
Qed.

End CloneRun.

(* ---------------------------------------------------------------------- *)
(* the run-relative hypothesis holds of the interpreter's own environments, for
   EVERY script (honest, adversarial, with injected faults): the Clone callback
   takes new identities from the counter next_id of the callback state         *)
Lemma clone_tick_ge sc s o s' :
  clone_tick sc s = (o, s') ->
  (next_id s <= next_id s')%N /\ forall i, o = Some i -> i = next_id s /\ next_id s' = (next_id s + 1)%N.
Proof.
  unfold clone_tick. destruct (N.eqb (sc_fk sc) 2 && N.eqb (sc_fa sc) (n_clone s)); intros H; injection H as <- <-;
    cbn [next_id]; (split; [lia|]); intros i Hi; [discriminate | injection Hi as <-; split; reflexivity].
Qed.

Lemma clone_pair_res_map_ge sc (p p' : key * vobj) s s' :
  clone_pair_res (env_map sc) p s = (Some p', s') ->
  (next_id s <= next_id s')%N /\
  forall x, In x (ids_pair (env_map sc) p') -> (next_id s <= x)%N.
Proof.
  unfold clone_pair_res. cbn [env_map cloneK cloneV]. unfold clone_key_cb.
  destruct (clone_tick sc s) as [o1 s1] eqn:H1. destruct (clone_tick_ge sc s o1 s1 H1) as [Hle1 Hi1].
  destruct o1 as [i1|]; cbn [option_map]; [|discriminate].
  destruct (clone_tick sc s1) as [o2 s2] eqn:H2. destruct (clone_tick_ge sc s1 o2 s2 H2) as [Hle2 Hi2].
  destruct o2 as [i2|]; cbn [option_map]; [|discriminate].
  intros H. injection H as <- <-. destruct (Hi1 i1 eq_refl) as [-> _]. destruct (Hi2 i2 eq_refl) as [-> _].
  split; [lia|]. intros x Hx. unfold ids_pair in Hx. cbn [env_map idK idV fst snd kid vid app In] in Hx.
  destruct Hx as [<-|[<-|[]]]; lia.
Qed.

Lemma clone_pair_res_set_ge sc (p p' : key * unit) s s' :
  clone_pair_res (env_set sc) p s = (Some p', s') ->
  (next_id s <= next_id s')%N /\
  forall x, In x (ids_pair (env_set sc) p') -> (next_id s <= x)%N.
Proof.
  unfold clone_pair_res. cbn [env_set cloneK cloneV]. unfold clone_key_cb.
  destruct (clone_tick sc s) as [o1 s1] eqn:H1. destruct (clone_tick_ge sc s o1 s1 H1) as [Hle1 Hi1].
  destruct o1 as [i1|]; cbn [option_map]; [|discriminate].
  intros H. injection H as <- <-. destruct (Hi1 i1 eq_refl) as [-> _].
  split; [lia|]. intros x Hx. unfold ids_pair in Hx. cbn [env_set idK idV fst snd kid app In] in Hx.
  destruct Hx as [<-|[]]; lia.
Qed.

Lemma clone_made_map_ge sc (src : map key vobj) : forall n i s x,
  In x (flat_map (ids_pair (env_map sc)) (clone_made (env_map sc) src n i s)) -> (next_id s <= x)%N.
Proof.
  induction n as [|n IH]; intros i s x Hx; cbn [clone_made] in Hx; [destruct Hx|].
  destruct (nth_error (slots src) i) as [[p|]|]; try destruct Hx.
  destruct (clone_pair_res (env_map sc) p s) as [[p'|] s'] eqn:Hr; [|destruct Hx].
  destruct (clone_pair_res_map_ge sc p p' s s' Hr) as [Hle Hid].
  cbn [flat_map] in Hx. apply in_app_or in Hx. destruct Hx as [Hx|Hx]; [apply Hid; exact Hx|].
  specialize (IH (S i) s' x Hx). lia.
Qed.

Lemma clone_made_set_ge sc (src : map key unit) : forall n i s x,
  In x (flat_map (ids_pair (env_set sc)) (clone_made (env_set sc) src n i s)) -> (next_id s <= x)%N.
Proof.
  induction n as [|n IH]; intros i s x Hx; cbn [clone_made] in Hx; [destruct Hx|].
  destruct (nth_error (slots src) i) as [[p|]|]; try destruct Hx.
  destruct (clone_pair_res (env_set sc) p s) as [[p'|] s'] eqn:Hr; [|destruct Hx].
  destruct (clone_pair_res_set_ge sc p p' s s' Hr) as [Hle Hid].
  cbn [flat_map] in Hx. apply in_app_or in Hx. destruct Hx as [Hx|Hx]; [apply Hid; exact Hx|].
  specialize (IH (S i) s' x Hx). lia.
Qed.

Lemma clone_orphan_map_ge sc (p : key * vobj) s x :
  In x (clone_orphan (env_map sc) p s) -> (next_id s <= x)%N.
Proof.
  unfold clone_orphan. cbn [env_map cloneK cloneV]. unfold clone_key_cb.
  destruct (clone_tick sc s) as [o1 s1] eqn:H1. destruct (clone_tick_ge sc s o1 s1 H1) as [Hle1 Hi1].
  destruct o1 as [i1|]; cbn [option_map]; [|intros []].
  destruct (clone_tick sc s1) as [o2 s2] eqn:H2.
  destruct o2 as [i2|]; cbn [option_map]; [intros []|].
  destruct (Hi1 i1 eq_refl) as [-> _]. cbn [env_map idK kid In]. intros [<-|[]]. lia.
Qed.

Lemma clone_orphan_set_nil sc (p : key * unit) s : clone_orphan (env_set sc) p s = [].
Proof.
  unfold clone_orphan. cbn [env_set cloneK cloneV]. unfold clone_key_cb.
  destruct (clone_tick sc s) as [o1 s1]. destruct o1; reflexivity.
Qed.

Lemma clone_orphans_map_ge sc (src : map key vobj) : forall n i s x,
  In x (clone_orphans (env_map sc) src n i s) -> (next_id s <= x)%N.
Proof.
  induction n as [|n IH]; intros i s x Hx; cbn [clone_orphans] in Hx; [destruct Hx|].
  destruct (nth_error (slots src) i) as [[p|]|]; try destruct Hx.
  destruct (clone_pair_res (env_map sc) p s) as [[p'|] s'] eqn:Hr.
  - destruct (clone_pair_res_map_ge sc p p' s s' Hr) as [Hle _]. specialize (IH (S i) s' x Hx). lia.
  - apply (clone_orphan_map_ge sc p s x Hx).
Qed.

Lemma clone_orphans_set_nil sc (src : map key unit) : forall n i s, clone_orphans (env_set sc) src n i s = [].
Proof.
  induction n as [|n IH]; intros i s; cbn [clone_orphans]; [reflexivity|].
  destruct (nth_error (slots src) i) as [[p|]|]; try reflexivity.
  destruct (clone_pair_res (env_set sc) p s) as [[p'|] s']; [apply IH | apply clone_orphan_set_nil].
Qed.

(* ... so whenever the counter is above every identity held by the source, the
   hypothesis of clone_disjoint_run / clone_destruction_independent holds *)
Lemma clone_fresh_env_map sc (src : map key vobj) (s : cstate) :
  (forall x, In x (owned (env_map sc) src) -> (x < next_id s)%N) ->
  forall x, In x (flat_map (ids_pair (env_map sc)) (clone_made (env_map sc) src (len src) 0 s)) ->
            ~ In x (owned (env_map sc) src).
Proof. intros Hlt x Hx Hin. pose proof (clone_made_map_ge sc src _ _ _ _ Hx). specialize (Hlt x Hin). lia. Qed.

Lemma clone_fresh_env_set sc (src : map key unit) (s : cstate) :
  (forall x, In x (owned (env_set sc) src) -> (x < next_id s)%N) ->
  forall x, In x (flat_map (ids_pair (env_set sc)) (clone_made (env_set sc) src (len src) 0 s)) ->
            ~ In x (owned (env_set sc) src).
Proof. intros Hlt x Hx Hin. pose proof (clone_made_set_ge sc src _ _ _ _ Hx). specialize (Hlt x Hin). lia. Qed.

(* the checked system: clone and source share no identity, EVERY script *)
Lemma clone_disjoint_env_map sc (src : map key vobj) (w : world key vobj cstate) :
  WF src -> WF (self w) -> len (self w) = 0 -> cap (self w) = cap src -> Tidy (self w) ->
  (forall x, In x (owned (env_map sc) src) -> (x < next_id (cb w))%N) ->
  wp (clone_from_src (env_map sc) src)
     (fun _ w' => (forall x, In x (owned (env_map sc) (self w')) -> ~ In x (owned (env_map sc) src)) /\
                  (forall x, In x (owned (env_map sc) src) -> ~ In x (owned (env_map sc) (self w'))) /\
                  dropped (log w') = dropped (log w))
     (fun w' => owned (env_map sc) (self w') = [] /\
                exists d, dropped (log w') = dropped (log w) ++ d /\
                          forall x, In x d -> ~ In x (owned (env_map sc) src))
     w.
Proof.
  intros Hsrc Hw Hl Hc Ht Hlt.
  eapply wp_mono; [apply (clone_disjoint_run (env_map sc) src w Hsrc Hw Hl Hc Ht (clone_fresh_env_map sc src (cb w) Hlt)) | |];
    cbn beta.
  - intros _ w' (_ & _ & _ & Hd & H1 & H2). auto.
  - intros w' (Ho & d & Hd & _ & H1). split; [exact Ho|]. exists d. split; [exact Hd|]. apply H1.
    intros x Hx Hin. pose proof (clone_orphans_map_ge sc src _ _ _ _ Hx). specialize (Hlt x Hin). lia.
Qed.

Lemma clone_disjoint_env_set sc (src : map key unit) (w : world key unit cstate) :
  WF src -> WF (self w) -> len (self w) = 0 -> cap (self w) = cap src -> Tidy (self w) ->
  (forall x, In x (owned (env_set sc) src) -> (x < next_id (cb w))%N) ->
  wp (clone_from_src (env_set sc) src)
     (fun _ w' => (forall x, In x (owned (env_set sc) (self w')) -> ~ In x (owned (env_set sc) src)) /\
                  (forall x, In x (owned (env_set sc) src) -> ~ In x (owned (env_set sc) (self w'))) /\
                  dropped (log w') = dropped (log w))
     (fun w' => owned (env_set sc) (self w') = [] /\
                exists d, dropped (log w') = dropped (log w) ++ d /\
                          forall x, In x d -> ~ In x (owned (env_set sc) src))
     w.
Proof.
  intros Hsrc Hw Hl Hc Ht Hlt.
  eapply wp_mono; [apply (clone_disjoint_run (env_set sc) src w Hsrc Hw Hl Hc Ht (clone_fresh_env_set sc src (cb w) Hlt)) | |];
    cbn beta.
  - intros _ w' (_ & _ & _ & Hd & H1 & H2). auto.
  - intros w' (Ho & d & Hd & _ & H1). split; [exact Ho|]. exists d. split; [exact Hd|]. apply H1.
    intros x Hx. rewrite clone_orphans_set_nil in Hx. destruct Hx.
Qed.

(* B9 (finding 9): the Set analogue of FmtSerde.clone_honest_map *)
Lemma clone_honest_set sc (src : map key unit) (w : world key unit cstate) : honest sc ->
  WF src -> WF (self w) -> len (self w) = 0 -> cap (self w) = cap src ->
  wp (clone_from_src (env_set sc) src)
     (fun _ w' => WF (self w') /\ cap (self w') = cap src /\ len (self w') = len src /\
        Forall2 (fun p p' : key * unit => kcls (fst p') = kcls (fst p)) (Spec.elems src) (Spec.elems (self w')))
     (fun _ => False) w.
Proof.
  intros Hh Hsrc Hw Hl Hc.
  eapply wp_mono;
    [apply (clone_lawful (env_set sc) kcls (fun _ _ : unit => true)
              (env_set_cloneK sc Hh) (env_set_cloneV sc) src w Hsrc Hw Hl Hc) | | auto]; cbn beta.
  intros _ w' (H1 & H2 & H3 & H4 & _). split; [exact H1|]. split; [exact H2|]. split; [exact H3|].
  eapply Forall2_impl'; [|exact H4]. cbn beta. intros a b [H _]. exact H.
Qed.

(* finding 6 on the two environments of the correspondence check *)
Lemma clone_compares_equal_map sc (src : map key vobj) (w : world key vobj cstate) : honest sc ->
  WF src -> WF (self w) -> len (self w) = 0 -> cap (self w) = cap src -> Uniq kcls (Spec.elems src) ->
  wp (clone_from_src (env_map sc) src)
     (fun _ w' => WF (self w') /\ Uniq kcls (Spec.elems (self w')) /\
                  forall w0 : world key vobj cstate,
                    wp (map_eq (env_map sc) src (self w')) (fun r w1 => r = true /\ stable w0 w1) (fun _ => False) w0)
     (fun _ => False) w.
Proof.
  intros Hh.
  apply (clone_compares_equal (env_map sc) kcls qcls (env_map_lawful sc Hh)
           (fun a b => N.eqb (vdat a) (vdat b)) (env_map_eqV sc Hh) (env_map_cloneK sc Hh) (env_map_cloneV sc Hh)).
Qed.

Lemma clone_compares_equal_set sc (src : map key unit) (w : world key unit cstate) : honest sc ->
  WF src -> WF (self w) -> len (self w) = 0 -> cap (self w) = cap src -> Uniq kcls (Spec.elems src) ->
  wp (clone_from_src (env_set sc) src)
     (fun _ w' => WF (self w') /\ Uniq kcls (Spec.elems (self w')) /\
                  forall w0 : world key unit cstate,
                    wp (map_eq (env_set sc) src (self w')) (fun r w1 => r = true /\ stable w0 w1) (fun _ => False) w0)
     (fun _ => False) w.
Proof.
  intros Hh.
  apply (clone_compares_equal (env_set sc) kcls qcls (env_set_lawful sc Hh)
           (fun _ _ : unit => true) (env_set_eqV sc) (env_set_cloneK sc Hh) (env_set_cloneV sc)).
Qed.

(* ======================================================================== *)
(* PART C — Exec level: an operation writes only its target register.       *)
(* In the model containers are VALUES: an operand passed as a parameter      *)
(* (map_eq's a and b, clone_from_src's src) cannot be modified by the callee  *)
(* at all - that is structural, not a theorem.  What CAN be stated with       *)
(* content is what the interpreter writes back into its registers.            *)
(* ======================================================================== *)

(* the four containers held by an interpreter state *)
Definition regs (x : xworld) : map key vobj * map key vobj * map key unit * map key unit :=
  (xm0 x, xm1 x, xs0 x, xs1 x).

(* two register numbers name the same map / set register (get_m, get_s decode
   them by comparing with 0 / 2) *)
Definition same_m (r r' : N) : Prop := N.eqb r 0 = N.eqb r' 0.
Definition same_s (r r' : N) : Prop := N.eqb r 2 = N.eqb r' 2.

(* ---- C4 (C14 finding 4): == writes back what it read, for EVERY script ---- *)
Section SelfKept.
Context {K V Q T : Type} (E : env K V Q T).
Notation world := (world K V T). Notation M := (M K V T).

(* in every outcome other than UB the container in [self] is the one before *)
Definition self_kept {A} (c : M A) : Prop :=
  forall w, match c w with Ok _ w' => self w' = self w | Panic w' => self w' = self w | UB => True end.

Lemma self_kept_ret {A} (a : A) : self_kept (ret a).
Proof. intros w. reflexivity. Qed.
Lemma self_kept_ub {A} : self_kept (@ub K V T A).
Proof. intros w. exact I. Qed.
Lemma self_kept_panic {A} : self_kept (@panic K V T A).
Proof. intros w. reflexivity. Qed.
Lemma self_kept_cbk f : self_kept (@cbk K V T f).
Proof. intros w. unfold cbk. destruct (f (cb w)) as [a s]. destruct a; reflexivity. Qed.
Lemma self_kept_on_map {A} (m : map K V) (c : M A) : self_kept (on_map m c).
Proof. intros w. unfold on_map. destruct (c _); first [reflexivity | exact I]. Qed.
Lemma self_kept_bind {A B} (c : M A) (f : A -> M B) :
  self_kept c -> (forall a, self_kept (f a)) -> self_kept (bind c f).
Proof.
  intros Hc Hf w. unfold bind. specialize (Hc w). destruct (c w) as [a w1|w1|]; [|exact Hc|exact I].
  specialize (Hf a w1). destruct (f a w1) as [b w2|w2|]; [congruence | congruence | exact I].
Qed.

Lemma self_kept_eq_loop (a b : map K V) : forall n i, self_kept (eq_loop E a b n i).
Proof.
  induction n as [|n IH]; intros i; cbn [eq_loop]; [apply self_kept_ret|].
  destruct (nth_error (slots a) i) as [[[k v]|]|]; try apply self_kept_ub.
  apply self_kept_bind; [apply self_kept_on_map|]. intros [j|]; [|apply self_kept_ret].
  destruct (nth_error (slots b) j) as [[[k' v']|]|]; try apply self_kept_ub.
  apply self_kept_bind; [apply self_kept_cbk|]. intros [|]; [apply IH | apply self_kept_ret].
Qed.

(* no well-formedness needed, any environment *)
Lemma self_kept_map_eq (a b : map K V) : self_kept (map_eq E a b).
Proof.
  unfold map_eq. destruct (len a =? len b); [|apply self_kept_ret].
  destruct (len a <=? cap a); [apply self_kept_eq_loop | apply self_kept_panic].
Qed.

End SelfKept.

Lemma regs_put_m_same r c x : regs (put_m r (get_m r x) c x) = regs x.
Proof. unfold regs, put_m, get_m. destruct (N.eqb r 0); reflexivity. Qed.
Lemma regs_put_s_same r c x : regs (put_s r (get_s r x) c x) = regs x.
Proof. unfold regs, put_s, get_s. destruct (N.eqb r 2); reflexivity. Qed.
Lemma regs_kill x : regs (kill x) = regs x.
Proof. reflexivity. Qed.

Lemma run_m_self_kept r (c : Mm (list N)) x : self_kept c -> regs (snd (run_m r c x)) = regs x.
Proof.
  intros Hc. unfold run_m. specialize (Hc {| cb := xcb x; log := []; self := get_m r x |}).
  destruct (c _) as [body w|w|]; cbn [finish snd self] in *;
    [rewrite Hc; apply regs_put_m_same | rewrite Hc; apply regs_put_m_same | apply regs_kill].
Qed.
Lemma run_s_self_kept r (c : Ms (list N)) x : self_kept c -> regs (snd (run_s r c x)) = regs x.
Proof.
  intros Hc. unfold run_s. specialize (Hc {| cb := xcb x; log := []; self := get_s r x |}).
  destruct (c _) as [body w|w|]; cbn [finish snd self] in *;
    [rewrite Hc; apply regs_put_s_same | rewrite Hc; apply regs_put_s_same | apply regs_kill].
Qed.

(* every script, every state (well formed or not), both values of debug, whether
   the comparison returns, panics or is undefined: all four registers hold
   afterwards literally the containers they held before *)
Theorem step_OEq_regs debug sc r r' x : regs (snd (step debug sc (OEq r r') x)) = regs x.
Proof.
  unfold step. destruct (xdead x); [reflexivity|].
  apply run_m_self_kept. apply self_kept_bind; [apply self_kept_map_eq | intros; apply self_kept_ret].
Qed.
Theorem step_SEq_regs debug sc r r' x : regs (snd (step debug sc (SEq r r') x)) = regs x.
Proof.
  unfold step. destruct (xdead x); [reflexivity|].
  apply run_s_self_kept. apply self_kept_bind; [apply self_kept_map_eq | intros; apply self_kept_ret].
Qed.

(* the view-level instances (the specification's step for == is the identity) *)
Lemma vstep_OEq r r' vw : vstep (OEq r r') vw = vw.
Proof. reflexivity. Qed.
Lemma vstep_SEq r r' vw : vstep (SEq r r') vw = vw.
Proof. reflexivity. Qed.

Lemma view_x_regs x x' : regs x' = regs x -> view_x x' = view_x x.
Proof. unfold regs, view_x. intros H. injection H as -> -> -> ->. reflexivity. Qed.

Theorem step_OEq_view debug sc r r' x :
  view_x (snd (step debug sc (OEq r r') x)) = vstep (OEq r r') (view_x x).
Proof. rewrite vstep_OEq. apply view_x_regs. apply step_OEq_regs. Qed.
Theorem step_SEq_view debug sc r r' x :
  view_x (snd (step debug sc (SEq r r') x)) = vstep (SEq r r') (view_x x).
Proof. rewrite vstep_SEq. apply view_x_regs. apply step_SEq_regs. Qed.

(* ---- C8b (C15 finding 8, changes): every operation writes only its target ---- *)
(* the register an operation may write back to *)
Definition m_target (o : op) : option N :=
  match o with
  | OInsert r _ _ | OInsertKV r _ _ | OCheckedInsert r _ _ | OInsertUnchecked r _ _
  | OGet r _ | OGetMut r _ _ | OGetKV r _ | OContains r _ | OIndex r _ | OIndexMut r _ _
  | ORemove r _ | ORemoveEntry r _ | ORetain r _ _ | OClear r | ODrain r _ _ | OWithCapacity r _
  | OIter r _ _ _ | OIntoIter r _ _ _ | OEntry r _ _ _ | ODisjoint r _ _ _
  | OEq r _ | OFromIter r _ _ | OFormat r _ | ODefault r
  | OIterNth r _ _ _ | ODrainNth r _ _ | OIntoNth r _ _ _ => Some r
  | OClone _ r' | OCloneFrom _ r' | OSerde _ r' => Some r'
  | _ => None
  end.
Definition s_target (o : op) : option N :=
  match o with
  | SInsert r _ | SReplace r _ | SContains r _ | SGet r _ | SRemove r _ | STake r _
  | SRetain r _ _ | SClear r | SDrain r _ _ | SExtend r _ | SIter r _ | SIntoIter r _ _
  | SEq r _ | SFromIter r _ _ | SAlgebra _ r _ _ _ | SPred _ r _ | SSub r _ | SFormat r _
  | SDefault r | SIterNth r _ _ | SDrainNth r _ _ | SIntoNth r _ _ => Some r
  | SClone _ r' | SCloneFrom _ r' | SSerde _ r' => Some r'
  | _ => None
  end.

(* [r] is not the map (set) register that [o] writes *)
Definition not_m_target (o : op) (r : N) : Prop :=
  match m_target o with Some t => ~ same_m t r | None => True end.
Definition not_s_target (o : op) (r : N) : Prop :=
  match s_target o with Some t => ~ same_s t r | None => True end.

(* view level: a pure fact about the specification [vstep] *)
Lemma get_mv_put_mv_other t r l vw : ~ same_m t r -> get_mv r (put_mv t l vw) = get_mv r vw.
Proof. unfold same_m, get_mv, put_mv. destruct (N.eqb t 0), (N.eqb r 0); intros H; try reflexivity; exfalso; apply H; reflexivity. Qed.
Lemma get_sv_put_sv_other t r l vw : ~ same_s t r -> get_sv r (put_sv t l vw) = get_sv r vw.
Proof. unfold same_s, get_sv, put_sv. destruct (N.eqb t 2), (N.eqb r 2); intros H; try reflexivity; exfalso; apply H; reflexivity. Qed.
Lemma get_mv_put_sv t r l vw : get_mv r (put_sv t l vw) = get_mv r vw.
Proof. unfold get_mv, put_sv. destruct (N.eqb t 2), (N.eqb r 0); reflexivity. Qed.
Lemma get_sv_put_mv t r l vw : get_sv r (put_mv t l vw) = get_sv r vw.
Proof. unfold get_sv, put_mv. destruct (N.eqb t 0), (N.eqb r 2); reflexivity. Qed.

Lemma vstep_other_register_unchanged o vw r :
  (not_m_target o r -> get_mv r (vstep o vw) = get_mv r vw) /\
  (not_s_target o r -> get_sv r (vstep o vw) = get_sv r vw).
Proof.
  unfold not_m_target, not_s_target.
  destruct o; cbn [vstep m_target s_target]; unfold on_m, on_s; split; intros H;
    repeat match goal with |- context [if ?b then _ else _] => destruct b end;
    first [ reflexivity
          | apply get_mv_put_mv_other; exact H
          | apply get_sv_put_sv_other; exact H
          | apply get_mv_put_sv
          | apply get_sv_put_mv ].
Qed.

(* Exec level, EVERY script, every state: literal equality of the containers *)
Lemma get_m_put_m_other t r m c x : ~ same_m t r -> get_m r (put_m t m c x) = get_m r x.
Proof. unfold same_m, get_m, put_m. destruct (N.eqb t 0), (N.eqb r 0); intros H; try reflexivity; exfalso; apply H; reflexivity. Qed.
Lemma get_s_put_s_other t r m c x : ~ same_s t r -> get_s r (put_s t m c x) = get_s r x.
Proof. unfold same_s, get_s, put_s. destruct (N.eqb t 2), (N.eqb r 2); intros H; try reflexivity; exfalso; apply H; reflexivity. Qed.
Lemma get_m_put_s t r m c x : get_m r (put_s t m c x) = get_m r x.
Proof. unfold get_m, put_s. destruct (N.eqb t 2), (N.eqb r 0); reflexivity. Qed.
Lemma get_s_put_m t r m c x : get_s r (put_m t m c x) = get_s r x.
Proof. unfold get_s, put_m. destruct (N.eqb t 0), (N.eqb r 2); reflexivity. Qed.

Lemma run_m_other t (c : Mm (list N)) x r :
  (~ same_m t r -> get_m r (snd (run_m t c x)) = get_m r x) /\ get_s r (snd (run_m t c x)) = get_s r x.
Proof.
  unfold run_m. destruct (c _) as [body w|w|]; cbn [finish snd]; split; intros;
    first [apply get_m_put_m_other; assumption | apply get_s_put_m | reflexivity].
Qed.
Lemma run_s_other t (c : Ms (list N)) x r :
  (~ same_s t r -> get_s r (snd (run_s t c x)) = get_s r x) /\ get_m r (snd (run_s t c x)) = get_m r x.
Proof.
  unfold run_s. destruct (c _) as [body w|w|]; cbn [finish snd]; split; intros;
    first [apply get_s_put_s_other; assumption | apply get_m_put_s | reflexivity].
Qed.

Theorem step_other_register_unchanged debug sc o x r :
  (not_m_target o r -> get_m r (snd (step debug sc o x)) = get_m r x) /\
  (not_s_target o r -> get_s r (snd (step debug sc o x)) = get_s r x).
Proof.
  unfold not_m_target, not_s_target, step. destruct (xdead x); [split; reflexivity|].
  destruct o; cbn [m_target s_target]; split; intros H;
    repeat match goal with |- context [if ?b then _ else _] => destruct b end;
    first [ reflexivity
          | apply (proj1 (run_m_other _ _ _ _)); exact H
          | apply (proj2 (run_m_other _ _ _ _))
          | apply (proj1 (run_s_other _ _ _ _)); exact H
          | apply (proj2 (run_s_other _ _ _ _)) ].
Qed.

(* whole histories that never target register r leave it as it was *)
Theorem run_other_register_unchanged debug sc ops : forall x r,
  (Forall (fun o => not_m_target o r) ops -> get_m r (run_final debug sc ops x) = get_m r x) /\
  (Forall (fun o => not_s_target o r) ops -> get_s r (run_final debug sc ops x) = get_s r x).
Proof.
  induction ops as [|o t IH]; intros x r; cbn [run_final]; [split; reflexivity|].
  destruct (IH (snd (step debug sc o x)) r) as [IHm IHs].
  destruct (step_other_register_unchanged debug sc o x r) as [Hm Hs].
  split; intros HF; inversion HF as [|o' t' Ho Ht]; subst.
  - rewrite (IHm Ht). apply Hm. exact Ho.
  - rewrite (IHs Ht). apply Hs. exact Ho.
Qed.

(* the clause of C15 as one statement: clone register r into r' (different
   registers); afterwards ANY history of operations that do not target r' leaves
   the clone exactly as it was made, and any history that does not target r
   leaves the original exactly as it was.  Every script. *)
Theorem clone_then_changes_independent debug sc r r' ops x :
  let x1 := snd (step debug sc (OClone r r') x) in
  (Forall (fun o => not_m_target o r') ops -> get_m r' (run_final debug sc ops x1) = get_m r' x1) /\
  (Forall (fun o => not_m_target o r) ops -> get_m r (run_final debug sc ops x1) = get_m r x1) /\
  (~ same_m r' r -> get_m r x1 = get_m r x).
Proof.
  intros x1. split; [apply run_other_register_unchanged|]. split; [apply run_other_register_unchanged|].
  intros Hn. apply (proj1 (step_other_register_unchanged debug sc (OClone r r') x r)). exact Hn.
Qed.
Theorem sclone_then_changes_independent debug sc r r' ops x :
  let x1 := snd (step debug sc (SClone r r') x) in
  (Forall (fun o => not_s_target o r') ops -> get_s r' (run_final debug sc ops x1) = get_s r' x1) /\
  (Forall (fun o => not_s_target o r) ops -> get_s r (run_final debug sc ops x1) = get_s r x1) /\
  (~ same_s r' r -> get_s r x1 = get_s r x).
Proof.
  intros x1. split; [apply run_other_register_unchanged|]. split; [apply run_other_register_unchanged|].
  intros Hn. apply (proj2 (step_other_register_unchanged debug sc (SClone r r') x r)). exact Hn.
Qed.

(* ======================================================================== *)
(* PART D — C18                                                              *)
(* ======================================================================== *)
Section Unchecked.
Context {K V Q T : Type} (E : env K V Q T) (debug : bool).
Notation world := (world K V T). Notation map := (map K V). Notation kv := (K * V)%type.
Notation M := (M K V T).

(* D10 (finding 10): get_disjoint_mut IS the overlap assertion followed by
   get_disjoint_unchecked_mut.  ANY environment, any state, any keys. *)
Lemma disjoint_mut_eq_unchecked (ks : list Q) (w w1 : world) :
  assert_distinct E ks w = Ok tt w1 ->
  get_disjoint_mut E ks w = get_disjoint_unchecked_mut E ks w1.
Proof.
  intros H. destruct ks as [|k ks'].
  - cbn in H. injection H as <-. reflexivity.
  - unfold get_disjoint_mut, bind. rewrite H. reflexivity.
Qed.

(* ... and when the assertion fails, so does get_disjoint_mut, in the same world *)
Lemma disjoint_mut_panics (ks : list Q) (w w1 : world) :
  assert_distinct E ks w = Panic w1 -> get_disjoint_mut E ks w = Panic w1.
Proof.
  intros H. destruct ks as [|k ks']; [discriminate|].
  unfold get_disjoint_mut, bind. rewrite H. reflexivity.
Qed.

Lemma world_eta (w : world) : w = {| cb := cb w; log := log w; self := self w |}.
Proof. destruct w; reflexivity. Qed.

Section LawfulU.
Context (ck : K -> N) (cq : Q -> N) (HL : Lawful E ck cq).

(* under a lawful == and pairwise different requested classes the assertion
   returns, and changes NOTHING but the callback state (the q == q' calls it
   made): container and log are the same.  No hypothesis on the container. *)
Lemma assert_distinct_ok (ks : list Q) (w : world) :
  NoDup (List.map cq ks) ->
  exists s1, assert_distinct E ks w = Ok tt (with_cb w s1).
Proof.
  intros Hnd. pose proof (assert_distinct_lawful E ck cq HL ks w) as H. unfold wp in H.
  destruct (assert_distinct E ks w) as [[] w1|w1|]; [| destruct H as [_ Hn]; contradiction | contradiction].
  destruct H as [[Hs Hl] _]. exists (cb w1). f_equal. unfold with_cb. rewrite <- Hs, <- Hl. apply world_eta.
Qed.

Lemma disjoint_mut_eq_unchecked_lawful (ks : list Q) (w : world) :
  NoDup (List.map cq ks) ->
  exists s1, assert_distinct E ks w = Ok tt (with_cb w s1) /\
             get_disjoint_mut E ks w = get_disjoint_unchecked_mut E ks (with_cb w s1).
Proof.
  intros Hnd. destruct (assert_distinct_ok ks w Hnd) as [s1 H]. exists s1. split; [exact H|].
  apply disjoint_mut_eq_unchecked. exact H.
Qed.

(* D11 (finding 11): within its contract insert_unchecked has the
   specification of insert - and cannot panic *)
Lemma insert_unchecked_eq_insert_contract k v (w : world) :
  WF (self w) ->
  (len (self w) < cap (self w) \/ exists i, find_idx ck (ck k) (elems (self w)) = Some i) ->
  insert_unchecked E debug k v w = insert E debug k v w.
Proof.
  intros Hw [Hroom|[i Hf]].
  - apply insert_unchecked_eq_insert; assumption.
  - apply (insert_unchecked_eq_insert_present E debug ck cq HL k v i w Hw Hf).
Qed.

Lemma insert_unchecked_spec k v (w : world) :
  WF (self w) ->
  (len (self w) < cap (self w) \/ exists i, find_idx ck (ck k) (elems (self w)) = Some i) ->
  wp (insert_unchecked E debug k v)
     (fun r w' => WF (self w') /\ cap (self w') = cap (self w) /\
                  elems (self w') = fst (fst (l_insert ck (elems (self w)) k v false)) /\
                  r = option_map snd (snd (l_insert ck (elems (self w)) k v false)) /\
                  logged w w' (match snd (l_insert ck (elems (self w)) k v false) with
                               | Some (k', _) => ev_drops (idK E k') | None => [] end))
     (fun _ => False) w.
Proof.
  intros Hw Hc. pose proof (insert_lawful E debug ck cq HL k v w Hw) as H.
  unfold wp in *. rewrite (insert_unchecked_eq_insert_contract k v w Hw Hc).
  destruct (insert E debug k v w) as [r w'|w'|]; [exact H | | exact H].
  destruct H as (_ & _ & Hn & Hfull). destruct Hc as [Hroom|[i Hf]]; [lia | congruence].
Qed.

(* key uniqueness for a general class function *)
Lemma Uniq_l_insert_gen (l : list kv) k v u : Uniq ck l -> Uniq ck (fst (fst (l_insert ck l k v u))).
Proof.
  intros Hu. unfold l_insert. destruct (find_idx ck (ck k) l) as [i|] eqn:Hf.
  - destruct (find_idx_inv ck (ck k) l i Hf) as [[[k0 v0] [Hp Hc]] _]. rewrite Hp.
    cbn [fst] in Hc. unfold Uniq in *.
    destruct u; cbn [fst].
    + rewrite (map_upd_same (fun p : kv => ck (fst p)) l i (k, v) (k0, v0) Hp); [exact Hu | cbn [fst]; congruence].
    + rewrite (map_upd_same (fun p : kv => ck (fst p)) l i (k0, v) (k0, v0) Hp); [exact Hu | reflexivity].
  - cbn [fst]. apply (Uniq_snoc ck l (k, v)); [exact Hu | exact Hf].
Qed.

Lemma insert_unchecked_keeps_uniq k v (w : world) :
  WF (self w) -> Uniq ck (elems (self w)) ->
  (len (self w) < cap (self w) \/ exists i, find_idx ck (ck k) (elems (self w)) = Some i) ->
  wp (insert_unchecked E debug k v)
     (fun _ w' => WF (self w') /\ cap (self w') = cap (self w) /\ Uniq ck (elems (self w')))
     (fun _ => False) w.
Proof.
  intros Hw Hu Hc.
  eapply wp_mono; [apply (insert_unchecked_spec k v w Hw Hc) | | auto]; cbn beta.
  intros r w' (Hw' & Hc' & He & _). split; [exact Hw'|]. split; [exact Hc'|].
  rewrite He. apply Uniq_l_insert_gen. exact Hu.
Qed.

(* D12 (finding 12): histories.  A history of dictionary operations in which
   some inserts are made through insert_unchecked. *)
Inductive uop :=
| UBase (o : @dop K V Q)
| UInsertUnchecked (k : K) (v : V).

Definition erase (o : uop) : @dop K V Q :=
  match o with UBase o => o | UInsertUnchecked k v => DInsert k v end.

Definition mstep_u (o : uop) : M (@dres K V) :=
  match o with
  | UBase o => mstep E debug o
  | UInsertUnchecked k v =>
      r <- insert_unchecked E debug k v ;; ret (match r with None => RNone | Some v0 => RVal v0 end)
  end.

(* the documented contract, checked on the IDEAL dictionary of capacity n *)
Definition contract_u (n : nat) (o : uop) (d : list kv) : Prop :=
  match o with
  | UBase _ => True
  | UInsertUnchecked k _ => d_find ck d (ck k) <> None \/ length d < n
  end.

Fixpoint contracts_u (n : nat) (ops : list uop) (d : list kv) : Prop :=
  match ops with
  | [] => True
  | o :: t => contract_u n o d /\ contracts_u n t (snd (dstep ck cq n (erase o) d))
  end.

Fixpoint mrun_u (ops : list uop) (w : world) : list (@dres K V) :=
  match ops with
  | [] => []
  | o :: t => match mstep_u o w with
              | Ok r w' => r :: mrun_u t w'
              | Panic w' => RPanic :: mrun_u t w'
              | UB => []
              end
  end.

Fixpoint mfinal_u (ops : list uop) (w : world) : option world :=
  match ops with
  | [] => Some w
  | o :: t => match mstep_u o w with
              | Ok _ w' => mfinal_u t w'
              | Panic w' => mfinal_u t w'
              | UB => None
              end
  end.

(* one step: the same outcome (result, container, log, callback state) as insert *)
Lemma mstep_u_eq n (o : uop) (w : world) (d : list kv) :
  Abs ck (self w) d -> cap (self w) = n -> contract_u n o d ->
  mstep_u o w = mstep E debug (erase o) w.
Proof.
  intros Ha Hc Hk. destruct o as [o|k v]; [reflexivity|].
  cbn [mstep_u erase mstep]. unfold bind.
  pose proof Ha as (Hw & Hu & Hp).
  rewrite (insert_unchecked_eq_insert_contract k v w Hw); [reflexivity|].
  cbn [contract_u] in Hk. destruct Hk as [Hpres|Hroom].
  - right. destruct (find_idx ck (ck k) (elems (self w))) as [i|] eqn:Hf; [exists i; reflexivity|].
    exfalso. apply Hpres. exact (proj1 (d_abs_none ck _ _ _ Hu Hp Hf)).
  - left. rewrite (abs_len ck w d Ha). lia.
Qed.

Theorem run_u_eq n (ops : list uop) : forall (w : world) (d : list kv),
  Abs ck (self w) d -> cap (self w) = n -> contracts_u n ops d ->
  mrun_u ops w = mrun E debug (List.map erase ops) w /\
  mfinal_u ops w = mfinal E debug (List.map erase ops) w.
Proof.
  induction ops as [|o t IH]; intros w d Ha Hc Hk; [split; reflexivity|].
  cbn [contracts_u] in Hk. destruct Hk as [Hk Hkt].
  cbn [mrun_u mfinal_u List.map mrun mfinal]. rewrite (mstep_u_eq n o w d Ha Hc Hk).
  pose proof (step_refines E debug ck cq HL n (erase o) w d Ha Hc) as Hs.
  destruct (mstep E debug (erase o) w) as [r w'|w'|]; [| |split; reflexivity].
  - destruct Hs as (_ & Ha' & Hc'). destruct (IH w' _ Ha' Hc' Hkt) as [H1 H2]. rewrite H1, H2. split; reflexivity.
  - destruct Hs as (_ & Hd & Hs'). rewrite Hd in Hkt. rewrite <- Hs' in Ha, Hc.
    destruct (IH w' _ Ha Hc Hkt) as [H1 H2]. rewrite H1, H2. split; reflexivity.
Qed.

(* hence such a history refines the ideal dictionary like any other: same
   results, a final state that exists (no UB on the way) and abstracts to the
   dictionary's final state, same capacity *)
Theorem run_u_refines n (ops : list uop) (w : world) (d : list kv) :
  Abs ck (self w) d -> cap (self w) = n -> contracts_u n ops d ->
  mrun_u ops w = drun ck cq n (List.map erase ops) d /\
  exists wf, mfinal_u ops w = Some wf /\
             Abs ck (self wf) (dfinal ck cq n (List.map erase ops) d) /\ cap (self wf) = n.
Proof.
  intros Ha Hc Hk. destruct (run_u_eq n ops w d Ha Hc Hk) as [H1 H2]. rewrite H1, H2. split.
  - apply (run_refines E debug ck cq HL); assumption.
  - apply (run_refines_state E debug ck cq HL); assumption.
Qed.

Theorem run_u_refines_new n (ops : list uop) s lg :
  contracts_u n ops [] ->
  mrun_u ops {| cb := s; log := lg; self := new_map n |} = drun ck cq n (List.map erase ops) [] /\
  exists wf, mfinal_u ops {| cb := s; log := lg; self := new_map n |} = Some wf /\
             Abs ck (self wf) (dfinal ck cq n (List.map erase ops) []) /\ cap (self wf) = n.
Proof. intros Hk. apply run_u_refines; cbn [self]; [apply Abs_new | apply cap_new | exact Hk]. Qed.

End LawfulU.
End Unchecked.

(* ======================================================================== *)
(* ROUND 2                                                                   *)
(* ======================================================================== *)
Require Import Proofs.SetDict Proofs.MoreOwned.

(* ---------------------------------------------------------------------- *)
(* PART E — C14, second audit                                               *)
Section EqIff2.
Context {K V Q T : Type} (E : env K V Q T).
Context (ck : K -> N) (cq : Q -> N) (HL : Lawful E ck cq).
Context (veq : V -> V -> bool) (HV : forall s a b, fst (eqV E s a b) = if veq a b then Yes else No).
Notation world := (world K V T). Notation map := (map K V). Notation kv := (K * V)%type.

(* E6 (finding 6): the environment-level laws used by map_eq_sym_run /
   map_eq_refl_run are EQUIVALENT (given HV) to the laws of the boolean function
   veq: nothing beyond "V's == is symmetric / reflexive" is assumed *)
Lemma eqV_sym_of_veq : (forall x y, veq x y = veq y x) ->
  forall s s' x y, fst (eqV E s x y) = fst (eqV E s' y x).
Proof. intros Hs s s' x y. rewrite !HV, (Hs x y). reflexivity. Qed.

Lemma eqV_refl_of_veq : (forall x, veq x x = true) -> forall s x, fst (eqV E s x x) = Yes.
Proof. intros Hr s x. rewrite HV, Hr. reflexivity. Qed.

Lemma map_eq_sym_run_veq (a b : map) (w : world) :
  (forall x y, veq x y = veq y x) ->
  WF a -> WF b -> Uniq ck (elems a) -> Uniq ck (elems b) ->
  exists r w1 w2, map_eq E a b w = Ok r w1 /\ map_eq E b a w = Ok r w2 /\ stable w w1 /\ stable w w2.
Proof. intros Hs. apply (map_eq_sym_run E ck cq HL veq HV a b w (eqV_sym_of_veq Hs)). Qed.

Lemma map_eq_refl_run_veq (a : map) (w : world) :
  (forall x, veq x x = true) ->
  WF a -> Uniq ck (elems a) ->
  exists w', map_eq E a a w = Ok true w' /\ stable w w'.
Proof. intros Hr. apply (map_eq_refl_run E ck cq HL veq HV a w (eqV_refl_of_veq Hr)). Qed.

(* E4 (finding 4): histories whose ideal dictionaries hold the same classes with
   ==-related values (NOT necessarily the same objects) give containers that
   compare equal.  Replaces map_eq_same_dict, whose hypothesis equated the
   stored (key object, value) pairs themselves. *)
Lemma map_eq_agree_dict (debug : bool) (na nb : nat) (ops_a ops_b : list (@dop K V Q))
      (sa sb : T) (la lb : list event) :
  (forall c, match d_find ck (dfinal ck cq na ops_a []) c, d_find ck (dfinal ck cq nb ops_b []) c with
             | Some (_, v), Some (_, v') => veq v' v = true
             | None, None => True
             | _, _ => False
             end) ->
  exists wa wb,
    mfinal E debug ops_a {| cb := sa; log := la; self := new_map na |} = Some wa /\
    mfinal E debug ops_b {| cb := sb; log := lb; self := new_map nb |} = Some wb /\
    forall w : world, exists w', map_eq E (self wa) (self wb) w = Ok true w' /\ stable w w'.
Proof.
  intros Hd.
  destruct (map_eq_histories E ck cq HL veq HV debug na nb ops_a ops_b sa sb la lb)
    as (wa & wb & Hfa & Hfb & _ & _ & H).
  exists wa, wb. split; [exact Hfa|]. split; [exact Hfb|]. intros w.
  specialize (H w). unfold wp in H.
  destruct (map_eq E (self wa) (self wb) w) as [r w'|w'|]; [|contradiction|contradiction].
  destruct H as [Hst Hiff]. exists w'. split; [|exact Hst]. f_equal. apply Hiff. exact Hd.
Qed.

End EqIff2.

(* E5 (finding 5): the Set twin of map_eq_histories.  Two histories of the nine
   set operations (SetDict.sop) run from empty sets of any capacities: both runs
   exist, and == on the results answers true exactly when the two IDEAL sets
   (SetDict.fsfinal) hold the same element classes.
   Reflexivity / symmetry for sets are the instances of map_eq_refl_run_veq /
   map_eq_sym_run_veq at veq := fun _ _ => true (trivially reflexive and
   symmetric): see set_eq_sym_run / set_eq_refl_run below. *)
Section SetEq2.
Context {K Q T : Type} (E : env K unit Q T).
Context (ck : K -> N) (cq : Q -> N) (HL : Lawful E ck cq).
Context (HVu : forall s a b, fst (eqV E s a b) = Yes).
Notation world := (world K unit T).

Lemma sabs_classes (m : map K unit) (s : list K) c :
  SAbs ck m s -> (In c (List.map (fun p => ck (fst p)) (elems m)) <-> In c (List.map ck s)).
Proof.
  intros (_ & _ & Hp). rewrite <- (map_map fst ck).
  split; apply Permutation_in; [|apply Permutation_sym]; apply Permutation_map; exact Hp.
Qed.

Lemma set_eq_histories (debug : bool) (na nb : nat) (ops_a ops_b : list (@sop K Q))
      (sa sb : T) (la lb : list event) :
  exists wa wb,
    smfinal E debug ops_a {| cb := sa; log := la; self := new_map na |} = Some wa /\
    smfinal E debug ops_b {| cb := sb; log := lb; self := new_map nb |} = Some wb /\
    cap (self wa) = na /\ cap (self wb) = nb /\
    forall w : world,
      wp (map_eq E (self wa) (self wb))
         (fun r w' => stable w w' /\
            (r = true <->
             forall c, In c (List.map ck (fsfinal ck cq na ops_a [])) <->
                       In c (List.map ck (fsfinal ck cq nb ops_b []))))
         (fun _ => False) w.
Proof.
  destruct (srun_refines_state_new E debug ck cq HL na ops_a sa la) as (wa & Hfa & Aa & Hca).
  destruct (srun_refines_state_new E debug ck cq HL nb ops_b sb lb) as (wb & Hfb & Ab & Hcb).
  exists wa, wb. repeat (split; [assumption|]). intros w.
  pose proof Aa as (Ha & Hua & _). pose proof Ab as (Hb & Hub & _).
  eapply wp_mono; [apply (set_eq_iff E ck cq HL HVu (self wa) (self wb) w Ha Hb Hua Hub) | | auto]; cbn beta.
  intros r w' [Hst Hiff]. split; [exact Hst|]. rewrite Hiff.
  split; intros H c; specialize (H c).
  - rewrite <- (sabs_classes _ _ c Aa), <- (sabs_classes _ _ c Ab). exact H.
  - rewrite (sabs_classes _ _ c Aa), (sabs_classes _ _ c Ab). exact H.
Qed.

Lemma set_eq_sym_run (a b : map K unit) (w : world) :
  WF a -> WF b -> Uniq ck (elems a) -> Uniq ck (elems b) ->
  exists r w1 w2, map_eq E a b w = Ok r w1 /\ map_eq E b a w = Ok r w2 /\ stable w w1 /\ stable w w2.
Proof.
  apply (map_eq_sym_run_veq E ck cq HL (fun _ _ : unit => true) HVu a b w). reflexivity.
Qed.

Lemma set_eq_refl_run (a : map K unit) (w : world) :
  WF a -> Uniq ck (elems a) -> exists w', map_eq E a a w = Ok true w' /\ stable w w'.
Proof.
  apply (map_eq_refl_run_veq E ck cq HL (fun _ _ : unit => true) HVu a w). reflexivity.
Qed.

End SetEq2.

(* ---------------------------------------------------------------------- *)
(* PART F — C15, second audit: findings 2 and 3                             *)

(* F3 (finding 3): clone_lawful instantiated at the two environments of the
   correspondence check WITH its log clause: exactly one K::clone and one
   V::clone event per stored entry, in slot order *)
Lemma clone_honest_map_full sc (src : map key vobj) (w : world key vobj cstate) : honest sc ->
  WF src -> WF (self w) -> len (self w) = 0 -> cap (self w) = cap src ->
  wp (clone_from_src (env_map sc) src)
     (fun _ w' => WF (self w') /\ cap (self w') = cap src /\ len (self w') = len src /\
        Forall2 (fun p p' => kcls (fst p') = kcls (fst p) /\ N.eqb (vdat (snd p')) (vdat (snd p)) = true)
                (Spec.elems src) (Spec.elems (self w')) /\
        logged w w' (flat_map (fun p : key * vobj => [EvCloneK (kid (fst p)); EvCloneV (vid (snd p))])
                              (Spec.elems src)))
     (fun _ => False) w.
Proof.
  intros Hh Hsrc Hw Hl Hc.
  exact (clone_lawful (env_map sc) kcls (fun a b => N.eqb (vdat a) (vdat b))
           (env_map_cloneK sc Hh) (env_map_cloneV sc Hh) src w Hsrc Hw Hl Hc).
Qed.

Lemma clone_honest_set_full sc (src : map key unit) (w : world key unit cstate) : honest sc ->
  WF src -> WF (self w) -> len (self w) = 0 -> cap (self w) = cap src ->
  wp (clone_from_src (env_set sc) src)
     (fun _ w' => WF (self w') /\ cap (self w') = cap src /\ len (self w') = len src /\
        Forall2 (fun p p' : key * unit => kcls (fst p') = kcls (fst p)) (Spec.elems src) (Spec.elems (self w')) /\
        logged w w' (flat_map (fun p : key * unit => [EvCloneK (kid (fst p))]) (Spec.elems src)))
     (fun _ => False) w.
Proof.
  intros Hh Hsrc Hw Hl Hc.
  eapply wp_mono;
    [apply (clone_lawful (env_set sc) kcls (fun _ _ : unit => true)
              (env_set_cloneK sc Hh) (env_set_cloneV sc) src w Hsrc Hw Hl Hc) | | auto]; cbn beta.
  intros _ w' (H1 & H2 & H3 & H4 & H5). split; [exact H1|]. split; [exact H2|]. split; [exact H3|]. split.
  - eapply Forall2_impl'; [|exact H4]. cbn beta. intros a b [H _]. exact H.
  - exact H5.
Qed.

(* F2 (finding 2): a later HISTORY on one copy cannot destroy, store or hand out
   an object of the other copy.  ANY environment.  [foreign] = identities that
   the container does not hold and that no operation of the history hands in. *)
Section Foreign.
Context {K V Q T : Type} (E : env K V Q T) (debug : bool).
Notation world := (world K V T). Notation map := (map K V).

Lemma history_foreign_untouched (foreign : list N) (ops : list (@dop K V Q)) (w : world) :
  WF (self w) -> Forall (op_ok E) ops ->
  (forall x, In x foreign -> ~ In x (owned E (self w)) /\ ~ In x (flat_map (op_ins E) ops) /\
                             ~ In x (dropped (log w))) ->
  exists wf, mfinal E debug ops w = Some wf /\ WF (self wf) /\
    forall x, In x foreign ->
      ~ In x (owned E (self wf)) /\ ~ In x (mouts E debug ops w) /\ ~ In x (dropped (log wf)).
Proof.
  intros Hw Hok Hf.
  destruct (run_acct E debug ops w Hw Hok) as (wf & lost & H1 & H2 & _ & HP).
  exists wf. split; [exact H1|]. split; [exact H2|]. intros x Hx. destruct (Hf x Hx) as (Ha & Hb & Hc).
  apply (count_occ_not_In N.eq_dec) in Ha. apply (count_occ_not_In N.eq_dec) in Hb.
  apply (count_occ_not_In N.eq_dec) in Hc.
  apply (perm_cnt1 _ _ x) in HP. rewrite !count_occ_app in HP.
  split; [apply (proj2 (count_occ_not_In N.eq_dec _ x)); lia|].
  split; apply (proj2 (count_occ_not_In N.eq_dec _ x)); lia.
Qed.

(* composed with clone_disjoint_run: after a Clone that returned, run ANY history
   of dictionary operations on the clone (resp. on the original), from any later
   world holding it in which the other copy's objects are alive (not in the drop
   log), handing in only identities that are not the other copy's: afterwards no
   identity of the other copy is stored in the mutated copy, has been handed out
   by the history, or HAS BEEN DESTROYED *)
Lemma clone_then_history_independent (src : map) (w : world) :
  WF src -> WF (self w) -> len (self w) = 0 -> cap (self w) = cap src -> Tidy (self w) ->
  (forall x, In x (flat_map (ids_pair E) (clone_made E src (len src) 0 (cb w))) -> ~ In x (owned E src)) ->
  wp (clone_from_src E src)
     (fun _ w' =>
        (forall (ops : list (@dop K V Q)) (w2 : world),
            self w2 = self w' -> Forall (op_ok E) ops ->
            (forall x, In x (owned E src) -> ~ In x (flat_map (op_ins E) ops) /\ ~ In x (dropped (log w2))) ->
            exists wf, mfinal E debug ops w2 = Some wf /\
              forall x, In x (owned E src) ->
                ~ In x (owned E (self wf)) /\ ~ In x (mouts E debug ops w2) /\ ~ In x (dropped (log wf))) /\
        (forall (ops : list (@dop K V Q)) (w2 : world),
            self w2 = src -> Forall (op_ok E) ops ->
            (forall x, In x (owned E (self w')) -> ~ In x (flat_map (op_ins E) ops) /\ ~ In x (dropped (log w2))) ->
            exists wf, mfinal E debug ops w2 = Some wf /\
              forall x, In x (owned E (self w')) ->
                ~ In x (owned E (self wf)) /\ ~ In x (mouts E debug ops w2) /\ ~ In x (dropped (log wf))))
     (fun _ => True) w.
Proof.
  intros Hsrc Hw Hl Hc Ht Hfresh.
  eapply wp_mono; [apply (clone_disjoint_run E src w Hsrc Hw Hl Hc Ht Hfresh) | | auto]; cbn beta.
  intros _ w' (Hw' & _ & _ & _ & Hd1 & Hd2). split.
  - intros ops w2 Hs2 Hok Hins.
    destruct (history_foreign_untouched (owned E src) ops w2) as (wf & H1 & _ & H2);
      [rewrite Hs2; exact Hw' | exact Hok | | eauto].
    intros x Hx. destruct (Hins x Hx) as [Hi1 Hi2].
    split; [rewrite Hs2; apply Hd2; exact Hx | split; assumption].
  - intros ops w2 Hs2 Hok Hins.
    destruct (history_foreign_untouched (owned E (self w')) ops w2) as (wf & H1 & _ & H2);
      [rewrite Hs2; exact Hsrc | exact Hok | | eauto].
    intros x Hx. destruct (Hins x Hx) as [Hi1 Hi2].
    split; [rewrite Hs2; apply Hd1; exact Hx | split; assumption].
Qed.

End Foreign.

(* ---------------------------------------------------------------------- *)
(* PART G — C18, second audit                                               *)
Section Unchecked2.
Context {K V Q T : Type} (E : env K V Q T) (debug : bool).
Context (ck : K -> N) (cq : Q -> N) (HL : Lawful E ck cq).
Notation world := (world K V T). Notation map := (map K V). Notation kv := (K * V)%type.
Notation M := (M K V T).

(* G7 (finding 7): the ownership ledger of insert_unchecked within its whole
   contract, as ONE statement: it cannot panic; what was stored, handed in and
   destroyed before = what is stored, handed back, (lost) and destroyed after;
   from a tidy container nothing is lost *)
Lemma insert_unchecked_acct k v (w : world) :
  WF (self w) ->
  (len (self w) < cap (self w) \/ exists i, find_idx ck (ck k) (elems (self w)) = Some i) ->
  wp (insert_unchecked E debug k v)
     (fun r w' => WF (self w') /\ cap (self w') = cap (self w) /\
        exists lost, acct E w w' (ids_pair E (k, v)) (match r with Some v0 => idV E v0 | None => [] end) lost /\
                     (Tidy (self w) -> lost = [] /\ Tidy (self w')))
     (fun _ => False) w.
Proof.
  intros Hw Hc.
  pose proof (insert_unchecked_spec E debug ck cq HL k v w Hw Hc) as H1.
  pose proof (conserves_insert E debug k v w Hw) as H2.
  unfold wp in *. rewrite (insert_unchecked_eq_insert_contract E debug ck cq HL k v w Hw Hc) in *.
  destruct (insert E debug k v w) as [r w'|w'|]; [exact H2 | exact H1 | exact H1].
Qed.

(* G8 (finding 8): histories that also contain get_disjoint_mut /
   get_disjoint_unchecked_mut calls.  The observable result of such a call is
   what the returned references point to; on the ideal dictionary: the
   association of every requested class. *)
Inductive wop :=
| WBase (o : @uop K V Q)
| WDisjoint (unchecked : bool) (ks : list Q).

Inductive wres := WR (r : @dres K V) | WMany (l : list (option kv)).

Fixpoint read_opt_slots (l : list (option nat)) : M (list (option kv)) :=
  match l with
  | [] => ret []
  | None :: t => r <- read_opt_slots t ;; ret (None :: r)
  | Some i :: t => p <- p_ref i ;; r <- read_opt_slots t ;; ret (Some p :: r)
  end.

Definition mstep_w (o : wop) : M wres :=
  match o with
  | WBase o => r <- mstep_u E debug o ;; ret (WR r)
  | WDisjoint u ks =>
      l <- (if u then get_disjoint_unchecked_mut E ks else get_disjoint_mut E ks) ;;
      r <- read_opt_slots l ;; ret (WMany r)
  end.

(* every unchecked call is replaced by its checked counterpart *)
Definition erase_w (o : wop) : wop :=
  match o with
  | WBase o => WBase (UBase (erase o))
  | WDisjoint _ ks => WDisjoint false ks
  end.

(* the ideal dictionary: the checked call panics on overlapping requests; the
   flag does not occur *)
Definition dstep_w (n : nat) (o : wop) (d : list kv) : wres * list kv :=
  match o with
  | WBase o => let '(r, d') := dstep ck cq n (erase o) d in (WR r, d')
  | WDisjoint _ ks =>
      (if nodupb (List.map cq ks) then WMany (List.map (fun q => d_find ck d (cq q)) ks) else WR RPanic, d)
  end.

(* the documented contracts: insert_unchecked as before; get_disjoint_unchecked_mut:
   pairwise different requested classes *)
Definition contract_w (n : nat) (o : wop) (d : list kv) : Prop :=
  match o with
  | WBase o => contract_u ck n o d
  | WDisjoint true ks => NoDup (List.map cq ks)
  | WDisjoint false _ => True
  end.

Fixpoint contracts_w (n : nat) (ops : list wop) (d : list kv) : Prop :=
  match ops with
  | [] => True
  | o :: t => contract_w n o d /\ contracts_w n t (snd (dstep_w n o d))
  end.

Fixpoint mrun_w (ops : list wop) (w : world) : list wres :=
  match ops with
  | [] => []
  | o :: t => match mstep_w o w with
              | Ok r w' => r :: mrun_w t w'
              | Panic w' => WR RPanic :: mrun_w t w'
              | UB => []
              end
  end.

Fixpoint mfinal_w (ops : list wop) (w : world) : option world :=
  match ops with
  | [] => Some w
  | o :: t => match mstep_w o w with
              | Ok _ w' => mfinal_w t w'
              | Panic w' => mfinal_w t w'
              | UB => None
              end
  end.

Fixpoint drun_w (n : nat) (ops : list wop) (d : list kv) : list wres :=
  match ops with
  | [] => []
  | o :: t => let '(r, d') := dstep_w n o d in r :: drun_w n t d'
  end.

Fixpoint dfinal_w (n : nat) (ops : list wop) (d : list kv) : list kv :=
  match ops with
  | [] => d
  | o :: t => dfinal_w n t (snd (dstep_w n o d))
  end.

Lemma read_opt_slots_spec (l : list kv) : forall (qs : list N) (w : world),
  WF (self w) -> elems (self w) = l ->
  wp (read_opt_slots (List.map (fun c => find_idx ck c l) qs))
     (fun r w' => w' = w /\ r = List.map (fun c => lookup ck l c) qs) (fun _ => False) w.
Proof.
  induction qs as [|c qs IH]; intros w Hw He; cbn [List.map read_opt_slots].
  - apply wp_ret. split; reflexivity.
  - unfold lookup at 1. destruct (find_idx ck c l) as [i|] eqn:Hf.
    + destruct (find_idx_inv ck c l i Hf) as [[p [Hp _]] _]. rewrite <- He in Hp.
      destruct (elems_nth_slot _ _ _ Hw Hp) as [_ Hsl]. rewrite He in Hp. rewrite Hp.
      apply wp_bind. eapply wp_p_ref; [exact Hsl|]. apply wp_bind.
      eapply wp_mono; [apply (IH w Hw He) | | auto]; cbn beta.
      intros r w' [-> ->]. apply wp_ret. split; reflexivity.
    + apply wp_bind. eapply wp_mono; [apply (IH w Hw He) | | auto]; cbn beta.
      intros r w' [-> ->]. apply wp_ret. split; reflexivity.
Qed.

Lemma world_stable_eq (w w' : world) : stable w w' -> w' = with_cb w (cb w').
Proof. intros [Hs Hl]. unfold with_cb. rewrite <- Hs, <- Hl. apply world_eta. Qed.

(* one step refines the ideal step *)
Lemma step_w_refines n (o : wop) (w : world) (d : list kv) :
  Abs ck (self w) d -> cap (self w) = n -> contract_w n o d ->
  match mstep_w o w with
  | Ok r w' => fst (dstep_w n o d) = r /\ Abs ck (self w') (snd (dstep_w n o d)) /\ cap (self w') = n
  | Panic w' => fst (dstep_w n o d) = WR RPanic /\ snd (dstep_w n o d) = d /\ self w' = self w
  | UB => False
  end.
Proof.
  intros Ha Hc Hk. destruct o as [o|u ks].
  - cbn [mstep_w dstep_w contract_w] in *. unfold bind.
    rewrite (mstep_u_eq E debug ck cq HL n o w d Ha Hc Hk).
    pose proof (step_refines E debug ck cq HL n (erase o) w d Ha Hc) as Hs.
    destruct (dstep ck cq n (erase o) d) as [r' d']. cbn [fst snd] in *.
    destruct (mstep E debug (erase o) w) as [r w'|w'|]; [|exact (match Hs with conj H1 H2 => conj (f_equal WR H1) H2 end)|exact Hs].
    destruct Hs as (<- & H2). cbn [ret]. split; [reflexivity | exact H2].
  - cbn [mstep_w dstep_w fst snd]. pose proof Ha as (Hw & Hu & Hp).
    assert (Hchecked : NoDup (List.map cq ks) ->
              forall c : M (list (option nat)),
                wp c (fun r w' => stable w w' /\ r = List.map (fun q => find_idx ck (cq q) (elems (self w))) ks)
                   (fun _ => False) w ->
                match bind c (fun l => r <- read_opt_slots l ;; ret (WMany r)) w with
                | Ok r w' => WMany (List.map (fun q => d_find ck d (cq q)) ks) = r /\ Abs ck (self w') d /\ cap (self w') = n
                | Panic _ => False
                | UB => False
                end).
    { intros Hnd c Hcw. unfold bind at 1. unfold wp in Hcw.
      destruct (c w) as [l w1|w1|]; [|contradiction|contradiction].
      destruct Hcw as [Hst ->]. pose proof Hst as [Hs1 _].
      pose proof (read_opt_slots_spec (elems (self w)) (List.map cq ks) w1) as Hr.
      rewrite map_map in Hr. specialize (Hr ltac:(rewrite Hs1; exact Hw) ltac:(rewrite Hs1; reflexivity)).
      unfold bind. unfold wp in Hr.
      destruct (read_opt_slots _ w1) as [r w2|w2|]; [|contradiction|contradiction].
      destruct Hr as [-> ->]. cbn [ret]. rewrite Hs1. split; [|split; [exact Ha | exact Hc]].
      f_equal. rewrite map_map. apply map_ext. intros q. symmetry. apply (abs_lookup_dfind ck (self w) d (cq q) Ha). }
    destruct (nodupb (List.map cq ks)) eqn:Hnb.
    + assert (Hnd : NoDup (List.map cq ks)) by (apply nodupb_spec; exact Hnb).
      destruct u.
      * pose proof (Hchecked Hnd _ (disjoint_unchecked_lawful E ck cq HL ks w Hw Hu Hnd)) as H.
        destruct (bind _ _ w) as [r w'|w'|]; [exact H | destruct H | destruct H].
      * pose proof (Hchecked Hnd _ (disjoint_lawful E ck cq HL ks w Hw Hu Hnd)) as H.
        destruct (bind _ _ w) as [r w'|w'|]; [exact H | destruct H | destruct H].
    + assert (Hnd : ~ NoDup (List.map cq ks)).
      { intros H. apply nodupb_spec in H. congruence. }
      destruct u; [cbn [contract_w] in Hk; contradiction|].
      pose proof (disjoint_overlap_panics E ck cq HL ks w Hw Hnd) as H. unfold wp in H. unfold bind.
      destruct (get_disjoint_mut E ks w) as [r w'|w'|]; [destruct H | | destruct H].
      split; [reflexivity|]. split; [reflexivity | apply H].
Qed.

Theorem run_w_refines n (ops : list wop) : forall (w : world) (d : list kv),
  Abs ck (self w) d -> cap (self w) = n -> contracts_w n ops d ->
  mrun_w ops w = drun_w n ops d /\
  exists wf, mfinal_w ops w = Some wf /\ Abs ck (self wf) (dfinal_w n ops d) /\ cap (self wf) = n.
Proof.
  induction ops as [|o t IH]; intros w d Ha Hc Hk.
  - split; [reflexivity|]. exists w. split; [reflexivity|]. split; assumption.
  - cbn [contracts_w] in Hk. destruct Hk as [Hk Hkt].
    cbn [mrun_w mfinal_w drun_w dfinal_w].
    pose proof (step_w_refines n o w d Ha Hc Hk) as Hs.
    destruct (dstep_w n o d) as [r' d'] eqn:Hd. cbn [fst snd] in *.
    destruct (mstep_w o w) as [r w'|w'|]; [| |destruct Hs].
    + destruct Hs as (<- & Ha' & Hc'). destruct (IH w' d' Ha' Hc' Hkt) as [H1 H2]. rewrite H1. split; [reflexivity | exact H2].
    + destruct Hs as (-> & -> & Hs'). rewrite <- Hs' in Ha, Hc.
      destruct (IH w' d Ha Hc Hkt) as [H1 H2]. rewrite H1. split; [reflexivity | exact H2].
Qed.

(* the ideal run does not see whether a call was checked or unchecked ... *)
Lemma dstep_w_erase n o d : dstep_w n (erase_w o) d = dstep_w n o d.
Proof. destruct o as [[o|k v]|u ks]; reflexivity. Qed.

Lemma drun_w_erase n ops : forall d,
  drun_w n (List.map erase_w ops) d = drun_w n ops d /\ dfinal_w n (List.map erase_w ops) d = dfinal_w n ops d.
Proof.
  induction ops as [|o t IH]; intros d; [split; reflexivity|].
  cbn [List.map drun_w dfinal_w]. rewrite dstep_w_erase.
  destruct (dstep_w n o d) as [r d']. cbn [snd]. destruct (IH d') as [H1 H2]. rewrite H1, H2. split; reflexivity.
Qed.

Lemma contracts_w_erase n ops : forall d, contracts_w n ops d -> contracts_w n (List.map erase_w ops) d.
Proof.
  induction ops as [|o t IH]; intros d Hk; [exact I|].
  cbn [List.map contracts_w] in *. destruct Hk as [Hk Hkt]. rewrite dstep_w_erase. split; [|apply IH; exact Hkt].
  destruct o as [[o|k v]|u ks]; exact I.
Qed.

(* ... hence a history with unchecked calls (insert_unchecked,
   get_disjoint_unchecked_mut) made within their contracts has exactly the
   results of the history in which every one of them is replaced by the checked
   call, and both end in containers holding the same dictionary *)
Theorem run_w_eq_checked n (ops : list wop) (w : world) (d : list kv) :
  Abs ck (self w) d -> cap (self w) = n -> contracts_w n ops d ->
  mrun_w ops w = mrun_w (List.map erase_w ops) w /\
  exists wf wf', mfinal_w ops w = Some wf /\ mfinal_w (List.map erase_w ops) w = Some wf' /\
                 Abs ck (self wf) (dfinal_w n ops d) /\ Abs ck (self wf') (dfinal_w n ops d) /\
                 cap (self wf) = n /\ cap (self wf') = n.
Proof.
  intros Ha Hc Hk.
  destruct (run_w_refines n ops w d Ha Hc Hk) as (H1 & wf & H2 & H3 & H4).
  destruct (run_w_refines n (List.map erase_w ops) w d Ha Hc (contracts_w_erase n ops d Hk)) as (H1' & wf' & H2' & H3' & H4').
  destruct (drun_w_erase n ops d) as [He1 He2]. rewrite He1 in H1'. rewrite He2 in H3'.
  split; [congruence|]. exists wf, wf'. auto 10.
Qed.

End Unchecked2.
