(* ========================================================================== *)
(* C19 — Debug/Display render exactly the current (or not-yet-yielded) entries

   STATEMENT (properties.jsonl):
     "For any contents, the Debug output of a Map or Set is exactly the standard
      map/set debug rendering (plain and alternate form) of its entries in
      iteration order, and Display is '{' followed by the entries ('key: value'
      for maps, the element for sets) joined by ', ' and '}'. The Debug output
      of any iterator or drain lists exactly the entries it has not yet
      yielded, and formatting never changes the container."
   QUANTIFIER:
     "all contents (0..N entries, after removals) and every consumption prefix
      of every iterator kind"

   READING GUIDE
   -------------
   Model (Model/Fmt.v, Model/Exec.v).  Strings are lists of character codes ([str]).
     display_map dk dv l / display_set dk l   — src/display.rs, src/set/display.rs written as the
                                Rust code is: '{', the first entry, then every further entry
                                prefixed by ", " (Map) / a `first` flag (Set), '}';
     debug_map dk dv alt l / debug_set dk alt l — src/debug.rs, src/set/debug.rs:
                                f.debug_map().entries(..).finish() / f.debug_set()...;
                                [alt] = the alternate form {:#?};
     debug_pairs / debug_keys / debug_values    — the Debug impls of the iterators: a debug_list
                                of "(k, v)" tuples / of keys / of values;
     dbg_map, dbg_set, dbg_list, dbg_tuple (Model/Fmt.v) are a model of core::fmt's
       DebugMap/DebugSet/DebugList/DebugTuple builders — a model of std, not of micromap;
     join sep l                — the strings of l separated by sep;
     format_m style / format_s style — what the interpreter does for `format!` on a Map / Set
                                register: style 0 = Display "{}", 1 = Debug "{:?}",
                                2 = alternate Debug "{:#?}", with the element renderings
                                dsp_key/dsp_val/dbg_key/dbg_val of the harness' key/value types;
     range_list m (lo, hi)     — the entries a borrowing iterator / drain with cursor (lo, hi)
                                hands to its Debug impl: the RAW slots lo..hi-1 of m
                                re-interpreted as initialised (src/iterators.rs:127-165);
     Exec.elems m              — the same raw reading of slots 0..len-1 (used by format_m and by
                                the Debug of the owning iterators, which format the wrapped map);
     Spec.elems m              — the specification's live prefix, in iteration order;
     IterSpec.into_run n       — n calls of IntoIter::next on the wrapped container.
   [WF m] is the representation invariant (true of every reachable state, also after
   removals: C02/C04), so "forall w, WF (self w)" is "all contents, 0..N entries".

   * "Display is '{' followed by the entries ('key: value' / the element) joined by ', ' and '}'"
       C19_display_map_spec, C19_display_set_spec : the first-entry/flag loops of the crate equal
       that join, for every list of entries and every element rendering.
   * "Debug output of a Map or Set is exactly the standard map/set debug rendering (plain ...)"
       C19_debug_map_plain, C19_debug_set_plain : plain form = '{' ++ join ", " ("k: v" / k) ++ '}'.
   * "... (and alternate form)"
       [debug_map dk dv true] / [debug_set dk true] are the model of std's pretty printer
       (PadAdapter); that this model is what std prints is validated by the correspondence check
       (style 2), not proved.  Its SHAPE is now proved (APPENDED SECTION at the end of this file):
       C19_debug_map_alt, C19_debug_set_alt, C19_debug_keys_alt, C19_debug_values_alt,
       C19_debug_pairs_alt ("{\n" / "[\n", one four-space-indented line "k: v,\n" / "x,\n" per
       entry, "}" / "]", when no entry rendering contains a newline), the general case with
       newlines inside entries C19_debug_map_alt_lines / _set_ / _pairs_ (every line of every
       entry indented: C19_pad_indent_lines), and on the interpreter C19_format_m_explicit.
   * "of its entries in iteration order" + "formatting never changes the container"
       C19_format_m_pure, C19_format_s_pure : on every well-formed container, formatting in any
       of the three styles returns normally (no panic, no UB) the rendering of EXACTLY
       [Spec.elems (self w)] — the live entries in iteration order — and the final world is
       LITERALLY the initial one: same container, same event log (nothing dropped or cloned),
       same callback state (no == called).
       C19_exec_elems_eq : the raw slot reading used by the renderer is the specification's elems.
   * "The Debug output of any iterator or drain lists exactly the entries it has not yet yielded"
       C19_debug_pairs_plain, C19_debug_keys_plain, C19_debug_values_plain : shape of the plain
       list renderings used by Iter/IterMut/Drain/IntoIter, Keys/IntoKeys and the set adaptors,
       Values/ValuesMut/IntoValues;
       C19_range_list_spec, C19_range_list_rest : for a BORROWING iterator (Iter, IterMut, Keys,
       Values, ValuesMut — the container is unchanged while it is alive) with cursor (lo, hi),
       hi <= len, the raw slots it hands to Debug are exactly entries lo..hi-1 of elems; after
       j calls of next() (cursor (j, len)) they are [skipn j elems]: the entries not yet yielded
       — no dead or uninitialised slot is ever rendered;
       C19_into_run_spec : for an OWNING iterator (IntoIter, IntoKeys, IntoValues: Debug formats
       the wrapped map), after n calls of next() the wrapped map is well formed and its elems are
       the first len - min n len entries of the original: exactly those not yet yielded (it yields
       from the back: r = firstn n (rev elems)); nothing is logged.
       Composed with the consuming session (Proofs/Gaps.v):
       C19_iter_debug_rest  : iter() + n calls of next(): cursor (min n len, len), raw slots of
       that cursor = skipn n elems, container unchanged;
       C19_into_debug_rest  : the raw reading Exec.elems of the wrapped map after n calls of
       IntoIter::next = the not-yet-yielded prefix;
       C19_drain_debug_rest : DRAIN - drain() + n calls of next(): the raw slots of its cursor
       (in a container whose len is already 0) = skipn n of the original elems;
       C19_drain_debug_rest_render : ... and the interpreter's Debug of that Drain
       (Exec.dbg_range) is the debug_pairs rendering (plain or alternate) of skipn n elems.

   PARTLY COVERED / NOT COVERED BY A THEOREM
     - alternate form {:#?}: shape CLOSED (appended section); that the PadAdapter model is what
       std prints stays with the correspondence check.
     - Drain: CLOSED.  Its Debug is [debug_pairs .. (range_list (self w) (lo, hi))] on a
       container whose len has already been reset to 0, so C19_range_list_spec (which needs
       hi <= len) does not apply to it; C19_drain_debug_rest / C19_drain_debug_rest_render now
       compose IterSpec.drain_run_strong with the renderer.  (Stated for a Drain consumed by
       next() from the front; Set::drain is the same function on Map<T,()>, with debug_keys
       over map fst of that list - that projection is glue, see below.)
     - the Debug impls of the set-algebra iterators (src/set/difference.rs etc.): CLOSED in the
       appended section (C19_alg_debug_spec, C19_alg_session_debug: the rendered list is the
       specification's list of Algebra.v / Algebra2.v, Props/C08.v).
     - the per-iterator-kind glue (Exec.dbg_iter / dbg_into / dbg_range): CLOSED in the appended
       section (C19_iter_debug_rest_render, C19_iter_steps_debug_rest, C19_into_debug_rest_render,
       C19_into_steps_debug_rest).  The model has no Debug function for the Set iterator kinds
       (SetIter, SetIntoIter, SetDrain), so nothing is stated about them.
     - element renderings (dbg_key, dsp_key, ...) are the harness' own Debug/Display impls: pure,
       total functions of the object (see the appended section for what that assumption means).
     - width / precision / fill / sign flags are outside every statement (appended section).     *)
(* ========================================================================== *)
Require Import Model.Base Model.Slots Model.MapOps Model.Fmt Model.Exec.
Require Import Proofs.Hoare Proofs.Inv Proofs.Safety Proofs.Safety2 Proofs.Spec Proofs.Lawful.
Require Import Proofs.FmtSerde Proofs.IterSpec Proofs.Legacy Proofs.Gaps.

(* -------------------------------------------------------------------------- *)
(* FmtSerde.display_map_spec, display_set_spec                                 *)
Theorem C19_display_map_spec :
  forall (K V : Type) (dk : K -> str) (dv : V -> str) (l : list (K * V)),
    display_map dk dv l =
    [ch_lbrace] ++
    join s_comma_sp (List.map (fun p : K * V => dk (fst p) ++ s_colon_sp ++ dv (snd p)) l) ++
    [ch_rbrace].
Proof. exact (@display_map_spec). Qed.
Print Assumptions C19_display_map_spec.

Theorem C19_display_set_spec :
  forall (K : Type) (dk : K -> str) (l : list K),
    display_set dk l = [ch_lbrace] ++ join s_comma_sp (List.map dk l) ++ [ch_rbrace].
Proof. exact (@display_set_spec). Qed.
Print Assumptions C19_display_set_spec.

(* -------------------------------------------------------------------------- *)
(* FmtSerde.debug_map_plain, debug_set_plain                                   *)
Theorem C19_debug_map_plain :
  forall (K V : Type) (dk : K -> str) (dv : V -> str) (l : list (K * V)),
    debug_map dk dv false l =
    [ch_lbrace] ++
    join s_comma_sp (List.map (fun p : K * V => dk (fst p) ++ s_colon_sp ++ dv (snd p)) l) ++
    [ch_rbrace].
Proof. exact (@debug_map_plain). Qed.
Print Assumptions C19_debug_map_plain.

Theorem C19_debug_set_plain :
  forall (K : Type) (dk : K -> str) (l : list K),
    debug_set dk false l = [ch_lbrace] ++ join s_comma_sp (List.map dk l) ++ [ch_rbrace].
Proof. exact (@debug_set_plain). Qed.
Print Assumptions C19_debug_set_plain.

(* -------------------------------------------------------------------------- *)
(* FmtSerde.debug_keys_plain, debug_values_plain, debug_pairs_plain            *)
Theorem C19_debug_keys_plain :
  forall (K : Type) (dk : K -> str) (l : list K),
    debug_keys dk false l = [ch_lbrack] ++ join s_comma_sp (List.map dk l) ++ [ch_rbrack].
Proof. exact (@debug_keys_plain). Qed.
Print Assumptions C19_debug_keys_plain.

Theorem C19_debug_values_plain :
  forall (V : Type) (dv : V -> str) (l : list V),
    debug_values dv false l = [ch_lbrack] ++ join s_comma_sp (List.map dv l) ++ [ch_rbrack].
Proof. exact (@debug_values_plain). Qed.
Print Assumptions C19_debug_values_plain.

Theorem C19_debug_pairs_plain :
  forall (K V : Type) (dk : K -> str) (dv : V -> str) (l : list (K * V)),
    debug_pairs dk dv false l =
    [ch_lbrack] ++
    join s_comma_sp
      (List.map (fun p : K * V => [ch_lpar] ++ (dk (fst p) ++ s_comma_sp ++ dv (snd p)) ++ [ch_rpar]) l) ++
    [ch_rbrack].
Proof. exact (@debug_pairs_plain). Qed.
Print Assumptions C19_debug_pairs_plain.

(* -------------------------------------------------------------------------- *)
(* FmtSerde.format_m_pure, format_s_pure                                       *)
Theorem C19_format_m_pure :
  forall (style : N) (w : world key vobj cstate),
    WF (self w) ->
    format_m style w =
    Ok (r_str (if (style =? 0)%N
               then display_map dsp_key dsp_val (Spec.elems (self w))
               else debug_map dbg_key dbg_val (style =? 2)%N (Spec.elems (self w))))
       w.
Proof. exact format_m_pure. Qed.
Print Assumptions C19_format_m_pure.

Theorem C19_format_s_pure :
  forall (style : N) (w : world key unit cstate),
    WF (self w) ->
    format_s style w =
    Ok (r_str (if (style =? 0)%N
               then display_set dsp_key (List.map fst (Spec.elems (self w)))
               else debug_set dbg_key (style =? 2)%N (List.map fst (Spec.elems (self w)))))
       w.
Proof. exact format_s_pure. Qed.
Print Assumptions C19_format_s_pure.

(* -------------------------------------------------------------------------- *)
(* FmtSerde.range_list_spec, range_list_rest, exec_elems_eq                    *)
Theorem C19_range_list_spec :
  forall (V : Type) (m : map key V) (lo hi : nat),
    WF m -> lo <= hi -> hi <= len m ->
    range_list m (lo, hi) = firstn (hi - lo) (skipn lo (Spec.elems m)).
Proof. exact (@range_list_spec). Qed.
Print Assumptions C19_range_list_spec.

Theorem C19_range_list_rest :
  forall (V : Type) (m : map key V) (j : nat),
    WF m -> j <= len m ->
    range_list m (j, len m) = skipn j (Spec.elems m).
Proof. exact (@range_list_rest). Qed.
Print Assumptions C19_range_list_rest.

Theorem C19_exec_elems_eq :
  forall (V : Type) (m : map key V), Exec.elems m = Spec.elems m.
Proof. exact (@exec_elems_eq). Qed.
Print Assumptions C19_exec_elems_eq.

(* -------------------------------------------------------------------------- *)
(* IterSpec.into_run_spec — what an owning iterator still holds after n steps  *)
Theorem C19_into_run_spec :
  forall (K V T : Type) (n : nat) (w : world K V T),
    WF (self w) ->
    wp (into_run n)
       (fun (r : list (K * V)) (w' : world K V T) =>
          WF (self w') /\
          cap (self w') = cap (self w) /\
          log w' = log w /\
          r = firstn n (rev (Spec.elems (self w))) /\
          len (self w') = len (self w) - Nat.min n (len (self w)) /\
          Spec.elems (self w') = firstn (len (self w) - Nat.min n (len (self w))) (Spec.elems (self w)))
       (fun _ : world K V T => False)
       w.
Proof. exact (@into_run_spec). Qed.
Print Assumptions C19_into_run_spec.

(* -------------------------------------------------------------------------- *)
(* Gaps.drain_debug_rest, drain_debug_rest_render, iter_debug_rest, into_debug_rest:
   the list a partly consumed iterator hands to its Debug impl, composed with the
   session that consumed it (interpreter key type `key`; V, T arbitrary)          *)

(* Drain (the container's len is already 0, so C19_range_list_spec does not apply):
   after n calls of next() the raw slots of the drain's cursor hold exactly the
   entries it has not yet yielded, skipn n of the original content *)
Theorem C19_drain_debug_rest :
  forall (V T : Type) (n : nat) (w : world key V T),
    WF (self w) ->
    wp (c <- drain ;; drain_run n c)
       (fun (r : list (key * V) * cursor) (w' : world key V T) =>
          range_list (self w') (snd r) = skipn n (Spec.elems (self w)) /\
          range_list (self w') (snd r) =
            skipn (Nat.min n (length (Spec.elems (self w)))) (Spec.elems (self w)) /\
          fst r = firstn n (Spec.elems (self w)))
       (fun _ : world key V T => False)
       w.
Proof. exact (@drain_debug_rest). Qed.
Print Assumptions C19_drain_debug_rest.

(* ... composed with the renderer the interpreter uses for `format!("{:?}", drain)`
   (Exec.dbg_range dk dv alt c := r_str (debug_pairs dk dv alt (range_list (self w) c)),
   r_str s = length-prefixed s): the Debug output of a Drain that has yielded n
   entries is the debug_pairs rendering, plain or alternate, of exactly the other ones *)
Theorem C19_drain_debug_rest_render :
  forall (V : Type) (dk : key -> str) (dv : V -> str) (alt : bool) (n : nat)
         (w : world key V cstate),
    WF (self w) ->
    wp (c <- drain ;; r <- drain_run n c ;; dbg_range dk dv alt (snd r))
       (fun (s : list N) (_ : world key V cstate) =>
          s = r_str (debug_pairs dk dv alt (skipn n (Spec.elems (self w)))))
       (fun _ : world key V cstate => False)
       w.
Proof. exact (@drain_debug_rest_render). Qed.
Print Assumptions C19_drain_debug_rest_render.

(* borrowing iterators: the session of n calls of next() from iter() leaves the
   container as it is, ends at cursor (min n len, len), and the raw slots of that
   cursor are skipn n of the content *)
Theorem C19_iter_debug_rest :
  forall (V T : Type) (n : nat) (w : world key V T),
    WF (self w) ->
    wp (c <- iter ;; iter_run n c)
       (fun (r : list nat * cursor) (w' : world key V T) =>
          self w' = self w /\
          snd r = (Nat.min n (len (self w)), len (self w)) /\
          range_list (self w') (snd r) = skipn (Nat.min n (len (self w))) (Spec.elems (self w)) /\
          range_list (self w') (snd r) = skipn n (Spec.elems (self w)))
       (fun _ : world key V T => False)
       w.
Proof. exact (@iter_debug_rest). Qed.
Print Assumptions C19_iter_debug_rest.

(* owning iterators: after n calls of next() the RAW reading Exec.elems of the
   wrapped map - what its Debug formats - is the not-yet-yielded prefix *)
Theorem C19_into_debug_rest :
  forall (V T : Type) (n : nat) (w : world key V T),
    WF (self w) ->
    wp (into_run n)
       (fun (r : list (key * V)) (w' : world key V T) =>
          Exec.elems (self w') =
            firstn (len (self w) - Nat.min n (len (self w))) (Spec.elems (self w)) /\
          r = firstn n (rev (Spec.elems (self w))))
       (fun _ : world key V T => False)
       w.
Proof. exact (@into_debug_rest). Qed.
Print Assumptions C19_into_debug_rest.

(* -------------------------------------------------------------------------- *)
(* Non-vacuity.  m3 (Proofs/Legacy.v) = [ (K1 c5, V2 d7); (K3 c6, V4 d8); (K5 c7, V6 d9) ]. *)
Example C19_example_WF : WF (self (w_of m3)).
Proof. exact m3_WF. Qed.

Example C19_example_WF_empty : WF (self (w_of (new_map 2))).
Proof. apply WF_new. Qed.

(* Display of m3: the 24 characters  {k5: d7, k6: d8, k7: d9}  and the world unchanged *)
Example C19_example_display :
  format_m 0 (w_of m3) =
  Ok [24; 123; 107; 53; 58; 32; 100; 55; 44; 32; 107; 54; 58; 32; 100; 56; 44; 32;
      107; 55; 58; 32; 100; 57; 125]%N
     (w_of m3).
Proof. vm_compute. reflexivity. Qed.

(* Debug {:?} of m3: the 36 characters  {K1c5: V2d7, K3c6: V4d8, K5c7: V6d9} *)
Example C19_example_debug :
  format_m 1 (w_of m3) =
  Ok [36; 123; 75; 49; 99; 53; 58; 32; 86; 50; 100; 55; 44; 32; 75; 51; 99; 54; 58; 32; 86; 52;
      100; 56; 44; 32; 75; 53; 99; 55; 58; 32; 86; 54; 100; 57; 125]%N
     (w_of m3).
Proof. vm_compute. reflexivity. Qed.

(* empty container: "{}" *)
Example C19_example_display_empty :
  format_m 0 (w_of (new_map 2)) = Ok [2; 123; 125]%N (w_of (new_map 2)).
Proof. vm_compute. reflexivity. Qed.

(* a borrowing iterator over m3 that has yielded one entry shows the other two *)
Example C19_example_range :
  range_list m3 (1, len m3) = [(k_ 3 6, v_ 4 8); (k_ 5 7, v_ 6 9)] /\
  skipn 1 (Spec.elems m3) = [(k_ 3 6, v_ 4 8); (k_ 5 7, v_ 6 9)].
Proof. split; vm_compute; reflexivity. Qed.

(* an owning iterator over m3 after one next(): yielded the LAST entry, the
   wrapped map still holds the first two *)
Example C19_example_into :
  match into_run 1 (w_of m3) with
  | Ok r w' => r = [(k_ 5 7, v_ 6 9)] /\
               Spec.elems (self w') = [(k_ 1 5, v_ 2 7); (k_ 3 6, v_ 4 8)] /\ log w' = []
  | _ => False
  end.
Proof. vm_compute. repeat split. Qed.

(* a Drain over m3 that has yielded one entry: its Debug {:?} is the 28 characters
   [(K3c6, V4d8), (K5c7, V6d9)]  - exactly the two entries not yet yielded *)
Example C19_example_drain_debug :
  match (c <- drain ;; r <- drain_run 1 c ;; dbg_range dbg_key dbg_val false (snd r)) (w_of m3) with
  | Ok s w' => s = r_str (debug_pairs dbg_key dbg_val false [(k_ 3 6, v_ 4 8); (k_ 5 7, v_ 6 9)]) /\
               length s = 29 /\ len (self w') = 0
  | _ => False
  end.
Proof. vm_compute. repeat split; reflexivity. Qed.

(* ========================================================================== *)
(* APPENDED SECTION (audit findings on C19) — Proofs/MoreFmt.v
   ========================================================================== *)
(* WHAT IS ASSUMED ABOUT ELEMENT Debug / Display IMPLS (finding 4).  The rendering of a key /
   value is a Gallina function of the OBJECT ([dk : K -> str], [dv : V -> str]; for the
   interpreter dbg_key / dbg_val / dsp_key / dsp_val): PURE (reads and writes no callback state,
   logs nothing, cannot reach the container), TOTAL (cannot panic or diverge), DETERMINISTIC.
   Element impls that panic, mutate through interior mutability or answer differently each time
   are outside the model.  That is why C19_format_m_pure / C19_format_s_pure are close to
   definitional; what they do establish: the checked slice [..len] does not panic on a well-formed
   container, the raw slot reading is the live prefix, the world is returned as is.

   FORMATTER FLAGS (finding 5) — OUTSIDE EVERY STATEMENT.  Width / precision / fill / alignment /
   sign flags ("{:>10}", "{:.3}", "{:+}") are outside every statement of this file: the model's
   renderers take no flag except '#' (the [alt] argument), and only for Debug.  What the crate
   does with them, read off the source (second audit), and which the flagless model CANNOT
   express:
     - Display for Set (src/set/display.rs) calls `k.fmt(f)` on every element with the caller's
       formatter: the flags of `format!("{:>5}", set)` are FORWARDED to each element (each element
       is padded / truncated separately; the braces and ", " separators are written with
       write_char / write_str and are never padded);
     - Display for Map (src/display.rs) uses `write!(f, "{k}: {v}")` / `write!(f, ", {k}: {v}")`:
       every key and value is formatted with a FRESH default "{}" specification, so the caller's
       flags are DISCARDED (`format!("{:>5}", map)` = `format!("{}", map)`);
     - so the two Display impls are not symmetric under flags; display_map / display_set model
       only the flagless call "{}", on which they agree in shape (C19_display_map_spec,
       C19_display_set_spec);
     - Debug for Map / Set and for the iterators goes through core::fmt's DebugMap / DebugSet /
       DebugList builders, which hand the formatter (hence the flags, hence '#') to the elements;
       the runtime oracle FMT_SHAPE of the correspondence check exercises flags for Debug.

   New vocabulary (Proofs/MoreFmt.v):
     nlfree s                 — the string s contains no '\n';
     split_nl s = (lns, last) — s cut at its newlines: lns the complete lines (without '\n'),
                                last the unterminated rest;  unlines_nl lns last puts it back;
     indent_lines lns last    — every line of lns prefixed by four spaces and followed by '\n',
                                then last prefixed by four spaces unless it is empty;
     alg_items kind a b st    — the (side, slot) items a set-algebra adaptor in state st still has
                                to yield, by the specification of Algebra.v / Algebra2.v
                                ((false, i) = slot i of a, (true, i) = slot i of b);
     alg_keys a b items       — the keys those items designate;
     alg_spec_list kind a b   — everything the adaptor yields in all, as entries: Union (kind 2) =
                                all of b then the entries of a not in b; SymmetricDifference (3) =
                                a\b then b\a; Intersection (1) = the entries of a that are in b;
                                Difference / DifferenceRef (any other kind) = the entries of a not
                                in b  ([mem kcls b k] = "b has a key of k's class");
     ast_ok a b kind st       — the adaptor state lies inside the operands (ExecSafe; true of
                                every state reached from alg_init by alg_next);
     eq_only s s'             — between callback states s and s' ONLY the comparison counter n_eq
                                may have moved (upwards); n_clone, n_call, next_id are equal.   *)
Require Import Model.SetOps.
Require Import Proofs.Safety3 Proofs.Algebra Proofs.Algebra2 Proofs.ExecSafe.
Require Import Proofs.MoreFmt.

(* -------------------------------------------------------------------------- *)
(* Finding 1: "(plain and alternate form)" — the alternate form characterised.

   The PadAdapter ([pad]) in general: whatever is written through it comes out with every
   line indented by four spaces — also empty lines; an unterminated last line too unless it
   is empty.  [split_nl] is a total function, so this holds for EVERY string. *)
Theorem C19_pad_indent_lines :
  forall s : str, pad s = indent_lines (fst (split_nl s)) (snd (split_nl s)).
Proof. exact pad_indent_lines. Qed.
Print Assumptions C19_pad_indent_lines.

(* [split_nl] really is the decomposition into lines *)
Theorem C19_split_nl_spec :
  forall s : str,
    unlines_nl (fst (split_nl s)) (snd (split_nl s)) = s /\
    Forall nlfree (fst (split_nl s)) /\ nlfree (snd (split_nl s)).
Proof. exact split_nl_spec. Qed.
Print Assumptions C19_split_nl_spec.

(* one newline-free line followed by '\n': indent, the line, '\n' *)
Theorem C19_pad_line :
  forall t : str, nlfree t -> pad (t ++ [ch_nl]) = s_indent ++ t ++ [ch_nl].
Proof. exact pad_line. Qed.
Print Assumptions C19_pad_line.

(* Map {:#?}.  Hypothesis: no entry rendering contains a newline (true of scalars, strings
   without '\n', and of the interpreter's elements: C19_dbg_kv_nlfree).  Then the output is
   "{}" for no entry and otherwise "{\n", one line "    k: v,\n" per entry in order, "}". *)
Theorem C19_debug_map_alt :
  forall (K V : Type) (dk : K -> str) (dv : V -> str) (l : list (K * V)),
    (forall p : K * V, In p l -> ~ In ch_nl (dk (fst p) ++ dv (snd p))) ->
    debug_map dk dv true l =
    match l with
    | [] => [ch_lbrace; ch_rbrace]
    | _ :: _ =>
        [ch_lbrace; ch_nl] ++
        concat (List.map (fun p : K * V => s_indent ++ dk (fst p) ++ s_colon_sp ++ dv (snd p) ++ s_comma_nl) l) ++
        [ch_rbrace]
    end.
Proof. exact (@debug_map_alt). Qed.
Print Assumptions C19_debug_map_alt.

(* Set {:#?}: "{}" or "{\n", "    k,\n" per element, "}" *)
Theorem C19_debug_set_alt :
  forall (K : Type) (dk : K -> str) (l : list K),
    (forall k : K, In k l -> ~ In ch_nl (dk k)) ->
    debug_set dk true l =
    match l with
    | [] => [ch_lbrace; ch_rbrace]
    | _ :: _ =>
        [ch_lbrace; ch_nl] ++ concat (List.map (fun k : K => s_indent ++ dk k ++ s_comma_nl) l) ++ [ch_rbrace]
    end.
Proof. exact (@debug_set_alt). Qed.
Print Assumptions C19_debug_set_alt.

(* Keys / IntoKeys / set adaptors, Values / ValuesMut / IntoValues {:#?}:
   "[]" or "[\n", "    x,\n" per item, "]" *)
Theorem C19_debug_keys_alt :
  forall (K : Type) (dk : K -> str) (l : list K),
    (forall k : K, In k l -> ~ In ch_nl (dk k)) ->
    debug_keys dk true l =
    match l with
    | [] => [ch_lbrack; ch_rbrack]
    | _ :: _ =>
        [ch_lbrack; ch_nl] ++ concat (List.map (fun k : K => s_indent ++ dk k ++ s_comma_nl) l) ++ [ch_rbrack]
    end.
Proof. exact (@debug_keys_alt). Qed.
Print Assumptions C19_debug_keys_alt.

Theorem C19_debug_values_alt :
  forall (V : Type) (dv : V -> str) (l : list V),
    (forall v : V, In v l -> ~ In ch_nl (dv v)) ->
    debug_values dv true l =
    match l with
    | [] => [ch_lbrack; ch_rbrack]
    | _ :: _ =>
        [ch_lbrack; ch_nl] ++ concat (List.map (fun v : V => s_indent ++ dv v ++ s_comma_nl) l) ++ [ch_rbrack]
    end.
Proof. exact (@debug_values_alt). Qed.
Print Assumptions C19_debug_values_alt.

(* Iter / IterMut / Drain / IntoIter {:#?}: a list of pretty-printed 2-tuples; each tuple is
   four lines, indented once by the list and its fields once more by the tuple:
   "[\n"  ( "    (\n"  "        k,\n"  "        v,\n"  "    ),\n" )*  "]" *)
Theorem C19_debug_pairs_alt :
  forall (K V : Type) (dk : K -> str) (dv : V -> str) (l : list (K * V)),
    (forall p : K * V, In p l -> ~ In ch_nl (dk (fst p) ++ dv (snd p))) ->
    debug_pairs dk dv true l =
    match l with
    | [] => [ch_lbrack; ch_rbrack]
    | _ :: _ =>
        [ch_lbrack; ch_nl] ++
        concat (List.map (fun p : K * V =>
                  (s_indent ++ [ch_lpar; ch_nl]) ++
                  (s_indent ++ s_indent ++ dk (fst p) ++ s_comma_nl) ++
                  (s_indent ++ s_indent ++ dv (snd p) ++ s_comma_nl) ++
                  (s_indent ++ [ch_rpar] ++ s_comma_nl)) l) ++
        [ch_rbrack]
    end.
Proof. exact (@debug_pairs_alt). Qed.
Print Assumptions C19_debug_pairs_alt.

(* THE GENERAL CASE, no hypothesis: element renderings may contain newlines (nested
   pretty-printed structures).  Each entry "k: v,\n" (Map), "x,\n" (Set / lists), "<tuple>,\n"
   (pair lists) is cut into its lines and every line is indented. *)
Theorem C19_debug_map_alt_lines :
  forall (K V : Type) (dk : K -> str) (dv : V -> str) (l : list (K * V)),
    debug_map dk dv true l =
    match l with
    | [] => [ch_lbrace; ch_rbrace]
    | _ :: _ =>
        [ch_lbrace; ch_nl] ++
        concat (List.map (fun p : K * V =>
                  let e := dk (fst p) ++ s_colon_sp ++ dv (snd p) ++ s_comma_nl in
                  indent_lines (fst (split_nl e)) (snd (split_nl e))) l) ++
        [ch_rbrace]
    end.
Proof. exact (@debug_map_alt_lines). Qed.
Print Assumptions C19_debug_map_alt_lines.

Theorem C19_debug_set_alt_lines :
  forall (K : Type) (dk : K -> str) (l : list K),
    debug_set dk true l =
    match l with
    | [] => [ch_lbrace; ch_rbrace]
    | _ :: _ =>
        [ch_lbrace; ch_nl] ++
        concat (List.map (fun k : K => indent_lines (fst (split_nl (dk k ++ s_comma_nl)))
                                                    (snd (split_nl (dk k ++ s_comma_nl)))) l) ++
        [ch_rbrace]
    end.
Proof. exact (@debug_set_alt_lines). Qed.
Print Assumptions C19_debug_set_alt_lines.

Theorem C19_debug_pairs_alt_lines :
  forall (K V : Type) (dk : K -> str) (dv : V -> str) (l : list (K * V)),
    debug_pairs dk dv true l =
    match l with
    | [] => [ch_lbrack; ch_rbrack]
    | _ :: _ =>
        [ch_lbrack; ch_nl] ++
        concat (List.map (fun p : K * V =>
                  let e := dbg_tuple true (dk (fst p)) (dv (snd p)) ++ s_comma_nl in
                  indent_lines (fst (split_nl e)) (snd (split_nl e))) l) ++
        [ch_rbrack]
    end.
Proof. exact (@debug_pairs_alt_lines). Qed.
Print Assumptions C19_debug_pairs_alt_lines.

(* the newline-free hypothesis holds for everything the interpreter formats *)
Theorem C19_dbg_kv_nlfree :
  forall p : key * vobj, ~ In ch_nl (dbg_key (fst p) ++ dbg_val (snd p)).
Proof. exact dbg_kv_nlfree. Qed.
Print Assumptions C19_dbg_kv_nlfree.

(* -------------------------------------------------------------------------- *)
(* Finding 4 (order clause) + finding 1 on the interpreter: format! in the three styles, fully
   explicit.  The rendered entries are [List.map render (Spec.elems (self w))]: slot order =
   iteration order; the final world is the initial one. *)
Theorem C19_format_m_explicit :
  forall (style : N) (w : world key vobj cstate),
    WF (self w) ->
    format_m style w =
    Ok (r_str
          (if (style =? 0)%N then
             [ch_lbrace] ++
             join s_comma_sp (List.map (fun p : key * vobj => dsp_key (fst p) ++ s_colon_sp ++ dsp_val (snd p))
                                       (Spec.elems (self w))) ++ [ch_rbrace]
           else if (style =? 2)%N then
             match Spec.elems (self w) with
             | [] => [ch_lbrace; ch_rbrace]
             | _ :: _ =>
                 [ch_lbrace; ch_nl] ++
                 concat (List.map (fun p : key * vobj => s_indent ++ dbg_key (fst p) ++ s_colon_sp ++
                                                         dbg_val (snd p) ++ s_comma_nl)
                                  (Spec.elems (self w))) ++
                 [ch_rbrace]
             end
           else
             [ch_lbrace] ++
             join s_comma_sp (List.map (fun p : key * vobj => dbg_key (fst p) ++ s_colon_sp ++ dbg_val (snd p))
                                       (Spec.elems (self w))) ++ [ch_rbrace])) w.
Proof. exact format_m_explicit. Qed.
Print Assumptions C19_format_m_explicit.

Theorem C19_format_s_explicit :
  forall (style : N) (w : world key unit cstate),
    WF (self w) ->
    format_s style w =
    Ok (r_str
          (if (style =? 0)%N then
             [ch_lbrace] ++ join s_comma_sp (List.map dsp_key (List.map fst (Spec.elems (self w)))) ++ [ch_rbrace]
           else if (style =? 2)%N then
             match List.map fst (Spec.elems (self w)) with
             | [] => [ch_lbrace; ch_rbrace]
             | _ :: _ =>
                 [ch_lbrace; ch_nl] ++
                 concat (List.map (fun k : key => s_indent ++ dbg_key k ++ s_comma_nl)
                                  (List.map fst (Spec.elems (self w)))) ++ [ch_rbrace]
             end
           else
             [ch_lbrace] ++ join s_comma_sp (List.map dbg_key (List.map fst (Spec.elems (self w)))) ++ [ch_rbrace])) w.
Proof. exact format_s_explicit. Qed.
Print Assumptions C19_format_s_explicit.

(* "in iteration order", tied to the iteration protocol: iter() and len calls of next() visit
   the slots 0, 1, ..., len-1 (each once, in order, then the iterator is exhausted), change
   nothing, the entries held by those slots are, in that order, [Spec.elems (self w)] — and
   format! renders exactly that list. *)
Theorem C19_iter_yields_elems :
  forall (K V T : Type) (w : world K V T),
    WF (self w) ->
    wp (c <- iter ;; iter_run (len (self w)) c)
       (fun (r : list nat * cursor) (w' : world K V T) =>
          w' = w /\ fst r = seq 0 (len (self w)) /\ cursor_len (snd r) = 0 /\
          List.map (fun i : nat => nth_error (slots (self w)) i) (fst r) =
          List.map (fun p : K * V => Some (Some p)) (Spec.elems (self w)))
       (fun _ : world K V T => False) w.
Proof. exact (@iter_yields_elems). Qed.
Print Assumptions C19_iter_yields_elems.

Theorem C19_format_m_order :
  forall (style : N) (w : world key vobj cstate),
    WF (self w) ->
    wp (c <- iter ;; iter_run (len (self w)) c)
       (fun (r : list nat * cursor) (w' : world key vobj cstate) =>
          w' = w /\ fst r = seq 0 (len (self w)) /\
          List.map (fun i : nat => nth_error (slots (self w)) i) (fst r) =
          List.map (fun p : key * vobj => Some (Some p)) (Spec.elems (self w)) /\
          format_m style w' =
          Ok (r_str (if (style =? 0)%N then display_map dsp_key dsp_val (Spec.elems (self w))
                     else debug_map dbg_key dbg_val (style =? 2)%N (Spec.elems (self w)))) w')
       (fun _ : world key vobj cstate => False) w.
Proof. exact format_m_order. Qed.
Print Assumptions C19_format_m_order.

Theorem C19_format_s_order :
  forall (style : N) (w : world key unit cstate),
    WF (self w) ->
    wp (c <- iter ;; iter_run (len (self w)) c)
       (fun (r : list nat * cursor) (w' : world key unit cstate) =>
          w' = w /\ fst r = seq 0 (len (self w)) /\
          List.map (fun i : nat => nth_error (slots (self w)) i) (fst r) =
          List.map (fun p : key * unit => Some (Some p)) (Spec.elems (self w)) /\
          format_s style w' =
          Ok (r_str (if (style =? 0)%N then display_set dsp_key (List.map fst (Spec.elems (self w)))
                     else debug_set dbg_key (style =? 2)%N (List.map fst (Spec.elems (self w))))) w')
       (fun _ : world key unit cstate => False) w.
Proof. exact format_s_order. Qed.
Print Assumptions C19_format_s_order.

(* -------------------------------------------------------------------------- *)
(* Finding 2: "every iterator kind", down to the rendered string.

   Borrowing iterators on a Map.  kind: 0 Iter | 1 IterMut | 2 Keys | 3 Values | 4 ValuesMut
   (Exec.dbg_iter picks debug_keys / debug_values / debug_pairs by kind).  After iter() and n
   calls of next() the Debug output, plain or alternate, is the rendering of exactly the
   entries not yet yielded — [skipn n] of the content, in iteration order — and the world is
   LITERALLY the initial one (formatting changes nothing). *)
Theorem C19_iter_debug_rest_render :
  forall (kind : N) (alt : bool) (n : nat) (w : world key vobj cstate),
    WF (self w) ->
    wp (c <- iter ;; r <- iter_run n c ;; dbg_iter kind alt (snd r))
       (fun (s : list N) (w' : world key vobj cstate) =>
          w' = w /\
          s = r_str (if (kind =? 2)%N
                     then debug_keys dbg_key alt (List.map fst (skipn n (Spec.elems (self w))))
                     else if (kind =? 3)%N || (kind =? 4)%N
                          then debug_values dbg_val alt (List.map snd (skipn n (Spec.elems (self w))))
                          else debug_pairs dbg_key dbg_val alt (skipn n (Spec.elems (self w)))))
       (fun _ : world key vobj cstate => False) w.
Proof. exact iter_debug_rest_render. Qed.
Print Assumptions C19_iter_debug_rest_render.

(* the "(k, v)"-tuple Debug of Iter / IterMut for ANY value type (a Set is a Map<T,()>) and
   any element renderings *)
Theorem C19_iter_debug_rest_render_pairs :
  forall (V : Type) (dk : key -> str) (dv : V -> str) (alt : bool) (n : nat) (w : world key V cstate),
    WF (self w) ->
    wp (c <- iter ;; r <- iter_run n c ;; dbg_range dk dv alt (snd r))
       (fun (s : list N) (w' : world key V cstate) =>
          w' = w /\ s = r_str (debug_pairs dk dv alt (skipn n (Spec.elems (self w)))))
       (fun _ : world key V cstate => False) w.
Proof. exact (@iter_debug_rest_render_pairs). Qed.
Print Assumptions C19_iter_debug_rest_render_pairs.

(* the interpreter's own session (Exec.iter_steps): the mutable kinds 1 and 4 WRITE a new
   payload (wd + step number) through every reference they are handed.  The entries not yet
   yielded are untouched by that: the Debug output is still the rendering of [skipn n] of
   the ORIGINAL content; log and callback state unchanged, length unchanged. *)
Theorem C19_iter_steps_debug_rest :
  forall (kind wd : N) (alt : bool) (n : nat) (w : world key vobj cstate),
    WF (self w) ->
    wp (c <- iter ;; r <- iter_steps kind wd n 0 c [] ;; dbg_iter kind alt (snd r))
       (fun (s : list N) (w' : world key vobj cstate) =>
          s = r_str (if (kind =? 2)%N
                     then debug_keys dbg_key alt (List.map fst (skipn n (Spec.elems (self w))))
                     else if (kind =? 3)%N || (kind =? 4)%N
                          then debug_values dbg_val alt (List.map snd (skipn n (Spec.elems (self w))))
                          else debug_pairs dbg_key dbg_val alt (skipn n (Spec.elems (self w)))) /\
          log w' = log w /\ cb w' = cb w /\ len (self w') = len (self w) /\
          skipn n (Spec.elems (self w')) = skipn n (Spec.elems (self w)))
       (fun _ : world key vobj cstate => False) w.
Proof. exact iter_steps_debug_rest. Qed.
Print Assumptions C19_iter_steps_debug_rest.

(* Owning iterators.  kind: 0 IntoIter | 1 IntoKeys | 2 IntoValues (Exec.dbg_into).  They pop
   from the BACK (yielded = firstn n (rev elems)); their Debug formats the wrapped map, so it
   lists the not-yet-yielded entries in SLOT order: the first len - min n len entries of the
   original content.  In the state w1 reached after n calls of next(), formatting returns
   that string and w1 itself (formatting changes nothing). *)
Theorem C19_into_debug_rest_render_at :
  forall (kind : N) (alt : bool) (n : nat) (w : world key vobj cstate),
    WF (self w) ->
    wp (into_run n)
       (fun (r : list (key * vobj)) (w1 : world key vobj cstate) =>
          r = firstn n (rev (Spec.elems (self w))) /\
          let rest := firstn (len (self w) - Nat.min n (len (self w))) (Spec.elems (self w)) in
          dbg_into kind alt w1 =
          Ok (r_str (if (kind =? 1)%N then debug_keys dbg_key alt (List.map fst rest)
                     else if (kind =? 2)%N then debug_values dbg_val alt (List.map snd rest)
                          else debug_pairs dbg_key dbg_val alt rest)) w1)
       (fun _ : world key vobj cstate => False) w.
Proof. exact into_debug_rest_render_at. Qed.
Print Assumptions C19_into_debug_rest_render_at.

Theorem C19_into_debug_rest_render :
  forall (kind : N) (alt : bool) (n : nat) (w : world key vobj cstate),
    WF (self w) ->
    wp (_ <- into_run n ;; dbg_into kind alt)
       (fun (s : list N) (w' : world key vobj cstate) =>
          let rest := firstn (len (self w) - Nat.min n (len (self w))) (Spec.elems (self w)) in
          s = r_str (if (kind =? 1)%N then debug_keys dbg_key alt (List.map fst rest)
                     else if (kind =? 2)%N then debug_values dbg_val alt (List.map snd rest)
                          else debug_pairs dbg_key dbg_val alt rest) /\
          WF (self w') /\ Spec.elems (self w') = rest /\ cap (self w') = cap (self w) /\ log w' = log w)
       (fun _ : world key vobj cstate => False) w.
Proof. exact into_debug_rest_render. Qed.
Print Assumptions C19_into_debug_rest_render.

(* the interpreter's own session (Exec.into_steps): into_keys destroys the value of every popped
   pair, into_values the key — user Drop code, ANY script; if it panics the session is over and
   nothing is claimed (panic postcondition True); otherwise as above *)
Theorem C19_into_steps_debug_rest :
  forall (sc : script) (kind : N) (alt : bool) (n : nat) (acc : list N) (w : world key vobj cstate),
    WF (self w) ->
    wp (into_steps sc kind n acc)
       (fun (_ : list N) (w1 : world key vobj cstate) =>
          let rest := firstn (len (self w) - Nat.min n (len (self w))) (Spec.elems (self w)) in
          dbg_into kind alt w1 =
          Ok (r_str (if (kind =? 1)%N then debug_keys dbg_key alt (List.map fst rest)
                     else if (kind =? 2)%N then debug_values dbg_val alt (List.map snd rest)
                          else debug_pairs dbg_key dbg_val alt rest)) w1)
       (fun _ : world key vobj cstate => True) w.
Proof. exact into_steps_debug_rest. Qed.
Print Assumptions C19_into_steps_debug_rest.

(* Set kinds: the model has NO Debug function for SetIter / SetIntoIter / SetDrain
   (Exec.set_iter_session renders none; drain_session is run with with_dbg = false for a Set:
   "SetDrain does not implement Debug").  What there is for a Set is covered above:
   C19_iter_debug_rest_render_pairs and C19_drain_debug_rest_render hold for V = unit, and the
   set-algebra adaptors follow. *)

(* -------------------------------------------------------------------------- *)
(* Finding 3: Debug of Union / Intersection / Difference / DifferenceRef / SymmetricDifference
   (kind 2 / 1 / 0 / any other / 3).  Their impl is
   f.debug_list().entries(self.clone()).finish(): a CLONE of the adaptor is run to exhaustion —
   which calls the user's == — and the keys it yields are listed.  Interpreter: alg_fold (what
   the clone yields) then alg_debug.

   At ANY state st inside the operands, honest script: returns normally; the string is the
   debug_list rendering (plain or alternate) of the keys of exactly the items still to come,
   in the order the adaptor would yield them, none lost; the world is [stable] (register and
   event log unchanged: nothing is cloned or dropped, only the cursor is copied); the operands
   a, b and the adaptor state st are VALUES in this model, so they cannot change at all — in
   particular the iterator's position does not advance; of the callback state only the
   comparison counter n_eq moves. *)
Theorem C19_alg_debug_spec :
  forall (sc : script) (kind : N) (a b : map key unit) (st : astate) (alt : bool)
         (w : world key unit cstate),
    honest sc -> WF a -> WF b -> ast_ok a b kind st ->
    wp (l <- alg_fold sc kind a b st ;; ret (alg_debug a b l alt))
       (fun (s : list N) (w' : world key unit cstate) =>
          s = r_str (debug_keys dbg_key alt (alg_keys a b (alg_items kind a b st))) /\
          length (alg_keys a b (alg_items kind a b st)) = length (alg_items kind a b st) /\
          stable w w' /\ eq_only (cb w) (cb w'))
       (fun _ : world key unit cstate => False) w.
Proof. exact alg_debug_spec. Qed.
Print Assumptions C19_alg_debug_spec.

(* EVERY script (adversarial ==, injected faults): no UB; the register is unchanged also
   when == panics; only n_eq moves *)
Theorem C19_alg_debug_any_script :
  forall (sc : script) (kind : N) (a b : map key unit) (st : astate) (alt : bool)
         (w : world key unit cstate),
    WF a -> WF b -> ast_ok a b kind st ->
    wp (l <- alg_fold sc kind a b st ;; ret (alg_debug a b l alt))
       (fun (_ : list N) (w' : world key unit cstate) => self w' = self w /\ eq_only (cb w) (cb w'))
       (fun w' : world key unit cstate => self w' = self w /\ eq_only (cb w) (cb w')) w.
Proof. exact alg_debug_any_script. Qed.
Print Assumptions C19_alg_debug_any_script.

(* each next() pops the head of [alg_items]: "still to come" is relative to the position *)
Theorem C19_alg_next_items :
  forall (sc : script) (kind : N) (a b : map key unit) (st : astate) (w : world key unit cstate),
    honest sc -> WF a -> WF b -> ast_ok a b kind st ->
    wp (alg_next sc kind a b st)
       (fun (r : option (bool * nat) * astate) (w' : world key unit cstate) =>
          stable w w' /\ ast_ok a b kind (snd r) /\ yield_ok a b (fst r) /\
          fst r = hd_error (alg_items kind a b st) /\
          alg_items kind a b (snd r) = tl (alg_items kind a b st))
       (fun _ : world key unit cstate => False) w.
Proof. exact alg_next_items. Qed.
Print Assumptions C19_alg_next_items.

(* at creation the items are, as entries of the operands, the mathematical result *)
Theorem C19_alg_items_init :
  forall (kind : N) (a b : map key unit),
    WF a -> WF b ->
    List.map (item_pair a b) (alg_items kind a b (alg_st0 kind a b)) =
    List.map Some (alg_spec_list kind a b).
Proof. exact alg_items_init. Qed.
Print Assumptions C19_alg_items_init.

(* THE SESSION (Exec.alg_session up to its Debug observation): create the adaptor, call next()
   n times, format it.  The string is the debug_list rendering of the keys of [skipn n] of
   everything the adaptor yields in all — exactly the elements still to come, in order. *)
Theorem C19_alg_session_debug :
  forall (sc : script) (kind : N) (a b : map key unit) (n : nat) (alt : bool)
         (w : world key unit cstate),
    honest sc -> WF a -> WF b ->
    wp (st <- alg_init kind a b ;;
        r <- alg_steps sc kind a b n st [] ;;
        l <- alg_fold sc kind a b (snd r) ;;
        ret (alg_debug a b l alt))
       (fun (s : list N) (w' : world key unit cstate) =>
          s = r_str (debug_keys dbg_key alt (skipn n (List.map fst (alg_spec_list kind a b)))) /\
          stable w w' /\ eq_only (cb w) (cb w'))
       (fun _ : world key unit cstate => False) w.
Proof. exact alg_session_debug. Qed.
Print Assumptions C19_alg_session_debug.

(* -------------------------------------------------------------------------- *)
(* Non-vacuity of the appended theorems. *)
Definition C19_sc0 : script := {| sc_adv := false; sc_seed := 0; sc_fk := 0; sc_fa := 0 |}.
Definition C19_sa : map key unit := {| len := 2; slots := [Some (k_ 1 5, tt); Some (k_ 3 6, tt)] |}.
Definition C19_sb : map key unit := {| len := 2; slots := [Some (k_ 7 6, tt); Some (k_ 9 8, tt); None] |}.
Definition C19_ws (m : map key unit) : world key unit cstate := {| cb := cs0; log := []; self := m |}.

Example C19_example_honest : honest C19_sc0.
Proof. split; reflexivity. Qed.

Example C19_example_WF_sa : WF C19_sa.
Proof.
  split; [cbn; lia|]. intros i Hi. cbn [len C19_sa] in Hi.
  destruct i as [|[|i]]; [eexists; reflexivity | eexists; reflexivity | lia].
Qed.

Example C19_example_WF_sb : WF C19_sb.
Proof.
  split; [cbn; lia|]. intros i Hi. cbn [len C19_sb] in Hi.
  destruct i as [|[|i]]; [eexists; reflexivity | eexists; reflexivity | lia].
Qed.

(* {:#?} of m3: "{\n    K1c5: V2d7,\n    K3c6: V4d8,\n    K5c7: V6d9,\n}" (53 characters) *)
Example C19_example_debug_alt :
  format_m 2 (w_of m3) =
  Ok (r_str ([123; 10] ++
             ([32; 32; 32; 32] ++ [75; 49; 99; 53; 58; 32; 86; 50; 100; 55; 44; 10]) ++
             ([32; 32; 32; 32] ++ [75; 51; 99; 54; 58; 32; 86; 52; 100; 56; 44; 10]) ++
             ([32; 32; 32; 32] ++ [75; 53; 99; 55; 58; 32; 86; 54; 100; 57; 44; 10]) ++ [125])%N)
     (w_of m3).
Proof. vm_compute. reflexivity. Qed.

(* a string with an inner newline through the PadAdapter: "a\nb" -> "    a\n    b" *)
Example C19_example_pad : pad [97; 10; 98]%N = [32; 32; 32; 32; 97; 10; 32; 32; 32; 32; 98]%N.
Proof. reflexivity. Qed.

(* Keys over m3 after one next(): "[K3c6, K5c7]"; the world is unchanged *)
Example C19_example_keys_debug :
  (c <- iter ;; r <- iter_run 1 c ;; dbg_iter 2 false (snd r)) (w_of m3) =
  Ok (r_str (debug_keys dbg_key false [k_ 3 6; k_ 5 7])) (w_of m3).
Proof. vm_compute. reflexivity. Qed.

(* IntoValues over m3 after one next() (which yielded the LAST value): "[V2d7, V4d8]" *)
Example C19_example_into_values_debug :
  match (_ <- into_run 1 ;; dbg_into 2 false) (w_of m3) with
  | Ok s _ => s = r_str (debug_values dbg_val false [v_ 2 7; v_ 4 8])
  | _ => False
  end.
Proof. vm_compute. reflexivity. Qed.

(* Union of sa = {c5, c6} and sb = {c6, c8}: yields sb's K7c6, K9c8, then sa's K1c5.  After one
   next() its Debug shows the two still to come; register, log untouched; 3 == calls counted *)
Example C19_example_union_debug :
  match (st <- alg_init 2 C19_sa C19_sb ;;
         r <- alg_steps C19_sc0 2 C19_sa C19_sb 1 st [] ;;
         l <- alg_fold C19_sc0 2 C19_sa C19_sb (snd r) ;;
         ret (alg_debug C19_sa C19_sb l false)) (C19_ws C19_sa) with
  | Ok s w' => s = r_str (debug_keys dbg_key false [k_ 9 8; k_ 1 5]) /\
               self w' = C19_sa /\ log w' = [] /\
               cb w' = {| n_eq := 3; n_clone := 0; n_call := 0; next_id := 100000 |}
  | _ => False
  end.
Proof. vm_compute. repeat split. Qed.

Example C19_example_union_spec_list :
  List.map fst (alg_spec_list 2 C19_sa C19_sb) = [k_ 7 6; k_ 9 8; k_ 1 5].
Proof. vm_compute. reflexivity. Qed.

(* ========================================================================== *)
(* APPENDED SECTION, ROUND 2 (second audit) — Proofs/MoreFmt.v, part "ROUND 2"
   ========================================================================== *)

(* -------------------------------------------------------------------------- *)
(* "formatting never changes the container" for DRAIN (C19_drain_debug_rest_render says
   nothing about the final world).  The interpreter's Debug of a Drain, for EVERY cursor and
   EVERY world (well formed or not): the string is the debug_pairs rendering of the cursor's
   raw slots and the world returned is literally the world given. *)
Theorem C19_dbg_range_world :
  forall (V : Type) (dk : key -> str) (dv : V -> str) (alt : bool) (c : cursor) (w : world key V cstate),
    dbg_range dk dv alt c w = Ok (r_str (debug_pairs dk dv alt (range_list (self w) c))) w.
Proof. exact (@dbg_range_world). Qed.
Print Assumptions C19_dbg_range_world.

(* session level: drain(), n calls of next(); in the state w1 reached (the container was
   emptied by drain(): len 0, same capacity, nothing logged; the first n entries have been
   moved out) formatting the Drain returns the rendering of exactly the entries not yet
   yielded AND w1 itself *)
Theorem C19_drain_debug_rest_render_at :
  forall (V : Type) (dk : key -> str) (dv : V -> str) (alt : bool) (n : nat) (w : world key V cstate),
    WF (self w) ->
    wp (c <- drain ;; drain_run n c)
       (fun (r : list (key * V) * cursor) (w1 : world key V cstate) =>
          fst r = firstn n (Spec.elems (self w)) /\
          len (self w1) = 0 /\ cap (self w1) = cap (self w) /\ log w1 = log w /\
          dbg_range dk dv alt (snd r) w1 =
          Ok (r_str (debug_pairs dk dv alt (skipn n (Spec.elems (self w))))) w1)
       (fun _ : world key V cstate => False) w.
Proof. exact (@drain_debug_rest_render_at). Qed.
Print Assumptions C19_drain_debug_rest_render_at.

(* -------------------------------------------------------------------------- *)
(* The definitions the set-algebra theorems above are stated with, restated (each is the
   definition itself, by reflexivity), so that this file can be read on its own. *)
Theorem C19_alg_spec_list_def :
  forall (kind : N) (a b : map key unit),
    alg_spec_list kind a b =
    if (kind =? 2)%N then
      Spec.elems b ++ filter (fun p : key * unit => negb (mem kcls b (fst p))) (Spec.elems a)
    else if (kind =? 3)%N then
      filter (fun p : key * unit => negb (mem kcls b (fst p))) (Spec.elems a) ++
      filter (fun p : key * unit => negb (mem kcls a (fst p))) (Spec.elems b)
    else if (kind =? 1)%N then filter (fun p : key * unit => mem kcls b (fst p)) (Spec.elems a)
    else filter (fun p : key * unit => negb (mem kcls b (fst p))) (Spec.elems a).
Proof. reflexivity. Qed.
Print Assumptions C19_alg_spec_list_def.

(* [mem kcls b k]: the linear scan of b finds an entry of k's class *)
Theorem C19_mem_def :
  forall (b : map key unit) (k : key),
    mem kcls b k = match find_idx kcls (kcls k) (Spec.elems b) with Some _ => true | None => false end.
Proof. reflexivity. Qed.
Print Assumptions C19_mem_def.

Theorem C19_alg_st0_def :
  forall (kind : N) (a b : map key unit),
    alg_st0 kind a b =
    if (kind =? 2)%N then AChain {| front := Some (0, len b); back := (0, len a) |}
    else if (kind =? 3)%N then AChain {| front := Some (0, len a); back := (0, len b) |}
    else ACur (0, len a).
Proof. reflexivity. Qed.
Print Assumptions C19_alg_st0_def.

Theorem C19_alg_items_def :
  forall (kind : N) (a b : map key unit) (st : astate),
    alg_items kind a b st =
    match st with
    | ACur c => List.map (fun i : nat => (false, i)) (sel kcls a b (kind =? 1)%N (fst c) (cursor_len c))
    | AChain u => if (kind =? 2)%N then union_items kcls a b u else symdiff_items kcls a b u
    end.
Proof. reflexivity. Qed.
Print Assumptions C19_alg_items_def.

Theorem C19_alg_keys_def :
  forall (a b : map key unit) (items : list (bool * nat)),
    alg_keys a b items =
    flat_map (fun x : bool * nat =>
                match nth_error (Spec.elems (if fst x then b else a)) (snd x) with
                | Some p => [fst p]
                | None => []
                end) items.
Proof. reflexivity. Qed.
Print Assumptions C19_alg_keys_def.

Theorem C19_ast_ok_def :
  forall (a b : map key unit) (kind : N) (st : astate),
    ast_ok a b kind st =
    match st with
    | ACur c => fst c <= snd c /\ snd c <= len a
    | AChain u => if (kind =? 2)%N then chain_ok (len b) (len a) u else chain_ok (len a) (len b) u
    end.
Proof. reflexivity. Qed.
Print Assumptions C19_ast_ok_def.

Theorem C19_eq_only_def :
  forall s s' : cstate,
    eq_only s s' =
    (n_clone s' = n_clone s /\ n_call s' = n_call s /\ next_id s' = next_id s /\ (n_eq s <= n_eq s')%N).
Proof. reflexivity. Qed.
Print Assumptions C19_eq_only_def.

(* [ast_ok] is satisfiable: the state alg_init returns and the state after two calls of
   next(), for a Union (a chain) and for an Intersection (a cursor), on the sets sa, sb above *)
Example C19_example_ast_ok_union :
  match (st <- alg_init 2 C19_sa C19_sb ;;
         r1 <- alg_next C19_sc0 2 C19_sa C19_sb st ;;
         r2 <- alg_next C19_sc0 2 C19_sa C19_sb (snd r1) ;;
         ret (st, snd r2, (fst r1, fst r2))) (C19_ws C19_sa) with
  | Ok (st, st2, ys) _ =>
      ast_ok C19_sa C19_sb 2 st /\ ast_ok C19_sa C19_sb 2 st2 /\
      st = AChain {| front := Some (0, 2); back := (0, 2) |} /\
      st2 = AChain {| front := Some (2, 2); back := (0, 2) |} /\
      ys = (Some (true, 0), Some (true, 1))
  | _ => False
  end.
Proof.
  vm_compute. unfold chain_ok. cbn [front back fst snd].
  repeat split; try reflexivity; lia.
Qed.

Example C19_example_ast_ok_inter :
  match (st <- alg_init 1 C19_sa C19_sb ;;
         r1 <- alg_next C19_sc0 1 C19_sa C19_sb st ;;
         r2 <- alg_next C19_sc0 1 C19_sa C19_sb (snd r1) ;;
         ret (st, snd r2, (fst r1, fst r2))) (C19_ws C19_sa) with
  | Ok (st, st2, ys) _ =>
      ast_ok C19_sa C19_sb 1 st /\ ast_ok C19_sa C19_sb 1 st2 /\
      st = ACur (0, 2) /\ st2 = ACur (2, 2) /\ ys = (Some (false, 1), None)
  | _ => False
  end.
Proof.
  vm_compute. repeat split; try reflexivity; lia.
Qed.
