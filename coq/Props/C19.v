(* ========================================================================== *)
(* C19 — Debug/Display render exactly the current (or not-yet-yielded) entries

   STATEMENT (properties.jsonl):
     "For any contents, the Debug output of a Map or Set is exactly the standard
      map/set debug rendering (plain and alternate form) of its entries in
      iteration order, and Display is '{' followed by the entries ('key: value'
      for maps, the element for sets) joined by ', ' and '}'. The Debug output
      of any iterator or drain lists exactly the entries it has not yet
      yielded, and formatting never changes the container."
   QUANTIFIER:
     "all contents (0..N entries, after removals) and every consumption prefix
      of every iterator kind"

   READING GUIDE
   -------------
   Model (Model/Fmt.v, Model/Exec.v).  Strings are lists of character codes ([str]).
     display_map dk dv l / display_set dk l   — src/display.rs, src/set/display.rs written as the
                                Rust code is: '{', the first entry, then every further entry
                                prefixed by ", " (Map) / a `first` flag (Set), '}';
     debug_map dk dv alt l / debug_set dk alt l — src/debug.rs, src/set/debug.rs:
                                f.debug_map().entries(..).finish() / f.debug_set()...;
                                [alt] = the alternate form {:#?};
     debug_pairs / debug_keys / debug_values    — the Debug impls of the iterators: a debug_list
                                of "(k, v)" tuples / of keys / of values;
     dbg_map, dbg_set, dbg_list, dbg_tuple (Model/Fmt.v) are a model of core::fmt's
       DebugMap/DebugSet/DebugList/DebugTuple builders — a model of std, not of micromap;
     join sep l                — the strings of l separated by sep;
     format_m style / format_s style — what the interpreter does for `format!` on a Map / Set
                                register: style 0 = Display "{}", 1 = Debug "{:?}",
                                2 = alternate Debug "{:#?}", with the element renderings
                                dsp_key/dsp_val/dbg_key/dbg_val of the harness' key/value types;
     range_list m (lo, hi)     — the entries a borrowing iterator / drain with cursor (lo, hi)
                                hands to its Debug impl: the RAW slots lo..hi-1 of m
                                re-interpreted as initialised (src/iterators.rs:127-165);
     Exec.elems m              — the same raw reading of slots 0..len-1 (used by format_m and by
                                the Debug of the owning iterators, which format the wrapped map);
     Spec.elems m              — the specification's live prefix, in iteration order;
     IterSpec.into_run n       — n calls of IntoIter::next on the wrapped container.
   [WF m] is the representation invariant (true of every reachable state, also after
   removals: C02/C04), so "forall w, WF (self w)" is "all contents, 0..N entries".

   * "Display is '{' followed by the entries ('key: value' / the element) joined by ', ' and '}'"
       C19_display_map_spec, C19_display_set_spec : the first-entry/flag loops of the crate equal
       that join, for every list of entries and every element rendering.
   * "Debug output of a Map or Set is exactly the standard map/set debug rendering (plain ...)"
       C19_debug_map_plain, C19_debug_set_plain : plain form = '{' ++ join ", " ("k: v" / k) ++ '}'.
   * "... (and alternate form)"
       NO independent theorem.  The alternate form is [debug_map dk dv true] / [debug_set dk true],
       i.e. BY DEFINITION the model of std's pretty printer (PadAdapter: one entry per line,
       four-space indent, trailing ','); that this model is what std prints is validated by the
       correspondence check (style 2), not proved.  What IS proved for it is that it is applied
       to exactly the current entries (next item).
   * "of its entries in iteration order" + "formatting never changes the container"
       C19_format_m_pure, C19_format_s_pure : on every well-formed container, formatting in any
       of the three styles returns normally (no panic, no UB) the rendering of EXACTLY
       [Spec.elems (self w)] — the live entries in iteration order — and the final world is
       LITERALLY the initial one: same container, same event log (nothing dropped or cloned),
       same callback state (no == called).
       C19_exec_elems_eq : the raw slot reading used by the renderer is the specification's elems.
   * "The Debug output of any iterator or drain lists exactly the entries it has not yet yielded"
       C19_debug_pairs_plain, C19_debug_keys_plain, C19_debug_values_plain : shape of the plain
       list renderings used by Iter/IterMut/Drain/IntoIter, Keys/IntoKeys and the set adaptors,
       Values/ValuesMut/IntoValues;
       C19_range_list_spec, C19_range_list_rest : for a BORROWING iterator (Iter, IterMut, Keys,
       Values, ValuesMut — the container is unchanged while it is alive) with cursor (lo, hi),
       hi <= len, the raw slots it hands to Debug are exactly entries lo..hi-1 of elems; after
       j calls of next() (cursor (j, len)) they are [skipn j elems]: the entries not yet yielded
       — no dead or uninitialised slot is ever rendered;
       C19_into_run_spec : for an OWNING iterator (IntoIter, IntoKeys, IntoValues: Debug formats
       the wrapped map), after n calls of next() the wrapped map is well formed and its elems are
       the first len - min n len entries of the original: exactly those not yet yielded (it yields
       from the back: r = firstn n (rev elems)); nothing is logged.
       Composed with the consuming session (Proofs/Gaps.v):
       C19_iter_debug_rest  : iter() + n calls of next(): cursor (min n len, len), raw slots of
       that cursor = skipn n elems, container unchanged;
       C19_into_debug_rest  : the raw reading Exec.elems of the wrapped map after n calls of
       IntoIter::next = the not-yet-yielded prefix;
       C19_drain_debug_rest : DRAIN - drain() + n calls of next(): the raw slots of its cursor
       (in a container whose len is already 0) = skipn n of the original elems;
       C19_drain_debug_rest_render : ... and the interpreter's Debug of that Drain
       (Exec.dbg_range) is the debug_pairs rendering (plain or alternate) of skipn n elems.

   PARTLY COVERED / NOT COVERED BY A THEOREM
     - alternate form {:#?}: see above (definition = model of std; correspondence check).
     - Drain: CLOSED.  Its Debug is [debug_pairs .. (range_list (self w) (lo, hi))] on a
       container whose len has already been reset to 0, so C19_range_list_spec (which needs
       hi <= len) does not apply to it; C19_drain_debug_rest / C19_drain_debug_rest_render now
       compose IterSpec.drain_run_strong with the renderer.  (Stated for a Drain consumed by
       next() from the front; Set::drain is the same function on Map<T,()>, with debug_keys
       over map fst of that list - that projection is glue, see below.)
     - the Debug impls of the set-algebra iterators (src/set/difference.rs etc.) are rendered
       with debug_keys over the keys still to come as computed by the interpreter; no theorem
       here relates that list to Algebra's specification (Props/C08.v).
     - the per-iterator-kind glue (which of debug_pairs/keys/values a kind uses, mapping fst/snd
       over the range) lives in Exec.dbg_iter / dbg_into / dbg_range and is exercised by the
       correspondence check only.
     - element renderings (dbg_key, dsp_key, ...) are the harness' own Debug/Display impls.     *)
(* ========================================================================== *)
Require Import Model.Base Model.Slots Model.MapOps Model.Fmt Model.Exec.
Require Import Proofs.Hoare Proofs.Inv Proofs.Safety Proofs.Safety2 Proofs.Spec Proofs.Lawful.
Require Import Proofs.FmtSerde Proofs.IterSpec Proofs.Legacy Proofs.Gaps.

(* -------------------------------------------------------------------------- *)
(* FmtSerde.display_map_spec, display_set_spec                                 *)
Theorem C19_display_map_spec :
  forall (K V : Type) (dk : K -> str) (dv : V -> str) (l : list (K * V)),
    display_map dk dv l =
    [ch_lbrace] ++
    join s_comma_sp (List.map (fun p : K * V => dk (fst p) ++ s_colon_sp ++ dv (snd p)) l) ++
    [ch_rbrace].
Proof. exact (@display_map_spec). Qed.
Print Assumptions C19_display_map_spec.

Theorem C19_display_set_spec :
  forall (K : Type) (dk : K -> str) (l : list K),
    display_set dk l = [ch_lbrace] ++ join s_comma_sp (List.map dk l) ++ [ch_rbrace].
Proof. exact (@display_set_spec). Qed.
Print Assumptions C19_display_set_spec.

(* -------------------------------------------------------------------------- *)
(* FmtSerde.debug_map_plain, debug_set_plain                                   *)
Theorem C19_debug_map_plain :
  forall (K V : Type) (dk : K -> str) (dv : V -> str) (l : list (K * V)),
    debug_map dk dv false l =
    [ch_lbrace] ++
    join s_comma_sp (List.map (fun p : K * V => dk (fst p) ++ s_colon_sp ++ dv (snd p)) l) ++
    [ch_rbrace].
Proof. exact (@debug_map_plain). Qed.
Print Assumptions C19_debug_map_plain.

Theorem C19_debug_set_plain :
  forall (K : Type) (dk : K -> str) (l : list K),
    debug_set dk false l = [ch_lbrace] ++ join s_comma_sp (List.map dk l) ++ [ch_rbrace].
Proof. exact (@debug_set_plain). Qed.
Print Assumptions C19_debug_set_plain.

(* -------------------------------------------------------------------------- *)
(* FmtSerde.debug_keys_plain, debug_values_plain, debug_pairs_plain            *)
Theorem C19_debug_keys_plain :
  forall (K : Type) (dk : K -> str) (l : list K),
    debug_keys dk false l = [ch_lbrack] ++ join s_comma_sp (List.map dk l) ++ [ch_rbrack].
Proof. exact (@debug_keys_plain). Qed.
Print Assumptions C19_debug_keys_plain.

Theorem C19_debug_values_plain :
  forall (V : Type) (dv : V -> str) (l : list V),
    debug_values dv false l = [ch_lbrack] ++ join s_comma_sp (List.map dv l) ++ [ch_rbrack].
Proof. exact (@debug_values_plain). Qed.
Print Assumptions C19_debug_values_plain.

Theorem C19_debug_pairs_plain :
  forall (K V : Type) (dk : K -> str) (dv : V -> str) (l : list (K * V)),
    debug_pairs dk dv false l =
    [ch_lbrack] ++
    join s_comma_sp
      (List.map (fun p : K * V => [ch_lpar] ++ (dk (fst p) ++ s_comma_sp ++ dv (snd p)) ++ [ch_rpar]) l) ++
    [ch_rbrack].
Proof. exact (@debug_pairs_plain). Qed.
Print Assumptions C19_debug_pairs_plain.

(* -------------------------------------------------------------------------- *)
(* FmtSerde.format_m_pure, format_s_pure                                       *)
Theorem C19_format_m_pure :
  forall (style : N) (w : world key vobj cstate),
    WF (self w) ->
    format_m style w =
    Ok (r_str (if (style =? 0)%N
               then display_map dsp_key dsp_val (Spec.elems (self w))
               else debug_map dbg_key dbg_val (style =? 2)%N (Spec.elems (self w))))
       w.
Proof. exact format_m_pure. Qed.
Print Assumptions C19_format_m_pure.

Theorem C19_format_s_pure :
  forall (style : N) (w : world key unit cstate),
    WF (self w) ->
    format_s style w =
    Ok (r_str (if (style =? 0)%N
               then display_set dsp_key (List.map fst (Spec.elems (self w)))
               else debug_set dbg_key (style =? 2)%N (List.map fst (Spec.elems (self w)))))
       w.
Proof. exact format_s_pure. Qed.
Print Assumptions C19_format_s_pure.

(* -------------------------------------------------------------------------- *)
(* FmtSerde.range_list_spec, range_list_rest, exec_elems_eq                    *)
Theorem C19_range_list_spec :
  forall (V : Type) (m : map key V) (lo hi : nat),
    WF m -> lo <= hi -> hi <= len m ->
    range_list m (lo, hi) = firstn (hi - lo) (skipn lo (Spec.elems m)).
Proof. exact (@range_list_spec). Qed.
Print Assumptions C19_range_list_spec.

Theorem C19_range_list_rest :
  forall (V : Type) (m : map key V) (j : nat),
    WF m -> j <= len m ->
    range_list m (j, len m) = skipn j (Spec.elems m).
Proof. exact (@range_list_rest). Qed.
Print Assumptions C19_range_list_rest.

Theorem C19_exec_elems_eq :
  forall (V : Type) (m : map key V), Exec.elems m = Spec.elems m.
Proof. exact (@exec_elems_eq). Qed.
Print Assumptions C19_exec_elems_eq.

(* -------------------------------------------------------------------------- *)
(* IterSpec.into_run_spec — what an owning iterator still holds after n steps  *)
Theorem C19_into_run_spec :
  forall (K V T : Type) (n : nat) (w : world K V T),
    WF (self w) ->
    wp (into_run n)
       (fun (r : list (K * V)) (w' : world K V T) =>
          WF (self w') /\
          cap (self w') = cap (self w) /\
          log w' = log w /\
          r = firstn n (rev (Spec.elems (self w))) /\
          len (self w') = len (self w) - Nat.min n (len (self w)) /\
          Spec.elems (self w') = firstn (len (self w) - Nat.min n (len (self w))) (Spec.elems (self w)))
       (fun _ : world K V T => False)
       w.
Proof. exact (@into_run_spec). Qed.
Print Assumptions C19_into_run_spec.

(* -------------------------------------------------------------------------- *)
(* Gaps.drain_debug_rest, drain_debug_rest_render, iter_debug_rest, into_debug_rest:
   the list a partly consumed iterator hands to its Debug impl, composed with the
   session that consumed it (interpreter key type `key`; V, T arbitrary)          *)

(* Drain (the container's len is already 0, so C19_range_list_spec does not apply):
   after n calls of next() the raw slots of the drain's cursor hold exactly the
   entries it has not yet yielded, skipn n of the original content *)
Theorem C19_drain_debug_rest :
  forall (V T : Type) (n : nat) (w : world key V T),
    WF (self w) ->
    wp (c <- drain ;; drain_run n c)
       (fun (r : list (key * V) * cursor) (w' : world key V T) =>
          range_list (self w') (snd r) = skipn n (Spec.elems (self w)) /\
          range_list (self w') (snd r) =
            skipn (Nat.min n (length (Spec.elems (self w)))) (Spec.elems (self w)) /\
          fst r = firstn n (Spec.elems (self w)))
       (fun _ : world key V T => False)
       w.
Proof. exact (@drain_debug_rest). Qed.
Print Assumptions C19_drain_debug_rest.

(* ... composed with the renderer the interpreter uses for `format!("{:?}", drain)`
   (Exec.dbg_range dk dv alt c := r_str (debug_pairs dk dv alt (range_list (self w) c)),
   r_str s = length-prefixed s): the Debug output of a Drain that has yielded n
   entries is the debug_pairs rendering, plain or alternate, of exactly the other ones *)
Theorem C19_drain_debug_rest_render :
  forall (V : Type) (dk : key -> str) (dv : V -> str) (alt : bool) (n : nat)
         (w : world key V cstate),
    WF (self w) ->
    wp (c <- drain ;; r <- drain_run n c ;; dbg_range dk dv alt (snd r))
       (fun (s : list N) (_ : world key V cstate) =>
          s = r_str (debug_pairs dk dv alt (skipn n (Spec.elems (self w)))))
       (fun _ : world key V cstate => False)
       w.
Proof. exact (@drain_debug_rest_render). Qed.
Print Assumptions C19_drain_debug_rest_render.

(* borrowing iterators: the session of n calls of next() from iter() leaves the
   container as it is, ends at cursor (min n len, len), and the raw slots of that
   cursor are skipn n of the content *)
Theorem C19_iter_debug_rest :
  forall (V T : Type) (n : nat) (w : world key V T),
    WF (self w) ->
    wp (c <- iter ;; iter_run n c)
       (fun (r : list nat * cursor) (w' : world key V T) =>
          self w' = self w /\
          snd r = (Nat.min n (len (self w)), len (self w)) /\
          range_list (self w') (snd r) = skipn (Nat.min n (len (self w))) (Spec.elems (self w)) /\
          range_list (self w') (snd r) = skipn n (Spec.elems (self w)))
       (fun _ : world key V T => False)
       w.
Proof. exact (@iter_debug_rest). Qed.
Print Assumptions C19_iter_debug_rest.

(* owning iterators: after n calls of next() the RAW reading Exec.elems of the
   wrapped map - what its Debug formats - is the not-yet-yielded prefix *)
Theorem C19_into_debug_rest :
  forall (V T : Type) (n : nat) (w : world key V T),
    WF (self w) ->
    wp (into_run n)
       (fun (r : list (key * V)) (w' : world key V T) =>
          Exec.elems (self w') =
            firstn (len (self w) - Nat.min n (len (self w))) (Spec.elems (self w)) /\
          r = firstn n (rev (Spec.elems (self w))))
       (fun _ : world key V T => False)
       w.
Proof. exact (@into_debug_rest). Qed.
Print Assumptions C19_into_debug_rest.

(* -------------------------------------------------------------------------- *)
(* Non-vacuity.  m3 (Proofs/Legacy.v) = [ (K1 c5, V2 d7); (K3 c6, V4 d8); (K5 c7, V6 d9) ]. *)
Example C19_example_WF : WF (self (w_of m3)).
Proof. exact m3_WF. Qed.

Example C19_example_WF_empty : WF (self (w_of (new_map 2))).
Proof. apply WF_new. Qed.

(* Display of m3: the 24 characters  {k5: d7, k6: d8, k7: d9}  and the world unchanged *)
Example C19_example_display :
  format_m 0 (w_of m3) =
  Ok [24; 123; 107; 53; 58; 32; 100; 55; 44; 32; 107; 54; 58; 32; 100; 56; 44; 32;
      107; 55; 58; 32; 100; 57; 125]%N
     (w_of m3).
Proof. vm_compute. reflexivity. Qed.

(* Debug {:?} of m3: the 36 characters  {K1c5: V2d7, K3c6: V4d8, K5c7: V6d9} *)
Example C19_example_debug :
  format_m 1 (w_of m3) =
  Ok [36; 123; 75; 49; 99; 53; 58; 32; 86; 50; 100; 55; 44; 32; 75; 51; 99; 54; 58; 32; 86; 52;
      100; 56; 44; 32; 75; 53; 99; 55; 58; 32; 86; 54; 100; 57; 125]%N
     (w_of m3).
Proof. vm_compute. reflexivity. Qed.

(* empty container: "{}" *)
Example C19_example_display_empty :
  format_m 0 (w_of (new_map 2)) = Ok [2; 123; 125]%N (w_of (new_map 2)).
Proof. vm_compute. reflexivity. Qed.

(* a borrowing iterator over m3 that has yielded one entry shows the other two *)
Example C19_example_range :
  range_list m3 (1, len m3) = [(k_ 3 6, v_ 4 8); (k_ 5 7, v_ 6 9)] /\
  skipn 1 (Spec.elems m3) = [(k_ 3 6, v_ 4 8); (k_ 5 7, v_ 6 9)].
Proof. split; vm_compute; reflexivity. Qed.

(* an owning iterator over m3 after one next(): yielded the LAST entry, the
   wrapped map still holds the first two *)
Example C19_example_into :
  match into_run 1 (w_of m3) with
  | Ok r w' => r = [(k_ 5 7, v_ 6 9)] /\
               Spec.elems (self w') = [(k_ 1 5, v_ 2 7); (k_ 3 6, v_ 4 8)] /\ log w' = []
  | _ => False
  end.
Proof. vm_compute. repeat split. Qed.

(* a Drain over m3 that has yielded one entry: its Debug {:?} is the 28 characters
   [(K3c6, V4d8), (K5c7, V6d9)]  - exactly the two entries not yet yielded *)
Example C19_example_drain_debug :
  match (c <- drain ;; r <- drain_run 1 c ;; dbg_range dbg_key dbg_val false (snd r)) (w_of m3) with
  | Ok s w' => s = r_str (debug_pairs dbg_key dbg_val false [(k_ 3 6, v_ 4 8); (k_ 5 7, v_ 6 9)]) /\
               length s = 29 /\ len (self w') = 0
  | _ => False
  end.
Proof. vm_compute. repeat split; reflexivity. Qed.
