(* Owned.v — ownership conservation (C02, C17) for EVERY environment:
   every ledger identity moved into a Map is at every moment in exactly one
   place (stored / handed out / destroyed), whatever the callbacks do. *)
Require Import Model.Base Model.Slots Model.MapOps Proofs.Hoare Proofs.Inv Proofs.Safety Proofs.Safety2.
From Coq Require Import Permutation.

(* multiset reasoning on lists of identities by counting occurrences *)
Notation idcnt := (count_occ N.eq_dec).

Lemma perm_cnt (l1 l2 : list N) : Permutation l1 l2 <-> forall x, idcnt l1 x = idcnt l2 x.
Proof. apply Permutation_count_occ. Qed.
Lemma nodup_cnt (l : list N) : NoDup l <-> forall x, idcnt l x <= 1.
Proof. apply NoDup_count_occ. Qed.
Lemma eq_cnt (l1 l2 : list N) x : l1 = l2 -> idcnt l1 x = idcnt l2 x.
Proof. intros ->. reflexivity. Qed.

Lemma perm_cnt1 (l1 l2 : list N) x : Permutation l1 l2 -> idcnt l1 x = idcnt l2 x.
Proof. intros H. apply perm_cnt. exact H. Qed.
Lemma nodup_cnt1 (l : list N) x : NoDup l -> idcnt l x <= 1.
Proof. intros H. apply nodup_cnt. exact H. Qed.

Ltac cnt_hyps x :=
  repeat match goal with
  | H : Permutation _ _ |- _ => apply (perm_cnt1 _ _ x) in H
  | H : NoDup _ |- _ => apply (nodup_cnt1 _ x) in H
  | H : @eq (list N) _ _ |- _ => apply (eq_cnt _ _ x) in H
  end.
Ltac cnt_norm := rewrite ?count_occ_app in *; cbn [count_occ] in *.
Ltac perm_ids :=
  match goal with
  | |- Permutation _ _ => apply perm_cnt
  | |- NoDup _ => apply nodup_cnt
  end;
  let x := fresh "x" in intros x; cnt_hyps x; cnt_norm; lia.

Section Owned.
Context {K V Q T : Type} (E : env K V Q T) (debug : bool).
Notation M := (M K V T). Notation world := (world K V T). Notation map := (map K V). Notation kv := (K * V)%type.

Definition ids_pair (p : kv) : list N := idK E (fst p) ++ idV E (snd p).
Definition ids_slots (sl : list (option kv)) : list N := flat_map (fun o => match o with Some p => ids_pair p | None => [] end) sl.
Definition owned (m : map) : list N := ids_slots (slots m).                  (* identities held in ANY slot *)
Definition dropped (l : list event) : list N := flat_map (fun e => match e with EvDrop i => [i] | _ => [] end) l.
(* accounting: what is stored + handed out + lost + destroyed afterwards = what was stored + handed in + destroyed before *)
Definition acct (w w' : world) (ins outs lost : list N) : Prop :=
  Permutation (owned (self w') ++ outs ++ lost ++ dropped (log w')) (owned (self w) ++ ins ++ dropped (log w)).
(* the conservation triple: from any well-formed state nothing is ever duplicated (some `lost` may leak);
   from a tidy state (no element beyond len) on normal return nothing is lost either, and the state is tidy again *)
Definition conserves {A} (c : M A) (ins : list N) (outs : A -> list N) : Prop :=
  forall w, WF (self w) ->
    wp c
       (fun a w' => WF (self w') /\ cap (self w') = cap (self w) /\
                    exists lost, acct w w' ins (outs a) lost /\ (Tidy (self w) -> lost = [] /\ Tidy (self w')))
       (fun w' => WF (self w') /\ cap (self w') = cap (self w) /\ exists lost, acct w w' ins [] lost)
       w.

Local Notation ids_opt o := (match o with Some p => ids_pair p | None => [] end).

(* ================= 0. basic lemmas ================= *)
Lemma ids_slots_cons o sl : ids_slots (o :: sl) = ids_opt o ++ ids_slots sl.
Proof. reflexivity. Qed.

Lemma ids_slots_upd sl : forall i o y, nth_error sl i = Some o ->
  Permutation (ids_slots (upd sl i y) ++ ids_opt o) (ids_opt y ++ ids_slots sl).
Proof.
  induction sl as [|a t IH]; intros [|i] o y H; cbn [nth_error] in H; try discriminate.
  - inversion H; subst a. cbn [upd]. rewrite !ids_slots_cons.
    perm_ids.
  - cbn [upd]. rewrite !ids_slots_cons. pose proof (IH i o y H) as HP. perm_ids.
Qed.

Lemma ids_slots_upd_none sl i o : nth_error sl i = Some o ->
  Permutation (ids_slots sl) (ids_opt o ++ ids_slots (upd sl i None)).
Proof. intros H. pose proof (ids_slots_upd sl i o None H) as HP. cbv iota in HP. perm_ids. Qed.

Lemma ids_slots_upd_some sl i o x : nth_error sl i = Some o ->
  Permutation (ids_slots (upd sl i (Some x)) ++ ids_opt o) (ids_pair x ++ ids_slots sl).
Proof. intros H. exact (ids_slots_upd sl i o (Some x) H). Qed.

Lemma ids_slots_all_none sl : (forall i, nth_error sl i <> None -> nth_error sl i = Some None) -> ids_slots sl = [].
Proof.
  induction sl as [|a t IH]; intros H; [reflexivity|].
  rewrite ids_slots_cons. rewrite IH.
  - specialize (H 0). cbn [nth_error] in H. rewrite app_nil_r.
    assert (Ha : Some a = Some None) by (apply H; discriminate). inversion Ha. reflexivity.
  - intros i. apply (H (S i)).
Qed.

Lemma owned_set_len (m : map) n : owned (set_len_m m n) = owned m.
Proof. reflexivity. Qed.

Lemma owned_set_slot (m : map) i o y : nth_error (slots m) i = Some o ->
  Permutation (owned (set_slot_m m i y) ++ ids_opt o) (ids_opt y ++ owned m).
Proof. intros H. unfold owned, set_slot_m; cbn [slots]. apply ids_slots_upd. exact H. Qed.

Lemma dropped_app l1 l2 : dropped (l1 ++ l2) = dropped l1 ++ dropped l2.
Proof. unfold dropped. apply flat_map_app. Qed.

Lemma dropped_ev_drops l : dropped (ev_drops l) = l.
Proof. induction l as [|a l IH]; cbn; [reflexivity | rewrite <- IH at 2; reflexivity]. Qed.

Lemma dropped_log_drops l ids : dropped (l ++ ev_drops ids) = dropped l ++ ids.
Proof. rewrite dropped_app, dropped_ev_drops. reflexivity. Qed.

(* Tidy facts *)
Lemma Tidy_set_slot_lt (m : map) i x : Tidy m -> i < len m -> Tidy (set_slot_m m i x).
Proof.
  intros Ht Hi j Hj. unfold set_slot_m in *; cbn [len slots] in *.
  rewrite nth_error_upd_neq by lia. apply Ht. exact Hj.
Qed.

Lemma Tidy_set_slot_none (m : map) i : Tidy m -> Tidy (set_slot_m m i None).
Proof.
  intros Ht j Hj. unfold set_slot_m in *; cbn [len slots] in *.
  rewrite nth_error_upd. destruct (Nat.eqb_spec i j) as [->|Hn]; [|apply Ht; exact Hj].
  destruct (j <? length (slots m)); [reflexivity | intros H; contradiction].
Qed.

Lemma Tidy_append (m : map) p : Tidy m -> Tidy (set_len_m (set_slot_m m (len m) (Some p)) (S (len m))).
Proof.
  intros Ht j Hj. unfold set_len_m, set_slot_m in *; cbn [len slots] in *.
  rewrite nth_error_upd_neq by lia. apply Ht. lia.
Qed.

Lemma Tidy_set_len_ge (m : map) n : Tidy m -> len m <= n -> Tidy (set_len_m m n).
Proof. intros Ht Hn j Hj. unfold set_len_m in *; cbn [len slots] in *. apply Ht. lia. Qed.

(* shrinking by one while emptying the vacated slot *)
Lemma Tidy_pop (m : map) n : Tidy m -> len m = S n -> Tidy (set_slot_m (set_len_m m n) n None).
Proof.
  intros Ht Hl j Hj. unfold set_len_m, set_slot_m in *; cbn [len slots] in *.
  rewrite nth_error_upd. destruct (Nat.eqb_spec n j) as [->|Hn].
  - destruct (j <? length (slots m)); [reflexivity | intros H; contradiction].
  - apply Ht. lia.
Qed.

Lemma Tidy_slot_none (m : map) i o : Tidy m -> len m <= i -> nth_error (slots m) i = Some o -> o = None.
Proof.
  intros Ht Hi Ho. assert (H : nth_error (slots m) i = Some None) by (apply Ht; [exact Hi | rewrite Ho; discriminate]).
  congruence.
Qed.

(* ================= 1. callbacks and logging are quiet ================= *)
Definition quiet {A} (c : M A) : Prop :=
  forall w, wp c (fun _ w' => self w' = self w /\ log w' = log w) (fun w' => self w' = self w /\ log w' = log w) w.

Lemma quiet_cbk f : quiet (@cbk K V T f).
Proof. intros w. apply wp_cbk; intros; split; reflexivity. Qed.
Lemma quiet_cbo {A} (f : T -> option A * T) : quiet (@cbo K V T A f).
Proof. intros w. apply wp_cbo; intros; split; reflexivity. Qed.
Lemma quiet_cbd f : quiet (@cbd K V T f).
Proof. intros w. apply wp_cbd; intros; split; reflexivity. Qed.
Lemma quiet_ret {A} (a : A) : quiet (@ret K V T A a).
Proof. intros w. apply wp_ret. split; reflexivity. Qed.
Lemma quiet_panic {A} : quiet (@panic K V T A).
Proof. intros w. apply wp_panic. split; reflexivity. Qed.

Lemma quiet_bind {A B} (c : M A) (f : A -> M B) : quiet c -> (forall a, quiet (f a)) -> quiet (bind c f).
Proof.
  intros Hc Hf w. apply wp_bind. eapply wp_mono; [apply Hc | |]; cbn beta.
  - intros a w' [H1 H2]. eapply wp_mono; [apply Hf | |]; cbn beta; intros; split; destruct H; congruence.
  - auto.
Qed.

Lemma quiet_test_q q p : quiet (test_q E q p).
Proof. apply quiet_cbk. Qed.
Lemma quiet_test_k k p : quiet (test_k E k p).
Proof. apply quiet_cbk. Qed.

Lemma quiet_frame {A} (c : M A) : quiet c -> frame c.
Proof. intros H w. eapply wp_mono; [apply H | |]; cbn beta; tauto. Qed.

Lemma wp_quiet {A} (c : M A) (Qn : A -> world -> Prop) (Qp : world -> Prop) w :
  quiet c ->
  (forall a w', self w' = self w -> log w' = log w -> Qn a w') ->
  (forall w', self w' = self w -> log w' = log w -> Qp w') ->
  wp c Qn Qp w.
Proof. intros Hc H1 H2. eapply wp_mono; [apply Hc | |]; cbn beta; intros; destruct H; auto. Qed.

Lemma scan_loop_quiet (test : kv -> M bool) :
  (forall p, quiet (test p)) ->
  forall n i w,
    (forall j, i <= j < i + n -> live (self w) j) ->
    wp (scan_loop test n i)
       (fun r w' => self w' = self w /\ log w' = log w /\ match r with Some x => i <= x < i + n | None => True end)
       (fun w' => self w' = self w /\ log w' = log w) w.
Proof.
  intros Ht. induction n as [|n IH]; intros i w Hl; cbn [scan_loop].
  - apply wp_ret. auto.
  - destruct (Hl i ltac:(lia)) as [p Hp].
    apply wp_bind. eapply wp_p_ref; [exact Hp|].
    apply wp_bind. apply wp_quiet; [apply Ht | |].
    + intros b w' Hs Hg. destruct b.
      * apply wp_ret. split; [exact Hs|]. split; [exact Hg | lia].
      * eapply wp_mono; [apply IH | |]; cbn beta.
        -- intros j Hj. rewrite Hs. apply Hl. lia.
        -- intros r w'' (Hs' & Hg' & Hr). split; [congruence|]. split; [congruence|]. destruct r; [lia | exact I].
        -- intros w'' [Hs' Hg']. split; congruence.
    + intros w' Hs Hg. auto.
Qed.

Lemma scan_quiet (test : kv -> M bool) :
  (forall p, quiet (test p)) ->
  forall w, WF (self w) ->
    wp (scan test)
       (fun r w' => self w' = self w /\ log w' = log w /\ match r with Some i => i < len (self w) | None => True end)
       (fun w' => self w' = self w /\ log w' = log w) w.
Proof.
  intros Ht w [Hl Hs]. unfold scan.
  apply wp_bind. apply wp_p_prefix; [intros _ | lia].
  apply wp_bind. apply wp_get_len.
  eapply wp_mono; [apply (scan_loop_quiet test Ht) | |]; cbn beta.
  - intros j Hj. apply Hs. lia.
  - intros r w' (H1 & H2 & H3). split; [exact H1|]. split; [exact H2|]. destruct r; [lia | exact I].
  - auto.
Qed.

(* ================= 2. destructors ================= *)
Lemma drop_key_spec k w :
  let post := fun w' : world => self w' = self w /\ log w' = log w ++ ev_drops (idK E k) in
  wp (drop_key E k) (fun _ => post) post w.
Proof.
  intros post. unfold drop_key. apply wp_bind. apply wp_emit. apply wp_bind. apply wp_cbd.
  intros b s. destruct b; [apply wp_panic | apply wp_ret]; unfold post; simp_w; auto.
Qed.

Lemma drop_val_spec v w :
  let post := fun w' : world => self w' = self w /\ log w' = log w ++ ev_drops (idV E v) in
  wp (drop_val E v) (fun _ => post) post w.
Proof.
  intros post. unfold drop_val. apply wp_bind. apply wp_emit. apply wp_bind. apply wp_cbd.
  intros b s. destruct b; [apply wp_panic | apply wp_ret]; unfold post; simp_w; auto.
Qed.

Lemma drop_pair_spec p w :
  let post := fun w' : world => self w' = self w /\ log w' = log w ++ ev_drops (ids_pair p) in
  wp (drop_pair E p) (fun _ => post) post w.
Proof.
  intros post. unfold drop_pair. apply wp_bind. apply wp_emit. apply wp_bind. apply wp_cbd.
  intros bk s. apply wp_bind. apply wp_cbd. intros bv s'.
  destruct (bk || bv); [apply wp_panic | apply wp_ret]; unfold post; simp_w; auto.
Qed.


(* ================= conservation post-conditions and their algebra ================= *)
Definition cpostN (w : world) (ins outs : list N) (w' : world) : Prop :=
  WF (self w') /\ cap (self w') = cap (self w) /\
  exists lost, acct w w' ins outs lost /\ (Tidy (self w) -> lost = [] /\ Tidy (self w')).
Definition cpostP (w : world) (ins : list N) (w' : world) : Prop :=
  WF (self w') /\ cap (self w') = cap (self w) /\ exists lost, acct w w' ins [] lost.

Lemma conserves_iff {A} (c : M A) ins outs :
  conserves c ins outs <-> forall w, WF (self w) -> wp c (fun a => cpostN w ins (outs a)) (cpostP w ins) w.
Proof. reflexivity. Qed.

(* nothing lost *)
Lemma cpostN_exact w w' ins outs :
  WF (self w') -> cap (self w') = cap (self w) ->
  Permutation (owned (self w') ++ outs ++ dropped (log w')) (owned (self w) ++ ins ++ dropped (log w)) ->
  (Tidy (self w) -> Tidy (self w')) -> cpostN w ins outs w'.
Proof.
  intros Hw Hc HP Ht. split; [exact Hw|]. split; [exact Hc|]. exists []. split; [unfold acct; perm_ids | auto].
Qed.

Lemma cpostP_exact w w' ins lost :
  WF (self w') -> cap (self w') = cap (self w) ->
  Permutation (owned (self w') ++ lost ++ dropped (log w')) (owned (self w) ++ ins ++ dropped (log w)) ->
  cpostP w ins w'.
Proof.
  intros Hw Hc HP. split; [exact Hw|]. split; [exact Hc|]. exists lost. unfold acct; perm_ids.
Qed.

Lemma cpostP_of_N w w' ins outs : cpostN w ins outs w' -> cpostP w ins w'.
Proof.
  intros (Hw & Hc & lost & HP & _). split; [exact Hw|]. split; [exact Hc|]. exists (outs ++ lost).
  unfold acct in *. perm_ids.
Qed.

Lemma cpostN_perm w w' ins outs ins' outs' :
  Permutation ins ins' -> Permutation outs outs' -> cpostN w ins outs w' -> cpostN w ins' outs' w'.
Proof.
  intros H1 H2 (Hw & Hc & lost & HP & Ht). split; [exact Hw|]. split; [exact Hc|]. exists lost.
  split; [|exact Ht]. unfold acct in *. perm_ids.
Qed.

Lemma cpostP_perm w w' ins ins' : Permutation ins ins' -> cpostP w ins w' -> cpostP w ins' w'.
Proof.
  intros H1 (Hw & Hc & lost & HP). split; [exact Hw|]. split; [exact Hc|]. exists lost.
  unfold acct in *. perm_ids.
Qed.

Lemma cpostP_weaken w w' ins extra : cpostP w ins w' -> cpostP w (ins ++ extra) w'.
Proof.
  intros (Hw & Hc & lost & HP). split; [exact Hw|]. split; [exact Hc|]. exists (lost ++ extra).
  unfold acct in *. perm_ids.
Qed.

(* changing the base / final world by a step that neither stores nor destroys *)
Lemma cpostN_base w w1 w' ins outs :
  self w1 = self w -> dropped (log w1) = dropped (log w) -> cpostN w1 ins outs w' -> cpostN w ins outs w'.
Proof. unfold cpostN, acct. intros -> ->. auto. Qed.
Lemma cpostP_base w w1 w' ins :
  self w1 = self w -> dropped (log w1) = dropped (log w) -> cpostP w1 ins w' -> cpostP w ins w'.
Proof. unfold cpostP, acct. intros -> ->. auto. Qed.
Lemma cpostN_frame w w' w'' ins outs :
  self w'' = self w' -> dropped (log w'') = dropped (log w') -> cpostN w ins outs w' -> cpostN w ins outs w''.
Proof. unfold cpostN, acct. intros -> ->. auto. Qed.
Lemma cpostP_frame w w' w'' ins :
  self w'' = self w' -> dropped (log w'') = dropped (log w') -> cpostP w ins w' -> cpostP w ins w''.
Proof. unfold cpostP, acct. intros -> ->. auto. Qed.

Lemma cpostN_refl w w' l :
  WF (self w) -> self w' = self w -> dropped (log w') = dropped (log w) -> cpostN w l l w'.
Proof.
  intros Hw Hs Hd. apply cpostN_exact; rewrite ?Hs, ?Hd; auto.
Qed.
Lemma cpostP_refl w w' l :
  WF (self w) -> self w' = self w -> dropped (log w') = dropped (log w) -> cpostP w l w'.
Proof. intros Hw Hs Hd. eapply cpostP_of_N. apply cpostN_refl; eauto. Qed.

(* sequencing: what the first step hands out (plus [extra] held by the caller) is handed to the second *)
Lemma cpostN_trans extra w w1 w2 ins1 mid outs2 :
  cpostN w ins1 mid w1 -> cpostN w1 (mid ++ extra) outs2 w2 -> cpostN w (ins1 ++ extra) outs2 w2.
Proof.
  intros (Hw1 & Hc1 & lost1 & HP1 & Ht1) (Hw2 & Hc2 & lost2 & HP2 & Ht2).
  split; [exact Hw2|]. split; [congruence|]. exists (lost1 ++ lost2). split.
  - unfold acct in *. perm_ids.
  - intros Ht. destruct (Ht1 Ht) as [-> Ht']. destruct (Ht2 Ht') as [-> Ht'']. auto.
Qed.

Lemma cpostNP_trans extra w w1 w2 ins1 mid :
  cpostN w ins1 mid w1 -> cpostP w1 (mid ++ extra) w2 -> cpostP w (ins1 ++ extra) w2.
Proof.
  intros (Hw1 & Hc1 & lost1 & HP1 & Ht1) (Hw2 & Hc2 & lost2 & HP2).
  split; [exact Hw2|]. split; [congruence|]. exists (lost1 ++ lost2).
  unfold acct in *. perm_ids.
Qed.

Lemma conserves_bind {A B} extra (c : M A) (f : A -> M B) ins1 outs1 outs2 :
  conserves c ins1 outs1 -> (forall a, conserves (f a) (outs1 a ++ extra) outs2) ->
  conserves (bind c f) (ins1 ++ extra) outs2.
Proof.
  intros Hc Hf w Hw. apply wp_bind. eapply wp_mono; [apply Hc; exact Hw | |]; cbn beta.
  - intros a w1 H1. assert (Hw1 : WF (self w1)) by apply H1.
    eapply wp_mono; [apply Hf; exact Hw1 | |]; cbn beta.
    + intros b w2 H2. exact (cpostN_trans extra _ _ _ _ _ _ H1 H2).
    + intros w2 H2. exact (cpostNP_trans extra _ _ _ _ _ H1 H2).
  - intros w1 H1. apply cpostP_weaken. exact H1.
Qed.

Lemma conserves_perm {A} (c : M A) ins ins' (outs outs' : A -> list N) :
  Permutation ins ins' -> (forall a, Permutation (outs a) (outs' a)) ->
  conserves c ins outs -> conserves c ins' outs'.
Proof.
  intros H1 H2 Hc w Hw. eapply wp_mono; [apply Hc; exact Hw | |]; cbn beta.
  - intros a w' H. exact (cpostN_perm _ _ _ _ _ _ H1 (H2 a) H).
  - intros w' H. exact (cpostP_perm _ _ _ _ H1 H).
Qed.

(* steps that neither store nor destroy (they may log other events) *)
Definition silent {A} (c : M A) : Prop :=
  forall w, wp c (fun _ w' => self w' = self w /\ dropped (log w') = dropped (log w))
                 (fun w' => self w' = self w /\ dropped (log w') = dropped (log w)) w.

Lemma quiet_silent {A} (c : M A) : quiet c -> silent c.
Proof. intros H w. eapply wp_mono; [apply H | |]; cbn beta; intros; destruct H0 as [-> ->]; auto. Qed.

Lemma conserves_silent {A} (c : M A) l : silent c -> conserves c l (fun _ => l).
Proof.
  intros Hc w Hw. eapply wp_mono; [apply Hc | |]; cbn beta.
  - intros _ w' [Hs Hd]. apply cpostN_refl; auto.
  - intros w' [Hs Hd]. apply cpostP_refl; auto.
Qed.

Lemma conserves_ret {A} (a : A) (outs : A -> list N) : conserves (@ret K V T A a) (outs a) outs.
Proof. intros w Hw. apply wp_ret. apply cpostN_refl; auto. Qed.

Lemma conserves_panic {A} l (outs : A -> list N) : conserves (@panic K V T A) l outs.
Proof. intros w Hw. apply wp_panic. apply cpostP_refl; auto. Qed.

(* destructors consume exactly the identities of their argument *)
Lemma conserves_drop_key k : conserves (drop_key E k) (idK E k) (fun _ => []).
Proof.
  intros w Hw. eapply wp_mono; [apply drop_key_spec | |]; cbn beta.
  - intros _ w' [Hs Hg]. apply cpostN_exact; rewrite ?Hs, ?Hg, ?dropped_log_drops; auto. perm_ids.
  - intros w' [Hs Hg]. apply (cpostP_exact _ _ _ []); rewrite ?Hs, ?Hg, ?dropped_log_drops; auto. perm_ids.
Qed.
Lemma conserves_drop_val v : conserves (drop_val E v) (idV E v) (fun _ => []).
Proof.
  intros w Hw. eapply wp_mono; [apply drop_val_spec | |]; cbn beta.
  - intros _ w' [Hs Hg]. apply cpostN_exact; rewrite ?Hs, ?Hg, ?dropped_log_drops; auto. perm_ids.
  - intros w' [Hs Hg]. apply (cpostP_exact _ _ _ []); rewrite ?Hs, ?Hg, ?dropped_log_drops; auto. perm_ids.
Qed.
Lemma conserves_drop_pair p : conserves (drop_pair E p) (ids_pair p) (fun _ => []).
Proof.
  intros w Hw. eapply wp_mono; [apply drop_pair_spec | |]; cbn beta.
  - intros _ w' [Hs Hg]. apply cpostN_exact; rewrite ?Hs, ?Hg, ?dropped_log_drops; auto. perm_ids.
  - intros w' [Hs Hg]. apply (cpostP_exact _ _ _ []); rewrite ?Hs, ?Hg, ?dropped_log_drops; auto. perm_ids.
Qed.


(* ================= 3. remove_index_read ================= *)
Lemma remove_index_read_acct i (w : world) :
  WF (self w) -> i < len (self w) ->
  wp (remove_index_read debug i)
     (fun p w' => WF (self w') /\ cap (self w') = cap (self w) /\ S (len (self w')) = len (self w) /\
                  log w' = log w /\ Permutation (owned (self w') ++ ids_pair p) (owned (self w)) /\
                  (Tidy (self w) -> Tidy (self w')))
     (fun _ => False) w.
Proof.
  intros Hw Hi.
  eapply wp_mono; [apply wp_conj; [apply (remove_index_read_spec debug i w Hw Hi) | ] | |]; cbn beta.
  2: { intros p w' [[[H1 H2] H3] H4]. split; [exact H1|]. split; [exact H2|]. split; [exact H3|]. exact H4. }
  2: { intros w' [[] _]. }
  instantiate (1 := fun _ => True).
  destruct Hw as [Hl Hs]. unfold remove_index_read.
  destruct (Hs i Hi) as [p Hp].
  apply wp_bind. eapply wp_p_read; [exact Hp|].
  destruct (len (self w)) as [|n] eqn:Hn; [lia|].
  apply wp_bind. eapply wp_dec_len; [simp_w; exact Hn|].
  apply wp_bind. apply wp_get_len. simp_w.
  destruct (Nat.eqb_spec i n) as [->|Hne].
  - apply wp_bind. apply wp_ret. apply wp_ret. simp_w.
    split; [reflexivity|]. split.
    + unfold owned; simp_w.
      pose proof (ids_slots_upd (slots (self w)) n (Some p) None Hp) as HP. perm_ids.
    + intros Ht j Hj. simp_w. rewrite nth_error_upd.
      destruct (Nat.eqb_spec n j) as [->|Hnj].
      * destruct (j <? length (slots (self w))); [reflexivity | intros H; contradiction].
      * apply Ht. lia.
  - assert (Hnl : n < S n) by lia.
    destruct (Hs n Hnl) as [q Hq].
    apply wp_bind. apply wp_bind.
    eapply wp_p_read with (p := q).
    { simp_w. rewrite nth_error_upd_neq by auto. exact Hq. }
    simp_w.
    apply wp_p_write.
    { unfold cap; simp_w. rewrite !upd_length. fold (cap (self w)). lia. }
    apply wp_ret. simp_w.
    split; [reflexivity|]. split.
    + unfold owned; simp_w.
      pose proof (ids_slots_upd (slots (self w)) i (Some p) None Hp) as HP1.
      assert (Hq' : nth_error (upd (slots (self w)) i None) n = Some (Some q))
        by (rewrite nth_error_upd_neq by auto; exact Hq).
      pose proof (ids_slots_upd _ n (Some q) None Hq') as HP2.
      assert (Hi' : nth_error (upd (upd (slots (self w)) i None) n None) i = Some None).
      { rewrite nth_error_upd_neq by auto. apply nth_error_upd_eq. fold (cap (self w)). lia. }
      pose proof (ids_slots_upd _ i None (Some q) Hi') as HP3.
      perm_ids.
    + intros Ht j Hj. simp_w.
      rewrite nth_error_upd_neq by lia. rewrite nth_error_upd.
      destruct (Nat.eqb_spec n j) as [->|Hnj].
      * rewrite upd_length. destruct (j <? length (slots (self w))); [reflexivity | intros H; contradiction].
      * rewrite nth_error_upd_neq by lia. apply Ht. lia.
Qed.

Lemma conserves_remove_index_read i (w : world) :
  WF (self w) -> i < len (self w) ->
  wp (remove_index_read debug i)
     (fun p w' => WF (self w') /\ cap (self w') = cap (self w) /\
                  exists lost, acct w w' [] (ids_pair p) lost /\ (Tidy (self w) -> lost = [] /\ Tidy (self w')))
     (fun w' => WF (self w') /\ cap (self w') = cap (self w) /\ exists lost, acct w w' [] [] lost)
     w.
Proof.
  intros Hw Hi. eapply wp_mono; [apply remove_index_read_acct; assumption | |]; cbn beta.
  - intros p w' (H1 & H2 & H3 & H4 & H5 & H6). apply cpostN_exact; auto. rewrite H4. perm_ids.
  - intros w' [].
Qed.

(* ================= 4. remove_index_drop ================= *)
Lemma remove_index_drop_acct i (w : world) :
  WF (self w) -> i < len (self w) ->
  let post := fun w' : world =>
    WF (self w') /\ cap (self w') = cap (self w) /\ S (len (self w')) = len (self w) /\
    acct w w' [] [] [] /\ (Tidy (self w) -> Tidy (self w')) in
  wp (remove_index_drop E debug i) (fun _ => post) post w.
Proof.
  intros Hw Hi post. unfold remove_index_drop. apply wp_bind.
  eapply wp_mono; [apply remove_index_read_acct; assumption | |]; cbn beta; [|tauto].
  intros p w1 (H1 & H2 & H3 & H4 & H5 & H6).
  assert (Hpost : forall w', self w' = self w1 -> log w' = log w1 ++ ev_drops (ids_pair p) -> post w').
  { intros w' Hs Hg. unfold post. rewrite Hs. split; [exact H1|]. split; [exact H2|]. split; [exact H3|].
    split; [|exact H6]. unfold acct. rewrite Hs, Hg, H4, dropped_log_drops. perm_ids. }
  eapply wp_mono; [apply drop_pair_spec | |]; cbn beta.
  - intros _ w' [Hs Hg]. apply Hpost; assumption.
  - intros w' [Hs Hg]. apply Hpost; assumption.
Qed.

Lemma conserves_remove_index_drop i (w : world) :
  WF (self w) -> i < len (self w) ->
  wp (remove_index_drop E debug i)
     (fun _ w' => WF (self w') /\ cap (self w') = cap (self w) /\
                  exists lost, acct w w' [] [] lost /\ (Tidy (self w) -> lost = [] /\ Tidy (self w')))
     (fun w' => WF (self w') /\ cap (self w') = cap (self w) /\ exists lost, acct w w' [] [] lost)
     w.
Proof.
  intros Hw Hi. eapply wp_mono; [apply remove_index_drop_acct; assumption | |]; cbn beta.
  - intros _ w' (H1 & H2 & H3 & H4 & H5). split; [exact H1|]. split; [exact H2|]. exists []. auto.
  - intros w' (H1 & H2 & H3 & H4 & H5). split; [exact H1|]. split; [exact H2|]. exists []. auto.
Qed.

(* ================= 5. drop_range ================= *)
Lemma drop_range_acct n : forall i (w : world),
  (forall j, i <= j < i + n -> live (self w) j) ->
  let post := fun (full : bool) (w' : world) =>
    len (self w') = len (self w) /\ cap (self w') = cap (self w) /\ acct w w' [] [] [] /\
    (forall j, j < i \/ i + n <= j -> nth_error (slots (self w')) j = nth_error (slots (self w)) j) /\
    (full = true -> forall j, i <= j < i + n -> nth_error (slots (self w')) j = Some None) in
  wp (drop_range E n i) (fun _ => post true) (post false) w.
Proof.
  induction n as [|n IH]; intros i w Hl post; cbn [drop_range].
  - apply wp_ret. unfold post. split; [reflexivity|]. split; [reflexivity|]. split; [unfold acct; perm_ids|].
    split; [auto | intros _ j Hj; lia].
  - destruct (Hl i ltac:(lia)) as [p Hp].
    assert (Hic : i < length (slots (self w))) by (apply nth_error_Some; rewrite Hp; discriminate).
    unfold p_drop. apply wp_bind. apply wp_bind.
    eapply wp_p_read; [exact Hp|].
    pose proof (ids_slots_upd (slots (self w)) i (Some p) None Hp) as HP.
    eapply wp_mono; [apply drop_pair_spec | |]; cbn beta.
    + intros _ w1 [Hs Hg]. simp_w.
      eapply wp_mono; [apply IH | |]; cbn beta.
      * intros j Hj. rewrite Hs. apply live_set_slot_neq; [lia | apply Hl; lia].
      * intros _ w2 (H1 & H2 & H3 & H4 & H5). unfold post. unfold acct in H3. rewrite Hs in H1, H2, H3, H4.
        rewrite Hg in H3. rewrite dropped_log_drops in H3.
        cbn [set_slot_m len slots] in H1, H4. unfold owned in H3; cbn [set_slot_m slots] in H3.
        split; [exact H1|]. split; [rewrite H2; apply cap_set_slot|].
        split; [unfold acct, owned; perm_ids|].
        split.
        -- intros j Hj. rewrite H4 by lia. apply nth_error_upd_neq. lia.
        -- intros _ j Hj. destruct (Nat.eq_dec i j) as [<-|Hij].
           ++ rewrite H4 by lia. apply nth_error_upd_eq. exact Hic.
           ++ apply H5; [reflexivity | lia].
      * intros w2 (H1 & H2 & H3 & H4 & H5). unfold post. unfold acct in H3. rewrite Hs in H1, H2, H3, H4.
        rewrite Hg in H3. rewrite dropped_log_drops in H3.
        cbn [set_slot_m len slots] in H1, H4. unfold owned in H3; cbn [set_slot_m slots] in H3.
        split; [exact H1|]. split; [rewrite H2; apply cap_set_slot|].
        split; [unfold acct, owned; perm_ids|].
        split; [|discriminate].
        intros j Hj. rewrite H4 by lia. apply nth_error_upd_neq. lia.
    + intros w1 [Hs Hg]. simp_w. unfold post, acct, owned. rewrite Hs.
      split; [reflexivity|]. split; [apply cap_set_slot|].
      split; [rewrite Hg, dropped_log_drops; cbn [set_slot_m slots]; perm_ids|].
      split; [|discriminate].
      intros j Hj. cbn [set_slot_m slots]. apply nth_error_upd_neq. lia.
Qed.

(* ================= 6. clear / Drop for Map ================= *)
Lemma conserves_clear : conserves (clear E) [] (fun _ => []).
Proof.
  intros w [Hl Hs]. unfold clear.
  apply wp_bind. apply wp_get_len. apply wp_bind. apply wp_set_len.
  eapply wp_mono; [apply drop_range_acct | |]; cbn beta.
  - intros j Hj. simp_w. apply live_set_len. apply Hs. lia.
  - intros _ w' (H1 & H2 & H3 & H4 & H5). simp_w. cbn [set_len_m len slots] in H1, H4.
    rewrite cap_set_len in H2.
    apply cpostN_exact; [split; [lia | intros j Hj; lia] | exact H2 | |].
    + unfold acct in H3. simp_w. rewrite owned_set_len in H3. perm_ids.
    + intros Ht j Hj Hne. destruct (Nat.lt_ge_cases j (len (self w))) as [Hlt|Hge].
      * apply H5; [reflexivity | lia].
      * rewrite H4 in * by lia. apply Ht; assumption.
  - intros w' (H1 & H2 & H3 & H4 & H5). simp_w. cbn [set_len_m len slots] in H1, H4.
    rewrite cap_set_len in H2.
    apply (cpostP_exact _ _ _ []); [split; [lia | intros j Hj; lia] | exact H2 |].
    unfold acct in H3. simp_w. rewrite owned_set_len in H3. perm_ids.
Qed.

Lemma drop_map_acct (w : world) :
  WF (self w) ->
  wp (drop_map E)
     (fun _ w' => exists lost, acct w w' [] [] lost /\ (Tidy (self w) -> lost = [] /\ owned (self w') = []))
     (fun w' => exists lost, acct w w' [] [] lost) w.
Proof.
  intros [Hl Hs]. unfold drop_map. apply wp_bind. apply wp_get_len.
  eapply wp_mono; [apply drop_range_acct | |]; cbn beta.
  - intros j Hj. apply Hs. lia.
  - intros _ w' (H1 & H2 & H3 & H4 & H5). exists []. split; [exact H3|].
    intros Ht. split; [reflexivity|]. apply ids_slots_all_none.
    intros j Hne. destruct (Nat.lt_ge_cases j (len (self w))) as [Hlt|Hge].
    + apply H5; [reflexivity | lia].
    + rewrite H4 in * by lia. apply Ht; assumption.
  - intros w' (H1 & H2 & H3 & H4 & H5). exists []. exact H3.
Qed.

(* both outcomes of Drop for Map: nothing is duplicated, and nothing at all is lost *)
Lemma drop_map_acct_nolost (w : world) :
  WF (self w) ->
  wp (drop_map E) (fun _ w' => acct w w' [] [] []) (fun w' => acct w w' [] [] []) w.
Proof.
  intros [Hl Hs]. unfold drop_map. apply wp_bind. apply wp_get_len.
  eapply wp_mono; [apply drop_range_acct | |]; cbn beta.
  - intros j Hj. apply Hs. lia.
  - intros _ w' (H1 & H2 & H3 & H4 & H5). exact H3.
  - intros w' (H1 & H2 & H3 & H4 & H5). exact H3.
Qed.


(* ---------- helpers for sequencing ---------- *)
Lemma conserves_bind0 {A B} (c : M A) (f : A -> M B) ins outs1 outs2 :
  conserves c ins outs1 -> (forall a, conserves (f a) (outs1 a) outs2) -> conserves (bind c f) ins outs2.
Proof.
  intros Hc Hf. apply (conserves_perm _ (ins ++ []) ins outs2 outs2); [rewrite app_nil_r; reflexivity | reflexivity |].
  apply (conserves_bind [] c f ins outs1 outs2 Hc).
  intros a. apply (conserves_perm _ (outs1 a) (outs1 a ++ []) outs2 outs2); [rewrite app_nil_r; reflexivity | reflexivity |].
  apply Hf.
Qed.

(* continue after a step whose post-condition is known at a particular world *)
Lemma wp_conserves_step {B} extra (c : M B) (w w1 : world) ins1 mid outs2 :
  cpostN w ins1 mid w1 -> conserves c (mid ++ extra) outs2 ->
  wp c (fun b => cpostN w (ins1 ++ extra) (outs2 b)) (cpostP w (ins1 ++ extra)) w1.
Proof.
  intros H1 Hc. assert (Hw1 : WF (self w1)) by apply H1.
  eapply wp_mono; [apply Hc; exact Hw1 | |]; cbn beta.
  - intros b w2 H2. exact (cpostN_trans extra _ _ _ _ _ _ H1 H2).
  - intros w2 H2. exact (cpostNP_trans extra _ _ _ _ _ H1 H2).
Qed.

(* scan, then continue with the index found *)
Lemma conserves_scan_then {B} (test : kv -> M bool) (f : option nat -> M B) ins (outs : B -> list N) :
  (forall p, quiet (test p)) ->
  (forall r (w : world), WF (self w) -> match r with Some i => i < len (self w) | None => True end ->
     wp (f r) (fun b => cpostN w ins (outs b)) (cpostP w ins) w) ->
  conserves (bind (scan test) f) ins outs.
Proof.
  intros Ht Hf w Hw. apply wp_bind.
  eapply wp_mono; [apply scan_quiet; [exact Ht | exact Hw] | |]; cbn beta.
  - intros r w' (Hs & Hg & Hr).
    assert (Hd : dropped (log w') = dropped (log w)) by (rewrite Hg; reflexivity).
    eapply wp_mono; [apply (Hf r w') | |]; cbn beta.
    + rewrite Hs. exact Hw.
    + rewrite Hs. exact Hr.
    + intros b w2 H2. exact (cpostN_base _ _ _ _ _ Hs Hd H2).
    + intros w2 H2. exact (cpostP_base _ _ _ _ Hs Hd H2).
  - intros w' [Hs Hg]. apply cpostP_refl; [exact Hw | exact Hs | rewrite Hg; reflexivity].
Qed.

Lemma conserves_scan (test : kv -> M bool) :
  (forall p, quiet (test p)) -> conserves (scan test) [] (fun _ => []).
Proof.
  intros Ht w Hw. eapply wp_mono; [apply scan_quiet; [exact Ht | exact Hw] | |]; cbn beta.
  - intros r w' (Hs & Hg & _). apply cpostN_refl; [exact Hw | exact Hs | rewrite Hg; reflexivity].
  - intros w' [Hs Hg]. apply cpostP_refl; [exact Hw | exact Hs | rewrite Hg; reflexivity].
Qed.

(* ================= 7. insertion ================= *)
(* replacing the content of a live slot *)
Lemma cpostN_replace (w : world) i p x ins outs :
  WF (self w) -> nth_error (slots (self w)) i = Some (Some p) ->
  Permutation (ids_pair x ++ outs) (ids_pair p ++ ins) ->
  cpostN w ins outs (with_self w (set_slot_m (self w) i (Some x))).
Proof.
  intros Hw Hp HP.
  assert (Hic : i < cap (self w)) by (apply live_lt_cap; exists p; exact Hp).
  assert (Hi : i < len (self w) \/ len (self w) <= i) by lia.
  pose proof (owned_set_slot (self w) i (Some p) (Some x) Hp) as HO.
  split; [simp_w; apply WF_set_slot_some; auto|]. split; [simp_w; apply cap_set_slot|].
  destruct Hi as [Hi|Hi].
  - exists []. split; [unfold acct; simp_w; perm_ids|]. intros Ht. split; [reflexivity|]. simp_w.
    apply Tidy_set_slot_lt; auto.
  - (* a live slot beyond len contradicts tidiness: no obligation there *)
    exists []. split; [unfold acct; simp_w; perm_ids|]. intros Ht.
    assert (Some p = None) by (eapply Tidy_slot_none; eauto). discriminate.
Qed.

(* appending at slot len (whatever sat there is leaked) *)
Lemma cpostN_append (w : world) x :
  WF (self w) -> len (self w) < cap (self w) ->
  cpostN w (ids_pair x) []
    (with_self (with_self w (set_slot_m (self w) (len (self w)) (Some x)))
       (set_len_m (set_slot_m (self w) (len (self w)) (Some x)) (S (len (self w))))).
Proof.
  intros Hw Hc.
  destruct (nth_error (slots (self w)) (len (self w))) as [o|] eqn:Ho;
    [| apply nth_error_None in Ho; unfold cap in Hc; lia].
  pose proof (owned_set_slot (self w) _ o (Some x) Ho) as HO.
  split; [simp_w; apply WF_append; auto|]. split; [simp_w; rewrite cap_set_len, cap_set_slot; reflexivity|].
  exists (ids_opt o). split.
  - unfold acct. simp_w. rewrite owned_set_len. perm_ids.
  - intros Ht. assert (o = None) by (eapply Tidy_slot_none; eauto). subst o.
    split; [reflexivity | simp_w; apply Tidy_append; auto].
Qed.

(* unwinding cleanups: the locals are destroyed, the container is not touched, they never panic *)
Definition cleans (c : M unit) (held : list N) : Prop :=
  forall w, wp c (fun _ w' => self w' = self w /\ log w' = log w ++ ev_drops held) (fun _ => False) w.

Lemma unwind_key_spec k : cleans (unwind_key E k) (idK E k).
Proof.
  intros w. unfold unwind_key. apply wp_bind. apply wp_emit. apply wp_bind. apply wp_cbd.
  intros b s. apply wp_ret. simp_w. auto.
Qed.

Lemma unwind_pair_spec p : cleans (unwind_pair E p) (ids_pair p).
Proof.
  intros w. unfold unwind_pair. apply wp_bind. apply wp_emit. apply wp_bind. apply wp_cbd.
  intros bk s. apply wp_bind. apply wp_cbd. intros bv s'. apply wp_ret. simp_w. auto.
Qed.

Lemma unwind_val_spec v : cleans (unwind_val E v) (idV E v).
Proof.
  intros w. unfold unwind_val. apply wp_bind. apply wp_emit. apply wp_bind. apply wp_cbd.
  intros b s. apply wp_ret. simp_w. auto.
Qed.

(* the two ARGUMENTS k, v of an insert: the value is destroyed first *)
Lemma unwind_args_spec k v : cleans (unwind_args E k v) (idV E v ++ idK E k).
Proof.
  intros w. unfold unwind_args. apply wp_bind. apply wp_emit. apply wp_bind. apply wp_cbd.
  intros bv s. apply wp_bind. apply wp_cbd. intros bk s'. apply wp_ret. simp_w. auto.
Qed.

Lemma drop_args_spec k v w :
  let post := fun w' : world => self w' = self w /\ log w' = log w ++ ev_drops (idV E v ++ idK E k) in
  wp (drop_args E k v) (fun _ => post) post w.
Proof.
  intros post. unfold drop_args. apply wp_bind. apply wp_emit. apply wp_bind. apply wp_cbd.
  intros bv s. apply wp_bind. apply wp_cbd. intros bk s'.
  destruct (bv || bk); [apply wp_panic | apply wp_ret]; unfold post; simp_w; auto.
Qed.

Lemma conserves_drop_args k v : conserves (drop_args E k v) (ids_pair (k, v)) (fun _ => []).
Proof.
  intros w Hw. eapply wp_mono; [apply drop_args_spec | |]; cbn beta.
  - intros _ w' [Hs Hg]. apply cpostN_exact; rewrite ?Hs, ?Hg, ?dropped_log_drops; auto.
    unfold ids_pair; cbn [fst snd]. perm_ids.
  - intros w' [Hs Hg]. apply (cpostP_exact _ _ _ []); rewrite ?Hs, ?Hg, ?dropped_log_drops; auto.
    unfold ids_pair; cbn [fst snd]. perm_ids.
Qed.

Lemma unwind_pairs_spec l : cleans (unwind_pairs E l) (flat_map ids_pair l).
Proof.
  induction l as [|p t IH]; intros w; cbn [unwind_pairs flat_map].
  - apply wp_ret. split; [reflexivity|]. cbn. symmetry. apply app_nil_r.
  - apply wp_bind. eapply wp_mono; [apply unwind_pair_spec | |]; cbn beta; [|auto].
    intros _ w1 [Hs1 Hg1]. eapply wp_mono; [apply IH | |]; cbn beta; [|auto].
    intros _ w2 [Hs2 Hg2]. split; [congruence|]. rewrite Hg2, Hg1. unfold ev_drops.
    rewrite map_app, app_assoc. reflexivity.
Qed.

Lemma wp_cleans cleanup held (w : world) (Qp : world -> Prop) :
  cleans cleanup held ->
  (forall w', self w' = self w -> log w' = log w ++ ev_drops held -> Qp w') ->
  wp cleanup (fun _ => Qp) Qp w.
Proof.
  intros Hc H. eapply wp_mono; [apply Hc | |]; cbn beta.
  - intros _ w' [Hs Hg]. auto.
  - intros w' [].
Qed.

(* the panic outcome "rejected": container untouched, exactly the held locals destroyed *)
Definition rejected (w : world) (held : list N) (w' : world) : Prop :=
  self w' = self w /\ log w' = log w ++ ev_drops held.

Lemma rejected_cpostP (w w' : world) held rest ins :
  WF (self w) -> Permutation ins (held ++ rest) -> rejected w held w' -> cpostP w ins w'.
Proof.
  intros Hw HP [Hs Hg]. apply (cpostP_exact _ _ _ rest); rewrite ?Hs, ?Hg, ?dropped_log_drops; auto. perm_ids.
Qed.

Lemma rejected_base (w w1 w' : world) held :
  self w1 = self w -> log w1 = log w -> rejected w1 held w' -> rejected w held w'.
Proof. intros Hs Hg [H1 H2]. split; congruence. Qed.

(* the rule for on_unwind: the frame holds [held]; they pass through on normal
   return and are destroyed (moved to [dropped]) on the panic path *)
Lemma cpostN_extra (w w' : world) ins outs extra : cpostN w ins outs w' -> cpostN w (ins ++ extra) (outs ++ extra) w'.
Proof.
  intros (Hw & Hc & lost & HP & Ht). split; [exact Hw|]. split; [exact Hc|]. exists lost.
  split; [|exact Ht]. unfold acct in *. perm_ids.
Qed.

Lemma conserves_on_unwind {A} held cleanup (c : M A) ins (outs : A -> list N) :
  conserves c ins outs -> cleans cleanup held ->
  conserves (on_unwind cleanup c) (ins ++ held) (fun a => outs a ++ held).
Proof.
  intros Hc Hcl w Hw. apply wp_on_unwind. eapply wp_mono; [apply Hc; exact Hw | |]; cbn beta.
  - intros a w' H. apply cpostN_extra. exact H.
  - intros w' (Hw' & Hc' & lost & HP). apply (wp_cleans _ held); [exact Hcl|].
    intros w'' Hs Hg. apply (cpostP_exact _ _ _ lost); rewrite ?Hs, ?Hg, ?dropped_log_drops; auto.
    unfold acct in HP. perm_ids.
Qed.

(* guarded scan, then continue with the index found; a panicking comparison rejects *)
Lemma wp_uscan_then {B} cleanup held (test : kv -> M bool) (f : option nat -> M B)
      (Qn : B -> world -> Prop) (Qp : world -> Prop) (w : world) :
  (forall p, quiet (test p)) -> cleans cleanup held -> WF (self w) ->
  (forall r (w1 : world), self w1 = self w -> log w1 = log w ->
     match r with Some i => i < len (self w) | None => True end -> wp (f r) Qn Qp w1) ->
  (forall w1, rejected w held w1 -> Qp w1) ->
  wp (bind (on_unwind cleanup (scan test)) f) Qn Qp w.
Proof.
  intros Ht Hcl Hw Hf Hp. apply wp_bind. apply wp_on_unwind.
  eapply wp_mono; [apply scan_quiet; [exact Ht | exact Hw] | |]; cbn beta.
  - intros r w' (Hs & Hg & Hr). apply Hf; assumption.
  - intros w' [Hs Hg]. apply (wp_cleans _ held); [exact Hcl|].
    intros w'' Hs' Hg'. apply Hp. split; congruence.
Qed.

(* insert_ii: every panic is a rejection (a panicking comparison, the debug
   assertion, the bounds check): the container is untouched and the pair is
   destroyed exactly once — nothing is lost *)
Lemma insert_ii_strong k v u (w : world) :
  WF (self w) ->
  wp (insert_ii E debug k v u)
     (fun r => cpostN w (ids_pair (k, v)) (match snd r with Some p => ids_pair p | None => [] end))
     (rejected w (idV E v ++ idK E k)) w.
Proof.
  intros Hw. unfold insert_ii.
  apply (wp_uscan_then (unwind_args E k v) (idV E v ++ idK E k));
    [intros; apply quiet_test_k | apply unwind_args_spec | exact Hw | | auto].
  intros r w1 Hs Hg Hi.
  assert (Hd : dropped (log w1) = dropped (log w)) by (rewrite Hg; reflexivity).
  assert (Hw1 : WF (self w1)) by (rewrite Hs; exact Hw).
  eapply wp_mono with (Qn := fun r => cpostN w1 (ids_pair (k, v)) (match snd r with Some p => ids_pair p | None => [] end))
                      (Qp := rejected w1 (idV E v ++ idK E k)).
  2: { intros b w2 H2. exact (cpostN_base _ _ _ _ _ Hs Hd H2). }
  2: { intros w2 H2. exact (rejected_base _ _ _ _ Hs Hg H2). }
  rewrite <- Hs in Hi. clear Hs Hg Hd Hw. destruct r as [i|].
  - destruct (WF_live _ _ Hw1 Hi) as [p Hp]. destruct u.
    + apply wp_bind. eapply wp_p_replace; [exact Hp|]. apply wp_ret. cbn [snd].
      apply (cpostN_replace w1 i p); auto. perm_ids.
    + apply wp_bind. eapply wp_p_replace; [exact Hp|]. apply wp_ret. cbn [snd].
      apply (cpostN_replace w1 i p); auto. unfold ids_pair; cbn [fst snd]. perm_ids.
  - apply wp_bind. apply wp_get_len. apply wp_bind. apply wp_get_cap.
    assert (Hrej : wp (unwind_args E k v) (fun _ => rejected w1 (idV E v ++ idK E k)) (rejected w1 (idV E v ++ idK E k)) w1).
    { apply (wp_cleans _ (idV E v ++ idK E k)); [apply unwind_args_spec|]. intros w' Hs Hg. split; assumption. }
    apply wp_bind. apply wp_on_unwind. apply wp_bind. apply wp_dbg_assert.
    + intros _. apply wp_check_index.
      * intros Hc. apply wp_bind. apply wp_p_write_checked; [intros _ | intros Hge; lia].
        apply wp_bind. apply wp_set_len. apply wp_ret. cbn [snd].
        apply cpostN_append; auto.
      * intros _. exact Hrej.
    + intros _ _. exact Hrej.
Qed.

Lemma conserves_insert_ii k v u :
  conserves (insert_ii E debug k v u) (ids_pair (k, v))
            (fun r => match snd r with Some p => ids_pair p | None => [] end).
Proof.
  intros w Hw. eapply wp_mono; [apply insert_ii_strong; exact Hw | |]; cbn beta.
  - intros r w' H. exact H.
  - intros w' H. apply (rejected_cpostP w w' (idV E v ++ idK E k) []); auto.
    unfold ids_pair; cbn [fst snd]. perm_ids.
Qed.

Lemma insert_ii_for_full_strong k v u (w : world) :
  WF (self w) ->
  wp (insert_ii_for_full E k v u)
     (fun r => cpostN w (ids_pair (k, v)) (match r with Some (_, p) => ids_pair p | None => [] end))
     (rejected w (idV E v ++ idK E k)) w.
Proof.
  intros Hw. unfold insert_ii_for_full.
  apply (wp_uscan_then (unwind_args E k v) (idV E v ++ idK E k));
    [intros; apply quiet_test_k | apply unwind_args_spec | exact Hw | | auto].
  intros r w1 Hs Hg Hi.
  assert (Hd : dropped (log w1) = dropped (log w)) by (rewrite Hg; reflexivity).
  assert (Hw1 : WF (self w1)) by (rewrite Hs; exact Hw).
  eapply wp_mono with (Qn := fun r => cpostN w1 (ids_pair (k, v)) (match r with Some (_, p) => ids_pair p | None => [] end))
                      (Qp := rejected w1 (idV E v ++ idK E k)).
  2: { intros b w2 H2. exact (cpostN_base _ _ _ _ _ Hs Hd H2). }
  2: { intros w2 H2. exact (rejected_base _ _ _ _ Hs Hg H2). }
  rewrite <- Hs in Hi. clear Hs Hg Hd Hw. destruct r as [i|].
  - destruct (WF_live _ _ Hw1 Hi) as [p Hp]. destruct u.
    + apply wp_bind. eapply wp_p_replace; [exact Hp|]. apply wp_ret.
      apply (cpostN_replace w1 i p); auto. perm_ids.
    + apply wp_bind. eapply wp_p_replace; [exact Hp|]. apply wp_ret.
      apply (cpostN_replace w1 i p); auto. unfold ids_pair; cbn [fst snd]. perm_ids.
  - apply wp_bind. eapply wp_mono; [apply drop_args_spec | |]; cbn beta.
    + intros _ w2 [Hs Hg]. apply wp_ret.
      apply cpostN_exact; rewrite ?Hs, ?Hg, ?dropped_log_drops; auto.
      unfold ids_pair; cbn [fst snd]. perm_ids.
    + intros w2 [Hs Hg]. split; assumption.
Qed.

Lemma conserves_insert_ii_for_full k v u :
  conserves (insert_ii_for_full E k v u) (ids_pair (k, v))
            (fun r => match r with Some (_, p) => ids_pair p | None => [] end).
Proof.
  intros w Hw. eapply wp_mono; [apply insert_ii_for_full_strong; exact Hw | |]; cbn beta.
  - intros r w' H. exact H.
  - intros w' H. apply (rejected_cpostP w w' (idV E v ++ idK E k) []); auto.
    unfold ids_pair; cbn [fst snd]. perm_ids.
Qed.

Lemma conserves_keep_value e :
  conserves (keep_value E e) (ids_opt e) (fun r => match r with Some v0 => idV E v0 | None => [] end).
Proof.
  destruct e as [[k' v']|]; cbn [keep_value].
  - apply (conserves_bind (idV E v') (drop_key E k') (fun _ => ret (Some v')) (idK E k') (fun _ => [])).
    + apply conserves_drop_key.
    + intros _. apply (conserves_ret (Some v') (fun r : option V => match r with Some v0 => idV E v0 | None => [] end)).
  - apply (conserves_ret None (fun r : option V => match r with Some v0 => idV E v0 | None => [] end)).
Qed.

Lemma conserves_insert k v :
  conserves (insert E debug k v) (ids_pair (k, v)) (fun r => match r with Some v0 => idV E v0 | None => [] end).
Proof.
  unfold insert. eapply conserves_bind0; [apply conserves_insert_ii|].
  intros [t e]. cbn [snd]. apply conserves_keep_value.
Qed.

(* how insert can panic: either the pair was rejected (container untouched, pair
   destroyed exactly once, nothing lost), or the key was present, the value was
   replaced (state w1) and the Drop of the displaced key half panicked: then only
   the displaced value is lost to the unwinding *)
Lemma insert_panic_cases k v (w : world) :
  WF (self w) ->
  wp (insert E debug k v) (fun _ _ => True)
     (fun w' => rejected w (idV E v ++ idK E k) w' \/
                exists (w1 : world) k' v', cpostN w (ids_pair (k, v)) (ids_pair (k', v')) w1 /\
                                 self w' = self w1 /\ log w' = log w1 ++ ev_drops (idK E k')) w.
Proof.
  intros Hw. unfold insert. apply wp_bind.
  eapply wp_mono; [apply insert_ii_strong; exact Hw | |]; cbn beta.
  - intros [t [[k' v']|]] w1 H1; cbn [snd] in H1; cbn [keep_value].
    + apply wp_bind. eapply wp_mono; [apply drop_key_spec | |]; cbn beta.
      * intros _ w2 _. apply wp_ret. exact I.
      * intros w2 [Hs Hg]. right. exists w1, k', v'. auto.
    + apply wp_ret. exact I.
  - intros w' H. left. exact H.
Qed.

Lemma conserves_insert_key_value k v :
  conserves (insert_key_value E debug k v) (ids_pair (k, v)) (fun r => match r with Some p => ids_pair p | None => [] end).
Proof.
  unfold insert_key_value. eapply conserves_bind0; [apply conserves_insert_ii|].
  intros [t e]. cbn [snd].
  apply (conserves_ret e (fun r : option kv => match r with Some p => ids_pair p | None => [] end)).
Qed.

Lemma conserves_checked_insert k v :
  conserves (checked_insert E debug k v) (ids_pair (k, v))
            (fun r => match r with Some (Some v0) => idV E v0 | _ => [] end).
Proof.
  intros w Hw. unfold checked_insert.
  apply wp_bind. apply wp_get_len. apply wp_bind. apply wp_get_cap.
  set (outs := fun r : option (option V) => match r with Some (Some v0) => idV E v0 | _ => [] end).
  destruct (len (self w) <? cap (self w)).
  - revert w Hw. change (conserves (bind (insert_ii E debug k v false)
        (fun x => match x with (_, e) => r <- keep_value E e ;; ret (Some r) end)) (ids_pair (k, v)) outs).
    eapply conserves_bind0; [apply conserves_insert_ii|].
    intros [t e]. cbn [snd]. eapply conserves_bind0; [apply conserves_keep_value|].
    intros r. apply (conserves_ret (Some r) outs).
  - revert w Hw. change (conserves (bind (insert_ii_for_full E k v false)
        (fun r => match r with
                  | None => ret None
                  | Some (_, (k', v')) => drop_key E k' ;; ret (Some (Some v'))
                  end)) (ids_pair (k, v)) outs).
    eapply conserves_bind0; [apply conserves_insert_ii_for_full|].
    intros [[t [k' v']]|].
    + apply (conserves_bind (idV E v') (drop_key E k') (fun _ => ret (Some (Some v'))) (idK E k') (fun _ => [])).
      * apply conserves_drop_key.
      * intros _. apply (conserves_ret (Some (Some v')) outs).
    + apply (conserves_ret None outs).
Qed.

(* ================= 8. removal ================= *)
Lemma conserves_remove q :
  conserves (remove E debug q) [] (fun r => match r with Some v => idV E v | None => [] end).
Proof.
  unfold remove. apply conserves_scan_then; [intros; apply quiet_test_q|].
  intros [i|] w Hw Hi.
  - apply wp_bind. eapply wp_mono; [apply conserves_remove_index_read; assumption | |]; cbn beta.
    + intros [k' v'] w1 H1. cbn [fst snd].
      apply (wp_conserves_step [] (keep_value E (Some (k', v'))) w w1 [] (ids_pair (k', v'))
               (fun r : option V => match r with Some v0 => idV E v0 | None => [] end) H1).
      eapply conserves_perm; [| | apply (conserves_keep_value (Some (k', v')))]; [perm_ids | intros; reflexivity].
    + intros w1 H1. exact H1.
  - apply wp_ret. apply cpostN_refl; auto.
Qed.

Lemma conserves_remove_entry q :
  conserves (remove_entry E debug q) [] (fun r => match r with Some p => ids_pair p | None => [] end).
Proof.
  unfold remove_entry. apply conserves_scan_then; [intros; apply quiet_test_q|].
  intros [i|] w Hw Hi.
  - apply wp_bind. eapply wp_mono; [apply conserves_remove_index_read; assumption | |]; cbn beta.
    + intros p w1 H1. apply wp_ret. exact H1.
    + intros w1 H1. exact H1.
  - apply wp_ret. apply cpostN_refl; auto.
Qed.

(* ================= 10. lookups ================= *)
Lemma conserves_get q : conserves (get E q) [] (fun _ => []).
Proof. apply conserves_scan. intros; apply quiet_test_q. Qed.
Lemma conserves_get_mut q : conserves (get_mut E q) [] (fun _ => []).
Proof. apply conserves_scan. intros; apply quiet_test_q. Qed.
Lemma conserves_get_key_value q : conserves (get_key_value E q) [] (fun _ => []).
Proof. apply conserves_scan. intros; apply quiet_test_q. Qed.
Lemma conserves_contains_key q : conserves (contains_key E q) [] (fun _ => []).
Proof.
  unfold contains_key. eapply conserves_bind0; [apply conserves_scan; intros; apply quiet_test_q|].
  intros r. apply (conserves_ret _ (fun _ : bool => [])).
Qed.
Lemma conserves_index q : conserves (index E q) [] (fun _ => []).
Proof.
  unfold index. eapply conserves_bind0; [apply conserves_get|].
  intros [i|]; [apply (conserves_ret i (fun _ : nat => [])) | apply conserves_panic].
Qed.
Lemma conserves_index_mut q : conserves (index_mut E q) [] (fun _ => []).
Proof.
  unfold index_mut. eapply conserves_bind0; [apply conserves_get_mut|].
  intros [i|]; [apply (conserves_ret i (fun _ : nat => [])) | apply conserves_panic].
Qed.

(* ================= 11. IntoIter::next ================= *)
Lemma conserves_into_iter_next :
  conserves (@into_iter_next K V T) [] (fun r => match r with Some p => ids_pair p | None => [] end).
Proof.
  intros w Hw. unfold into_iter_next. apply wp_bind. apply wp_get_len.
  destruct (len (self w)) as [|n] eqn:Hn.
  - apply wp_ret. apply cpostN_refl; auto.
  - assert (Hi : n < len (self w)) by lia.
    destruct (WF_live _ _ Hw Hi) as [p Hp].
    apply wp_bind. apply wp_set_len. apply wp_bind.
    eapply wp_p_read; [simp_w; exact Hp|]. apply wp_ret.
    pose proof (owned_set_slot (set_len_m (self w) n) n (Some p) None Hp) as HO.
    rewrite owned_set_len in HO.
    apply cpostN_exact; simp_w.
    + apply WF_set_slot_none_ge; [|cbn [set_len_m len]; lia].
      apply WF_set_len_le; [exact Hw | lia].
    + rewrite cap_set_slot; apply cap_set_len.
    + perm_ids.
    + intros Ht. apply Tidy_pop; auto.
Qed.


(* ================= 15. headline: no identity is ever in two places ================= *)
Lemma conserves_NoDup {A} (c : M A) ins (outs : A -> list N) (w : world) :
  conserves c ins outs -> WF (self w) -> NoDup (owned (self w) ++ ins ++ dropped (log w)) ->
  wp c (fun a w' => NoDup (owned (self w') ++ outs a ++ dropped (log w')))
       (fun w' => NoDup (owned (self w') ++ dropped (log w'))) w.
Proof.
  intros Hc Hw Hn. eapply wp_mono; [apply Hc; exact Hw | |]; cbn beta.
  - intros a w' (_ & _ & lost & HP & _). unfold acct in HP. perm_ids.
  - intros w' (_ & _ & lost & HP). unfold acct in HP. perm_ids.
Qed.

(* the same for a triple known at one world only (operations with a precondition) *)
Lemma cpost_NoDup {A} (c : M A) ins (outs : A -> list N) (w : world) :
  wp c (fun a => cpostN w ins (outs a)) (cpostP w ins) w ->
  NoDup (owned (self w) ++ ins ++ dropped (log w)) ->
  wp c (fun a w' => NoDup (owned (self w') ++ outs a ++ dropped (log w')))
       (fun w' => NoDup (owned (self w') ++ dropped (log w'))) w.
Proof.
  intros Hc Hn. eapply wp_mono; [exact Hc | |]; cbn beta.
  - intros a w' (_ & _ & lost & HP & _). unfold acct in HP. perm_ids.
  - intros w' (_ & _ & lost & HP). unfold acct in HP. perm_ids.
Qed.

(* ================= 9. retain ================= *)
Lemma call_pred_acct (f : pred_t) i (w : world) :
  (forall s k v, idV E (snd (fst (f s k v))) = idV E v) ->
  WF (self w) -> i < len (self w) ->
  let post := fun w' : world => cpostN w [] [] w' /\ len (self w') = len (self w) in
  wp (call_pred f i) (fun _ => post) post w.
Proof.
  intros Hid Hw Hi post. destruct (WF_live _ _ Hw Hi) as [p Hp].
  assert (Hic : i < cap (self w)) by (apply live_lt_cap; exists p; exact Hp).
  unfold call_pred. apply wp_bind. eapply wp_p_ref; [exact Hp|].
  unfold wp. pose proof (Hid (cb w) (fst p) (snd p)) as Hv.
  destruct (f (cb w) (fst p) (snd p)) as [[r v'] s]. cbn [fst snd] in Hv.
  assert (Hpost : post {| cb := s; log := log w ++ [EvCall 0];
            self := {| len := len (self w); slots := upd (slots (self w)) i (Some (fst p, v')) |} |}).
  { unfold post. simp_w. split; [|reflexivity].
    change {| len := len (self w); slots := upd (slots (self w)) i (Some (fst p, v')) |}
      with (set_slot_m (self w) i (Some (fst p, v'))).
    apply cpostN_exact; simp_w.
    - apply WF_set_slot_some; auto.
    - apply cap_set_slot.
    - pose proof (owned_set_slot (self w) i (Some p) (Some (fst p, v')) Hp) as HO.
      rewrite dropped_app. change (dropped [EvCall 0]) with (@nil N).
      unfold ids_pair in HO; cbn [fst snd] in HO. rewrite Hv in HO. perm_ids.
    - intros Ht. apply Tidy_set_slot_lt; auto. }
  destruct r; exact Hpost.
Qed.

Lemma retain_loop_conserves (f : pred_t) :
  (forall s k v, idV E (snd (fst (f s k v))) = idV E v) ->
  forall fuel i (w : world), WF (self w) -> len (self w) - i <= fuel ->
  wp (retain_loop E debug f fuel i) (fun _ => cpostN w [] []) (cpostP w []) w.
Proof.
  intros Hid. induction fuel as [|fuel IH]; intros i w Hw Hf; cbn [retain_loop].
  - apply wp_bind. apply wp_get_len.
    destruct (Nat.ltb_spec i (len (self w))) as [Hi|Hi]; [lia|].
    apply wp_ret. apply cpostN_refl; auto.
  - apply wp_bind. apply wp_get_len.
    destruct (Nat.ltb_spec i (len (self w))) as [Hi|Hi].
    + apply wp_bind. eapply wp_mono; [apply call_pred_acct; assumption | |]; cbn beta.
      * intros keep w1 [H1 Hl1]. assert (Hw1 : WF (self w1)) by apply H1. destruct keep.
        -- eapply wp_mono; [apply (IH (S i) w1 Hw1); lia | |]; cbn beta.
           ++ intros _ w2 H2. exact (cpostN_trans [] _ _ _ _ _ _ H1 H2).
           ++ intros w2 H2. exact (cpostNP_trans [] _ _ _ _ _ H1 H2).
        -- apply wp_bind.
           eapply wp_mono; [apply (remove_index_drop_acct i w1 Hw1); lia | |]; cbn beta.
           ++ intros _ w2 (Ha & Hb & Hc & Hd & He).
              assert (H2 : cpostN w1 [] [] w2)
                by (split; [exact Ha|]; split; [exact Hb|]; exists []; auto).
              pose proof (cpostN_trans [] _ _ _ _ _ _ H1 H2) as H12.
              eapply wp_mono; [apply (IH i w2 Ha); lia | |]; cbn beta.
              ** intros _ w3 H3. exact (cpostN_trans [] _ _ _ _ _ _ H12 H3).
              ** intros w3 H3. exact (cpostNP_trans [] _ _ _ _ _ H12 H3).
           ++ intros w2 (Ha & Hb & Hc & Hd & He).
              assert (H2 : cpostP w1 [] w2)
                by (split; [exact Ha|]; split; [exact Hb|]; exists []; auto).
              exact (cpostNP_trans [] _ _ _ _ _ H1 H2).
      * intros w1 [H1 _]. eapply cpostP_of_N; exact H1.
    + apply wp_ret. apply cpostN_refl; auto.
Qed.

Lemma conserves_retain (f : pred_t) :
  (forall s k v, idV E (snd (fst (f s k v))) = idV E v) -> conserves (retain E debug f) [] (fun _ => []).
Proof.
  intros Hid w Hw. unfold retain. apply wp_bind. apply wp_get_len.
  apply retain_loop_conserves; [exact Hid | exact Hw | lia].
Qed.


(* ================= 12. drain sessions ================= *)
Lemma drain_owned (w : world) :
  WF (self w) ->
  wp (drain)
     (fun c w' => DrainInv c (self w') /\ cap (self w') = cap (self w) /\ cursor_len c = len (self w) /\
                  c = (0, len (self w)) /\
                  slots (self w') = slots (self w) /\ owned (self w') = owned (self w) /\ log w' = log w)
     (fun w' => self w' = self w /\ log w' = log w) w.
Proof.
  intros [Hl Hs]. unfold drain.
  apply wp_bind. apply wp_p_prefix; [intros _ | lia].
  apply wp_bind. apply wp_get_len. apply wp_bind. apply wp_set_len. apply wp_ret. simp_w.
  split; [|split; [|split; [|split; [|split; [|split]]]]]; try reflexivity.
  - unfold DrainInv. cbn [fst snd set_len_m len]. split; [reflexivity|]. split.
    + rewrite cap_set_len. exact Hl.
    + intros j Hj. apply live_set_len. apply Hs. lia.
  - unfold cursor_len. cbn [fst snd]. lia.
Qed.

Lemma drain_next_acct c (w : world) :
  DrainInv c (self w) ->
  wp (drain_next c)
     (fun r w' => DrainInv (snd r) (self w') /\ cap (self w') = cap (self w) /\
                  acct w w' [] (match fst r with Some p => ids_pair p | None => [] end) [] /\
                  (forall j, j < fst c \/ snd c <= j -> nth_error (slots (self w')) j = nth_error (slots (self w)) j) /\
                  match fst r with
                  | Some _ => snd r = (S (fst c), snd c) /\ nth_error (slots (self w')) (fst c) = Some None
                  | None => snd r = c /\ self w' = self w
                  end)
     (fun _ => False) w.
Proof.
  destruct c as [lo hi]. intros (Hl & Hc & Hs). cbn [fst snd] in Hc, Hs.
  unfold drain_next. destruct (Nat.ltb_spec lo hi) as [Hlt|Hge].
  - destruct (Hs lo ltac:(lia)) as [p Hp].
    apply wp_bind. eapply wp_p_read; [exact Hp|]. apply wp_ret. simp_w. cbn [fst snd].
    split; [|split; [|split; [|split]]].
    + unfold DrainInv. cbn [fst snd]. rewrite cap_set_slot, len_set_slot.
      split; [exact Hl|]. split; [exact Hc|].
      intros j Hj. apply live_set_slot_neq; [lia | apply Hs; lia].
    + apply cap_set_slot.
    + unfold acct. simp_w. pose proof (owned_set_slot (self w) lo (Some p) None Hp) as HO. perm_ids.
    + intros j Hj. cbn [set_slot_m slots]. apply nth_error_upd_neq. lia.
    + split; [reflexivity|]. cbn [set_slot_m slots]. apply nth_error_upd_eq.
      apply nth_error_Some. rewrite Hp. discriminate.
  - apply wp_ret. cbn [fst snd]. split; [|split; [|split; [|split]]].
    + unfold DrainInv. cbn [fst snd]. auto.
    + reflexivity.
    + unfold acct. perm_ids.
    + auto.
    + auto.
Qed.

Lemma drain_drop_acct c (w : world) :
  DrainInv c (self w) ->
  let post := fun (full : bool) (w' : world) =>
    WF (self w') /\ len (self w') = 0 /\ cap (self w') = cap (self w) /\ acct w w' [] [] [] /\
    (full = true ->
     (forall j, j < fst c \/ snd c <= j -> nth_error (slots (self w)) j <> None -> nth_error (slots (self w)) j = Some None) ->
     Tidy (self w')) in
  wp (drain_drop E c) (fun _ => post true) (post false) w.
Proof.
  intros (Hl & Hc & Hs) post.
  unfold drain_drop, cursor_len.
  assert (Hpost : forall (w' : world) full, len (self w') = len (self w) -> cap (self w') = cap (self w) ->
             acct w w' [] [] [] ->
             (full = true ->
              (forall j, j < fst c \/ snd c <= j -> nth_error (slots (self w)) j <> None -> nth_error (slots (self w)) j = Some None) ->
              Tidy (self w')) -> post full w').
  { intros w' full H1 H2 H3 H4. unfold post. split; [|split; [|split; [|split]]]; auto.
    - split; [lia | intros i Hi; lia].
    - lia. }
  eapply wp_mono; [apply drop_range_acct | |]; cbn beta.
  - intros j Hj. apply Hs. lia.
  - intros _ w' (H1 & H2 & H3 & H4 & H5). apply Hpost; auto.
    intros _ Hout j _ Hne.
    assert (Hj : (fst c <= j < fst c + (snd c - fst c)) \/ (j < fst c \/ fst c + (snd c - fst c) <= j)) by lia.
    destruct Hj as [Hj|Hj].
    + apply H5; [reflexivity | exact Hj].
    + rewrite H4 in * by exact Hj. apply Hout; [lia | exact Hne].
  - intros w' (H1 & H2 & H3 & H4 & H5). apply Hpost; auto. discriminate.
Qed.

(* ================= 13. insert_i / insert_unchecked under their contract ================= *)
Lemma upd_upd_same {A} (l : list A) : forall i a b, upd (upd l i a) i b = upd l i b.
Proof.
  induction l as [|h t IH]; intros [|i] a b; cbn [upd]; auto. f_equal. apply IH.
Qed.

Lemma insert_i_loop_acct k : forall fuel i (w : world),
  WF (self w) -> fuel + i = len (self w) ->
  (debug = true \/ len (self w) < cap (self w)) ->
  wp (insert_i_loop E debug k fuel i)
     (fun r w' =>
        log w' = log w /\
        match snd r with
        | None => self w' = self w /\ fst r = len (self w) /\ len (self w) < cap (self w)
        | Some old => fst r < len (self w) /\ nth_error (slots (self w)) (fst r) = Some (Some old) /\
                      self w' = set_slot_m (self w) (fst r) None
        end)
     (fun w' => self w' = self w /\ log w' = log w) w.
Proof.
  induction fuel as [|fuel IH]; intros i w Hw Hf Hd.
  - cbn [insert_i_loop]. apply wp_bind. apply wp_get_len.
    destruct (Nat.eqb_spec i (len (self w))) as [_|Hne]; [|lia].
    apply wp_bind. apply wp_get_cap. apply wp_bind. apply wp_dbg_assert.
    + intros Hc. apply wp_ret. cbn [fst snd]. split; [reflexivity|]. split; [reflexivity|]. split; [reflexivity|].
      destruct Hc as [Hc|Hc].
      * apply Nat.ltb_lt. exact Hc.
      * destruct Hd as [Hd|Hd]; [congruence | exact Hd].
    + intros _ _. split; reflexivity.
  - cbn [insert_i_loop]. apply wp_bind. apply wp_get_len.
    destruct (Nat.eqb_spec i (len (self w))) as [Heq|Hne]; [lia|].
    assert (Hi : i < len (self w)) by lia.
    destruct (WF_live _ _ Hw Hi) as [p Hp].
    apply wp_bind. eapply wp_p_ref; [exact Hp|].
    apply wp_bind. apply wp_quiet; [apply quiet_test_k | |].
    + intros b w' Hs Hg. destruct b.
      * apply wp_bind. eapply wp_p_read; [rewrite Hs; exact Hp|].
        apply wp_ret. cbn [fst snd]. simp_w. rewrite Hs. auto.
      * eapply wp_mono; [apply (IH (S i) w') | |]; cbn beta.
        -- rewrite Hs. exact Hw.
        -- rewrite Hs. lia.
        -- rewrite Hs. exact Hd.
        -- intros r w''. rewrite Hs, Hg. auto.
        -- intros w'' [Hs' Hg']. split; congruence.
    + intros w' Hs Hg. auto.
Qed.

Lemma conserves_insert_i k v u (w : world) :
  WF (self w) -> (debug = true \/ len (self w) < cap (self w)) ->
  wp (insert_i E debug k v u)
     (fun r w' => WF (self w') /\ cap (self w') = cap (self w) /\
                  exists lost, acct w w' (ids_pair (k, v)) (match snd r with Some p => ids_pair p | None => [] end) lost /\
                               (Tidy (self w) -> lost = [] /\ Tidy (self w')))
     (fun w' => WF (self w') /\ cap (self w') = cap (self w) /\ exists lost, acct w w' (ids_pair (k, v)) [] lost)
     w.
Proof.
  intros Hw Hd. unfold insert_i. apply wp_bind. apply wp_get_len. apply wp_bind. apply wp_on_unwind.
  eapply wp_mono; [apply (insert_i_loop_acct k (len (self w)) 0 w Hw); [lia | exact Hd] | |]; cbn beta.
  - intros [target existing] w'. cbn [fst snd]. destruct existing as [[old_k old_v]|].
    + intros (Hg & Ht & Hold & Hs).
      destruct (Nat.eqb_spec target (len (self w))) as [Heq|Hne]; [lia|].
      apply wp_bind. apply wp_ret.
      assert (Hic : target < cap (self w')).
      { rewrite Hs, cap_set_slot. apply live_lt_cap. eexists; exact Hold. }
      assert (Hfin : forall x outs, Permutation (ids_pair x ++ outs) (ids_pair (old_k, old_v) ++ ids_pair (k, v)) ->
                cpostN w (ids_pair (k, v)) outs (with_self w' (set_slot_m (self w') target (Some x)))).
      { intros x outs HP.
        apply (cpostN_frame w (with_self w (set_slot_m (self w) target (Some x)))).
        - simp_w. rewrite Hs. unfold set_slot_m; cbn [len slots]. rewrite upd_upd_same. reflexivity.
        - simp_w. rewrite Hg. reflexivity.
        - apply (cpostN_replace w target (old_k, old_v)); auto. }
      destruct u.
      * apply wp_bind. apply wp_p_write; [exact Hic|]. apply wp_ret. cbn [snd]. apply Hfin. perm_ids.
      * apply wp_bind. apply wp_p_write; [exact Hic|]. apply wp_ret. cbn [snd]. apply Hfin.
        unfold ids_pair; cbn [fst snd]. perm_ids.
    + intros (Hg & Hs & Ht & Hc). subst target. rewrite Nat.eqb_refl.
      apply wp_bind. apply wp_set_len.
      assert (Hfin : cpostN w (ids_pair (k, v)) []
                 (with_self (with_self w' (set_len_m (self w') (S (len (self w)))))
                    (set_slot_m (self (with_self w' (set_len_m (self w') (S (len (self w))))))
                       (len (self w)) (Some (k, v))))).
      { eapply cpostN_frame; [| |apply (cpostN_append w (k, v) Hw Hc)].
        - simp_w. rewrite Hs. reflexivity.
        - simp_w. rewrite Hg. reflexivity. }
      destruct u.
      * apply wp_bind. apply wp_p_write; [simp_w; rewrite Hs; exact Hc|]. apply wp_ret. cbn [snd]. exact Hfin.
      * apply wp_bind. apply wp_p_write; [simp_w; rewrite Hs; exact Hc|]. apply wp_ret. cbn [snd]. exact Hfin.
  - intros w' [Hs Hg]. apply (wp_cleans _ (idV E v ++ idK E k)); [apply unwind_args_spec|].
    intros w'' Hs' Hg'.
    apply (rejected_cpostP w w'' (idV E v ++ idK E k) []); [exact Hw | unfold ids_pair; cbn [fst snd]; perm_ids |].
    split; congruence.
Qed.

Lemma conserves_insert_unchecked k v (w : world) :
  WF (self w) -> (debug = true \/ len (self w) < cap (self w)) ->
  wp (insert_unchecked E debug k v)
     (fun r w' => WF (self w') /\ cap (self w') = cap (self w) /\
                  exists lost, acct w w' (ids_pair (k, v)) (match r with Some v0 => idV E v0 | None => [] end) lost /\
                               (Tidy (self w) -> lost = [] /\ Tidy (self w')))
     (fun w' => WF (self w') /\ cap (self w') = cap (self w) /\ exists lost, acct w w' (ids_pair (k, v)) [] lost)
     w.
Proof.
  intros Hw Hd. unfold insert_unchecked. apply wp_bind.
  eapply wp_mono; [apply conserves_insert_i; assumption | |]; cbn beta.
  - intros [t e] w1 H1. cbn [snd] in H1.
    pose proof (wp_conserves_step [] (keep_value E e) w w1 (ids_pair (k, v)) _
                  (fun r : option V => match r with Some v0 => idV E v0 | None => [] end) H1) as Hstep.
    eapply wp_mono; [apply Hstep | |]; cbn beta.
    + eapply conserves_perm; [| | apply (conserves_keep_value e)]; [perm_ids | intros; reflexivity].
    + intros r w2 H2. eapply cpostN_perm; [| reflexivity | exact H2]. perm_ids.
    + intros w2 H2. eapply cpostP_perm; [| exact H2]. perm_ids.
  - intros w1 H1. exact H1.
Qed.

(* ================= 14. extend / from_iter ================= *)
Lemma silent_call_next (nx : T -> ans * T) : silent (@call_next K V T nx).
Proof.
  intros w. unfold call_next. apply wp_bind. apply wp_emit. apply wp_bind.
  assert (Hd : dropped (log w ++ [EvCall 1]) = dropped (log w))
    by (rewrite dropped_app; change (dropped [EvCall 1]) with (@nil N); apply app_nil_r).
  apply wp_cbk; intros s; try apply wp_ret; simp_w; auto.
Qed.

Lemma conserves_drop_opt_val o :
  conserves (drop_opt_val E o) (match o with Some v => idV E v | None => [] end) (fun _ => []).
Proof.
  destruct o as [v|]; cbn [drop_opt_val]; [apply conserves_drop_val | apply (conserves_ret tt (fun _ : unit => []))].
Qed.

Lemma conserves_extend_loop nx items :
  conserves (extend_loop E debug nx items) (flat_map ids_pair items) (fun _ => []).
Proof.
  induction items as [|[k v] rest IH]; cbn [extend_loop].
  - apply (conserves_silent _ []). apply silent_call_next.
  - set (F := flat_map ids_pair).
    apply (conserves_bind0 (on_unwind (unwind_pairs E ((k, v) :: rest)) (call_next nx)) _
             ([] ++ F ((k, v) :: rest)) (fun _ => [] ++ F ((k, v) :: rest)) (fun _ => [])).
    + apply (conserves_on_unwind (F ((k, v) :: rest)) _ (call_next nx) [] (fun _ => [])).
      * apply (conserves_silent _ []). apply silent_call_next.
      * apply unwind_pairs_spec.
    + intros _.
      apply (conserves_bind0 (on_unwind (unwind_pairs E rest) (old <- insert E debug k v ;; drop_opt_val E old)) _
               (ids_pair (k, v) ++ F rest) (fun _ => [] ++ F rest) (fun _ => [])).
      * apply (conserves_on_unwind (F rest) _ (old <- insert E debug k v ;; drop_opt_val E old)
                 (ids_pair (k, v)) (fun _ => [])).
        -- eapply conserves_bind0; [apply conserves_insert|]. intros old. apply conserves_drop_opt_val.
        -- apply unwind_pairs_spec.
      * intros _. exact IH.
Qed.

(* destructors that run WHILE UNWINDING over slots [i, i+n): never panic, every element is
   destroyed exactly once *)
Lemma unwind_range_acct n : forall i (w : world),
  (forall j, i <= j < i + n -> live (self w) j) ->
  wp (unwind_range E n i)
     (fun _ w' => len (self w') = len (self w) /\ cap (self w') = cap (self w) /\ acct w w' [] [] [] /\
                  (forall j, j < i \/ i + n <= j -> nth_error (slots (self w')) j = nth_error (slots (self w)) j) /\
                  (forall j, i <= j < i + n -> nth_error (slots (self w')) j = Some None))
     (fun _ => False) w.
Proof.
  induction n as [|n IH]; intros i w Hl; cbn [unwind_range].
  - apply wp_ret. split; [reflexivity|]. split; [reflexivity|]. split; [unfold acct; perm_ids|].
    split; [auto | intros j Hj; lia].
  - destruct (Hl i ltac:(lia)) as [p Hp].
    assert (Hic : i < length (slots (self w))) by (apply nth_error_Some; rewrite Hp; discriminate).
    apply wp_bind. eapply wp_p_read; [exact Hp|].
    pose proof (ids_slots_upd (slots (self w)) i (Some p) None Hp) as HP.
    apply wp_bind. eapply wp_mono; [apply unwind_pair_spec | |]; cbn beta; [|auto].
    intros _ w1 [Hs Hg]. simp_w.
    eapply wp_mono; [apply IH | |]; cbn beta; [| |auto].
    + intros j Hj. rewrite Hs. apply live_set_slot_neq; [lia | apply Hl; lia].
    + intros _ w2 (H1 & H2 & H3 & H4 & H5). unfold acct in H3. rewrite Hs in H1, H2, H3, H4.
      rewrite Hg in H3. rewrite dropped_log_drops in H3.
      cbn [set_slot_m len slots] in H1, H4. unfold owned in H3; cbn [set_slot_m slots] in H3.
      split; [exact H1|]. split; [rewrite H2; apply cap_set_slot|].
      split; [unfold acct, owned; perm_ids|].
      split.
      * intros j Hj. rewrite H4 by lia. apply nth_error_upd_neq. lia.
      * intros j Hj. destruct (Nat.eq_dec i j) as [<-|Hij].
        -- rewrite H4 by lia. apply nth_error_upd_eq. exact Hic.
        -- apply H5. lia.
Qed.

Lemma unwind_map_acct (w : world) :
  WF (self w) ->
  wp (unwind_map E)
     (fun _ w' => len (self w') = len (self w) /\ cap (self w') = cap (self w) /\ acct w w' [] [] [] /\
                  (forall j, len (self w) <= j -> nth_error (slots (self w')) j = nth_error (slots (self w)) j) /\
                  (forall j, j < len (self w) -> nth_error (slots (self w')) j = Some None) /\
                  (Tidy (self w) -> owned (self w') = []))
     (fun _ => False) w.
Proof.
  intros [Hl Hs]. unfold unwind_map. apply wp_bind. apply wp_get_len.
  eapply wp_mono; [apply unwind_range_acct | |]; cbn beta; [| |auto].
  - intros j Hj. apply Hs. lia.
  - intros _ w' (H1 & H2 & H3 & H4 & H5).
    split; [exact H1|]. split; [exact H2|]. split; [exact H3|].
    split; [intros j Hj; apply H4; lia|]. split; [intros j Hj; apply H5; lia|].
    intros Ht. apply ids_slots_all_none.
    intros j Hne. destruct (Nat.lt_ge_cases j (len (self w))) as [Hlt|Hge].
    + apply H5. lia.
    + rewrite H4 in * by lia. apply Ht; assumption.
Qed.

(* same shape as drop_map_acct_nolost (the panic outcome cannot occur) *)
Lemma unwind_map_acct_nolost (w : world) :
  WF (self w) ->
  wp (unwind_map E) (fun _ w' => acct w w' [] [] []) (fun w' => acct w w' [] [] []) w.
Proof.
  intros Hw. eapply wp_mono; [apply unwind_map_acct; exact Hw | |]; cbn beta.
  - intros _ w' (_ & _ & H & _). exact H.
  - intros w' [].
Qed.

(* Drop for Drain while unwinding: the not-yet-yielded rest is destroyed exactly once *)
Lemma unwind_drain_acct c (w : world) :
  DrainInv c (self w) ->
  wp (unwind_drain E c)
     (fun _ w' => WF (self w') /\ len (self w') = 0 /\ cap (self w') = cap (self w) /\ acct w w' [] [] [] /\
                  (forall j, j < fst c \/ snd c <= j -> nth_error (slots (self w')) j = nth_error (slots (self w)) j) /\
                  (forall j, fst c <= j < snd c -> nth_error (slots (self w')) j = Some None))
     (fun _ => False) w.
Proof.
  intros (Hl & Hc & Hs). unfold unwind_drain, cursor_len.
  eapply wp_mono; [apply unwind_range_acct | |]; cbn beta; [| |auto].
  - intros j Hj. apply Hs. lia.
  - intros _ w' (H1 & H2 & H3 & H4 & H5).
    split; [split; [lia | intros i Hi; lia]|]. split; [lia|]. split; [exact H2|]. split; [exact H3|].
    split; [intros j Hj; apply H4; lia | intros j Hj; apply H5; lia].
Qed.

(* finally_drop runs unwind_map on the panic exit *)
Lemma wp_finally_drop_gen {A} (c : M A) (Qn : A -> world -> Prop) (Qp' Qp : world -> Prop) w :
  wp c Qn Qp' w -> (forall w', Qp' w' -> wp (unwind_map E) (fun _ => Qp) Qp w') ->
  wp (finally_drop E c) Qn Qp w.
Proof.
  unfold wp at 1 3. unfold finally_drop. destruct (c w) as [a w'|w'|]; auto.
  intros H Hd. specialize (Hd _ H). unfold wp in Hd. destruct (unwind_map E w'); auto.
Qed.

Lemma from_iter_acct nx items (w : world) :
  WF (self w) ->
  wp (from_iter E debug nx items)
     (fun _ w' => WF (self w') /\ cap (self w') = cap (self w) /\
                  exists lost, acct w w' (flat_map ids_pair items) [] lost /\
                               (Tidy (self w) -> lost = [] /\ Tidy (self w')))
     (fun w' => exists lost, acct w w' (flat_map ids_pair items) [] lost) w.
Proof.
  intros Hw. unfold from_iter.
  apply (wp_finally_drop_gen _ _ (cpostP w (flat_map ids_pair items))).
  - apply conserves_extend_loop. exact Hw.
  - intros w' (Hw' & Hc & lost & HP).
    eapply wp_mono; [apply unwind_map_acct_nolost; exact Hw' | |]; cbn beta.
    + intros _ w'' H. exists lost. unfold acct in *. perm_ids.
    + intros w'' H. exists lost. unfold acct in *. perm_ids.
Qed.

End Owned.
