(* Dict2.v — property C01, continued: drain, whole-container iteration, the
   entry API and bulk extension INTERLEAVED with the 13 dictionary operations of
   Dict.v in the same histories.  The ideal dictionary is the association list
   of Dict.v observed up to order; because the order in which drain / iteration
   yield the associations is unspecified, the specification of one step is a
   relation.  Both build profiles ([debug] is a section variable), every
   capacity. *)
Require Import Model.Base Model.Slots Model.MapOps Model.EntryOps Proofs.Hoare Proofs.Inv Proofs.Safety Proofs.Safety2 Proofs.Spec Proofs.Lawful Proofs.Lawful2 Proofs.Lawful3 Proofs.Dict Proofs.IterSpec Proofs.EntrySpec Proofs.Bulk.
From Coq Require Import Permutation.

Section Dict2.
Context {K V Q T : Type} (E : env K V Q T) (debug : bool).
Context (ck : K -> N) (cq : Q -> N) (HL : Lawful E ck cq).
Notation M := (M K V T). Notation world := (world K V T). Notation map := (map K V). Notation kv := (K * V)%type.
Notation dict := (@Dict.dict K V). Notation dop := (@Dict.dop K V Q). Notation dres := (@Dict.dres K V).
Notation dstep := (Dict.dstep ck cq). Notation mstep := (Dict.mstep E debug).
Notation Abs := (Dict.Abs ck). Notation d_find := (Dict.d_find ck).

(* ======================================================================== *)
(* 1. Operations and results.                                                *)

Inductive dop2 :=
| DBase (o : dop)                  (* the 13 operations of Dict.v *)
| DDrain (take : nat)              (* drain(), take [take] items, drop the drain *)
| DIterAll                         (* iterate: observe every entry *)
| DOrInsert (k : K) (v : V)        (* *entry(k).or_insert(v): the value now stored under k *)
| DExtend (items : list kv).       (* Extend: the insert loop over items (source never panics) *)

Inductive dres2 := RBase (r : dres) | RItems (l : list kv) | RValOf (v : V) | RPanic2.

(* ======================================================================== *)
(* 2. The model side.                                                        *)

(* dereference the references an iterator handed out *)
Fixpoint read_slots (l : list nat) : M (list kv) :=
  match l with
  | [] => ret []
  | i :: t => p <- p_ref i ;; ps <- read_slots t ;; ret (p :: ps)
  end.

(* a source iterator that never panics *)
Definition nx0 : T -> ans * T := fun s => (No, s).

Definition mstep2 (o : dop2) : M dres2 :=
  match o with
  | DBase o => r <- mstep o ;; ret (RBase r)
  | DDrain take => c <- drain ;; x <- drain_run take c ;; drain_drop E (snd x) ;; ret (RItems (fst x))
  | DIterAll => n0 <- get_len ;; c <- iter ;; x <- iter_run n0 c ;; ps <- read_slots (fst x) ;; ret (RItems ps)
  | DOrInsert k v => e <- entry_of E k ;; i <- or_insert E debug e v ;; p <- p_ref i ;; ret (RValOf (snd p))
  | DExtend items => extend_loop E debug nx0 items ;; ret (RBase RUnit)
  end.

(* ======================================================================== *)
(* 3. The specification on the ideal dictionary; [n] is the capacity.        *)

Definition is_panic (r : dres) : bool := match r with RPanic => true | _ => false end.

(* Extend = the fold of DInsert over the items; the first overflow stops it and
   leaves the state reached so far.  (flag: true = all items went in) *)
Fixpoint d_extend (n : nat) (d : dict) (items : list kv) : bool * dict :=
  match items with
  | [] => (true, d)
  | (k, v) :: rest =>
      if is_panic (fst (dstep n (DInsert k v) d)) then (false, d)
      else d_extend n (snd (dstep n (DInsert k v) d)) rest
  end.

Definition dstep2 (n : nat) (o : dop2) (d : dict) (r : dres2) (d' : dict) : Prop :=
  match o with
  | DBase o => d' = snd (dstep n o d) /\
               r = if is_panic (fst (dstep n o d)) then RPanic2 else RBase (fst (dstep n o d))
  | DDrain take => d' = [] /\ exists p, Permutation p d /\ r = RItems (firstn take p)
  | DIterAll => d' = d /\ exists p, Permutation p d /\ r = RItems p
  | DOrInsert k v =>
      match d_find d (ck k) with
      | Some (k0, v0) => r = RValOf v0 /\ d' = d
      | None => if length d <? n then r = RValOf v /\ d' = d ++ [(k, v)] else r = RPanic2 /\ d' = d
      end
  | DExtend items => d' = snd (d_extend n d items) /\
                     r = if fst (d_extend n d items) then RBase RUnit else RPanic2
  end.

(* a panicking base operation leaves the dictionary as it was *)
Lemma dstep_panic_same n (o : dop) (d : dict) : fst (dstep n o d) = RPanic -> snd (dstep n o d) = d.
Proof.
  destruct o; cbn [Dict.dstep];
    try (destruct (Dict.d_find ck d _) as [[k0 v0]|]; [|try destruct (length d <? n)]);
    cbn [fst snd]; intros H; try discriminate H; reflexivity.
Qed.

Lemma dstep2_base_panic n (o : dop) (d d' : dict) :
  dstep2 n (DBase o) d RPanic2 d' <-> fst (dstep n o d) = RPanic /\ d' = d.
Proof.
  cbn [dstep2]. split.
  - intros [Hd Hr]. destruct (fst (dstep n o d)) eqn:Hf; cbn [is_panic] in Hr; try discriminate Hr.
    split; [reflexivity|]. rewrite Hd. apply dstep_panic_same. exact Hf.
  - intros [Hf ->]. rewrite Hf. cbn [is_panic]. split; [|reflexivity].
    symmetry. apply dstep_panic_same. exact Hf.
Qed.

(* ======================================================================== *)
(* a normal return of a base operation never carries RPanic                  *)

Definition ok_res {A} (P : A -> Prop) (x : res K V T A) : Prop :=
  match x with Ok a _ => P a | _ => True end.

Lemma ok_res_bind {A B} (c : M A) (f : A -> M B) (P : B -> Prop) w :
  (forall a w', ok_res P (f a w')) -> ok_res P (bind c f w).
Proof. intros H. unfold bind. destruct (c w) as [a w'|w'|]; [apply H | exact I | exact I]. Qed.

Lemma mstep_not_panic (o : dop) w : ok_res (fun r => is_panic r = false) (mstep o w).
Proof.
  destruct o; cbn [Dict.mstep]; apply ok_res_bind; intros a w'.
  - destruct a; exact eq_refl.
  - destruct a; exact eq_refl.
  - destruct a as [[v0|]|]; exact eq_refl.
  - destruct a; [apply ok_res_bind; intros p w''|]; exact eq_refl.
  - destruct a; [apply ok_res_bind; intros p w''|]; exact eq_refl.
  - destruct a; [apply ok_res_bind; intros p w''|]; exact eq_refl.
  - exact eq_refl.
  - apply ok_res_bind; intros p w''. exact eq_refl.
  - apply ok_res_bind; intros p w''. exact eq_refl.
  - destruct a; exact eq_refl.
  - destruct a; exact eq_refl.
  - exact eq_refl.
  - exact eq_refl.
Qed.

(* ======================================================================== *)
(* 4. One step refines the relation.                                         *)

Definition step2_post (n : nat) (o : dop2) (d : dict) (r : dres2) (w' : world) : Prop :=
  exists d', dstep2 n o d r d' /\ Abs (self w') d' /\ cap (self w') = n.

Lemma step2_base n (o : dop) w d :
  Abs (self w) d -> cap (self w) = n ->
  wp (mstep2 (DBase o)) (step2_post n (DBase o) d) (step2_post n (DBase o) d RPanic2) w.
Proof.
  intros Ha Hc. cbn [mstep2]. apply wp_bind.
  pose proof (step_refines E debug ck cq HL n o w d Ha Hc) as Hs.
  pose proof (mstep_not_panic o w) as Hnp. unfold wp.
  destruct (mstep o w) as [r w'|w'|]; [| |exact Hs].
  - destruct Hs as (Hr & Ha' & Hc'). cbn [ok_res] in Hnp. unfold ret.
    exists (snd (dstep n o d)). split; [|split; assumption].
    cbn [dstep2]. split; [reflexivity|]. rewrite Hr, Hnp. reflexivity.
  - destruct Hs as (Hr & Hd & Hs').
    exists d. split; [apply dstep2_base_panic; split; [exact Hr | reflexivity]|].
    rewrite Hs'. split; assumption.
Qed.

(* ---- drain ---- *)
Lemma step2_drain n take w d :
  Abs (self w) d -> cap (self w) = n ->
  wp (mstep2 (DDrain take)) (step2_post n (DDrain take) d) (step2_post n (DDrain take) d RPanic2) w.
Proof.
  intros Ha Hc. pose proof Ha as (Hw & Hu & Hp). cbn [mstep2].
  apply (wp_bind_assoc drain (fun c => drain_run take c)
           (fun x => drain_drop E (snd x) ;; ret (RItems (fst x)))).
  apply wp_bind.
  eapply wp_mono; [apply drain_run_strong; exact Hw | | intros ? []]; cbn beta.
  intros x w1 (Hr & Hcur & HD & _ & Hcap & _ & Hlen).
  apply wp_bind. unfold drain_drop.
  eapply wp_mono; [apply (drop_range_lawful E ck cq HL) | | intros ? []]; cbn beta.
  - intros j Hj. destruct HD as (_ & _ & Hlive). apply Hlive.
    unfold cursor_len in Hj. rewrite Hcur in *. cbn [fst snd] in *. lia.
  - intros _ w2 (Hlen2 & Hcap2 & _). apply wp_ret. exists [].
    split.
    { cbn [dstep2]. split; [reflexivity|]. exists (elems (self w)).
      split; [exact Hp | rewrite Hr; reflexivity]. }
    split; [|congruence].
    split; [split; [lia | intros i Hi; lia]|].
    unfold elems. rewrite Hlen2, Hlen. cbn [take_live].
    split; [apply NoDup_nil | apply perm_nil].
Qed.

(* ---- iteration ---- *)
Lemma read_slots_spec k : forall lo (w : world),
  WF (self w) -> lo + k <= len (self w) ->
  wp (read_slots (seq lo k))
     (fun ps w' => w' = w /\ ps = firstn k (skipn lo (elems (self w)))) (fun _ => False) w.
Proof.
  induction k as [|k IH]; intros lo w Hw Hlo; cbn [seq read_slots].
  - apply wp_ret. split; reflexivity.
  - destruct (iter_yield_is_elem lo w Hw ltac:(lia)) as [p [Hpe Hps]].
    apply wp_bind. eapply wp_p_ref; [exact Hps|]. apply wp_bind.
    eapply wp_mono; [apply (IH (S lo) w Hw); lia | | intros ? []]; cbn beta.
    intros ps w' [-> ->]. apply wp_ret. split; [reflexivity|].
    rewrite (skipn_nth _ lo p Hpe). reflexivity.
Qed.

Lemma step2_iter n w d :
  Abs (self w) d -> cap (self w) = n ->
  wp (mstep2 DIterAll) (step2_post n DIterAll d) (step2_post n DIterAll d RPanic2) w.
Proof.
  intros Ha Hc. pose proof Ha as (Hw & Hu & Hp). cbn [mstep2].
  apply wp_bind. apply wp_get_len.
  apply (wp_bind_assoc iter (fun c => iter_run (len (self w)) c)
           (fun x => ps <- read_slots (fst x) ;; ret (RItems ps))).
  apply wp_bind.
  eapply wp_mono; [apply iter_run_exact; exact Hw | | intros ? []]; cbn beta.
  intros x w1 (-> & Hfst & _). rewrite Hfst, Nat.min_id. apply wp_bind.
  eapply wp_mono; [apply (read_slots_spec (len (self w)) 0 w Hw); lia | | intros ? []]; cbn beta.
  intros ps w2 [-> ->]. apply wp_ret. exists d. split; [|split; assumption].
  cbn [dstep2]. split; [reflexivity|]. exists (elems (self w)). split; [exact Hp|].
  cbn [skipn]. rewrite <- (elems_length _ Hw), firstn_all. reflexivity.
Qed.

(* ---- entry(k).or_insert(v) ---- *)
Lemma step2_or_insert n k v w d :
  Abs (self w) d -> cap (self w) = n ->
  wp (mstep2 (DOrInsert k v)) (step2_post n (DOrInsert k v) d) (step2_post n (DOrInsert k v) d RPanic2) w.
Proof.
  intros Ha Hc. pose proof Ha as (Hw & Hu & Hp). cbn [mstep2].
  apply (wp_bind_assoc (entry_of E k) (fun e => or_insert E debug e v)
           (fun i => p <- p_ref i ;; ret (RValOf (snd p)))).
  apply wp_bind.
  eapply wp_mono; [apply (or_insert_lawful E debug ck cq HL k v w Hw) | |]; cbn beta.
  - intros i w1 (Hw1 & Hc1 & Hm). unfold step2_post. cbn [dstep2].
    destruct (find_idx ck (ck k) (elems (self w))) as [j|] eqn:Hf.
    + destruct Hm as (-> & Hs1 & _).
      destruct (d_abs_some ck _ _ _ _ Hu Hp Hf) as ([k0 v0] & Hpi & Hpc & Hd).
      apply wp_bind. eapply (d_wp_ref_at w w1); [exact Hw | exact Hs1 | exact Hpi|].
      apply wp_ret. exists d. rewrite Hd. cbn [snd].
      split; [split; reflexivity|]. rewrite Hs1. split; assumption.
    + destruct Hm as (-> & He & _).
      destruct (d_abs_none ck _ _ _ Hu Hp Hf) as [Hd Hn].
      assert (Hnth : nth_error (elems (self w1)) (length (elems (self w))) = Some (k, v))
        by (rewrite He; apply d_nth_app).
      destruct (elems_nth_slot _ _ _ Hw1 Hnth) as [_ Hsl].
      apply wp_bind. eapply wp_p_ref; [exact Hsl|]. apply wp_ret.
      exists (d ++ [(k, v)]). rewrite Hd.
      assert (Hlt : length d < n).
      { pose proof (elems_length _ Hw1) as Hl. rewrite He, app_length in Hl. cbn [length] in Hl.
        pose proof (WF_len_le_cap _ Hw1). rewrite <- (Permutation_length Hp). lia. }
      destruct (Nat.ltb_spec (length d) n) as [_|Hge]; [|lia]. cbn [snd].
      split; [split; reflexivity|]. split; [|congruence]. split; [exact Hw1|]. rewrite He.
      apply d_abs_app; assumption.
  - intros w1 (Hs1 & _ & Hf & Hfull). exists d. cbn [dstep2].
    destruct (d_abs_none ck _ _ _ Hu Hp Hf) as [Hd _]. rewrite Hd.
    assert (Hge : n <= length d).
    { rewrite <- (Permutation_length Hp), (elems_length _ Hw). lia. }
    destruct (Nat.ltb_spec (length d) n) as [Hlt|_]; [lia|].
    split; [split; reflexivity|]. rewrite Hs1. split; assumption.
Qed.

(* ---- Extend: the loop follows d_extend insertion by insertion; when an
   insertion overflows, the container holds the items inserted so far ---- *)
Lemma d_extend_abs n items : forall w d,
  Abs (self w) d -> cap (self w) = n ->
  wp (extend_loop E debug nx0 items)
     (fun _ w' => fst (d_extend n d items) = true /\ Abs (self w') (snd (d_extend n d items)) /\ cap (self w') = n)
     (fun w' => fst (d_extend n d items) = false /\ Abs (self w') (snd (d_extend n d items)) /\ cap (self w') = n) w.
Proof.
  assert (Hnx : forall t : T, fst (nx0 t) <> Boom) by (intros t; cbn [nx0 fst]; discriminate).
  induction items as [|[k v] rest IH]; intros w d Ha Hc; cbn [extend_loop d_extend].
  - eapply wp_mono; [apply call_next_lawful; exact Hnx | | intros ? []]; cbn beta.
    intros _ w1 [Hs1 _]. cbn [fst snd]. rewrite Hs1. auto.
  - apply wp_bind. apply wp_on_unwind_nopanic.
    eapply wp_mono; [apply call_next_lawful; exact Hnx | | intros ? []]; cbn beta.
    intros _ w1 [Hs1 _].
    assert (Ha1 : Abs (self w1) d) by (rewrite Hs1; exact Ha).
    assert (Hc1 : cap (self w1) = n) by (rewrite Hs1; exact Hc).
    apply wp_bind. apply wp_on_unwind_frame; [apply frame_unwind_pairs|]. apply wp_bind.
    pose proof (step_refines_wp E debug ck cq HL n (DInsert k v) w1 d Ha1 Hc1) as Hst.
    cbn [Dict.mstep] in Hst. apply wp_bind_inv in Hst.
    eapply wp_mono; [exact Hst | |]; cbn beta.
    + intros old w2 (Hr & Ha2 & Hc2).
      eapply wp_mono; [apply (drop_opt_val_lawful E ck cq HL) | | intros ? []]; cbn beta.
      intros _ w3 [Hs3 _].
      assert (Hnp : is_panic (fst (dstep n (DInsert k v) d)) = false)
        by (rewrite Hr; destruct old; reflexivity).
      rewrite Hnp. apply IH; rewrite Hs3; assumption.
    + intros w2 (Hr & Hd & Hs2) w3 Hs3. rewrite Hr. cbn [is_panic fst snd].
      rewrite Hs3, Hs2. auto.
Qed.

Lemma step2_extend n items w d :
  Abs (self w) d -> cap (self w) = n ->
  wp (mstep2 (DExtend items)) (step2_post n (DExtend items) d) (step2_post n (DExtend items) d RPanic2) w.
Proof.
  intros Ha Hc. cbn [mstep2]. apply wp_bind.
  eapply wp_mono; [apply (d_extend_abs n items w d Ha Hc) | |]; cbn beta.
  - intros _ w' (Hr & Ha' & Hc'). apply wp_ret. exists (snd (d_extend n d items)).
    cbn [dstep2]. rewrite Hr. auto.
  - intros w' (Hr & Ha' & Hc'). exists (snd (d_extend n d items)).
    cbn [dstep2]. rewrite Hr. auto.
Qed.

Lemma step2_refines_wp n o w d :
  Abs (self w) d -> cap (self w) = n ->
  wp (mstep2 o) (step2_post n o d) (step2_post n o d RPanic2) w.
Proof.
  intros Ha Hc. destruct o.
  - apply step2_base; assumption.
  - apply step2_drain; assumption.
  - apply step2_iter; assumption.
  - apply step2_or_insert; assumption.
  - apply step2_extend; assumption.
Qed.

(* Every operation: never UB; a normal return is one of the results the ideal
   dictionary allows and leaves a container that abstracts to the matching new
   state; a panic happens exactly where the ideal dictionary says so, and the
   container then abstracts to the ideal dictionary's state at that point. *)
Theorem step2_refines n o w d :
  Abs (self w) d -> cap (self w) = n ->
  match mstep2 o w with
  | Ok r w' => exists d', dstep2 n o d r d' /\ Abs (self w') d' /\ cap (self w') = n
  | Panic w' => exists d', dstep2 n o d RPanic2 d' /\ Abs (self w') d' /\ cap (self w') = n
  | UB => False
  end.
Proof. intros Ha Hc. exact (step2_refines_wp n o w d Ha Hc). Qed.

(* ======================================================================== *)
(* 5. Histories.                                                             *)

(* results of running ops in sequence; a panic is recorded and the run continues
   on the world left by unwinding; UB is recorded as nothing more *)
Fixpoint mrun2 (ops : list dop2) (w : world) : list dres2 :=
  match ops with
  | [] => []
  | o :: t => match mstep2 o w with
              | Ok r w' => r :: mrun2 t w'
              | Panic w' => RPanic2 :: mrun2 t w'
              | UB => []
              end
  end.

Fixpoint mfinal2 (ops : list dop2) (w : world) : option world :=
  match ops with
  | [] => Some w
  | o :: t => match mstep2 o w with
              | Ok _ w' => mfinal2 t w'
              | Panic w' => mfinal2 t w'
              | UB => None
              end
  end.

(* a run of the relational specification: results rs, final state *)
Inductive druns2 (n : nat) : list dop2 -> dict -> list dres2 -> dict -> Prop :=
| druns2_nil d : druns2 n [] d [] d
| druns2_cons o ops d r d' rs df :
    dstep2 n o d r d' -> druns2 n ops d' rs df -> druns2 n (o :: ops) d (r :: rs) df.

(* After ANY history mixing the 13 base operations with drain, iteration, entry
   and extend: no UB on the way (a final world exists), the results the model
   produced are the results of SOME run of the ideal dictionary, and the final
   container abstracts to that run's final state, capacity unchanged. *)
Theorem run2_refines n ops w d :
  Abs (self w) d -> cap (self w) = n ->
  exists wf df, mfinal2 ops w = Some wf /\ druns2 n ops d (mrun2 ops w) df /\
                Abs (self wf) df /\ cap (self wf) = n.
Proof.
  revert w d; induction ops as [|o t IH]; intros w d Ha Hc.
  - exists w, d. split; [reflexivity|]. split; [apply druns2_nil|]. split; assumption.
  - cbn [mrun2 mfinal2]. pose proof (step2_refines n o w d Ha Hc) as Hs.
    destruct (mstep2 o w) as [r w'|w'|]; [| |destruct Hs].
    + destruct Hs as (d' & Hst & Ha' & Hc').
      destruct (IH w' d' Ha' Hc') as (wf & df & Hf & Hr & Haf & Hcf).
      exists wf, df. split; [exact Hf|]. split; [|split; assumption].
      eapply druns2_cons; eassumption.
    + destruct Hs as (d' & Hst & Ha' & Hc').
      destruct (IH w' d' Ha' Hc') as (wf & df & Hf & Hr & Haf & Hcf).
      exists wf, df. split; [exact Hf|]. split; [|split; assumption].
      eapply druns2_cons; eassumption.
Qed.

Theorem run2_refines_new n ops s lg :
  let w0 := {| cb := s; log := lg; self := new_map n |} in
  exists wf df, mfinal2 ops w0 = Some wf /\ druns2 n ops [] (mrun2 ops w0) df /\
                Abs (self wf) df /\ cap (self wf) = n.
Proof. intros w0. apply run2_refines; cbn [w0 self]; [apply Abs_new | apply cap_new]. Qed.

(* the result list has one entry per operation (nothing is cut short by UB) *)
Lemma druns2_length n ops d rs df : druns2 n ops d rs df -> length rs = length ops.
Proof. induction 1 as [|o ops' d0 r d' rs' df' _ _ IH]; [reflexivity|]. cbn [length]. rewrite IH. reflexivity. Qed.

Corollary run2_length n ops w d :
  Abs (self w) d -> cap (self w) = n -> length (mrun2 ops w) = length ops.
Proof.
  intros Ha Hc. destruct (run2_refines n ops w d Ha Hc) as (wf & df & _ & Hr & _).
  eapply druns2_length. exact Hr.
Qed.

(* a history of base operations only is a history of Dict.v *)
Lemma druns2_base n (ops : list dop) : forall d rs df,
  druns2 n (List.map DBase ops) d rs df ->
  rs = List.map (fun r => if is_panic r then RPanic2 else RBase r) (Dict.drun ck cq n ops d) /\
  df = Dict.dfinal ck cq n ops d.
Proof.
  induction ops as [|o t IH]; intros d rs df H; cbn [List.map] in H; inversion H; subst.
  - split; reflexivity.
  - match goal with Hs : dstep2 _ (DBase _) _ _ _ |- _ => cbn [dstep2] in Hs; destruct Hs as [-> ->] end.
    match goal with Hr : druns2 _ _ _ _ _ |- _ => destruct (IH _ _ _ Hr) as [-> ->] end.
    cbn [Dict.drun Dict.dfinal]. destruct (dstep n o d) as [r0 d0]. cbn [fst snd List.map].
    split; reflexivity.
Qed.

(* ======================================================================== *)
(* 6. d_extend and Bulk.l_extend describe the same thing.                    *)

Lemma d_extend_l_extend n items : forall (l : list kv) (d : dict),
  Uniq ck l -> Permutation l d ->
  match l_extend ck n l items with
  | Some res => fst (d_extend n d items) = true /\ Uniq ck res /\ Permutation res (snd (d_extend n d items))
  | None => fst (d_extend n d items) = false
  end.
Proof.
  induction items as [|[k v] rest IH]; intros l d Hu Hp; cbn [l_extend d_extend Dict.dstep].
  - split; [reflexivity|]. split; assumption.
  - destruct (find_idx ck (ck k) l) as [i|] eqn:Hf.
    + destruct (d_abs_some ck _ _ _ _ Hu Hp Hf) as ([k0 v0] & Hpi & Hpc & Hd). rewrite Hd.
      cbn [fst snd is_panic]. unfold l_insert. rewrite Hf, Hpi. cbn [fst].
      destruct (d_abs_set ck l d (ck k) i (k0, v0) (fun p => (fst p, v)) Hu Hp Hpi Hpc Hpc) as [Hu' Hp'].
      cbn [fst] in Hu', Hp'. apply IH; assumption.
    + destruct (d_abs_none ck _ _ _ Hu Hp Hf) as [Hd Hn]. rewrite Hd.
      rewrite <- (Permutation_length Hp).
      destruct (length l <? n); cbn [fst snd is_panic]; [|reflexivity].
      destruct (d_abs_app ck l d k v Hu Hp Hn) as [Hu' Hp']. apply IH; assumption.
Qed.

End Dict2.
