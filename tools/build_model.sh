#!/bin/bash
# Build the Coq development (full .vo build), extract the model, build the OCaml runner.
set -e
root="$(cd "$(dirname "$0")/.." && pwd)"
cd "$root/coq"
[ -f Makefile ] || coq_makefile -f _CoqProject -o Makefile >/dev/null 2>&1
[ Makefile -nt _CoqProject ] || coq_makefile -f _CoqProject -o Makefile >/dev/null 2>&1
timeout 3000 make -j16 2>&1 | grep -v -E "^(Warning|COQDEP|COQC|\*\*\* Warning)" || true
test -f Model/Exec.vo
mkdir -p "$root/.cache/ocaml"
run="$root/.cache/ocaml/modelrun"
if [ ! -f "$run" ] || [ Model/Exec.vo -nt "$run" ] || [ ../ocaml/driver.ml -nt "$run" ]; then
  (cd "$root/.cache/ocaml" && coqc -Q "$root/coq/Model" Model "$root/coq/Extract.v" >/dev/null 2>&1 && rm -f "$root/coq/Extract.vo" "$root/coq/Extract.glob" "$root/coq/.Extract.aux"
   cp "$root/ocaml/driver.ml" . && ocamlfind ocamlopt -w -a model.mli model.ml driver.ml -o modelrun)
fi
