(* MapOps.v — one definition per non-test function of src/map.rs, src/ctors.rs,
   src/clone.rs, src/eq.rs, src/index.rs, src/from.rs, src/drain.rs.
   Same control structure, same order of primitive slot operations.
   DEFINITIONS ONLY. *)
Require Import Model.Base Model.Slots.

Section MapOps.
Context {K V Q T : Type} (E : env K V Q T) (debug : bool).
Notation M := (M K V T).
Notation map := (map K V).

Local Notation p_ref := (@p_ref K V T).
Local Notation p_read := (@p_read K V T).
Local Notation p_write := (@p_write K V T).
Local Notation p_write_checked := (@p_write_checked K V T).
Local Notation p_replace := (@p_replace K V T).
Local Notation p_prefix := (@p_prefix K V T).
Local Notation get_len := (@get_len K V T).
Local Notation get_cap := (@get_cap K V T).
Local Notation set_len := (@set_len K V T).
Local Notation scan := (@scan K V T).
Local Notation scan_loop := (@scan_loop K V T).
Local Notation dbg_assert := (@dbg_assert K V T debug).
Local Notation dec_len := (@dec_len K V T debug).
Local Notation unwind_pair := (unwind_pair E).
Local Notation unwind_args := (unwind_args E).
Local Notation drop_args := (drop_args E).
Local Notation unwind_pairs := (unwind_pairs E).
Local Notation unwind_key := (unwind_key E).
Local Notation drop_key := (drop_key E).
Local Notation drop_val := (drop_val E).
Local Notation drop_pair := (drop_pair E).
Local Notation p_drop := (p_drop E).

(* src/ctors.rs:32-39  Map::new() *)
Definition new_map (n : nat) : map := {| len := 0; slots := repeat None n |}.

(* Run a read-only computation on another (shared-borrowed) container. *)
Definition on_map {A} (m : map) (c : M A) : M A :=
  fun w => match c {| cb := cb w; log := log w; self := m |} with
           | Ok a w' => Ok a {| cb := cb w'; log := log w'; self := self w |}
           | Panic w' => Panic {| cb := cb w'; log := log w'; self := self w |}
           | UB => UB
           end.

(* src/map.rs:25-59 *)
Definition capacity : M nat := get_cap.
Definition is_empty : M bool := n <- get_len ;; ret (n =? 0).
Definition length_ : M nat := get_len.

(* for i in lo..lo+n { item_drop(i) } *)
Fixpoint drop_range (n i : nat) : M unit :=
  match n with
  | 0 => ret tt
  | S n' => p_drop i ;; drop_range n' (S i)
  end.

(* src/map.rs:75-80  clear(), as repaired: the length is reset before the
   elements are destroyed (see Legacy.v for the original order). *)
Definition clear : M unit :=
  n <- get_len ;; set_len 0 ;; drop_range n 0.

(* src/ctors.rs:68-74  Drop for Map *)
Definition drop_map : M unit :=
  n <- get_len ;; drop_range n 0.

(* src/map.rs:649-659  remove_index_read *)
Definition remove_index_read (i : nat) : M (K * V) :=
  result <- p_read i ;;
  dec_len ;;
  n <- get_len ;;
  (if i =? n then ret tt
   else (value <- p_read n ;; p_write i value)) ;;
  ret result.

(* src/map.rs:640-647  remove_index_drop, as repaired: the pair is taken out
   (length and compaction settled) before it is destroyed. *)
Definition remove_index_drop (i : nat) : M unit :=
  p <- remove_index_read i ;; drop_pair p.

(* src/map.rs:99-111  retain().  [f] may rewrite the value in place; it
   returns the new value even when it panics (None). *)
Definition pred_t := T -> K -> V -> (option bool * V) * T.

Definition call_pred (f : pred_t) (i : nat) : M bool :=
  p <- p_ref i ;;
  fun w => let '((r, v'), s) := f (cb w) (fst p) (snd p) in
           let w' := {| cb := s; log := log w ++ [EvCall 0];
                        self := {| len := len (self w);
                                   slots := upd (slots (self w)) i (Some (fst p, v')) |} |} in
           match r with Some b => Ok b w' | None => Panic w' end.

Fixpoint retain_loop (f : pred_t) (fuel i : nat) : M unit :=
  n <- get_len ;;
  if i <? n then
    match fuel with
    | 0 => ub   (* unreachable: fuel = initial len bounds the trip count *)
    | S fuel' =>
        keep <- call_pred f i ;;
        if keep then retain_loop f fuel' (S i)
        else (remove_index_drop i ;; retain_loop f fuel' i)
    end
  else ret tt.

Definition retain (f : pred_t) : M unit :=
  n <- get_len ;; retain_loop f n 0.

(* x.borrow() == k *)
Definition test_q (q : Q) (p : K * V) : M bool := cbk (fun s => eqKQ E s (fst p) q).
(* p.0 == k *)
Definition test_k (k : K) (p : K * V) : M bool := cbk (fun s => eqK E s (fst p) k).

(* src/map.rs:131-137 *)
Definition contains_key (q : Q) : M bool :=
  r <- scan (test_q q) ;; ret (match r with Some _ => true | None => false end).

(* src/map.rs:155-165 *)
Definition remove (q : Q) : M (option V) :=
  r <- scan (test_q q) ;;
  match r with
  | None => ret None
  | Some i => p <- remove_index_read i ;; drop_key (fst p) ;; ret (Some (snd p))
  end.

(* src/map.rs:584-594 *)
Definition remove_entry (q : Q) : M (option (K * V)) :=
  r <- scan (test_q q) ;;
  match r with
  | None => ret None
  | Some i => p <- remove_index_read i ;; ret (Some p)
  end.

(* src/map.rs:699-724  insert_ii.  k and v are locals of this frame until they
   are written into a slot: a panic before that (a panicking comparison, the
   debug assertion, the bounds check of pairs[i]) destroys them while unwinding. *)
Definition insert_ii (k : K) (v : V) (update_key : bool) : M (nat * option (K * V)) :=
  r <- on_unwind (unwind_args k v) (scan (test_k k)) ;;
  match r with
  | Some i =>
      if update_key then
        old <- p_replace i (fun _ => (k, v)) ;; ret (i, Some old)
      else
        old <- p_replace i (fun p => (fst p, v)) ;; ret (i, Some (k, snd old))
  | None =>
      i <- get_len ;;
      c <- get_cap ;;
      on_unwind (unwind_args k v) (dbg_assert (i <? c) ;; check_index i) ;;
      p_write_checked i (k, v) ;;
      set_len (S i) ;;
      ret (i, None)
  end.

(* src/map.rs:728-749  insert_ii_for_full *)
Definition insert_ii_for_full (k : K) (v : V) (update_key : bool)
  : M (option (nat * (K * V))) :=
  r <- on_unwind (unwind_args k v) (scan (test_k k)) ;;
  match r with
  | Some i =>
      if update_key then
        old <- p_replace i (fun _ => (k, v)) ;; ret (Some (i, old))
      else
        old <- p_replace i (fun p => (fst p, v)) ;; ret (Some (i, (k, snd old)))
  | None => drop_args k v ;; ret None
  end.

(* src/map.rs:666-694  insert_i: explicit loop, unchecked accessors *)
Fixpoint insert_i_loop (k : K) (fuel i : nat) : M (nat * option (K * V)) :=
  n <- get_len ;;
  if i =? n then
    (c <- get_cap ;; dbg_assert (n <? c) ;; ret (n, None))
  else
    match fuel with
    | 0 => ub  (* unreachable: fuel = len *)
    | S fuel' =>
        p <- p_ref i ;;
        b <- test_k k p ;;
        if b then (old <- p_read i ;; ret (i, Some old))
        else insert_i_loop k fuel' (S i)
    end.

Definition insert_i (k : K) (v : V) (update_key : bool) : M (nat * option (K * V)) :=
  n <- get_len ;;
  '(target, existing) <- on_unwind (unwind_args k v) (insert_i_loop k n 0) ;;
  (if target =? n then set_len (S n) else ret tt) ;;
  match existing, update_key with
  | Some (old_k, old_v), false =>
      p_write target (old_k, v) ;; ret (target, Some (k, old_v))
  | _, _ =>
      p_write target (k, v) ;; ret (target, existing)
  end.

(* existing_pair.map(|(_, v)| v): the key half is destroyed here *)
Definition keep_value (e : option (K * V)) : M (option V) :=
  match e with
  | None => ret None
  | Some (k', v') => drop_key k' ;; ret (Some v')
  end.

(* src/map.rs:204-207 *)
Definition insert (k : K) (v : V) : M (option V) :=
  '(_, e) <- insert_ii k v false ;; keep_value e.

(* src/map.rs:233-241 *)
Definition checked_insert (k : K) (v : V) : M (option (option V)) :=
  n <- get_len ;; c <- get_cap ;;
  if n <? c then
    ('(_, e) <- insert_ii k v false ;; r <- keep_value e ;; ret (Some r))
  else
    (r <- insert_ii_for_full k v false ;;
     match r with
     | None => ret None
     | Some (_, (k', v')) => drop_key k' ;; ret (Some (Some v'))
     end).

(* src/map.rs:281-284 *)
Definition insert_key_value (k : K) (v : V) : M (option (K * V)) :=
  '(_, e) <- insert_ii k v true ;; ret e.

(* src/map.rs:298-302 *)
Definition insert_unchecked (k : K) (v : V) : M (option V) :=
  '(_, e) <- insert_i k v false ;; keep_value e.

(* src/map.rs:320-402: the reference handed out is identified by its slot *)
Definition get (q : Q) : M (option nat) := scan (test_q q).
Definition get_mut (q : Q) : M (option nat) := scan (test_q q).
Definition get_key_value (q : Q) : M (option nat) := scan (test_q q).

(* src/index.rs:8-26 *)
Definition index (q : Q) : M nat :=
  r <- get q ;; match r with Some i => ret i | None => panic end.
Definition index_mut (q : Q) : M nat :=
  r <- get_mut q ;; match r with Some i => ret i | None => panic end.

(* ---- get_disjoint_mut / get_disjoint_unchecked_mut, src/map.rs:464-566 ---- *)

(* assert!(k != k_behind) for every k_behind after k *)
Fixpoint assert_ne_all (k : Q) (rest : list Q) : M unit :=
  match rest with
  | [] => ret tt
  | k' :: rest' => b <- cbk (fun s => eqQQ E s k k') ;;
                   if b then panic else assert_ne_all k rest'
  end.
Fixpoint assert_distinct (ks : list Q) : M unit :=
  match ks with
  | [] => ret tt
  | k :: rest => assert_ne_all k rest ;; assert_distinct rest
  end.

(* ks.iter().position(|&k| k.borrow() == p.0.borrow()) *)
Fixpoint position (ks : list Q) (p : K * V) (j : nat) : M (option nat) :=
  match ks with
  | [] => ret None
  | k :: ks' => b <- cbk (fun s => eqQK E s k (fst p)) ;;
                if b then ret (Some j) else position ks' p (S j)
  end.

(* first loop: fill the index stack; stack[stack_top] = .. is bounds-checked *)
Fixpoint fill_stack (ks : list Q) (J n i : nat) (stack : list (nat * nat))
  : M (list (nat * nat)) :=
  match n with
  | 0 => ret stack
  | S n' =>
      p <- p_ref i ;;
      r <- position ks p 0 ;;
      match r with
      | Some j =>
          if length stack <? J then fill_stack ks J n' (S i) (stack ++ [(i, j)])
          else panic
      | None => fill_stack ks J n' (S i) stack
      end
  end.

(* sort_unstable_by_key on pair_i: any sort gives this list when keys are
   distinct; insertion sort as the reference. *)
Fixpoint ins_sorted (x : nat * nat) (l : list (nat * nat)) : list (nat * nat) :=
  match l with
  | [] => [x]
  | y :: l' => if fst x <=? fst y then x :: l else y :: ins_sorted x l'
  end.
Definition sort_stack (l : list (nat * nat)) : list (nat * nat) :=
  fold_right ins_sorted [] l.

(* second loop: back-to-front split_at_mut; [rest] is rest_head.len() *)
Fixpoint split_back (J : nat) (st : list (nat * nat)) (rest : nat)
         (out : list (option nat)) : M (list (option nat)) :=
  match st with
  | [] => ret out
  | (pair_i, ks_i) :: st' =>
      if pair_i <=? rest then          (* split_at_mut(pair_i) *)
        if pair_i <? rest then         (* tail[0] *)
          (_ <- p_ref pair_i ;;        (* assume_init_mut *)
           if ks_i <? J then split_back J st' pair_i (upd out ks_i (Some pair_i))
           else panic)
        else panic
      else panic
  end.

Definition get_disjoint_unchecked_mut (ks : list Q) : M (list (option nat)) :=
  let J := length ks in
  match ks with
  | [] => ret []
  | [k] => r <- get_mut k ;; ret [r]
  | _ =>
      n <- get_len ;;
      stack <- fill_stack ks J n 0 [] ;;
      let stack := sort_stack stack in
      p_prefix ;;
      split_back J (rev stack) n (repeat None J)
  end.

Definition get_disjoint_mut (ks : list Q) : M (list (option nat)) :=
  match ks with
  | [] => ret []
  | _ => assert_distinct ks ;; get_disjoint_unchecked_mut ks
  end.

(* ---- src/clone.rs:11-21 Clone, as repaired: the length advances with each
   slot written.  State = the clone being built; [src] is shared-borrowed. ---- *)
Definition clone_pair (p : K * V) : M (K * V) :=
  emit (List.map EvCloneK (idK E (fst p))) ;;
  k' <- cbo (fun s => cloneK E s (fst p)) ;;
  emit (List.map EvCloneV (idV E (snd p))) ;;
  (* <(K, V) as Clone>::clone: when the value's clone panics the fresh key is destroyed on unwinding *)
  v' <- on_unwind (unwind_key k') (cbo (fun s => cloneV E s (snd p))) ;;
  ret (k', v').

Fixpoint clone_loop (src : map) (n i : nat) : M unit :=
  match n with
  | 0 => ret tt
  | S n' =>
      match nth_error (slots src) i with
      | Some (Some p) =>
          p' <- clone_pair p ;;
          p_write i p' ;;                (* dst.write(..): dst comes from iter_mut(), in range *)
          set_len (S i) ;;               (* m.len += 1 *)
          clone_loop src n' (S i)
      | _ => ub
      end
  end.

(* A container (or the rest of a Drain) destroyed WHILE UNWINDING: every element is destroyed; a Drop
   that panics during unwinding aborts the process, which is outside the model, so its answer is ignored
   (as in unwind_pair). *)
Fixpoint unwind_range (n i : nat) : M unit :=
  match n with
  | 0 => ret tt
  | S n' => p <- p_read i ;; unwind_pair p ;; unwind_range n' (S i)
  end.
Definition unwind_map : M unit := n <- get_len ;; unwind_range n 0.

(* unwinding over a locally owned container runs its destructor *)
Definition finally_drop {A} (c : M A) : M A :=
  fun w => match c w with
           | Panic w' => match unwind_map w' with
                         | UB => UB
                         | Ok _ w'' => Panic w''
                         | Panic w'' => Panic w''
                         end
           | r => r
           end.

(* runs with self = Map::new(); zip() stops at the shorter side *)
Definition clone_from_src (src : map) : M unit :=
  finally_drop (
    c <- get_cap ;;
    if len src <=? cap src then clone_loop src (Nat.min c (len src)) 0
    else panic).

(* ---- src/eq.rs:26-28 PartialEq (both operands shared-borrowed) ---- *)
Fixpoint eq_loop (a b : map) (n i : nat) : M bool :=
  match n with
  | 0 => ret true
  | S n' =>
      match nth_error (slots a) i with
      | Some (Some (k, v)) =>
          (* other.get(k): Q = K, compared as stored == k *)
          r <- on_map b (scan (test_k k)) ;;
          match r with
          | None => ret false
          | Some j =>
              match nth_error (slots b) j with
              | Some (Some (_, v')) =>
                  e <- cbk (fun s => eqV E s v' v) ;;
                  if e then eq_loop a b n' (S i) else ret false
              | _ => ub
              end
          end
      | _ => ub
      end
  end.

Definition map_eq (a b : map) : M bool :=
  if len a =? len b then
    (if len a <=? cap a then eq_loop a b (len a) 0 else panic)
  else ret false.

(* ---- src/from.rs:6-22 FromIterator / From<[(K,V);N]>.  [nx] is the source
   iterator's next(): it may panic before yielding each item and before the
   final None.  State = the map being built. ---- *)
Definition call_next (nx : T -> ans * T) : M unit :=
  emit [EvCall 1] ;; _ <- cbk nx ;; ret tt.

Definition drop_opt_val (o : option V) : M unit :=
  match o with None => ret tt | Some v => drop_val v end.

(* the items not yet yielded belong to the source iterator, a local of the
   loop's frame: they are destroyed when a panic unwinds through it *)
Fixpoint extend_loop (nx : T -> ans * T) (items : list (K * V)) : M unit :=
  match items with
  | [] => call_next nx
  | (k, v) :: rest =>
      on_unwind (unwind_pairs items) (call_next nx) ;;
      on_unwind (unwind_pairs rest) (old <- insert k v ;; drop_opt_val old) ;;
      extend_loop nx rest
  end.

Definition from_iter (nx : T -> ans * T) (items : list (K * V)) : M unit :=
  finally_drop (extend_loop nx items).

(* ---- src/drain.rs ---- *)
Definition cursor := (nat * nat)%type.   (* slots [lo, hi) still to come *)

Definition drain : M cursor :=
  p_prefix ;; n <- get_len ;; set_len 0 ;; ret (0, n).

Definition drain_next (c : cursor) : M (option (K * V) * cursor) :=
  let '(lo, hi) := c in
  if lo <? hi then (p <- p_read lo ;; ret (Some p, (S lo, hi)))
  else ret (None, c).

Definition cursor_len (c : cursor) : nat := snd c - fst c.

Definition drain_drop (c : cursor) : M unit :=
  drop_range (cursor_len c) (fst c).
(* Drop for Drain while unwinding *)
Definition unwind_drain (c : cursor) : M unit :=
  unwind_range (cursor_len c) (fst c).

(* ---- src/iterators.rs ---- *)
Definition iter : M cursor := p_prefix ;; n <- get_len ;; ret (0, n).

(* Iter/IterMut::next: returns the slot the yielded references point into *)
Definition iter_next (c : cursor) : M (option nat * cursor) :=
  let '(lo, hi) := c in
  if lo <? hi then (_ <- p_ref lo ;; ret (Some lo, (S lo, hi)))
  else ret (None, c).

(* IntoIter::next, src/iterators.rs:236-246 *)
Definition into_iter_next : M (option (K * V)) :=
  n <- get_len ;;
  match n with
  | 0 => ret None
  | S n' => set_len n' ;; p <- p_read n' ;; ret (Some p)
  end.

(* ---- src/ctors.rs:62-65 with_capacity ---- *)
Definition with_capacity_ok (c n : nat) : bool := c =? n.

End MapOps.
