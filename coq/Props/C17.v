(* ========================================================================== *)
(* C17 — Misbehaving Eq/Borrow impls may give wrong answers but never memory
         unsafety

   STATEMENT (properties.jsonl):
     "Even when the key type's equality or Borrow implementation is
      inconsistent (non-reflexive, asymmetric, changing between calls), safe
      operations may return wrong answers or panic but remain memory-safe:
      every element is still destroyed exactly once, len() never exceeds
      capacity() and matches what iteration yields, mutable references handed
      out together never alias, and nothing outside the container is written."

   QUANTIFIER (properties.jsonl):
     "all operation sequences under arbitrary (adversarially or randomly
      chosen) outcomes of every key comparison"

   HOW THE MODEL EXPRESSES IT
     - Every key comparison the crate makes is a call of one of the callbacks
       eqK / eqKQ / eqQQ / eqQK of the environment E : env K V Q T
       (Model/Base.v).  A callback has type  T -> .. -> ans * T : it reads and
       updates an arbitrary callback state, so its answers need be neither
       reflexive, symmetric nor stable between calls, and it may panic.
       Theorems stated "forall E" with NO `Lawful` hypothesis therefore cover
       every misbehaving Eq / Borrow implementation.
     - At history level the environment is env_map sc / env_set sc for an
       ARBITRARY script sc (Model/Exec.v): with sc_adv = true every ==
       answer is computed by Exec.adv_answer, which has FOUR kinds selected by
       sc_seed mod 5 (4 / 0 / 1 / 2 / 3; the comments below still number the first four kinds 0-3): the truth negated pseudo-randomly (seed, call counter
       n_eq), 1 = everything equals everything, 2 = nothing equals anything (not
       even itself), 3 = the answer alternates between two calls on the same
       operands; the fault kinds can in addition make a comparison panic.  The
       theorems quantify over all sc.  The scripts are still a (finite-state)
       family; histories for a completely ARBITRARY environment E are covered by
       the Dict / Dict2 / SetDict interpreters and by cstep (addenda below).
     - memory-unsafety is the outcome UB of the model: any unchecked slot
       access outside the array or to a slot without a live element, an
       unchecked write beyond the array, a wrapped length.  wp excludes UB; the
       interpreter reports UB as the observation [3].

   READING GUIDE (clause -> theorem)
     "remain memory-safe" for all operation sequences, every script (honest,
       adversarial ==, injected panics): no UB, registers stay well-formed
                                  C17_step_safe, C17_run_safe, C17_run_safe_debug,
                                  C17_run_case_safe
     "len() never exceeds capacity()" : WFx of every reached state (WF m gives
       len m <= cap m) and caps unchanged            C17_step_safe
     "and matches what iteration yields" : WF m says slots [0,len) are live,
       and iteration yields exactly slots 0 .. len-1 (IterSpec.iter_run_spec,
       stated for every environment, listed under C05/C09)   C17_step_safe (WF part)
     "mutable references handed out together never alias": for EVERY
       environment the indices returned by get_disjoint_mut /
       get_disjoint_unchecked_mut are < len and pairwise distinct
                                  C17_disjoint_safe, C17_disjoint_unchecked_safe
     "every element is still destroyed exactly once": ownership conservation
       for an arbitrary environment (definitions of conserves / acct / owned /
       dropped: Proofs/Owned.v, quoted in Props/C02.v)
                                  C17_conserves_insert, C17_conserves_remove,
                                  C17_conserves_retain, C17_conserves_NoDup,
                                  C17_conserves_s_insert (Set),
                                  C17_conserves_entry_of (entry API),
                                  C17_set_sub_acct (set algebra with clones)
     "nothing outside the container is written": the insertion core never
       reaches UB (an unchecked out-of-range write is UB) whatever == answers
                                  C17_keeps_insert_ii

   PARTLY / NOT COVERED BY A THEOREM (left to the correspondence check)
     - "may return wrong answers": nothing to prove; the Example
       C17_example_adversarial_run shows one (a duplicate key gets stored);
     - the conservation lemmas restated here are those for insert, remove,
       retain, Set::insert, Map::entry and &Set - &Set (the others - every other
       Map and Set method, the entry methods, IntoKeys/IntoValues, Clone - are in
       Props/C02.v: all are for arbitrary E).  Key UNIQUENESS along histories
       (ExecUniq, Props/C05.v) is for honest scripts only and deliberately not
       claimed here: with a lying == duplicates can be stored
       (C17_example_adversarial_run);
       exactly-once on a panic exit is "at most once" (a leak is tolerated);
     - the Borrow implementation itself is not a separate callback: a lying
       Borrow shows up as a lying eqKQ / eqQK answer;
     - get_disjoint_unchecked_mut is an `unsafe fn` whose contract (distinct
       keys) is not assumed by C17_disjoint_unchecked_safe: the model's version
       is safe without it.
   SECOND ADDENDUM (very end of this file, lemmas in Proofs/MoreHist.v):
     C17_crun_any_env_safe, C17_crun_NoDup (richer histories, arbitrary E);
     C17_run_exact_calm, C17_run_exact_Calm, C17_srun_exact_calm (EXACTLY once under
     a lying == that never makes Drop panic); C17_anyenv_len_matches_iter (+2, _c, _s)
   AUDIT ADDENDUM (end of this file, lemmas in Proofs/MoreOwned.v) - NOW COVERED:
     - the script family of Exec.v is a PRNG family; history-level safety for an
       ARBITRARY environment (any answer sequence) on the Dict / Dict2 / SetDict
       interpreters                        C17_mrun_any_env_safe, C17_mrun_any_env_length,
                                           C17_mrun2_any_env_safe, C17_srun_any_env_safe
     - "every element is still destroyed exactly once" along a history, arbitrary E
                                           C17_run_NoDup, C17_run_no_double_drop,
                                           C17_run2_NoDup, C17_srun_NoDup
     - "len() ... matches what iteration yields" (was: only WF)
                                           C17_len_matches_iter, C17_run_final_WFx_safe,
                                           C17_run_len_matches_iter_m, C17_run_len_matches_iter_s
     - iter_mut / values_mut references pairwise distinct
                                           C17_iter_mut_distinct
     - identity hypothesis of C17_conserves_retain discharged for the interpreter
                                           C17_pred_m_keeps_id, C17_conserves_retain_pred_m
     - get_disjoint_mut under a lying eqQQ / eqQK, computed
                                           C17_example_disjoint_lying_true,
                                           C17_example_disjoint_lying_alternating
   ========================================================================== *)
Require Import Model.Base Model.Slots Model.MapOps Model.EntryOps Model.SetOps Model.Fmt Model.Exec.
Require Import Proofs.Hoare Proofs.Inv Proofs.Safety Proofs.Safety2 Proofs.Owned Proofs.Owned2
               Proofs.ExecSafe Proofs.Legacy.

(* -------------------------------------------------------------------------- *)
(* histories under an arbitrary script                                        *)
Theorem C17_step_safe :
  forall (debug : bool) (sc : script) (o : op) (x : xworld),
  WFx x ->
  contract_ok debug o x ->
  WFx (snd (step debug sc o x)) /\ caps (snd (step debug sc o x)) = caps x.
Proof. exact step_safe. Qed.
Print Assumptions C17_step_safe.

Theorem C17_run_safe :
  forall (debug : bool) (sc : script) (ops : list op) (x : xworld),
  WFx x ->
  Forall safe_op ops ->
  Forall (fun obs : list N => obs <> [3%N]) (run_ops debug sc ops x).
Proof. exact run_safe. Qed.
Print Assumptions C17_run_safe.

Theorem C17_run_safe_debug :
  forall (sc : script) (ops : list op) (x : xworld),
  WFx x ->
  Forall (fun obs : list N => obs <> [3%N]) (run_ops true sc ops x).
Proof. exact run_safe_debug. Qed.
Print Assumptions C17_run_safe_debug.

Theorem C17_run_case_safe :
  forall (debug : bool) (segs : list (list N)),
  debug = true \/ Forall safe_op (List.map decode (tl segs)) ->
  Forall (fun obs : list N => obs <> [3%N]) (run_case debug segs).
Proof. exact run_case_safe. Qed.
Print Assumptions C17_run_case_safe.

(* -------------------------------------------------------------------------- *)
(* no aliasing, arbitrary environment                                         *)
Theorem C17_disjoint_safe :
  forall (K V Q T : Type) (E : env K V Q T) (ks : list Q) (w : world K V T),
  WF (self w) ->
  wp (get_disjoint_mut E ks)
    (fun (r : list (option nat)) (w' : world K V T) =>
       self w' = self w /\
       length r = length ks /\
       (forall j i : nat, nth_error r j = Some (Some i) -> i < len (self w)) /\
       (forall j1 j2 i : nat,
          nth_error r j1 = Some (Some i) -> nth_error r j2 = Some (Some i) -> j1 = j2))
    (fun w' : world K V T => self w' = self w)
    w.
Proof. exact (@disjoint_safe). Qed.
Print Assumptions C17_disjoint_safe.

Theorem C17_disjoint_unchecked_safe :
  forall (K V Q T : Type) (E : env K V Q T) (ks : list Q) (w : world K V T),
  WF (self w) ->
  wp (get_disjoint_unchecked_mut E ks)
    (fun (r : list (option nat)) (w' : world K V T) =>
       self w' = self w /\
       length r = length ks /\
       (forall j i : nat, nth_error r j = Some (Some i) -> i < len (self w)) /\
       (forall j1 j2 i : nat,
          nth_error r j1 = Some (Some i) -> nth_error r j2 = Some (Some i) -> j1 = j2))
    (fun w' : world K V T => self w' = self w)
    w.
Proof. exact (@disjoint_unchecked_safe). Qed.
Print Assumptions C17_disjoint_unchecked_safe.

(* -------------------------------------------------------------------------- *)
(* ownership conservation, arbitrary environment                              *)
Theorem C17_conserves_insert :
  forall (K V Q T : Type) (E : env K V Q T) (debug : bool) (k : K) (v : V),
  conserves E (insert E debug k v) (ids_pair E (k, v))
            (fun r : option V => match r with Some v0 => idV E v0 | None => [] end).
Proof. exact (@conserves_insert). Qed.
Print Assumptions C17_conserves_insert.

Theorem C17_conserves_remove :
  forall (K V Q T : Type) (E : env K V Q T) (debug : bool) (q : Q),
  conserves E (remove E debug q) []
            (fun r : option V => match r with Some v => idV E v | None => [] end).
Proof. exact (@conserves_remove). Qed.
Print Assumptions C17_conserves_remove.

Theorem C17_conserves_retain :
  forall (K V Q T : Type) (E : env K V Q T) (debug : bool) (f : @pred_t K V T),
  (forall (s : T) (k : K) (v : V), idV E (snd (fst (f s k v))) = idV E v) ->
  conserves E (retain E debug f) [] (fun _ : unit => []).
Proof. exact (@conserves_retain). Qed.
Print Assumptions C17_conserves_retain.

Theorem C17_conserves_NoDup :
  forall (K V Q T : Type) (E : env K V Q T) (A : Type) (c : M K V T A) (ins : list N)
         (outs : A -> list N) (w : world K V T),
  conserves E c ins outs ->
  WF (self w) ->
  NoDup (owned E (self w) ++ ins ++ dropped (log w)) ->
  wp c
    (fun (a : A) (w' : world K V T) => NoDup (owned E (self w') ++ outs a ++ dropped (log w')))
    (fun w' : world K V T => NoDup (owned E (self w') ++ dropped (log w')))
    w.
Proof. exact (@conserves_NoDup). Qed.
Print Assumptions C17_conserves_NoDup.

(* the same for a Set method, the entry API and the Set subtraction
   (Proofs/Owned2.v) - E arbitrary: == may lie, change its mind, panic.
   ids_entry E e := the key a Vacant entry carries, [] for Occupied;
   cloned_from E a k' := k' is what cloneK returned, in some callback state, for
   a key stored in a *)
Theorem C17_conserves_s_insert :
  forall (K Q T : Type) (E : env K unit Q T) (debug : bool) (k : K),
  conserves E (s_insert E debug k) (ids_pair E (k, tt))
            (fun r : bool => if r then [] else idV E tt).
Proof. exact (@conserves_s_insert). Qed.
Print Assumptions C17_conserves_s_insert.

Theorem C17_conserves_entry_of :
  forall (K V Q T : Type) (E : env K V Q T) (k : K),
  conserves E (entry_of E k) (idK E k) (ids_entry E).
Proof. exact (@conserves_entry_of). Qed.
Print Assumptions C17_conserves_entry_of.

(* &Set - &Set compares every element of a against b and clones the survivors:
   whatever the comparisons answer, every clone made is stored, handed nowhere
   else, or (on a panic, possibly) leaked - never duplicated or destroyed twice *)
Theorem C17_set_sub_acct :
  forall (K Q T : Type) (E : env K unit Q T) (debug : bool),
  idV E tt = [] ->
  forall (a b : map K unit) (w : world K unit T),
  WF a ->
  WF b ->
  WF (self w) ->
  wp (set_sub E debug a b)
    (fun (_ : unit) (w' : world K unit T) =>
       WF (self w') /\
       cap (self w') = cap (self w) /\
       exists made : list K,
         Forall (cloned_from E a) made /\
         exists lost : list N,
           acct E w w' (flat_map (fun k : K => ids_pair E (k, tt)) made) [] lost /\
           (Tidy (self w) -> lost = [] /\ Tidy (self w')))
    (fun w' : world K unit T =>
       exists made : list K,
         Forall (cloned_from E a) made /\
         exists lost : list N,
           acct E w w' (flat_map (fun k : K => ids_pair E (k, tt)) made) [] lost)
    w.
Proof. exact (@set_sub_acct). Qed.
Print Assumptions C17_set_sub_acct.

(* -------------------------------------------------------------------------- *)
(* nothing written outside the array, arbitrary environment (Safety.keeps unfolded) *)
Theorem C17_keeps_insert_ii :
  forall (K V Q T : Type) (E : env K V Q T) (debug : bool) (k : K) (v : V) (u : bool)
         (w : world K V T),
  WF (self w) ->
  wp (insert_ii E debug k v u)
    (fun (_ : nat * option (K * V)) (w' : world K V T) =>
       WF (self w') /\ cap (self w') = cap (self w))
    (fun w' : world K V T => WF (self w') /\ cap (self w') = cap (self w))
    w.
Proof. exact (@keeps_insert_ii). Qed.
Print Assumptions C17_keeps_insert_ii.

(* -------------------------------------------------------------------------- *)
(* non-vacuity                                                                *)
Example C17_example_WFx : WFx (init_world 3 0 0 0).
Proof. exact (init_WFx 3 0 0 0). Qed.

Example C17_example_WF : WF (self (w_of m3)).
Proof. exact m3_WF. Qed.

(* the adversarial script really lies: with sc_adv = true, seed 7, the
   comparison number 1 of two keys of the SAME class answers "different" *)
Example C17_example_lie :
  fst (eqK (env_map {| sc_adv := true; sc_seed := 7; sc_fk := 0; sc_fa := 0 |})
           {| n_eq := 1; n_clone := 0; n_call := 0; next_id := 100000 |}
           (k_ 1 5) (k_ 5 5)) = No.
Proof. vm_compute. reflexivity. Qed.

(* a case under that script (cfg adv = 1, seed = 7; Map register 0 of capacity 3,
   release build): three inserts of keys of class 5, then get(class 5).
   The third insert gets a wrong answer from == and STORES A DUPLICATE
   (observation 3: insert returned None, len = 2, two entries of class 5) - a
   wrong answer, but no UB: every observation starts with 1, and the final
   teardown destroys the stored ids 1 4 5 6 exactly once (id 3, the duplicate
   key of the second insert, was destroyed there; id 2 was handed back). *)
Example C17_example_adversarial_run :
  run_case false [[1; 7; 0; 0; 3; 0; 0; 0];
                  [10; 0; 1; 5; 2; 7]; [10; 0; 3; 5; 4; 8]; [10; 0; 5; 5; 6; 9]; [20; 0; 0; 5]]%N
  = [[1; 0; 7777; 1; 3; 1; 5; 2; 7; 8888; 8889];
     [1; 1; 2; 7; 7777; 1; 3; 1; 5; 4; 8; 8888; 3; 8889];
     [1; 0; 7777; 2; 3; 1; 5; 4; 8; 5; 5; 6; 9; 8888; 8889];
     [1; 1; 0; 4; 8; 7777; 2; 3; 1; 5; 4; 8; 5; 5; 6; 9; 8888; 8889];
     [1; 7777; 0; 3; 8888; 1; 4; 5; 6; 8889;  1; 7777; 0; 0; 8888; 8889;
      1; 7777; 0; 0; 8888; 8889;  1; 7777; 0; 0; 8888; 8889;
      8890; 3; 0; 0; 100000]]%N.
Proof. vm_compute. reflexivity. Qed.

(* the hypothesis of C17_set_sub_acct ("() carries no identity") holds of the
   interpreter's Set environment for EVERY script, adversarial ones included *)
Example C17_example_unit_no_id :
  idV (env_set {| sc_adv := true; sc_seed := 7; sc_fk := 0; sc_fa := 0 |}) tt = [].
Proof. reflexivity. Qed.


(* ========================================================================== *)
(* ADDENDUM (audit closure).  New lemmas: Proofs/MoreOwned.v.
   Vocabulary of the history theorems (mstep / mfinal of Proofs/Dict.v, mstep2 /
   mfinal2 of Dict2.v, sstep / smfinal of SetDict.v; op_ins, op_outs, op_ok,
   mouts): see the addendum of Props/C02.v.  These interpreters take an
   ARBITRARY environment E : env K V Q T - not only the PRNG-driven scripts of
   Model/Exec.v: every key comparison may answer anything, differently each
   time, or panic.                                                            *)
(* ========================================================================== *)
Require Import Proofs.Lawful Proofs.IterSpec Proofs.Dict Proofs.Dict2 Proofs.SetDict Proofs.ExecUniq Proofs.FmtSerde
               Proofs.MoreOwned.

(* -------------------------------------------------------------------------- *)
(* "remain memory-safe" for ALL operation sequences under ARBITRARY outcomes of
   every key comparison (the history-level version of the function-level
   `forall E` theorems): from a well-formed container, any history of the 13
   dictionary operations (+ drain, iteration, entry, extend; the Set methods),
   any environment, any closure: a final world exists (UB never happened), it is
   well-formed (len <= capacity, slots [0,len) live), capacity unchanged; every
   operation produced a result or a panic. *)
Theorem C17_mrun_any_env_safe :
  forall (K V Q T : Type) (E : env K V Q T) (debug : bool) (ops : list dop) (w : world K V T),
  WF (self w) ->
  exists wf : world K V T,
    mfinal E debug ops w = Some wf /\ WF (self wf) /\ cap (self wf) = cap (self w).
Proof. exact (@mrun_any_env_safe). Qed.
Print Assumptions C17_mrun_any_env_safe.

Theorem C17_mrun_any_env_length :
  forall (K V Q T : Type) (E : env K V Q T) (debug : bool) (ops : list dop) (w : world K V T),
  WF (self w) -> length (mrun E debug ops w) = length ops.
Proof. exact (@mrun_any_env_length). Qed.
Print Assumptions C17_mrun_any_env_length.

Theorem C17_mrun2_any_env_safe :
  forall (K V Q T : Type) (E : env K V Q T) (debug : bool) (ops : list dop2) (w : world K V T),
  WF (self w) ->
  exists wf : world K V T,
    mfinal2 E debug ops w = Some wf /\ WF (self wf) /\ cap (self wf) = cap (self w).
Proof. exact (@mrun2_any_env_safe). Qed.
Print Assumptions C17_mrun2_any_env_safe.

Theorem C17_srun_any_env_safe :
  forall (K Q T : Type) (E : env K unit Q T) (debug : bool) (ops : list sop)
    (w : world K unit T),
  WF (self w) ->
  exists wf : world K unit T,
    smfinal E debug ops w = Some wf /\ WF (self wf) /\ cap (self wf) = cap (self w).
Proof. exact (@srun_any_env_safe). Qed.
Print Assumptions C17_srun_any_env_safe.

(* -------------------------------------------------------------------------- *)
(* "every element is still destroyed exactly once" even under a misbehaving ==,
   ALONG A HISTORY: hypothesis = the identities stored at the start, those of all
   arguments of the history, uninvolved ones (extra) and those already destroyed
   are pairwise distinct; conclusion = after the history no identity occurs twice
   among stored ++ with the caller ++ extra ++ destroyed (nothing destroyed
   twice, nothing destroyed still stored).  No Lawful hypothesis.  (Leaks on a
   panic are tolerated: this is "at most once"; "exactly once" for lawful
   environments is C02_run_exact.) *)
Theorem C17_run_NoDup :
  forall (K V Q T : Type) (E : env K V Q T) (debug : bool) (ops : list dop)
    (w wf : world K V T) (extra : list N),
  WF (self w) ->
  Forall (op_ok E) ops ->
  NoDup (owned E (self w) ++ flat_map (op_ins E) ops ++ extra ++ dropped (log w)) ->
  mfinal E debug ops w = Some wf ->
  NoDup (owned E (self wf) ++ mouts E debug ops w ++ extra ++ dropped (log wf)).
Proof. exact (@run_NoDup). Qed.
Print Assumptions C17_run_NoDup.

Theorem C17_run_no_double_drop :
  forall (K V Q T : Type) (E : env K V Q T) (debug : bool) (ops : list dop)
    (w wf : world K V T),
  WF (self w) ->
  Forall (op_ok E) ops ->
  NoDup (owned E (self w) ++ flat_map (op_ins E) ops ++ dropped (log w)) ->
  mfinal E debug ops w = Some wf ->
  NoDup (dropped (log wf)) /\
  NoDup (owned E (self wf)) /\
  (forall x : N,
   In x (owned E (self wf)) -> ~ In x (dropped (log wf)) /\ ~ In x (mouts E debug ops w)) /\
  (forall x : N, In x (mouts E debug ops w) -> ~ In x (dropped (log wf))).
Proof. exact (@run_no_double_drop). Qed.
Print Assumptions C17_run_no_double_drop.

Theorem C17_run2_NoDup :
  forall (K V Q T : Type) (E : env K V Q T) (debug : bool) (ops : list dop2)
    (w wf : world K V T) (extra : list N),
  WF (self w) ->
  Forall (op2_ok E) ops ->
  NoDup (owned E (self w) ++ flat_map (op2_ins E) ops ++ extra ++ dropped (log w)) ->
  mfinal2 E debug ops w = Some wf ->
  NoDup (owned E (self wf) ++ mouts2 E debug ops w ++ extra ++ dropped (log wf)).
Proof. exact (@run2_NoDup). Qed.
Print Assumptions C17_run2_NoDup.

Theorem C17_srun_NoDup :
  forall (K Q T : Type) (E : env K unit Q T) (debug : bool),
  idV E tt = [] ->
  forall (ops : list sop) (w wf : world K unit T) (extra : list N),
  WF (self w) ->
  NoDup (owned E (self w) ++ flat_map (sop_ins E) ops ++ extra ++ dropped (log w)) ->
  smfinal E debug ops w = Some wf ->
  NoDup (owned E (self wf) ++ souts E debug ops w ++ extra ++ dropped (log wf)).
Proof. exact (@srun_NoDup). Qed.
Print Assumptions C17_srun_NoDup.

(* -------------------------------------------------------------------------- *)
(* "len() never exceeds capacity() and matches what iteration yields": for every
   well-formed container a full iteration session (iter(), then len calls of
   next(); IterSpec.iter_run) yields exactly the len slots 0 .. len-1, each
   once, and changes nothing - no environment is involved: iterators make no
   user callback.  At history level: after ANY history of the interpreter under
   ANY script (adversarial ==, injected panics, both build profiles), in each of
   the four registers. *)
Theorem C17_len_matches_iter :
  forall (K V T : Type) (w : world K V T),
  WF (self w) ->
  wp (c <- iter;; IterSpec.iter_run (len (self w)) c)
    (fun (res : list nat * cursor) (w' : world K V T) =>
     w' = w /\ fst res = seq 0 (len (self w)) /\ length (fst res) = len (self w))
    (fun _ : world K V T => False) w.
Proof. exact (@len_matches_iter). Qed.
Print Assumptions C17_len_matches_iter.

Theorem C17_run_final_WFx_safe :
  forall (debug : bool) (sc : script) (ops : list op) (x : xworld),
  WFx x -> Forall safe_op ops -> WFx (run_final debug sc ops x).
Proof. exact (@run_final_WFx_safe). Qed.
Print Assumptions C17_run_final_WFx_safe.

Theorem C17_run_len_matches_iter_m :
  forall (debug : bool) (sc : script) (ops : list op) (x : xworld) 
    (r : N) (cs : cstate) (lg : list event),
  WFx x ->
  Forall safe_op ops ->
  let m := get_m r (run_final debug sc ops x) in
  let w := {| cb := cs; log := lg; self := m |} in
  len m <= cap m /\
  wp (c <- iter;; IterSpec.iter_run (len m) c)
    (fun (res : list nat * cursor) (w' : mworld) =>
     w' = w /\ fst res = seq 0 (len m) /\ length (fst res) = len m /\ snd res = (len m, len m))
    (fun _ : mworld => False) w.
Proof. exact (@run_len_matches_iter_m). Qed.
Print Assumptions C17_run_len_matches_iter_m.

Theorem C17_run_len_matches_iter_s :
  forall (debug : bool) (sc : script) (ops : list op) (x : xworld) 
    (r : N) (cs : cstate) (lg : list event),
  WFx x ->
  Forall safe_op ops ->
  let m := get_s r (run_final debug sc ops x) in
  let w := {| cb := cs; log := lg; self := m |} in
  len m <= cap m /\
  wp (c <- iter;; IterSpec.iter_run (len m) c)
    (fun (res : list nat * cursor) (w' : sworld) =>
     w' = w /\ fst res = seq 0 (len m) /\ length (fst res) = len m /\ snd res = (len m, len m))
    (fun _ : sworld => False) w.
Proof. exact (@run_len_matches_iter_s). Qed.
Print Assumptions C17_run_len_matches_iter_s.

(* "mutable references handed out together never alias" for iter_mut /
   values_mut: a session of any length yields pairwise distinct, live slots *)
Theorem C17_iter_mut_distinct :
  forall (K V T : Type) (n : nat) (w : world K V T),
  WF (self w) ->
  wp (c <- iter;; IterSpec.iter_run n c)
    (fun (res : list nat * cursor) (w' : world K V T) =>
     w' = w /\
     NoDup (fst res) /\
     Forall (fun i : nat => i < len (self w)) (fst res) /\
     (forall i : nat, In i (fst res) -> live (self w) i)) (fun _ : world K V T => False) w.
Proof. exact (@iter_mut_distinct). Qed.
Print Assumptions C17_iter_mut_distinct.

(* -------------------------------------------------------------------------- *)
(* the identity hypothesis of C17_conserves_retain holds of the interpreter's
   retain predicates (Exec.pred_m: keep / remove / keep-and-add-100-to-the-
   payload, possibly panicking), for EVERY script *)
Theorem C17_pred_m_keeps_id :
  forall (sc : script) (dflt : N) (tab : list (N * N)) (s : cstate) (k : key) (v : vobj),
  idV (env_map sc) (snd (fst (pred_m sc dflt tab s k v))) = idV (env_map sc) v.
Proof. exact (@pred_m_keeps_id). Qed.
Print Assumptions C17_pred_m_keeps_id.

Theorem C17_conserves_retain_pred_m :
  forall (debug : bool) (sc : script) (dflt : N) (tab : list (N * N)),
  conserves (env_map sc) (retain (env_map sc) debug (pred_m sc dflt tab)) []
    (fun _ : unit => []).
Proof. exact (@conserves_retain_pred_m). Qed.
Print Assumptions C17_conserves_retain_pred_m.

(* -------------------------------------------------------------------------- *)
(* non-vacuity                                                                *)
(* get_disjoint_mut under a LYING eqQQ / eqQK (environments of MoreOwned.v built
   over the honest env_map; xi_somes r = the Some-slots of a result):
   env_liar_true: q == q' and q == stored ALWAYS answer true.  Checked: the
   overlap assertion fires (panic, nothing changed).  Unchecked, 2 queries: every
   slot claims query 0 and the index stack overflows (bounds-check panic);
   3 queries: one &mut only.  Never two references to one slot. *)
Example C17_example_disjoint_lying_true :
  get_disjoint_mut env_liar_true [QCls 5; QCls 6] (w_of m3) = Panic (w_of m3) /\
  get_disjoint_unchecked_mut env_liar_true [QCls 5; QCls 6] (w_of m3) = Panic (w_of m3) /\
  get_disjoint_unchecked_mut env_liar_true [QCls 5; QCls 6; QCls 7] (w_of m3) =
  Ok [Some 0; None; None] (w_of m3) /\
  xi_somes [Some 0; None; None] = [0] /\ NoDup (xi_somes [Some 0; None; None]).
Proof. exact (@example_disjoint_lying_true). Qed.
Print Assumptions C17_example_disjoint_lying_true.

(* env_liar_alt: q == q' always answers false (three EQUAL queries pass the
   assertion), q == stored alternates true/false with the call counter: two
   stored keys claim the same query, yet the slots handed out are pairwise
   different, or the call panics *)
Example C17_example_disjoint_lying_alternating :
  get_disjoint_mut env_liar_alt [QCls 5; QCls 6] (w_of m3) = Panic xi_w5 /\
  get_disjoint_mut env_liar_alt [QCls 5; QCls 6; QCls 7] (w_of m3) =
  Ok [Some 0; Some 1; None] xi_w5 /\
  get_disjoint_mut env_liar_alt [QCls 9; QCls 9; QCls 9] (w_of m3) =
  Ok [Some 0; Some 1; None] xi_w5 /\
  xi_somes [Some 0; Some 1; None] = [0; 1] /\ NoDup (xi_somes [Some 0; Some 1; None]).
Proof. exact (@example_disjoint_lying_alternating). Qed.
Print Assumptions C17_example_disjoint_lying_alternating.

(* a history on the full 3-entry map m3 under each of the FOUR kinds of
   misbehaving == of Exec.adv_answer (selected by seed mod 5; the seeds 4, 5, 6, 7 used below select the same four kinds as before, seed 8 the asymmetric one).  The hypotheses
   of C17_run_NoDup hold for every script; the runs never reach UB; the answers
   are wrong in four different ways, and the ledger balances every time
   (stored ++ with the caller ++ destroyed are 13 or 14 pairwise distinct ids out
   of 1..15; the missing one was leaked by a panicking call). *)
Definition C17_ops1 : list (@dop key vobj query) :=
  [DInsert (k_ 7 9) (v_ 8 1); DInsert (k_ 10 5) (v_ 11 2); DRemove (QCls 6); DGetMut (QCls 7) (v_ 12 3);
   DRetain (fun k v => (N.eqb (kcls k) 5, v)); DInsertKV (k_ 13 5) (v_ 14 4); DIndexMut (QCls 99) (v_ 15 0)].
Definition C17_sc_adv (seed : N) : script := {| sc_adv := true; sc_seed := seed; sc_fk := 0; sc_fa := 0 |}.

Example C17_example_history_hyps :
  forall sc : script,
  WF (self (w_of m3)) /\ Forall (op_ok (env_map sc)) C17_ops1 /\
  NoDup (owned (env_map sc) (self (w_of m3)) ++ flat_map (op_ins (env_map sc)) C17_ops1 ++
         dropped (log (w_of m3))).
Proof.
  intros sc. split; [exact m3_WF|]. split; [repeat constructor|].
  vm_compute. repeat constructor; cbn [In]; intros H;
    repeat (destruct H as [H | H]; try discriminate H); exact H.
Qed.

(* seed mod 4 = 0: == lies now and then (PRNG).  The first insert (class 9,
   absent, map full) gets a wrong "equal" answer and overwrites another key's
   value instead of panicking; 15 is leaked by the panicking IndexMut *)
Example C17_example_history_prng :
  mrun (env_map (C17_sc_adv 4)) false C17_ops1 (w_of m3) =
    [RVal (v_ 4 8); RVal (v_ 2 7); RVal (v_ 8 1); RVal (v_ 6 9); RUnit; RPair (k_ 1 5, v_ 11 2); RPanic] /\
  match mfinal (env_map (C17_sc_adv 4)) false C17_ops1 (w_of m3) with
  | Some wf => owned (env_map (C17_sc_adv 4)) (self wf) = [13; 14]%N /\
               mouts (env_map (C17_sc_adv 4)) false C17_ops1 (w_of m3) = [4; 2; 8; 6; 1; 11]%N /\
               dropped (log wf) = [7; 10; 3; 5; 12]%N
  | None => False
  end.
Proof. vm_compute. repeat split; reflexivity. Qed.

(* seed mod 4 = 1: everything equals everything.  Every lookup hits slot 0: both
   inserts overwrite its value, remove(class 6) removes it, even Index of the
   absent class 99 "finds" an element; nothing panics, nothing is leaked *)
Example C17_example_history_always_equal :
  mrun (env_map (C17_sc_adv 5)) false C17_ops1 (w_of m3) =
    [RVal (v_ 2 7); RVal (v_ 8 1); RVal (v_ 11 2); RVal (v_ 6 9); RUnit; RNone; RVal (v_ 14 4)] /\
  match mfinal (env_map (C17_sc_adv 5)) false C17_ops1 (w_of m3) with
  | Some wf => owned (env_map (C17_sc_adv 5)) (self wf) = [13; 15]%N /\
               mouts (env_map (C17_sc_adv 5)) false C17_ops1 (w_of m3) = [2; 8; 11; 6; 14]%N /\
               dropped (log wf) = [7; 10; 1; 5; 12; 3; 4]%N
  | None => False
  end.
Proof. vm_compute. repeat split; reflexivity. Qed.

(* seed mod 4 = 2: nothing equals anything, not even itself.  Every lookup
   misses: the inserts into the full map are rejected (their arguments destroyed
   once: the value first, then the key - parameters die in reverse order), remove / get_mut find nothing, IndexMut panics (15 leaked), and after
   retain made room a DUPLICATE key of class 5 is stored (ids 1 and 13) *)
Example C17_example_history_never_equal :
  mrun (env_map (C17_sc_adv 6)) false C17_ops1 (w_of m3) =
    [RPanic; RPanic; RNone; RNone; RUnit; RNone; RPanic] /\
  match mfinal (env_map (C17_sc_adv 6)) false C17_ops1 (w_of m3) with
  | Some wf => owned (env_map (C17_sc_adv 6)) (self wf) = [1; 2; 13; 14]%N /\
               mouts (env_map (C17_sc_adv 6)) false C17_ops1 (w_of m3) = [12]%N /\
               dropped (log wf) = [8; 7; 11; 10; 3; 4; 5; 6]%N
  | None => False
  end.
Proof. vm_compute. repeat split; reflexivity. Qed.

(* seed mod 4 = 3: the answer changes between two calls on the same operands
   (truthful on even call numbers, negated on odd ones) *)
Example C17_example_history_alternating :
  mrun (env_map (C17_sc_adv 7)) false C17_ops1 (w_of m3) =
    [RVal (v_ 4 8); RVal (v_ 2 7); RVal (v_ 11 2); RVal (v_ 6 9); RUnit; RNone; RVal (v_ 14 4)] /\
  match mfinal (env_map (C17_sc_adv 7)) false C17_ops1 (w_of m3) with
  | Some wf => owned (env_map (C17_sc_adv 7)) (self wf) = [13; 15]%N /\
               mouts (env_map (C17_sc_adv 7)) false C17_ops1 (w_of m3) = [4; 2; 11; 6; 14]%N /\
               dropped (log wf) = [7; 10; 1; 5; 12; 3; 8]%N
  | None => False
  end.
Proof. vm_compute. repeat split; reflexivity. Qed.

(* the seeds really select the kinds (seed mod 5: 4 = PRNG lies, 0 = always equal, 1 = never equal, 2 = alternating,
   3 = determined by the operands but ASYMMETRIC: a == b iff class a <= class b, see Exec.cls_truth) *)
Example C17_example_modes :
  (4 mod 5 = 4 /\ 5 mod 5 = 0 /\ 6 mod 5 = 1 /\ 7 mod 5 = 2 /\ 8 mod 5 = 3)%N /\
  (forall n t, adv_answer 5 n t = true) /\ (forall n t, adv_answer 6 n t = false) /\
  (forall t, adv_answer 7 0 t = t /\ adv_answer 7 1 t = negb t) /\
  (forall n t, adv_answer 8 n t = t) /\
  (let sc := {| sc_adv := true; sc_seed := 8; sc_fk := 0; sc_fa := 0 |} in
   cls_truth sc 3 5 = true /\ cls_truth sc 5 3 = false /\ cls_truth sc 4 4 = true) /\
  (forall sc a b, sc_adv sc = false -> cls_truth sc a b = N.eqb a b).
Proof.
  repeat split; try reflexivity.
  intros sc a b Ha. unfold cls_truth, asym. rewrite Ha. reflexivity.
Qed.

(* under the asymmetric kind the ORDER of the operands of a comparison is observable: class 3 stored, class 5 looked
   up: "stored == needle" holds (3 <= 5), so the lookup hits; with the operands the other way round it would miss *)
Example C17_example_asymmetric_run :
  run_case false [[1; 8; 0; 0; 3; 0; 0; 0]; [10; 0; 1; 3; 2; 7]; [20; 0; 0; 5]; [20; 0; 0; 2]]%N
  = [[1; 0; 7777; 1; 3; 1; 3; 2; 7; 8888; 8889];
     [1; 1; 0; 2; 7; 7777; 1; 3; 1; 3; 2; 7; 8888; 8889];          (* get by class 5: hit, slot 0 *)
     [1; 0; 7777; 1; 3; 1; 3; 2; 7; 8888; 8889];                   (* get by class 2: miss *)
     [1; 7777; 0; 3; 8888; 1; 2; 8889; 1; 7777; 0; 0; 8888; 8889; 1; 7777; 0; 0; 8888; 8889;
      1; 7777; 0; 0; 8888; 8889; 8890; 2; 0; 0; 100000]]%N.
Proof. vm_compute. reflexivity. Qed.
Print Assumptions C17_example_asymmetric_run.


(* ========================================================================== *)
(* ADDENDUM 2 (second audit round).  New lemmas: Proofs/MoreHist.v.
   cop / cstep / cfinal / c_ins / c_outs / c_ok / c_safe / cins / couts: see
   ADDENDUM 2 of Props/C02.v (a richer history interpreter for an ARBITRARY
   environment: stateful panicking retain predicates and entry closures,
   get_disjoint_mut, clone_from, collect from a panicking source, ==, consuming
   iterators dropped or forgotten, forgotten drains, all Dict2 operations).
   DropCalm E := no Drop ever panics; Calm E := DropCalm E and no == ever panics
   (== may answer ANYTHING, differently each time).                            *)
(* ========================================================================== *)
Require Import Proofs.MoreHist.

(* -------------------------------------------------------------------------- *)
(* "remain memory-safe" along histories of the richer interpreter: any == / Clone /
   Drop / predicate / closure / source-iterator behaviour *)
Theorem C17_crun_any_env_safe :
  forall (K V Q T : Type) (E : env K V Q T) (debug : bool) (ops : list cop) (w : world K V T),
  WF (self w) ->
  Forall c_safe ops ->
  exists wf : world K V T,
    cfinal E debug ops w = Some wf /\ WF (self wf) /\ cap (self wf) = cap (self w).
Proof. exact (@crun_any_env_safe). Qed.
Print Assumptions C17_crun_any_env_safe.

(* "every element is still destroyed exactly once" along them: at most once for
   EVERY environment ... *)
Theorem C17_crun_NoDup :
  forall (K V Q T : Type) (E : env K V Q T) (debug : bool) (ops : list cop)
    (w wf : world K V T) (extra : list N),
  WF (self w) ->
  Forall (c_ok E) ops ->
  NoDup (owned E (self w) ++ cins E debug ops w ++ extra ++ dropped (log w)) ->
  cfinal E debug ops w = Some wf ->
  NoDup (owned E (self wf) ++ couts E debug ops w ++ extra ++ dropped (log wf)).
Proof. exact (@crun_NoDup). Qed.
Print Assumptions C17_crun_NoDup.

(* ... and EXACTLY once (no `lost`, Tidy kept) for the core case of this
   property: an == that LIES in any way (it may even panic) while Drop does not
   panic.  From a Tidy state every history keeps Tidy and every identity stored at
   the start or handed in is, at the end, in exactly one place: stored, with the
   caller, or destroyed.  op_pouts_c: what a panicking get_mut / index_mut leaves
   with the caller.  Map (13 operations) and Set (9). *)
Theorem C17_run_exact_calm :
  forall (K V Q T : Type) (E : env K V Q T) (debug : bool) (ops : list dop) (w : world K V T),
  DropCalm E ->
  WF (self w) ->
  Tidy (self w) ->
  Forall (op_ok E) ops ->
  exists wf : world K V T,
    mfinal E debug ops w = Some wf /\
    WF (self wf) /\
    cap (self wf) = cap (self w) /\
    Tidy (self wf) /\
    Permutation.Permutation
      (owned E (self wf) ++
       gouts (mstep E debug) (op_outs E) (op_pouts_c E) ops w ++ dropped (log wf))
      (owned E (self w) ++ flat_map (op_ins E) ops ++ dropped (log w)).
Proof. exact (@run_exact_calm). Qed.
Print Assumptions C17_run_exact_calm.

Theorem C17_run_exact_Calm :
  forall (K V Q T : Type) (E : env K V Q T) (debug : bool) (ops : list dop) (w : world K V T),
  Calm E ->
  WF (self w) ->
  Tidy (self w) ->
  Forall (op_ok E) ops ->
  exists wf : world K V T,
    mfinal E debug ops w = Some wf /\
    WF (self wf) /\
    cap (self wf) = cap (self w) /\
    Tidy (self wf) /\
    Permutation.Permutation
      (owned E (self wf) ++
       gouts (mstep E debug) (op_outs E) (op_pouts_c E) ops w ++ dropped (log wf))
      (owned E (self w) ++ flat_map (op_ins E) ops ++ dropped (log w)).
Proof. exact (@run_exact_Calm). Qed.
Print Assumptions C17_run_exact_Calm.

Theorem C17_srun_exact_calm :
  forall (K Q T : Type) (E : env K unit Q T) (debug : bool),
  idV E tt = [] ->
  forall (ops : list sop) (w : world K unit T),
  DropCalm E ->
  WF (self w) ->
  Tidy (self w) ->
  exists wf : world K unit T,
    smfinal E debug ops w = Some wf /\
    WF (self wf) /\
    cap (self wf) = cap (self w) /\
    Tidy (self wf) /\
    Permutation.Permutation (owned E (self wf) ++ souts E debug ops w ++ dropped (log wf))
      (owned E (self w) ++ flat_map (sop_ins E) ops ++ dropped (log w)).
Proof. exact (@srun_exact_calm). Qed.
Print Assumptions C17_srun_exact_calm.

(* -------------------------------------------------------------------------- *)
(* "len() ... matches what iteration yields" for an ARBITRARY environment after
   ANY history, with exhaustion: S len calls of next() yield exactly the len slots
   0 .. len-1 and then None, and the exhausted cursor stays exhausted.
   iter_exhausts w := the conclusion of C17_WF_iter_exhausts *)
Theorem C17_WF_iter_exhausts :
  forall (K V T : Type) (w : world K V T),
  WF (self w) ->
  len (self w) <= cap (self w) /\
  wp (c <- iter;; IterSpec.iter_run (S (len (self w))) c)
    (fun (res : list nat * cursor) (w' : world K V T) =>
       w' = w /\ fst res = seq 0 (len (self w)) /\ length (fst res) = len (self w) /\
       snd res = (len (self w), len (self w)) /\
       wp (iter_next (snd res))
          (fun (r : option nat * cursor) (w'' : world K V T) => w'' = w /\ fst r = None /\ snd r = snd res)
          (fun _ : world K V T => False) w)
    (fun _ : world K V T => False) w.
Proof. exact (@WF_iter_exhausts). Qed.
Print Assumptions C17_WF_iter_exhausts.

Theorem C17_anyenv_len_matches_iter :
  forall (K V Q T : Type) (E : env K V Q T) (debug : bool) (ops : list dop)
    (w wf : world K V T), WF (self w) -> mfinal E debug ops w = Some wf -> iter_exhausts wf.
Proof. exact (@anyenv_len_matches_iter). Qed.
Print Assumptions C17_anyenv_len_matches_iter.

Theorem C17_anyenv_len_matches_iter2 :
  forall (K V Q T : Type) (E : env K V Q T) (debug : bool) (ops : list dop2)
    (w wf : world K V T), WF (self w) -> mfinal2 E debug ops w = Some wf -> iter_exhausts wf.
Proof. exact (@anyenv_len_matches_iter2). Qed.
Print Assumptions C17_anyenv_len_matches_iter2.

Theorem C17_anyenv_len_matches_iter_c :
  forall (K V Q T : Type) (E : env K V Q T) (debug : bool) (ops : list cop)
    (w wf : world K V T),
  WF (self w) -> Forall c_safe ops -> cfinal E debug ops w = Some wf -> iter_exhausts wf.
Proof. exact (@anyenv_len_matches_iter_c). Qed.
Print Assumptions C17_anyenv_len_matches_iter_c.

Theorem C17_anyenv_len_matches_iter_s :
  forall (K Q T : Type) (E : env K unit Q T) (debug : bool) (ops : list sop)
    (w wf : world K unit T),
  WF (self w) -> smfinal E debug ops w = Some wf -> iter_exhausts wf.
Proof. exact (@anyenv_len_matches_iter_s). Qed.
Print Assumptions C17_anyenv_len_matches_iter_s.

(* -------------------------------------------------------------------------- *)
(* non-vacuity: C17_srun_NoDup / C17_run2_NoDup and the calm theorems under LYING
   environments.  Set histories from the empty set of capacity 3: seed 5 =
   everything equals everything (insert of class 5 twice: the second is "already
   there"; take(class 5) takes the wrong element ...), seed 6 = nothing equals
   anything (duplicates are stored, the 4th insert overflows).  In every run the
   eight identities 1..8 are each stored, with the caller, or destroyed - once. *)
Definition C17_sops : list (@sop key query) :=
  [SoInsert (k_ 1 5); SoInsert (k_ 2 5); SoInsert (k_ 3 6); SoReplace (k_ 4 6); SoTake (QCls 5); SoRemove (QCls 6);
   SoExtend [k_ 5 7; k_ 6 7; k_ 7 8]; SoRetain (fun k => N.eqb (kcls k) 7); SoInsert (k_ 8 9)].
Definition C17_ws0 : world key unit cstate := {| cb := cs0; log := []; self := new_map 3 |}.

Example C17_example_srun_hyps :
  forall sc, idV (env_set sc) tt = [] /\ WF (self C17_ws0) /\ Tidy (self C17_ws0) /\
  NoDup (owned (env_set sc) (self C17_ws0) ++ flat_map (sop_ins (env_set sc)) C17_sops ++ dropped (log C17_ws0)) /\
  (sc_fk sc = 0%N -> DropCalm (env_set sc)).
Proof.
  intros sc. split; [reflexivity|]. split; [apply WF_new|].
  split; [intros i _ Hn; destruct i as [|[|[|i]]]; try reflexivity; exfalso; apply Hn; destruct i; reflexivity|].
  split.
  - vm_compute. repeat constructor; cbn [In]; intros H;
      repeat (destruct H as [H | H]; try discriminate H); exact H.
  - intros Hf. split; intros s k; cbn [env_set dropK dropV fst]; [|reflexivity].
    unfold drop_boom. rewrite Hf. reflexivity.
Qed.

Example C17_example_srun_always_equal :
  smrun (env_set (C17_sc_adv 5)) false C17_sops C17_ws0 =
    [SBool true; SBool false; SBool false; SElem (k_ 1 5); SElem (k_ 4 6); SBool false; SUnit; SUnit; SBool false] /\
  match smfinal (env_set (C17_sc_adv 5)) false C17_sops C17_ws0 with
  | Some wf => owned (env_set (C17_sc_adv 5)) (self wf) = [5]%N /\
               souts (env_set (C17_sc_adv 5)) false C17_sops C17_ws0 = [1; 4]%N /\
               dropped (log wf) = [2; 3; 6; 7; 8]%N
  | None => False
  end.
Proof. vm_compute. repeat split; reflexivity. Qed.

Example C17_example_srun_never_equal :
  smrun (env_set (C17_sc_adv 6)) false C17_sops C17_ws0 =
    [SBool true; SBool true; SBool true; SPanic; SNone; SBool false; SPanic; SUnit; SBool true] /\
  match smfinal (env_set (C17_sc_adv 6)) false C17_sops C17_ws0 with
  | Some wf => owned (env_set (C17_sc_adv 6)) (self wf) = [8]%N /\
               souts (env_set (C17_sc_adv 6)) false C17_sops C17_ws0 = [] /\
               dropped (log wf) = [4; 5; 6; 7; 1; 3; 2]%N
  | None => False
  end.
Proof. vm_compute. repeat split; reflexivity. Qed.

(* a Dict2 history (remove, entry().or_insert, drain(1)+drop, extend, iterate,
   insert, drain(0)+drop) on m3 under "nothing equals anything": or_insert into
   the full map is rejected, extend stores two keys of the SAME class; all 14
   identities end with the caller (1 2, drained) or destroyed, none twice *)
Definition C17_ops2 : list (@dop2 key vobj query) :=
  [DBase (DRemove (QCls 6)); DOrInsert (k_ 7 5) (v_ 8 1); DDrain 1;
   DExtend [(k_ 9 1, v_ 10 1); (k_ 11 1, v_ 12 2)]; DIterAll; DBase (DInsert (k_ 13 1) (v_ 14 3)); DDrain 0].

Example C17_example_run2_hyps :
  forall sc, Forall (op2_ok (env_map sc)) C17_ops2 /\
  NoDup (owned (env_map sc) (self (w_of m3)) ++ flat_map (op2_ins (env_map sc)) C17_ops2 ++ dropped (log (w_of m3))).
Proof.
  intros sc. split; [repeat constructor|].
  vm_compute. repeat constructor; cbn [In]; intros H;
    repeat (destruct H as [H | H]; try discriminate H); exact H.
Qed.

Example C17_example_run2_never_equal :
  mrun2 (env_map (C17_sc_adv 6)) false C17_ops2 (w_of m3) =
    [RBase RNone; RPanic2; RItems [(k_ 1 5, v_ 2 7)]; RBase RUnit;
     RItems [(k_ 9 1, v_ 10 1); (k_ 11 1, v_ 12 2)]; RBase RNone; RItems []] /\
  match mfinal2 (env_map (C17_sc_adv 6)) false C17_ops2 (w_of m3) with
  | Some wf => owned (env_map (C17_sc_adv 6)) (self wf) = [] /\
               mouts2 (env_map (C17_sc_adv 6)) false C17_ops2 (w_of m3) = [1; 2]%N /\
               dropped (log wf) = [8; 7; 3; 4; 5; 6; 9; 10; 11; 12; 13; 14]%N
  | None => False
  end.
Proof. vm_compute. repeat split; reflexivity. Qed.

(* Calm holds of every adversarial script without injected faults *)
Example C17_example_Calm : forall seed, Calm (env_map (C17_sc_adv seed)).
Proof.
  intros seed. split; [split; intros; reflexivity|].
  split; intros; cbn [env_map eqK eqKQ]; unfold eq_answer; cbn [C17_sc_adv sc_fk sc_adv N.eqb andb fst];
    destruct (adv_answer _ _ _); discriminate.
Qed.

Require Import Proofs.Spec Proofs.PureEq.

(* ------------------------------------------------------------------------
   A == that is DETERMINED BY ITS OPERANDS but is no equivalence (Proofs/PureEq.v,
   [Related E ck cq R], R arbitrary): besides being safe (the any-environment
   theorems above) every operation is still a pure function of the stored pairs
   -- the first stored key k with R (class k) (class of the needle) decides.
   [Lawful] is the special case R = equality of classes.
   ------------------------------------------------------------------------ *)
Theorem C17_lawful_is_related :
  forall (K V Q T : Type) (E : env K V Q T) (ck : K -> N) (cq : Q -> N),
    Lawful E ck cq -> Related E ck cq N.eqb.
Proof. exact (fun K V Q T => @lawful_related K V Q T). Qed.
Print Assumptions C17_lawful_is_related.

Theorem C17_insert_any_relation :
  forall (K V Q T : Type) (E : env K V Q T) (debug : bool) (ck : K -> N) (cq : Q -> N) (R : N -> N -> bool)
         (HR : Related E ck cq R) (k : K) (v : V) (w : world K V T),
    WF (self w) ->
    wp (insert E debug k v)
       (fun (r : option V) (w' : world K V T) =>
          WF (self w') /\ cap (self w') = cap (self w) /\
          match find_rel ck R (ck k) (Spec.elems (self w)) with
          | Some i => exists k0 v0, nth_error (Spec.elems (self w)) i = Some (k0, v0) /\ R (ck k0) (ck k) = true /\
                        r = Some v0 /\ Spec.elems (self w') = upd (Spec.elems (self w)) i (k0, v) /\
                        logged w w' (ev_drops (idK E k))
          | None => len (self w) < cap (self w) /\ r = None /\
                    Spec.elems (self w') = Spec.elems (self w) ++ [(k, v)] /\ log w' = log w
          end)
       (fun w' : world K V T =>
          self w' = self w /\ logged w w' (ev_drops (idV E v ++ idK E k)) /\
          find_rel ck R (ck k) (Spec.elems (self w)) = None /\ len (self w) = cap (self w)) w.
Proof. exact (fun K V Q T E debug ck cq R HR => insert_rel_cases E debug ck cq R HR). Qed.
Print Assumptions C17_insert_any_relation.

Theorem C17_remove_any_relation :
  forall (K V Q T : Type) (E : env K V Q T) (debug : bool) (ck : K -> N) (cq : Q -> N) (R : N -> N -> bool)
         (HR : Related E ck cq R) (q : Q) (w : world K V T),
    WF (self w) ->
    wp (remove E debug q)
       (fun (r : option V) (w' : world K V T) =>
          match find_rel ck R (cq q) (Spec.elems (self w)) with
          | Some i => exists k0 v0, nth_error (Spec.elems (self w)) i = Some (k0, v0) /\ r = Some v0 /\
                        WF (self w') /\ cap (self w') = cap (self w) /\
                        Spec.elems (self w') = swap_remove (Spec.elems (self w)) i /\
                        logged w w' (ev_drops (idK E k0))
          | None => r = None /\ stable w w'
          end)
       (fun _ : world K V T => False) w.
Proof. exact (fun K V Q T E debug ck cq R HR => remove_rel_cases E debug ck cq R HR). Qed.
Print Assumptions C17_remove_any_relation.

Theorem C17_contains_key_any_relation :
  forall (K V Q T : Type) (E : env K V Q T) (ck : K -> N) (cq : Q -> N) (R : N -> N -> bool)
         (HR : Related E ck cq R) (q : Q) (w : world K V T),
    WF (self w) ->
    wp (contains_key E q)
       (fun (r : bool) (w' : world K V T) =>
          stable w w' /\
          r = match find_rel ck R (cq q) (Spec.elems (self w)) with Some _ => true | None => false end)
       (fun _ : world K V T => False) w.
Proof. exact (fun K V Q T E ck cq R HR => contains_key_rel E ck cq R HR). Qed.
Print Assumptions C17_contains_key_any_relation.

(* the interpreter's fifth kind of script is such an environment (R = "<=" on classes), for maps and sets *)
Theorem C17_env_related :
  forall sc : script, asym sc = true -> sc_fk sc = 0%N ->
    Related (env_map sc) kcls qcls N.leb /\ Related (env_set sc) kcls qcls N.leb.
Proof. exact (fun sc Ha Hf => conj (env_map_related sc Ha Hf) (env_set_related sc Ha Hf)). Qed.
Print Assumptions C17_env_related.
