(* ========================================================================== *)
(* C20 — serde round trip reproduces the container (feature serde)

   STATEMENT (properties.jsonl):
     "With the serde feature enabled, serializing any Map or Set emits exactly
      len() entries, and deserializing that output into a container of
      sufficient capacity yields one equal to the original, for every content
      and internal order."
   QUANTIFIER:
     "all contents and internal orders, capacities of source and target, Map and
      Set, feature serde on"

   READING GUIDE
   -------------
   Model (Model/Exec.v, ops OSerde / SSerde).  The serializer (src/serialization.rs:11-22,
   src/set/serialization.rs:11-22) announces [len src] and then emits one entry per iterated
   pair, i.e. the list [Spec.elems src] in iteration order (for a Set: the keys,
   [List.map fst (Spec.elems src)]).  The deserializer's visitor
   (src/serialization.rs:26-56, src/set/serialization.rs:25-51) is
     visit_map debug sc items / visit_seq debug sc items
   : for every received entry it decodes FRESH objects (new identities [next_id], same key
   class [kcls], same payload [vdat]) and inserts them one by one with Map::insert /
   Set::insert into a local container that starts as [new_map cp] (Map::new() of the TARGET
   capacity cp, unrelated to the capacity of the source); [finally_drop] runs that local
   container's destructor if the visitor unwinds.  The wire format in between (serde_json,
   bincode, ...) is not part of micromap and not modelled: the visitor receives exactly the
   entries the serializer emitted.
   The environment is the scripted one of the correspondence check, [env_map sc] / [env_set sc];
   [honest sc] = no adversarial == answers and no injected fault, under which it is a lawful
   environment: == is equality of key classes [kcls], value == is equality of payloads [vdat].
   [Uniq kcls l] = pairwise different keys (true of every state reachable with a lawful ==:
   C01/C05); [WF] = the representation invariant.
   [entry_ok_in ck veq lb p] = "lb has an entry for the class of p's key, with an equal value";
   [(length la =? length lb) && forallb (entry_ok_in ck veq lb) la] is the boolean PartialEq
   for Map computes on (la, lb) (EqClone.map_eq_lawful, Props/C14.v), and it is extensional
   dictionary equality, independent of internal order (EqClone.map_eq_extensional, C14).

   * "serializing any Map or Set emits exactly len() entries"
       C20_ser_len : the number of entries emitted ([length (Spec.elems m)]) is the announced
       [len m], for every well-formed container (any value type: Map and Set).
   * "deserializing that output into a container of sufficient capacity yields one equal to the
      original, for every content and internal order"
       C20_serde_roundtrip_map : for every well-formed source with pairwise different keys (any
       content, any slot order), every target capacity cp >= len src, any initial callback
       state and log, both build modes: the visitor returns normally (no panic, no UB) with a
       well-formed container of the same length, pairwise different keys, for which the
       PartialEq boolean against the source is true;
       C20_serde_roundtrip_map_eq : and on any two containers related in that way the crate's
       own == (map_eq) returns true (never panics), leaving everything untouched ([stable]);
       C20_serde_roundtrip_set, C20_serde_roundtrip_set_eq : the same for Set (values are ()).
       C20_visit_map_spec, C20_visit_seq_spec : the step underneath, from ANY starting
       container: if the items have pairwise different classes, none of them is present and
       there is room for all, the visitor appends exactly one fresh entry per item, in order,
       of the same class and payload; capacity kept; nothing is destroyed (log unchanged).
   * "capacities of source and target" — insufficient capacity
       C20_serde_overflow : if cp < len src the visitor never returns normally: the insert into
       the full local container panics and the unwinding (which destroys the partly built
       container) is free of UB.
   * the premises are satisfiable / the scripted environment is lawful
       C20_env_map_lawful, C20_env_set_lawful.

   PARTLY COVERED / NOT COVERED BY A THEOREM
     - "the decoded container is equal": the two halves (roundtrip: the boolean is true; _eq: ==
       returns true on such a pair) are composed in ONE theorem in the APPENDED SECTION at the end
       of this file: C20_serde_roundtrip_map_equal / C20_serde_roundtrip_set_equal (decode, then the
       crate's == returns true), for every WF source with pairwise different keys.
     - step level (ROUND 2 section at the end): the model has no serializer function; what op
       OSerde / SSerde prints (announced length, number of emitted entries) and does to the
       registers is C20_step_OSerde_ok / C20_step_SSerde_ok / C20_step_*_emits; decoded == original
       as well as original == decoded: C20_serde_roundtrip_*_equal_sym, C20_step_*_then_*Eq.
     - C20_ser_len alone is a list-length fact; the emitted sequence is tied to the iteration
       protocol by C20_ser_emits (appended section).  Set overflow twin: C20_serde_overflow_set.
     - the theorems are about the instrumented element types of the harness (key, vobj) and
       the honest script, not about an arbitrary lawful environment.
     - the wire format, serde's Serializer/Deserializer contracts (e.g. that the length hint
       Some(len) is what serialize_map receives), and "feature serde on" (Cargo.toml) are
       outside the model: observed by the harness built with --features serde (entry count
       announced and emitted, equality of the decoded container).
     - C20_serde_overflow claims only "no normal return, no UB" (panic postcondition True);
       how the real deserializer reports the failure is not modelled.                       *)
(* ========================================================================== *)
Require Import Model.Base Model.Slots Model.MapOps Model.SetOps Model.Exec.
Require Import Proofs.Hoare Proofs.Inv Proofs.Safety Proofs.Safety2 Proofs.Spec Proofs.Lawful.
Require Import Proofs.EqClone Proofs.FmtSerde Proofs.Legacy.

(* -------------------------------------------------------------------------- *)
(* FmtSerde.ser_len                                                            *)
Theorem C20_ser_len :
  forall (V : Type) (m : map key V), WF m -> length (Spec.elems m) = len m.
Proof. exact (@ser_len). Qed.
Print Assumptions C20_ser_len.

(* -------------------------------------------------------------------------- *)
(* FmtSerde.visit_map_spec                                                     *)
Theorem C20_visit_map_spec :
  forall (debug : bool) (sc : script) (items : list (key * vobj)) (w : world key vobj cstate),
    honest sc ->
    WF (self w) ->
    Uniq kcls (Spec.elems (self w)) ->
    NoDup (List.map (fun p : key * vobj => kcls (fst p)) items) ->
    (forall p : key * vobj, In p items -> find_idx kcls (kcls (fst p)) (Spec.elems (self w)) = None) ->
    len (self w) + length items <= cap (self w) ->
    wp (visit_map debug sc items)
       (fun (_ : unit) (w' : world key vobj cstate) =>
          WF (self w') /\
          cap (self w') = cap (self w) /\
          (exists fresh : list (key * vobj),
             Spec.elems (self w') = Spec.elems (self w) ++ fresh /\
             Forall2 (fun p p' : key * vobj => kcls (fst p') = kcls (fst p) /\ vdat (snd p') = vdat (snd p))
                     items fresh) /\
          log w' = log w)
       (fun _ : world key vobj cstate => False)
       w.
Proof. exact visit_map_spec. Qed.
Print Assumptions C20_visit_map_spec.

(* -------------------------------------------------------------------------- *)
(* FmtSerde.serde_roundtrip_map                                                *)
Theorem C20_serde_roundtrip_map :
  forall (debug : bool) (sc : script) (src : map key vobj) (cp : nat) (s : cstate) (lg : list event),
    honest sc ->
    WF src ->
    Uniq kcls (Spec.elems src) ->
    len src <= cp ->
    wp (finally_drop (env_map sc) (visit_map debug sc (Spec.elems src)))
       (fun (_ : unit) (w' : world key vobj cstate) =>
          WF (self w') /\
          len (self w') = len src /\
          Uniq kcls (Spec.elems (self w')) /\
          (length (Spec.elems src) =? length (Spec.elems (self w'))) &&
          forallb (entry_ok_in kcls (fun a b : vobj => (vdat a =? vdat b)%N) (Spec.elems (self w')))
                  (Spec.elems src) = true)
       (fun _ : world key vobj cstate => False)
       {| cb := s; log := lg; self := new_map cp |}.
Proof. exact serde_roundtrip_map. Qed.
Print Assumptions C20_serde_roundtrip_map.

(* FmtSerde.serde_roundtrip_map_eq                                             *)
Theorem C20_serde_roundtrip_map_eq :
  forall (sc : script) (src dst : map key vobj) (w : world key vobj cstate),
    honest sc ->
    WF src ->
    WF dst ->
    len dst = len src ->
    (length (Spec.elems src) =? length (Spec.elems dst)) &&
    forallb (entry_ok_in kcls (fun a b : vobj => (vdat a =? vdat b)%N) (Spec.elems dst))
            (Spec.elems src) = true ->
    wp (map_eq (env_map sc) src dst)
       (fun (r : bool) (w' : world key vobj cstate) => stable w w' /\ r = true)
       (fun _ : world key vobj cstate => False)
       w.
Proof. exact serde_roundtrip_map_eq. Qed.
Print Assumptions C20_serde_roundtrip_map_eq.

(* -------------------------------------------------------------------------- *)
(* FmtSerde.visit_seq_spec                                                     *)
Theorem C20_visit_seq_spec :
  forall (debug : bool) (sc : script) (items : list key) (w : world key unit cstate),
    honest sc ->
    WF (self w) ->
    Uniq kcls (Spec.elems (self w)) ->
    NoDup (List.map kcls items) ->
    (forall k : key, In k items -> find_idx kcls (kcls k) (Spec.elems (self w)) = None) ->
    len (self w) + length items <= cap (self w) ->
    wp (visit_seq debug sc items)
       (fun (_ : unit) (w' : world key unit cstate) =>
          WF (self w') /\
          cap (self w') = cap (self w) /\
          (exists fresh : list (key * unit),
             Spec.elems (self w') = Spec.elems (self w) ++ fresh /\
             Forall2 (fun (k : key) (p' : key * unit) => kcls (fst p') = kcls k) items fresh) /\
          log w' = log w)
       (fun _ : world key unit cstate => False)
       w.
Proof. exact visit_seq_spec. Qed.
Print Assumptions C20_visit_seq_spec.

(* -------------------------------------------------------------------------- *)
(* FmtSerde.serde_roundtrip_set                                                *)
Theorem C20_serde_roundtrip_set :
  forall (debug : bool) (sc : script) (src : map key unit) (cp : nat) (s : cstate) (lg : list event),
    honest sc ->
    WF src ->
    Uniq kcls (Spec.elems src) ->
    len src <= cp ->
    wp (finally_drop (env_set sc) (visit_seq debug sc (List.map fst (Spec.elems src))))
       (fun (_ : unit) (w' : world key unit cstate) =>
          WF (self w') /\
          len (self w') = len src /\
          Uniq kcls (Spec.elems (self w')) /\
          (length (Spec.elems src) =? length (Spec.elems (self w'))) &&
          forallb (entry_ok_in kcls (fun _ _ : unit => true) (Spec.elems (self w')))
                  (Spec.elems src) = true)
       (fun _ : world key unit cstate => False)
       {| cb := s; log := lg; self := new_map cp |}.
Proof. exact serde_roundtrip_set. Qed.
Print Assumptions C20_serde_roundtrip_set.

(* FmtSerde.serde_roundtrip_set_eq                                             *)
Theorem C20_serde_roundtrip_set_eq :
  forall (sc : script) (src dst : map key unit) (w : world key unit cstate),
    honest sc ->
    WF src ->
    WF dst ->
    len dst = len src ->
    (length (Spec.elems src) =? length (Spec.elems dst)) &&
    forallb (entry_ok_in kcls (fun _ _ : unit => true) (Spec.elems dst)) (Spec.elems src) = true ->
    wp (map_eq (env_set sc) src dst)
       (fun (r : bool) (w' : world key unit cstate) => stable w w' /\ r = true)
       (fun _ : world key unit cstate => False)
       w.
Proof. exact serde_roundtrip_set_eq. Qed.
Print Assumptions C20_serde_roundtrip_set_eq.

(* -------------------------------------------------------------------------- *)
(* FmtSerde.serde_overflow                                                     *)
Theorem C20_serde_overflow :
  forall (debug : bool) (sc : script) (src : map key vobj) (cp : nat) (s : cstate) (lg : list event),
    honest sc ->
    WF src ->
    Uniq kcls (Spec.elems src) ->
    cp < len src ->
    wp (finally_drop (env_map sc) (visit_map debug sc (Spec.elems src)))
       (fun (_ : unit) (_ : world key vobj cstate) => False)
       (fun _ : world key vobj cstate => True)
       {| cb := s; log := lg; self := new_map cp |}.
Proof. exact serde_overflow. Qed.
Print Assumptions C20_serde_overflow.

(* -------------------------------------------------------------------------- *)
(* FmtSerde.env_map_lawful, env_set_lawful                                     *)
Theorem C20_env_map_lawful :
  forall sc : script, honest sc -> Lawful (env_map sc) kcls qcls.
Proof. exact env_map_lawful. Qed.
Print Assumptions C20_env_map_lawful.

Theorem C20_env_set_lawful :
  forall sc : script, honest sc -> Lawful (env_set sc) kcls qcls.
Proof. exact env_set_lawful. Qed.
Print Assumptions C20_env_set_lawful.

(* -------------------------------------------------------------------------- *)
(* Non-vacuity.  Source: m3 (Proofs/Legacy.v), 3 entries, capacity 3; a Set
   source C20_s2 with 2 elements.                                              *)
Definition C20_sc0 : script := {| sc_adv := false; sc_seed := 0; sc_fk := 0; sc_fa := 0 |}.
Definition C20_s2 : map key unit := {| len := 2; slots := [Some (k_ 1 5, tt); Some (k_ 3 6, tt)] |}.

Example C20_example_honest : honest C20_sc0.
Proof. split; reflexivity. Qed.

Example C20_example_WF_map : WF m3.
Proof. exact m3_WF. Qed.

Example C20_example_Uniq_map : Uniq kcls (Spec.elems m3).
Proof.
  unfold Uniq. vm_compute.
  repeat (constructor; [cbn [In]; intuition discriminate|]). constructor.
Qed.

Example C20_example_WF_set : WF C20_s2.
Proof.
  split; [cbn; lia|]. intros i Hi. cbn [len C20_s2] in Hi.
  destruct i as [|[|i]]; [eexists; reflexivity | eexists; reflexivity | lia].
Qed.

Example C20_example_Uniq_set : Uniq kcls (Spec.elems C20_s2).
Proof.
  unfold Uniq. vm_compute.
  repeat (constructor; [cbn [In]; intuition discriminate|]). constructor.
Qed.

Example C20_example_ser_len : length (Spec.elems m3) = 3 /\ len m3 = 3.
Proof. split; reflexivity. Qed.

(* round trip of m3 (capacity 3) into a target of capacity 4: fresh objects,
   same classes and payloads, nothing destroyed *)
Example C20_example_roundtrip :
  finally_drop (env_map C20_sc0) (visit_map false C20_sc0 (Spec.elems m3))
               {| cb := cs0; log := []; self := new_map 4 |} =
  Ok tt
     {| cb := {| n_eq := 3; n_clone := 0; n_call := 0; next_id := 100006 |};
        log := [];
        self := {| len := 3;
                   slots := [Some (k_ 100000 5, v_ 100001 7); Some (k_ 100002 6, v_ 100003 8);
                             Some (k_ 100004 7, v_ 100005 9); None] |} |}.
Proof. vm_compute. reflexivity. Qed.

(* ... and the crate's == between the original and the decoded container *)
Example C20_example_roundtrip_eq :
  match finally_drop (env_map C20_sc0) (visit_map false C20_sc0 (Spec.elems m3))
                     {| cb := cs0; log := []; self := new_map 4 |} with
  | Ok _ w' =>
      match map_eq (env_map C20_sc0) m3 (self w') (w_of m3) with
      | Ok b w'' => b = true /\ self w'' = m3 /\ log w'' = []
      | _ => False
      end
  | _ => False
  end.
Proof. vm_compute. repeat split. Qed.

(* target too small (capacity 2 < 3 entries): the visitor unwinds *)
Example C20_example_overflow :
  match finally_drop (env_map C20_sc0) (visit_map false C20_sc0 (Spec.elems m3))
                     {| cb := cs0; log := []; self := new_map 2 |} with
  | Panic _ => True
  | _ => False
  end.
Proof. vm_compute. exact I. Qed.

Example C20_example_roundtrip_set :
  finally_drop (env_set C20_sc0) (visit_seq false C20_sc0 (List.map fst (Spec.elems C20_s2)))
               {| cb := cs0; log := []; self := new_map 3 |} =
  Ok tt
     {| cb := {| n_eq := 1; n_clone := 0; n_call := 0; next_id := 100002 |};
        log := [];
        self := {| len := 2; slots := [Some (k_ 100000 5, tt); Some (k_ 100001 6, tt); None] |} |}.
Proof. vm_compute. reflexivity. Qed.

(* ========================================================================== *)
(* APPENDED SECTION (audit findings on C20) — Proofs/MoreFmt.v
   ========================================================================== *)
Require Import Proofs.IterSpec.
Require Import Proofs.MoreFmt.

(* -------------------------------------------------------------------------- *)
(* "serializing any Map or Set emits exactly len() entries" — tied to the iteration protocol.
   The serializer is
     let mut m = s.serialize_map(Some(self.len()))?;
     for (k, v) in self.iter() { m.serialize_entry(k, v)?; }   m.end()
   In the interpreter (ops OSerde / SSerde) the announced length is [len src] and the emitted
   sequence is [Exec.elems src] (a Set emits [List.map fst] of it).  For every well-formed
   source (any value type: Map and Set; any world w whose container is src): running iter()
   and next() [len src] times yields the slots 0..len-1, each once, in order, after which the
   iterator is exhausted; the world is unchanged (serializing changes nothing); the entries
   held by the yielded slots are, in order, exactly the emitted list; that list is the
   specification's [Spec.elems src]; its length is the announced [len src]. *)
Theorem C20_ser_emits :
  forall (V T : Type) (src : map key V) (w : world key V T),
    WF src -> self w = src ->
    wp (c <- iter ;; iter_run (len src) c)
       (fun (r : list nat * cursor) (w' : world key V T) =>
          w' = w /\ fst r = seq 0 (len src) /\ cursor_len (snd r) = 0 /\
          List.map (fun i : nat => nth_error (slots src) i) (fst r) =
          List.map (fun p : key * V => Some (Some p)) (Exec.elems src) /\
          Exec.elems src = Spec.elems src /\
          length (Exec.elems src) = len src)
       (fun _ : world key V T => False) w.
Proof. exact (@ser_emits). Qed.
Print Assumptions C20_ser_emits.

(* -------------------------------------------------------------------------- *)
(* "deserializing that output into a container of sufficient capacity yields one equal to the
   original, for every content and internal order" — ONE theorem: decode, then compare with the
   crate's own ==.
   Quantification: the honest script; EVERY well-formed source with pairwise different keys —
   any content, any internal (slot) order, any capacity of the source; NOT only sources built
   by a particular history (every state reachable under a lawful == satisfies WF and Uniq:
   C02/C04, C01/C05) —; every target capacity cp >= len src; both build modes; any callback
   state s and log lg.  The visited list is the term op OSerde passes, [Exec.elems src].
   Conclusion: no panic, no UB; == returns true; the decoded container (still the register:
   == does not touch it) is well formed, has the source's length, the target capacity cp,
   pairwise different keys; nothing was logged (no object dropped or cloned).
   [Uniq] cannot be dropped: a source holding the same key twice would decode to a shorter map. *)
Theorem C20_serde_roundtrip_map_equal :
  forall (debug : bool) (sc : script) (src : map key vobj) (cp : nat) (s : cstate) (lg : list event),
    honest sc -> WF src -> Uniq kcls (Spec.elems src) -> len src <= cp ->
    wp (_ <- finally_drop (env_map sc) (visit_map debug sc (Exec.elems src)) ;;
        m' <- get_self ;;
        map_eq (env_map sc) src m')
       (fun (r : bool) (w' : world key vobj cstate) =>
          r = true /\
          WF (self w') /\ len (self w') = len src /\ cap (self w') = cp /\
          Uniq kcls (Spec.elems (self w')) /\ log w' = lg)
       (fun _ : world key vobj cstate => False)
       {| cb := s; log := lg; self := new_map cp |}.
Proof. exact serde_roundtrip_map_equal. Qed.
Print Assumptions C20_serde_roundtrip_map_equal.

Theorem C20_serde_roundtrip_set_equal :
  forall (debug : bool) (sc : script) (src : map key unit) (cp : nat) (s : cstate) (lg : list event),
    honest sc -> WF src -> Uniq kcls (Spec.elems src) -> len src <= cp ->
    wp (_ <- finally_drop (env_set sc) (visit_seq debug sc (List.map fst (Exec.elems src))) ;;
        m' <- get_self ;;
        map_eq (env_set sc) src m')
       (fun (r : bool) (w' : world key unit cstate) =>
          r = true /\
          WF (self w') /\ len (self w') = len src /\ cap (self w') = cp /\
          Uniq kcls (Spec.elems (self w')) /\ log w' = lg)
       (fun _ : world key unit cstate => False)
       {| cb := s; log := lg; self := new_map cp |}.
Proof. exact serde_roundtrip_set_equal. Qed.
Print Assumptions C20_serde_roundtrip_set_equal.

(* -------------------------------------------------------------------------- *)
(* "capacities of source and target" — insufficient capacity, the Set twin of
   C20_serde_overflow: if cp < len src the visitor never returns normally (the insert into the
   full local set panics) and the unwinding, which destroys the partly built set, is free of UB. *)
Theorem C20_serde_overflow_set :
  forall (debug : bool) (sc : script) (src : map key unit) (cp : nat) (s : cstate) (lg : list event),
    honest sc -> WF src -> Uniq kcls (Spec.elems src) -> cp < len src ->
    wp (finally_drop (env_set sc) (visit_seq debug sc (List.map fst (Spec.elems src))))
       (fun (_ : unit) (_ : world key unit cstate) => False)
       (fun _ : world key unit cstate => True)
       {| cb := s; log := lg; self := new_map cp |}.
Proof. exact serde_overflow_set. Qed.
Print Assumptions C20_serde_overflow_set.

(* both overflow theorems on the term the interpreter really passes ([Exec.elems src]) *)
Theorem C20_serde_overflow_map_exec :
  forall (debug : bool) (sc : script) (src : map key vobj) (cp : nat) (s : cstate) (lg : list event),
    honest sc -> WF src -> Uniq kcls (Spec.elems src) -> cp < len src ->
    wp (finally_drop (env_map sc) (visit_map debug sc (Exec.elems src)))
       (fun (_ : unit) (_ : world key vobj cstate) => False)
       (fun _ : world key vobj cstate => True)
       {| cb := s; log := lg; self := new_map cp |}.
Proof. exact serde_overflow_map_exec. Qed.
Print Assumptions C20_serde_overflow_map_exec.

Theorem C20_serde_overflow_set_exec :
  forall (debug : bool) (sc : script) (src : map key unit) (cp : nat) (s : cstate) (lg : list event),
    honest sc -> WF src -> Uniq kcls (Spec.elems src) -> cp < len src ->
    wp (finally_drop (env_set sc) (visit_seq debug sc (List.map fst (Exec.elems src))))
       (fun (_ : unit) (_ : world key unit cstate) => False)
       (fun _ : world key unit cstate => True)
       {| cb := s; log := lg; self := new_map cp |}.
Proof. exact serde_overflow_set_exec. Qed.
Print Assumptions C20_serde_overflow_set_exec.

(* -------------------------------------------------------------------------- *)
(* Non-vacuity (C20_sc0, m3, C20_s2 and their WF / Uniq / honest examples are above). *)

(* the serializer's walk over m3: slots 0, 1, 2, world unchanged *)
Example C20_example_ser_emits :
  (c <- iter ;; iter_run (len m3) c) (w_of m3) = Ok ([0; 1; 2], (3, 3)) (w_of m3) /\
  Exec.elems m3 = [(k_ 1 5, v_ 2 7); (k_ 3 6, v_ 4 8); (k_ 5 7, v_ 6 9)].
Proof. split; vm_compute; reflexivity. Qed.

(* an internal order that no insertion-only history produces (the state after removing the
   first of four entries: the last one took its place) round-trips as well *)
Definition C20_m3swap : map key vobj :=
  {| len := 3; slots := [Some (k_ 5 7, v_ 6 9); Some (k_ 3 6, v_ 4 8); Some (k_ 1 5, v_ 2 7); None] |}.

Example C20_example_WF_swap : WF C20_m3swap.
Proof.
  split; [cbn; lia|]. intros i Hi. cbn [len C20_m3swap] in Hi.
  destruct i as [|[|[|i]]]; try lia; eexists; reflexivity.
Qed.

Example C20_example_Uniq_swap : Uniq kcls (Spec.elems C20_m3swap).
Proof.
  unfold Uniq. vm_compute.
  repeat (constructor; [cbn [In]; intuition discriminate|]). constructor.
Qed.

Example C20_example_roundtrip_equal :
  match (_ <- finally_drop (env_map C20_sc0) (visit_map false C20_sc0 (Exec.elems C20_m3swap)) ;;
         m' <- get_self ;; map_eq (env_map C20_sc0) C20_m3swap m')
        {| cb := cs0; log := []; self := new_map 5 |} with
  | Ok r w' => r = true /\ len (self w') = 3 /\ cap (self w') = 5 /\ log w' = []
  | _ => False
  end.
Proof. vm_compute. repeat split. Qed.

Example C20_example_roundtrip_set_equal :
  match (_ <- finally_drop (env_set C20_sc0) (visit_seq false C20_sc0 (List.map fst (Exec.elems C20_s2))) ;;
         m' <- get_self ;; map_eq (env_set C20_sc0) C20_s2 m')
        {| cb := cs0; log := []; self := new_map 2 |} with
  | Ok r w' => r = true /\ len (self w') = 2 /\ log w' = []
  | _ => False
  end.
Proof. vm_compute. repeat split. Qed.

(* Set target too small (capacity 1 < 2 elements): the visitor unwinds *)
Example C20_example_overflow_set :
  match finally_drop (env_set C20_sc0) (visit_seq false C20_sc0 (List.map fst (Spec.elems C20_s2)))
                     {| cb := cs0; log := []; self := new_map 1 |} with
  | Panic _ => True
  | _ => False
  end.
Proof. vm_compute. exact I. Qed.

(* ========================================================================== *)
(* APPENDED SECTION, ROUND 2 (second audit) — Proofs/MoreFmt.v, part "ROUND 2"
   ========================================================================== *)
(* The model has NO serializer function: op OSerde r r' of the interpreter (Exec.step) reads
   the source register src = get_m r x, prints the pair [len src; length (Exec.elems src)]
   (the length the serializer announces; the number of entries it emits) and runs the visitor
   on Exec.elems src into a fresh container of the TARGET register's capacity, which then
   replaces register r' (the old value of r' is destroyed).  The theorems below are about
   that step, i.e. about the observation the correspondence check compares with the real
   crate built with --features serde.
     WFx x        — all four registers hold well-formed containers and the interpreter is not
                    dead (ExecSafe; preserved by every step: C02);
     get_m r x    — map register r (0 or 1), get_s r x — set register r (2 or 3);
     same_m r r'  — r and r' name the same map register (MoreEq), same_s for sets;
     mview / sview — the (class, payload) / class list of a register, in slot order (ExecView);
     post_m / post_s — the rendering of a register in an observation; events lg — the sorted
                    drop / clone identities of the log lg. *)
Require Import Proofs.ExecSafe Proofs.ExecUniq Proofs.ExecView Proofs.MoreEq.

(* -------------------------------------------------------------------------- *)
(* "serializing any Map or Set emits exactly len() entries", at the level the correspondence
   check compares.  Honest script, WFx state, source with pairwise different keys, target
   register large enough (so that the step returns normally):
   - the observation is 1 (normal return), len src (announced), len src (emitted), then the
     new content of the target register and the events;
   - the target register afterwards is well formed, keeps its capacity, has the source's
     length, pairwise different keys and the same (class, payload) list in the same order;
   - it compares equal to the source with the crate's ==, in BOTH directions, from any world,
     == changing nothing;
   - if r' is another register than r the source register is literally unchanged;
   - the interpreter is not dead. *)
Theorem C20_step_OSerde_ok :
  forall (debug : bool) (sc : script) (r r' : N) (x : xworld),
    honest sc -> WFx x -> Uniq kcls (Spec.elems (get_m r x)) -> len (get_m r x) <= cap (get_m r' x) ->
    let src := get_m r x in
    let res := step debug sc (OSerde r r') x in
    let m' := get_m r' (snd res) in
    (exists lg : list event, fst res = [1%N; nn (len src); nn (len src)] ++ post_m m' ++ events lg) /\
    WF m' /\ cap m' = cap (get_m r' x) /\ len m' = len src /\ Uniq kcls (Spec.elems m') /\
    mview m' = mview src /\
    (forall w : world key vobj cstate, exists w1 w2 : world key vobj cstate,
        map_eq (env_map sc) src m' w = Ok true w1 /\ map_eq (env_map sc) m' src w = Ok true w2 /\
        stable w w1 /\ stable w w2) /\
    (~ same_m r' r -> get_m r (snd res) = src) /\
    xdead (snd res) = false.
Proof. exact step_OSerde_ok. Qed.
Print Assumptions C20_step_OSerde_ok.

Theorem C20_step_SSerde_ok :
  forall (debug : bool) (sc : script) (r r' : N) (x : xworld),
    honest sc -> WFx x -> Uniq kcls (Spec.elems (get_s r x)) -> len (get_s r x) <= cap (get_s r' x) ->
    let src := get_s r x in
    let res := step debug sc (SSerde r r') x in
    let m' := get_s r' (snd res) in
    (exists lg : list event, fst res = [1%N; nn (len src); nn (len src)] ++ post_s m' ++ events lg) /\
    WF m' /\ cap m' = cap (get_s r' x) /\ len m' = len src /\ Uniq kcls (Spec.elems m') /\
    sview m' = sview src /\
    (forall w : world key unit cstate, exists w1 w2 : world key unit cstate,
        map_eq (env_set sc) src m' w = Ok true w1 /\ map_eq (env_set sc) m' src w = Ok true w2 /\
        stable w w1 /\ stable w w2) /\
    (~ same_s r' r -> get_s r (snd res) = src) /\
    xdead (snd res) = false.
Proof. exact step_SSerde_ok. Qed.
Print Assumptions C20_step_SSerde_ok.

(* the announced / emitted prefix alone *)
Theorem C20_step_OSerde_emits :
  forall (debug : bool) (sc : script) (r r' : N) (x : xworld),
    honest sc -> WFx x -> Uniq kcls (Spec.elems (get_m r x)) -> len (get_m r x) <= cap (get_m r' x) ->
    exists t : list N,
      fst (step debug sc (OSerde r r') x) = 1%N :: nn (len (get_m r x)) :: nn (len (get_m r x)) :: t.
Proof. exact step_OSerde_emits. Qed.
Print Assumptions C20_step_OSerde_emits.

Theorem C20_step_SSerde_emits :
  forall (debug : bool) (sc : script) (r r' : N) (x : xworld),
    honest sc -> WFx x -> Uniq kcls (Spec.elems (get_s r x)) -> len (get_s r x) <= cap (get_s r' x) ->
    exists t : list N,
      fst (step debug sc (SSerde r r') x) = 1%N :: nn (len (get_s r x)) :: nn (len (get_s r x)) :: t.
Proof. exact step_SSerde_emits. Qed.
Print Assumptions C20_step_SSerde_emits.

(* -------------------------------------------------------------------------- *)
(* both directions of == in the one-theorem round trip: original == decoded AND
   decoded == original (C14 symmetry of the boolean, EqClone.map_eq_sym) *)
Theorem C20_serde_roundtrip_map_equal_sym :
  forall (debug : bool) (sc : script) (src : map key vobj) (cp : nat) (s : cstate) (lg : list event),
    honest sc -> WF src -> Uniq kcls (Spec.elems src) -> len src <= cp ->
    wp (_ <- finally_drop (env_map sc) (visit_map debug sc (Exec.elems src)) ;;
        m' <- get_self ;;
        r1 <- map_eq (env_map sc) src m' ;;
        r2 <- map_eq (env_map sc) m' src ;;
        ret (r1, r2))
       (fun (r : bool * bool) (w' : world key vobj cstate) =>
          r = (true, true) /\
          WF (self w') /\ len (self w') = len src /\ cap (self w') = cp /\
          Uniq kcls (Spec.elems (self w')) /\ log w' = lg)
       (fun _ : world key vobj cstate => False)
       {| cb := s; log := lg; self := new_map cp |}.
Proof. exact serde_roundtrip_map_equal_sym. Qed.
Print Assumptions C20_serde_roundtrip_map_equal_sym.

Theorem C20_serde_roundtrip_set_equal_sym :
  forall (debug : bool) (sc : script) (src : map key unit) (cp : nat) (s : cstate) (lg : list event),
    honest sc -> WF src -> Uniq kcls (Spec.elems src) -> len src <= cp ->
    wp (_ <- finally_drop (env_set sc) (visit_seq debug sc (List.map fst (Exec.elems src))) ;;
        m' <- get_self ;;
        r1 <- map_eq (env_set sc) src m' ;;
        r2 <- map_eq (env_set sc) m' src ;;
        ret (r1, r2))
       (fun (r : bool * bool) (w' : world key unit cstate) =>
          r = (true, true) /\
          WF (self w') /\ len (self w') = len src /\ cap (self w') = cp /\
          Uniq kcls (Spec.elems (self w')) /\ log w' = lg)
       (fun _ : world key unit cstate => False)
       {| cb := s; log := lg; self := new_map cp |}.
Proof. exact serde_roundtrip_set_equal_sym. Qed.
Print Assumptions C20_serde_roundtrip_set_equal_sym.

(* -------------------------------------------------------------------------- *)
(* two steps of the interpreter: OSerde r r' into ANOTHER register, then == in either
   direction: the source register is unchanged, the comparison returns normally (first 1)
   and answers true (second 1) *)
Theorem C20_step_OSerde_then_OEq :
  forall (debug : bool) (sc : script) (r r' : N) (x : xworld),
    honest sc -> WFx x -> Uniq kcls (Spec.elems (get_m r x)) -> len (get_m r x) <= cap (get_m r' x) ->
    ~ same_m r' r ->
    let x1 := snd (step debug sc (OSerde r r') x) in
    get_m r x1 = get_m r x /\
    (exists t : list N, fst (step debug sc (OEq r r') x1) = 1%N :: 1%N :: t) /\
    (exists t : list N, fst (step debug sc (OEq r' r) x1) = 1%N :: 1%N :: t).
Proof. exact step_OSerde_then_OEq. Qed.
Print Assumptions C20_step_OSerde_then_OEq.

Theorem C20_step_SSerde_then_SEq :
  forall (debug : bool) (sc : script) (r r' : N) (x : xworld),
    honest sc -> WFx x -> Uniq kcls (Spec.elems (get_s r x)) -> len (get_s r x) <= cap (get_s r' x) ->
    ~ same_s r' r ->
    let x1 := snd (step debug sc (SSerde r r') x) in
    get_s r x1 = get_s r x /\
    (exists t : list N, fst (step debug sc (SEq r r') x1) = 1%N :: 1%N :: t) /\
    (exists t : list N, fst (step debug sc (SEq r' r) x1) = 1%N :: 1%N :: t).
Proof. exact step_SSerde_then_SEq. Qed.
Print Assumptions C20_step_SSerde_then_SEq.

(* -------------------------------------------------------------------------- *)
(* Non-vacuity: an interpreter state with m3 in map register 0, an empty map of capacity 4 in
   register 1 (holding one stale entry would do as well), the set C20_s2 in set register 2 and
   an empty set of capacity 3 in register 3. *)
Definition C20_x0 : xworld :=
  {| xcb := cs0; xm0 := m3; xm1 := new_map 4; xs0 := C20_s2; xs1 := new_map 3; xdead := false |}.

Example C20_example_WFx : WFx C20_x0.
Proof.
  unfold WFx, C20_x0. cbn [xm0 xm1 xs0 xs1 xdead].
  split; [exact m3_WF|]. split; [apply WF_new|]. split; [exact C20_example_WF_set|].
  split; [apply WF_new | reflexivity].
Qed.

Example C20_example_step_hyps :
  Uniq kcls (Spec.elems (get_m 0 C20_x0)) /\ len (get_m 0 C20_x0) <= cap (get_m 1 C20_x0) /\ ~ same_m 1 0 /\
  Uniq kcls (Spec.elems (get_s 2 C20_x0)) /\ len (get_s 2 C20_x0) <= cap (get_s 3 C20_x0) /\ ~ same_s 3 2.
Proof.
  split; [exact C20_example_Uniq_map|]. split; [vm_compute; lia|]. split; [unfold same_m; discriminate|].
  split; [exact C20_example_Uniq_set|]. split; [vm_compute; lia|]. unfold same_s; discriminate.
Qed.

(* the whole observation of OSerde 0 1: 1, announced 3, emitted 3, then register 1
   (7777 len 3 cap 4, three fresh entries of the same classes and payloads), no event *)
Example C20_example_step_OSerde :
  fst (step false C20_sc0 (OSerde 0 1) C20_x0) =
  [1; 3; 3; 7777; 3; 4; 100000; 5; 100001; 7; 100002; 6; 100003; 8; 100004; 7; 100005; 9; 8888; 8889]%N /\
  get_m 0 (snd (step false C20_sc0 (OSerde 0 1) C20_x0)) = m3.
Proof. split; vm_compute; reflexivity. Qed.

Example C20_example_step_SSerde :
  fst (step false C20_sc0 (SSerde 2 3) C20_x0) =
  [1; 2; 2; 7777; 2; 3; 100000; 5; 100001; 6; 8888; 8889]%N.
Proof. vm_compute. reflexivity. Qed.

Example C20_example_step_then_eq :
  let x1 := snd (step false C20_sc0 (OSerde 0 1) C20_x0) in
  firstn 2 (fst (step false C20_sc0 (OEq 0 1) x1)) = [1; 1]%N /\
  firstn 2 (fst (step false C20_sc0 (OEq 1 0) x1)) = [1; 1]%N.
Proof. split; vm_compute; reflexivity. Qed.

(* ========================================================================== *)
(* APPENDED SECTION (streaming access object) — Model/Stream.v, Proofs/StreamSpec.v
   The visitor loop of src/serialization.rs / src/set/serialization.rs against an access object that answers
   each poll with an entry, the end, or an ERROR, and whose polls are counted (a streaming format consumes its
   end marker: polling again after None / Err is not covered by serde's contract).  Stream.decode = the loop
   under finally_drop (a panic unwinds through the local container), then on Err one ordinary drop of the local
   container (drop_map) after the loop.
   * the access object is polled exactly (number of leading entries + 1) times and never after it reported the
     end or failed: C20_pull_*, C20_visit_stream_eq, C20_visit_stream_polls;
   * safety for EVERY environment (any ==, Clone, Drop, panics anywhere; any stream):
     C20_keeps_inserts, C20_keeps_visit_stream, C20_visit_stream_spec,
     C20_decode_noUB (decode never reaches UB), C20_decode_safe (Ok (ROk, _): well-formed container of the same
     capacity; Ok (RErr, _) or Panic: the array is the same array, no slot outside it was touched),
     C20_keeps_decode_ok (a stream that does not fail returns ROk with a well-formed container),
     C20_decode_err_quiet (a stream that fails: Err, every slot of the prefix emptied, provided no destructor
     panics);
   * lawful environments: C20_inserts_lawful(_log), C20_decode_ok_lawful, C20_decode_err_lawful (list machine and
     the exact destructor log);
   * NOT claimed, because false of the model (and of the crate: Drop for Map does not reset len): WF or len = 0
     of what [self] holds after Err / after a panic -- it is the dropped husk of the local container (live
     prefix emptied, len unchanged): C20_keeps_decode_false_err, C20_keeps_decode_false_panic,
     C20_example_decode_err (len = 1).  The true statement is elems = [] / every prefix slot = Some None.
   * a destructor that panics during the drop on the Err path: panic, the remaining entries are leaked, nothing
     is dropped twice: C20_example_decode_drop_panic, C20_example_decode_drop_panic_leak. *)
(* ========================================================================== *)
Require Import Model.Stream.
Require Import Proofs.Lawful2 Proofs.Lawful3 Proofs.Bulk Proofs.StreamSpec.

Theorem C20_pull_polls :
  forall (K V : Type) (s : @stream K V), polls (snd (pull s)) = S (polls s).
Proof. exact (@pull_polls). Qed.
Print Assumptions C20_pull_polls.

Theorem C20_pull_late_fresh :
  forall (K V : Type) (s : @stream K V), finished s = false -> late (snd (pull s)) = late s.
Proof. exact (@pull_late_fresh). Qed.
Print Assumptions C20_pull_late_fresh.

Theorem C20_pull_late_after :
  forall (K V : Type) (s : @stream K V),
    finished s = true -> late (snd (pull s)) = S (late s) /\ fst (pull s) = SEnd.
Proof. exact (@pull_late_after). Qed.
Print Assumptions C20_pull_late_after.

Theorem C20_pull_item :
  forall (K V : Type) (s : @stream K V) (k : K) (v : V),
    fst (pull s) = SItem k v ->
    finished s = false /\ finished (snd (pull s)) = false /\
    exists rest : list (@sans K V), todo s = SItem k v :: rest /\ todo (snd (pull s)) = rest.
Proof. exact (@pull_item). Qed.
Print Assumptions C20_pull_item.

Theorem C20_pull_stop :
  forall (K V : Type) (s : @stream K V),
    finished s = false -> (forall (k : K) (v : V), fst (pull s) <> SItem k v) -> finished (snd (pull s)) = true.
Proof. exact (@pull_stop). Qed.
Print Assumptions C20_pull_stop.

(* the equation is pointwise (at every world): M A is a function type and no extensionality axiom is used *)
Theorem C20_visit_stream_eq :
  forall (K V Q T : Type) (E : env K V Q T) (debug : bool) (fuel : nat) (s : @stream K V) (w : world K V T),
    finished s = false ->
    length (todo s) < fuel ->
    visit_stream E debug fuel s w =
    bind (inserts E debug (lead (todo s)))
         (fun _ : unit =>
            ret (stop (todo s),
                 {| todo := skipn (S (length (lead (todo s)))) (todo s); finished := true;
                    polls := polls s + S (length (lead (todo s))); late := late s |})) w.
Proof. exact (@visit_stream_eq). Qed.
Print Assumptions C20_visit_stream_eq.

Theorem C20_visit_stream_polls :
  forall (K V Q T : Type) (E : env K V Q T) (debug : bool) (fuel : nat) (s : @stream K V) (w : world K V T)
         (r : sres) (s' : @stream K V) (w' : world K V T),
    finished s = false ->
    late s = 0 ->
    length (todo s) < fuel ->
    visit_stream E debug fuel s w = Ok (r, s') w' ->
    finished s' = true /\ late s' = 0 /\ polls s' = polls s + S (length (lead (todo s))) /\ r = stop (todo s).
Proof. exact (@visit_stream_polls). Qed.
Print Assumptions C20_visit_stream_polls.

Theorem C20_visit_stream_finished :
  forall (K V Q T : Type) (E : env K V Q T) (debug : bool) (fuel : nat) (s : @stream K V) (w : world K V T),
    finished s = true ->
    visit_stream E debug (S fuel) s w =
    Ok (ROk, {| todo := todo s; finished := true; polls := S (polls s); late := S (late s) |}) w.
Proof. exact (@visit_stream_finished). Qed.
Print Assumptions C20_visit_stream_finished.

Theorem C20_keeps_inserts :
  forall (K V Q T : Type) (E : env K V Q T) (debug : bool) (items : list (K * V)), keeps (inserts E debug items).
Proof. exact (@keeps_inserts). Qed.
Print Assumptions C20_keeps_inserts.

Theorem C20_keeps_visit_stream :
  forall (K V Q T : Type) (E : env K V Q T) (debug : bool) (fuel : nat) (s : @stream K V),
    keeps (visit_stream E debug fuel s).
Proof. exact (@keeps_visit_stream). Qed.
Print Assumptions C20_keeps_visit_stream.

Theorem C20_visit_stream_spec :
  forall (K V Q T : Type) (E : env K V Q T) (debug : bool) (fuel : nat) (s : @stream K V) (w : world K V T),
    finished s = false ->
    length (todo s) < fuel ->
    WF (self w) ->
    wp (visit_stream E debug fuel s)
       (fun (r : sres * @stream K V) (w' : world K V T) =>
          inv_post w w' /\
          fst r = stop (todo s) /\
          finished (snd r) = true /\
          late (snd r) = late s /\
          polls (snd r) = polls s + S (length (lead (todo s))) /\
          todo (snd r) = skipn (S (length (lead (todo s)))) (todo s))
       (inv_post w) w.
Proof. exact (@visit_stream_spec). Qed.
Print Assumptions C20_visit_stream_spec.

(* EVERY environment, every stream: no UB; ROk hands over a well-formed container of the same capacity; after
   Err (the local container has been dropped) and after a panic (it has been destroyed by the unwinding) the
   array is still the same array *)
Theorem C20_decode_safe :
  forall (K V Q T : Type) (E : env K V Q T) (debug : bool) (s : @stream K V) (w : world K V T),
    WF (self w) ->
    wp (Stream.decode E debug s)
       (fun (r : sres * @stream K V) (w' : world K V T) =>
          match fst r with
          | ROk => inv_post w w'
          | RErr => cap (self w') = cap (self w) /\ length (slots (self w')) = length (slots (self w))
          end)
       (fun w' : world K V T =>
          cap (self w') = cap (self w) /\ length (slots (self w')) = length (slots (self w))) w.
Proof. exact (@decode_safe). Qed.
Print Assumptions C20_decode_safe.

Theorem C20_decode_noUB :
  forall (K V Q T : Type) (E : env K V Q T) (debug : bool) (s : @stream K V) (w : world K V T),
    WF (self w) -> finished s = false -> Stream.decode E debug s w <> UB.
Proof. exact (@decode_noUB). Qed.
Print Assumptions C20_decode_noUB.

(* replaces "keeps_decode" (false: see the counterexamples below) *)
Theorem C20_keeps_decode_ok :
  forall (K V Q T : Type) (E : env K V Q T) (debug : bool) (s : @stream K V) (w : world K V T),
    finished s = true \/ stop (todo s) = ROk ->
    WF (self w) ->
    wp (Stream.decode E debug s)
       (fun (r : sres * @stream K V) (w' : world K V T) => inv_post w w' /\ fst r = ROk /\ finished (snd r) = true)
       (fun w' : world K V T =>
          cap (self w') = cap (self w) /\ length (slots (self w')) = length (slots (self w))) w.
Proof. exact (@keeps_decode_ok). Qed.
Print Assumptions C20_keeps_decode_ok.

Theorem C20_decode_err_quiet :
  forall (K V Q T : Type) (E : env K V Q T) (debug : bool) (s : @stream K V) (w : world K V T),
    drops_quiet E ->
    WF (self w) ->
    finished s = false ->
    stop (todo s) = RErr ->
    wp (Stream.decode E debug s)
       (fun (r : sres * @stream K V) (w' : world K V T) =>
          fst r = RErr /\
          finished (snd r) = true /\
          late (snd r) = late s /\
          polls (snd r) = polls s + S (length (lead (todo s))) /\
          cap (self w') = cap (self w) /\
          Spec.elems (self w') = [] /\
          (forall j : nat, j < len (self w') -> nth_error (slots (self w')) j = Some None))
       (fun w' : world K V T =>
          cap (self w') = cap (self w) /\ length (slots (self w')) = length (slots (self w))) w.
Proof. exact (@decode_err_quiet). Qed.
Print Assumptions C20_decode_err_quiet.

Theorem C20_inserts_lawful :
  forall (K V Q T : Type) (E : env K V Q T) (debug : bool) (ck : K -> N) (cq : Q -> N),
    Lawful E ck cq ->
    forall (items : list (K * V)) (w : world K V T),
      WF (self w) ->
      wp (inserts E debug items)
         (fun (_ : unit) (w' : world K V T) =>
            WF (self w') /\
            cap (self w') = cap (self w) /\
            Spec.elems (self w') =
            fold_left (fun (l : list (K * V)) (kv : K * V) => fst (fst (l_insert ck l (fst kv) (snd kv) false)))
                      items (Spec.elems (self w)))
         (fun w' : world K V T => WF (self w') /\ cap (self w') = cap (self w)) w.
Proof. exact (@inserts_lawful). Qed.
Print Assumptions C20_inserts_lawful.

Theorem C20_inserts_lawful_log :
  forall (K V Q T : Type) (E : env K V Q T) (debug : bool) (ck : K -> N) (cq : Q -> N),
    Lawful E ck cq ->
    forall (items : list (K * V)) (w : world K V T),
      WF (self w) ->
      wp (inserts E debug items)
         (fun (_ : unit) (w' : world K V T) =>
            WF (self w') /\
            cap (self w') = cap (self w) /\
            Spec.elems (self w') =
            fold_left (fun (l : list (K * V)) (kv : K * V) => fst (fst (l_insert ck l (fst kv) (snd kv) false)))
                      items (Spec.elems (self w)) /\
            logged w w' (ins_evs E ck (Spec.elems (self w)) items))
         (fun w' : world K V T => WF (self w') /\ cap (self w') = cap (self w)) w.
Proof. exact (@inserts_lawful_log). Qed.
Print Assumptions C20_inserts_lawful_log.

Theorem C20_decode_ok_lawful :
  forall (K V Q T : Type) (E : env K V Q T) (debug : bool) (ck : K -> N) (cq : Q -> N),
    Lawful E ck cq ->
    forall (s : @stream K V) (w : world K V T),
      WF (self w) ->
      finished s = false ->
      stop (todo s) = ROk ->
      wp (Stream.decode E debug s)
         (fun (r : sres * @stream K V) (w' : world K V T) =>
            fst r = ROk /\
            finished (snd r) = true /\
            late (snd r) = late s /\
            Spec.elems (self w') =
            fold_left (fun (l : list (K * V)) (kv : K * V) => fst (fst (l_insert ck l (fst kv) (snd kv) false)))
                      (lead (todo s)) (Spec.elems (self w)) /\
            polls (snd r) = polls s + S (length (lead (todo s))) /\
            WF (self w') /\
            cap (self w') = cap (self w) /\
            logged w w' (ins_evs E ck (Spec.elems (self w)) (lead (todo s))))
         (fun _ : world K V T => True) w.
Proof. exact (@decode_ok_lawful). Qed.
Print Assumptions C20_decode_ok_lawful.

(* "len (self w') = 0" is false of the model (drop_map keeps the length field); stated instead: the container
   owns nothing (elems = [], every prefix slot emptied) and the log lists what was destroyed *)
Theorem C20_decode_err_lawful :
  forall (K V Q T : Type) (E : env K V Q T) (debug : bool) (ck : K -> N) (cq : Q -> N),
    Lawful E ck cq ->
    forall (s : @stream K V) (w : world K V T),
      WF (self w) ->
      finished s = false ->
      stop (todo s) = RErr ->
      wp (Stream.decode E debug s)
         (fun (r : sres * @stream K V) (w' : world K V T) =>
            fst r = RErr /\
            finished (snd r) = true /\
            late (snd r) = late s /\
            Spec.elems (self w') = [] /\
            (forall j : nat, j < len (self w') -> nth_error (slots (self w')) j = Some None) /\
            len (self w') =
            length (fold_left (fun (l : list (K * V)) (kv : K * V) => fst (fst (l_insert ck l (fst kv) (snd kv) false)))
                              (lead (todo s)) (Spec.elems (self w))) /\
            cap (self w') = cap (self w) /\
            polls (snd r) = polls s + S (length (lead (todo s))) /\
            logged w w'
              (ins_evs E ck (Spec.elems (self w)) (lead (todo s)) ++
               flat_map (fun p : K * V => ev_drops (idK E (fst p) ++ idV E (snd p)))
                 (fold_left (fun (l : list (K * V)) (kv : K * V) => fst (fst (l_insert ck l (fst kv) (snd kv) false)))
                            (lead (todo s)) (Spec.elems (self w)))))
         (fun _ : world K V T => True) w.
Proof. exact (@decode_err_lawful). Qed.
Print Assumptions C20_decode_err_lawful.

(* -------------------------------------------------------------------------- *)
(* Non-vacuity on env_map with the honest script (sx_sc0 = C20_sc0) *)
Example C20_example_stream_sc : sx_sc0 = C20_sc0.
Proof. reflexivity. Qed.

Example C20_example_stream_hyps :
  Lawful (env_map C20_sc0) kcls qcls /\
  WF (self (sx_w 4)) /\ finished sx_st_ok = false /\ stop (todo sx_st_ok) = ROk /\
  finished sx_st_err = false /\ stop (todo sx_st_err) = RErr /\
  lead (todo sx_st_ok) = [(k_ 1 5, v_ 2 7); (k_ 3 6, v_ 4 8)].
Proof. split; [exact example_lawful | exact example_hyps]. Qed.

Example C20_example_decode_ok :
  Stream.decode (env_map C20_sc0) false
    {| todo := [SItem (k_ 1 5) (v_ 2 7); SItem (k_ 3 6) (v_ 4 8); SEnd; SItem (k_ 5 9) (v_ 6 1)];
       finished := false; polls := 0; late := 0 |}
    {| cb := cs0; log := []; self := new_map 4 |} =
  Ok (ROk, {| todo := [SItem (k_ 5 9) (v_ 6 1)]; finished := true; polls := 3; late := 0 |})
     {| cb := {| n_eq := 1; n_clone := 0; n_call := 0; next_id := 100000 |};
        log := [];
        self := {| len := 2; slots := [Some (k_ 1 5, v_ 2 7); Some (k_ 3 6, v_ 4 8); None; None] |} |}.
Proof. exact example_decode_ok. Qed.

Example C20_example_decode_err :
  Stream.decode (env_map C20_sc0) false
    {| todo := [SItem (k_ 1 5) (v_ 2 7); SFail; SItem (k_ 3 6) (v_ 4 8)];
       finished := false; polls := 0; late := 0 |}
    {| cb := cs0; log := []; self := new_map 4 |} =
  Ok (RErr, {| todo := [SItem (k_ 3 6) (v_ 4 8)]; finished := true; polls := 2; late := 0 |})
     {| cb := cs0;
        log := [EvDrop 1; EvDrop 2];
        self := {| len := 1; slots := [None; None; None; None] |} |}.
Proof. exact example_decode_err. Qed.

Example C20_example_decode_err_dup :
  Stream.decode (env_map C20_sc0) false sx_st_dup (sx_w 4) =
  Ok (RErr, {| todo := []; finished := true; polls := 3; late := 0 |})
     {| cb := {| n_eq := 1; n_clone := 0; n_call := 0; next_id := 100000 |};
        log := [EvDrop 3; EvDrop 2; EvDrop 1; EvDrop 4];
        self := {| len := 1; slots := [None; None; None; None] |} |}.
Proof. exact example_decode_err_dup. Qed.

Example C20_example_decode_late :
  match Stream.decode (env_map C20_sc0) false
          {| todo := todo sx_st_ok; finished := true; polls := 7; late := 0 |} (sx_w 4) with
  | Ok (r, s') w' => r = ROk /\ polls s' = 8 /\ late s' = 1 /\ self w' = new_map 4
  | _ => False
  end.
Proof. exact example_decode_late. Qed.

(* Why C20_decode_safe does not claim WF on the Err / panic paths: "keeps (decode E debug s)" is false *)
Theorem C20_keeps_decode_false_err : ~ keeps (Stream.decode (env_map C20_sc0) false sx_st_err).
Proof. exact keeps_decode_false_err. Qed.
Print Assumptions C20_keeps_decode_false_err.

Theorem C20_keeps_decode_false_panic : ~ keeps (Stream.decode (env_map C20_sc0) false sx_st_ok).
Proof. exact keeps_decode_false_panic. Qed.
Print Assumptions C20_keeps_decode_false_panic.

(* the destructor of object 1 panics while the local container is dropped on the Err path: panic, no UB *)
Example C20_example_decode_drop_panic :
  Stream.decode (env_map (sc_drop 1)) false sx_st_err (sx_w 4) =
  Panic {| cb := cs0; log := [EvDrop 1; EvDrop 2]; self := {| len := 1; slots := [None; None; None; None] |} |}.
Proof. exact example_decode_drop_panic. Qed.

(* ... and the entries behind it are leaked, not destroyed (and not destroyed twice) *)
Example C20_example_decode_drop_panic_leak :
  match Stream.decode (env_map (sc_drop 1)) false
          {| todo := [SItem (k_ 1 5) (v_ 2 7); SItem (k_ 3 6) (v_ 4 8); SFail]; finished := false; polls := 0; late := 0 |}
          (sx_w 4) with
  | Panic w' => log w' = [EvDrop 1; EvDrop 2] /\
                slots (self w') = [None; Some (k_ 3 6, v_ 4 8); None; None] /\ len (self w') = 2
  | _ => False
  end.
Proof. exact example_decode_drop_panic_leak. Qed.
