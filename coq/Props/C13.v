(* ========================================================================
   C13  get_disjoint_mut agrees with get_mut and never returns aliasing
        references

   STATEMENT (properties.jsonl):
     "For any array of pairwise different keys - of any length, including zero
      and longer than the map - get_disjoint_mut returns at each position
      exactly what get_mut returns for that key (None for missing keys), and
      the mutable references it returns never alias one another. If two
      requested keys are equal and present it panics instead of returning two
      references to one value."
   QUANTIFIER:
     "every reachable map state x every key tuple of length 0..=4 over present
      and absent keys, with and without repeats, in every order"

   VOCABULARY
     ks : list Q           the requested keys (ANY length: no bound relating it
                           to the map).  cq q is the equality class of a query.
     result : list (option nat)
                           a returned `Option<&mut V>` is modelled by the SLOT the
                           reference points into (Some i) or None; two references
                           alias iff they are the same slot.
     find_idx ck c l       index of the first stored pair of class c (None when
                           absent); Spec.elems m the stored pairs in slot order.
     Uniq ck l             the stored keys are pairwise different (true of every
                           map reached under a lawful ==: C01/C05).
     NoDup (map cq ks)     the requested keys are pairwise different.
     stable w w'           self and log unchanged.

   READING GUIDE (clause -> theorem)
   * "returns at each position exactly what get_mut returns for that key (None
     for missing keys)", any length:
       C13_get_mut_lawful            get_mut q returns find_idx (cq q) content
       C13_disjoint_lawful           get_disjoint_mut ks returns
                                     map (fun q => find_idx (cq q) content) ks,
                                     i.e. position by position the get_mut result;
                                     no panic; container and log untouched
       C13_disjoint_unchecked_lawful the same for get_disjoint_unchecked_mut
       C13_disjoint_agrees_with_get_mut  literally: running get_disjoint_mut ks
                                     and, for each position j, get_mut (ks[j]) from
                                     the same state, the j-th result of the former
                                     IS the result of the latter; both leave
                                     container and log untouched
   * "the mutable references it returns never alias one another":
       C13_disjoint_safe             for ANY environment (== may lie or panic),
       C13_disjoint_unchecked_safe   any ks: no UB; one result per request; every
                                     returned slot is live (< len); and two
                                     positions holding the same slot are the same
                                     position.  On a panic the container is
                                     untouched.
   * "if two requested keys are equal ... it panics instead of returning two
     references to one value":
       C13_assert_distinct_lawful    the overlap assertion passes iff the requested
                                     keys are pairwise different
       C13_disjoint_overlap_panics   with a repeated key get_disjoint_mut never
                                     returns: it panics, container and log untouched.
     The model (like src/map.rs) asserts BEFORE looking anything up, so it
     panics for ANY repeated key, present or absent: this is stronger than the
     clause "equal and present".

   PARTLY / NOT COVERED BY A THEOREM (left to the correspondence check)
   * CLOSED: C13_disjoint_lawful assumes WF and Uniq ck (elems (self w)).  For
     every REACHABLE state they are discharged in the AUDIT ADDENDUM at the end
     of this file: C13_disjoint_lawful_reachable, C13_disjoint_lawful_after,
     C13_disjoint_overlap_panics_reachable, C13_disjoint_reachable2.
   * CLOSED: the agreement with get_mut used to be only through the common value
     find_idx ...; C13_disjoint_agrees_with_get_mut now runs both in one
     statement (for get_disjoint_mut; the unchecked variant agrees through
     C13_disjoint_unchecked_lawful + C13_get_mut_lawful only).
   * References are slot indices; that a Rust `&mut V` into slot i and one into
     slot j <> i do not overlap is the array layout (correspondence / Miri).
   * With an unlawful == (C17) only the no-alias/no-UB statement
     (C13_disjoint_safe) holds; agreement with get_mut is then meaningless.
   ======================================================================== *)
Require Import Model.Base Model.Slots Model.MapOps Model.Exec.
Require Import Proofs.Hoare Proofs.Inv Proofs.Safety2 Proofs.Spec Proofs.Lawful Proofs.Disjoint
               Proofs.FmtSerde Proofs.Legacy Proofs.Gaps.

Theorem C13_disjoint_lawful :
  forall (K V Q T : Type) (E : env K V Q T) (ck : K -> N) (cq : Q -> N) (HL : Lawful E ck cq)
         (ks : list Q) (w : world K V T),
    WF (self w) ->
    Uniq ck (Spec.elems (self w)) ->
    NoDup (List.map cq ks) ->
    wp (get_disjoint_mut E ks)
       (fun (r : list (option nat)) (w' : world K V T) =>
          stable w w' /\
          r = List.map (fun q : Q => find_idx ck (cq q) (Spec.elems (self w))) ks)
       (fun _ : world K V T => False) w.
Proof. exact (fun K V Q T E ck cq HL => disjoint_lawful E ck cq HL). Qed.
Print Assumptions C13_disjoint_lawful.

Theorem C13_disjoint_unchecked_lawful :
  forall (K V Q T : Type) (E : env K V Q T) (ck : K -> N) (cq : Q -> N) (HL : Lawful E ck cq)
         (ks : list Q) (w : world K V T),
    WF (self w) ->
    Uniq ck (Spec.elems (self w)) ->
    NoDup (List.map cq ks) ->
    wp (get_disjoint_unchecked_mut E ks)
       (fun (r : list (option nat)) (w' : world K V T) =>
          stable w w' /\
          r = List.map (fun q : Q => find_idx ck (cq q) (Spec.elems (self w))) ks)
       (fun _ : world K V T => False) w.
Proof. exact (fun K V Q T E ck cq HL => disjoint_unchecked_lawful E ck cq HL). Qed.
Print Assumptions C13_disjoint_unchecked_lawful.

Theorem C13_disjoint_overlap_panics :
  forall (K V Q T : Type) (E : env K V Q T) (ck : K -> N) (cq : Q -> N) (HL : Lawful E ck cq)
         (ks : list Q) (w : world K V T),
    WF (self w) ->
    ~ NoDup (List.map cq ks) ->
    wp (get_disjoint_mut E ks)
       (fun (_ : list (option nat)) (_ : world K V T) => False)
       (fun w' : world K V T => stable w w') w.
Proof. exact (fun K V Q T E ck cq HL => disjoint_overlap_panics E ck cq HL). Qed.
Print Assumptions C13_disjoint_overlap_panics.

Theorem C13_assert_distinct_lawful :
  forall (K V Q T : Type) (E : env K V Q T) (ck : K -> N) (cq : Q -> N) (HL : Lawful E ck cq)
         (ks : list Q) (w : world K V T),
    wp (assert_distinct E ks)
       (fun (_ : unit) (w' : world K V T) => stable w w' /\ NoDup (List.map cq ks))
       (fun w' : world K V T => stable w w' /\ ~ NoDup (List.map cq ks)) w.
Proof. exact (fun K V Q T E ck cq HL => assert_distinct_lawful E ck cq HL). Qed.
Print Assumptions C13_assert_distinct_lawful.

(* no aliasing, for ANY environment *)
Theorem C13_disjoint_safe :
  forall (K V Q T : Type) (E : env K V Q T) (ks : list Q) (w : world K V T),
    WF (self w) ->
    wp (get_disjoint_mut E ks)
       (fun (r : list (option nat)) (w' : world K V T) =>
          self w' = self w /\
          length r = length ks /\
          (forall j i : nat, nth_error r j = Some (Some i) -> i < len (self w)) /\
          (forall j1 j2 i : nat,
              nth_error r j1 = Some (Some i) -> nth_error r j2 = Some (Some i) -> j1 = j2))
       (fun w' : world K V T => self w' = self w) w.
Proof. exact (fun K V Q T => @disjoint_safe K V Q T). Qed.
Print Assumptions C13_disjoint_safe.

Theorem C13_disjoint_unchecked_safe :
  forall (K V Q T : Type) (E : env K V Q T) (ks : list Q) (w : world K V T),
    WF (self w) ->
    wp (get_disjoint_unchecked_mut E ks)
       (fun (r : list (option nat)) (w' : world K V T) =>
          self w' = self w /\
          length r = length ks /\
          (forall j i : nat, nth_error r j = Some (Some i) -> i < len (self w)) /\
          (forall j1 j2 i : nat,
              nth_error r j1 = Some (Some i) -> nth_error r j2 = Some (Some i) -> j1 = j2))
       (fun w' : world K V T => self w' = self w) w.
Proof. exact (fun K V Q T => @disjoint_unchecked_safe K V Q T). Qed.
Print Assumptions C13_disjoint_unchecked_safe.

Theorem C13_get_mut_lawful :
  forall (K V Q T : Type) (E : env K V Q T) (ck : K -> N) (cq : Q -> N) (HL : Lawful E ck cq)
         (q : Q) (w : world K V T),
    WF (self w) ->
    wp (get_mut E q)
       (fun (r : option nat) (w' : world K V T) =>
          stable w w' /\ r = find_idx ck (cq q) (Spec.elems (self w)))
       (fun _ : world K V T => False) w.
Proof. exact (fun K V Q T E ck cq HL => get_mut_lawful E ck cq HL). Qed.
Print Assumptions C13_get_mut_lawful.

(* ---------------------------------------------------------------------- *)
(* the agreement with get_mut as ONE statement (Proofs/Gaps.v): both calls are *)
(* run from the same world w; get_disjoint_mut returns one result per request *)
(* and, at every position j holding key q, get_mut q returns that very result *)
(* (nth_error r j is Some x for every j < length ks = length r; the `None`     *)
(* branch of the inner match is unreachable there)                            *)
(* ---------------------------------------------------------------------- *)
Theorem C13_disjoint_agrees_with_get_mut :
  forall (K V Q T : Type) (E : env K V Q T) (ck : K -> N) (cq : Q -> N) (HL : Lawful E ck cq)
         (ks : list Q) (w : world K V T),
    WF (self w) ->
    Uniq ck (Spec.elems (self w)) ->
    NoDup (List.map cq ks) ->
    exists (r : list (option nat)) (wd : world K V T),
      get_disjoint_mut E ks w = Ok r wd /\
      stable w wd /\
      length r = length ks /\
      forall (j : nat) (q : Q),
        nth_error ks j = Some q ->
        exists wj : world K V T,
          get_mut E q w = Ok (match nth_error r j with Some x => x | None => None end) wj /\
          stable w wj.
Proof. exact (fun K V Q T E ck cq HL => disjoint_agrees_with_get_mut E ck cq HL). Qed.
Print Assumptions C13_disjoint_agrees_with_get_mut.

(* ---------------------------------------------------------------------- *)
(* non-vacuity                                                              *)
(* ---------------------------------------------------------------------- *)

(* hypotheses: m3 (classes 5,6,7 in slots 0,1,2), honest script, the request
   [7; 9; 5; 6] (longer than the map, one absent key) is duplicate-free, the
   request [7; 9; 7] is not *)
Example C13_example_hyps :
  let sc0 := {| sc_adv := false; sc_seed := 0; sc_fk := 0; sc_fa := 0 |} in
  WF (self (w_of m3)) /\ Uniq kcls (Spec.elems (self (w_of m3))) /\
  Lawful (env_map sc0) kcls qcls /\
  NoDup (List.map qcls [QCls 7; QCls 9; QCls 5; QCls 6]) /\
  ~ NoDup (List.map qcls [QCls 7; QCls 9; QCls 7]).
Proof.
  intros sc0. split; [exact m3_WF|].
  split; [vm_compute; repeat constructor; cbn; intuition discriminate|].
  split; [apply env_map_lawful; split; reflexivity|].
  split; [vm_compute; repeat constructor; cbn; intuition discriminate|].
  intros H. inversion H as [|x l Hn _]; subst. apply Hn. vm_compute. auto.
Qed.

(* concrete runs: position by position the get_mut results, pairwise different
   slots; the empty request; a repeated key panics with the map untouched *)
Example C13_example_runs :
  let E := env_map {| sc_adv := false; sc_seed := 0; sc_fk := 0; sc_fa := 0 |} in
  match get_disjoint_mut E [QCls 7; QCls 9; QCls 5; QCls 6] (w_of m3) with
  | Ok r w' => r = [Some 2; None; Some 0; Some 1] /\ self w' = m3 /\ log w' = []
  | _ => False
  end /\
  match get_mut E (QCls 7) (w_of m3), get_mut E (QCls 9) (w_of m3) with
  | Ok r1 _, Ok r2 _ => r1 = Some 2 /\ r2 = None
  | _, _ => False
  end /\
  match get_disjoint_mut E [] (w_of m3) with
  | Ok r w' => r = [] /\ self w' = m3
  | _ => False
  end /\
  match get_disjoint_mut E [QCls 7; QCls 9; QCls 7] (w_of m3) with
  | Panic w' => self w' = m3 /\ log w' = []
  | _ => False
  end.
Proof. vm_compute. repeat split; reflexivity. Qed.

(* ======================================================================== *)
(* AUDIT ADDENDUM (Proofs/MoreDict.v): QUANTIFIER "every reachable map state".
   C13_disjoint_lawful takes WF and Uniq as hypotheses.  Below they are
   DISCHARGED from reachability: wf is the state reached from Map::new() of ANY
   capacity n by ANY history ops (Proofs/Dict.v: mfinal runs the 13 dictionary
   operations, container-raised panics included; Proofs/Dict2.v: mfinal2
   additionally interleaves drain, whole-container iteration,
   entry(k).or_insert(v) and extend), under a lawful environment.
     disjoint_post ck cq ks w r w' :=
       stable w w' /\ r = map (fun q => find_idx ck (cq q) (Spec.elems (self w))) ks
   i.e. the postcondition of C13_disjoint_lawful.                             *)
(* ======================================================================== *)
Require Import Proofs.Dict Proofs.Dict2 Proofs.MoreDict.

Theorem C13_disjoint_lawful_reachable :
  forall (K V Q T : Type) (E : env K V Q T) (debug : bool) (ck : K -> N) (cq : Q -> N),
  Lawful E ck cq ->
  forall (n : nat) (ops : list (@dop K V Q)) (s : T) (lg : list event) (ks : list Q),
  NoDup (List.map cq ks) ->
  exists wf : world K V T,
    mfinal E debug ops {| cb := s; log := lg; self := new_map n |} = Some wf /\
    wp (get_disjoint_mut E ks)
       (fun (r : list (option nat)) (w' : world K V T) =>
          stable wf w' /\
          r = List.map (fun q : Q => find_idx ck (cq q) (Spec.elems (self wf))) ks)
       (fun _ : world K V T => False) wf /\
    wp (get_disjoint_unchecked_mut E ks)
       (fun (r : list (option nat)) (w' : world K V T) =>
          stable wf w' /\
          r = List.map (fun q : Q => find_idx ck (cq q) (Spec.elems (self wf))) ks)
       (fun _ : world K V T => False) wf.
Proof. exact (@disjoint_lawful_reachable). Qed.
Print Assumptions C13_disjoint_lawful_reachable.

(* from ANY represented state (Abs: WF, unique keys), after any history *)
Theorem C13_disjoint_lawful_after :
  forall (K V Q T : Type) (E : env K V Q T) (debug : bool) (ck : K -> N) (cq : Q -> N),
  Lawful E ck cq ->
  forall (n : nat) (ops : list (@dop K V Q)) (w : world K V T) (d : @dict K V) (ks : list Q),
  Abs ck (self w) d ->
  cap (self w) = n ->
  NoDup (List.map cq ks) ->
  exists wf : world K V T,
    mfinal E debug ops w = Some wf /\
    wp (get_disjoint_mut E ks)
       (fun (r : list (option nat)) (w' : world K V T) =>
          stable wf w' /\
          r = List.map (fun q : Q => find_idx ck (cq q) (Spec.elems (self wf))) ks)
       (fun _ : world K V T => False) wf /\
    wp (get_disjoint_unchecked_mut E ks)
       (fun (r : list (option nat)) (w' : world K V T) =>
          stable wf w' /\
          r = List.map (fun q : Q => find_idx ck (cq q) (Spec.elems (self wf))) ks)
       (fun _ : world K V T => False) wf.
Proof. exact (@disjoint_lawful_after). Qed.
Print Assumptions C13_disjoint_lawful_after.

(* "If two requested keys are equal ... it panics", on every reachable state *)
Theorem C13_disjoint_overlap_panics_reachable :
  forall (K V Q T : Type) (E : env K V Q T) (debug : bool) (ck : K -> N) (cq : Q -> N),
  Lawful E ck cq ->
  forall (n : nat) (ops : list (@dop K V Q)) (s : T) (lg : list event) (ks : list Q),
  ~ NoDup (List.map cq ks) ->
  exists wf : world K V T,
    mfinal E debug ops {| cb := s; log := lg; self := new_map n |} = Some wf /\
    wp (get_disjoint_mut E ks)
       (fun (_ : list (option nat)) (_ : world K V T) => False)
       (fun w' : world K V T => stable wf w') wf.
Proof. exact (@disjoint_overlap_panics_reachable). Qed.
Print Assumptions C13_disjoint_overlap_panics_reachable.

(* both clauses on every state reached by the EXTENDED histories (drain,
   iteration, entry(k).or_insert(v), extend interleaved with the 13 operations) *)
Theorem C13_disjoint_reachable2 :
  forall (K V Q T : Type) (E : env K V Q T) (debug : bool) (ck : K -> N) (cq : Q -> N),
  Lawful E ck cq ->
  forall (n : nat) (ops : list (@dop2 K V Q)) (s : T) (lg : list event) (ks : list Q),
  exists wf : world K V T,
    mfinal2 E debug ops {| cb := s; log := lg; self := new_map n |} = Some wf /\
    (NoDup (List.map cq ks) ->
     wp (get_disjoint_mut E ks)
        (fun (r : list (option nat)) (w' : world K V T) =>
           stable wf w' /\
           r = List.map (fun q : Q => find_idx ck (cq q) (Spec.elems (self wf))) ks)
        (fun _ : world K V T => False) wf) /\
    (~ NoDup (List.map cq ks) ->
     wp (get_disjoint_mut E ks)
        (fun (_ : list (option nat)) (_ : world K V T) => False)
        (fun w' : world K V T => stable wf w') wf).
Proof. exact (@disjoint_reachable2). Qed.
Print Assumptions C13_disjoint_reachable2.

(* a concrete reachable state (capacity 3: three inserts, a fourth overflows and
   panics, class 5 removed so class 7 moves into slot 0) and a request longer than
   the map with an absent key: position by position the get_mut slots *)
Example C13_example_reachable :
  let E := env_map {| sc_adv := false; sc_seed := 0; sc_fk := 0; sc_fa := 0 |} in
  match mfinal E false
          [DInsert (k_ 1 5) (v_ 2 7); DInsert (k_ 3 6) (v_ 4 8); DInsert (k_ 5 7) (v_ 6 9);
           DInsert (k_ 7 8) (v_ 8 1); DRemove (QCls 5)]
          {| cb := cs0; log := []; self := new_map 3 |} with
  | Some wf =>
      len (self wf) = 2 /\
      match get_disjoint_mut E [QCls 6; QCls 5; QCls 7; QCls 8] wf with
      | Ok r w' => r = [Some 1; None; Some 0; None] /\ self w' = self wf
      | _ => False
      end /\
      match get_disjoint_mut E [QCls 6; QCls 7; QCls 6] wf with
      | Panic w' => self w' = self wf
      | _ => False
      end
  | None => False
  end.
Proof. vm_compute. repeat split; reflexivity. Qed.

(* ======================================================================== *)
(* SECOND AUDIT ADDENDUM: "the mutable references it returns never alias one
   another" on every REACHABLE state, for EVERY environment E (== may lie or
   panic, Drop may panic, retain closures arbitrary): wf is the state reached from
   Map::new() of ANY capacity by ANY history (dop: the 13 operations; dop2: plus
   drain / iteration / entry / extend; panics of user code and of the container
   are part of the history).  WF of wf comes from MoreOwned.mrun_any_env_safe /
   mrun2_any_env_safe (no Lawful).  The postcondition is that of
   C13_disjoint_safe, conjunct by conjunct; the unchecked variant needs no
   contract for this statement (it holds for every ks).                        *)
(* ======================================================================== *)
Theorem C13_disjoint_safe_reachable :
  forall (K V Q T : Type) (E : env K V Q T) (debug : bool)
         (n : nat) (ops : list (@dop K V Q)) (s : T) (lg : list event) (ks : list Q),
  exists wf : world K V T,
    mfinal E debug ops {| cb := s; log := lg; self := new_map n |} = Some wf /\
    wp (get_disjoint_mut E ks)
       (fun (r : list (option nat)) (w' : world K V T) =>
          self w' = self wf /\
          length r = length ks /\
          (forall j i : nat, nth_error r j = Some (Some i) -> i < len (self wf)) /\
          (forall j1 j2 i : nat,
              nth_error r j1 = Some (Some i) -> nth_error r j2 = Some (Some i) -> j1 = j2))
       (fun w' : world K V T => self w' = self wf) wf /\
    wp (get_disjoint_unchecked_mut E ks)
       (fun (r : list (option nat)) (w' : world K V T) =>
          self w' = self wf /\
          length r = length ks /\
          (forall j i : nat, nth_error r j = Some (Some i) -> i < len (self wf)) /\
          (forall j1 j2 i : nat,
              nth_error r j1 = Some (Some i) -> nth_error r j2 = Some (Some i) -> j1 = j2))
       (fun w' : world K V T => self w' = self wf) wf.
Proof. exact (@disjoint_safe_reachable). Qed.
Print Assumptions C13_disjoint_safe_reachable.

Theorem C13_disjoint_safe_reachable2 :
  forall (K V Q T : Type) (E : env K V Q T) (debug : bool)
         (n : nat) (ops : list (@dop2 K V Q)) (s : T) (lg : list event) (ks : list Q),
  exists wf : world K V T,
    mfinal2 E debug ops {| cb := s; log := lg; self := new_map n |} = Some wf /\
    wp (get_disjoint_mut E ks)
       (fun (r : list (option nat)) (w' : world K V T) =>
          self w' = self wf /\
          length r = length ks /\
          (forall j i : nat, nth_error r j = Some (Some i) -> i < len (self wf)) /\
          (forall j1 j2 i : nat,
              nth_error r j1 = Some (Some i) -> nth_error r j2 = Some (Some i) -> j1 = j2))
       (fun w' : world K V T => self w' = self wf) wf /\
    wp (get_disjoint_unchecked_mut E ks)
       (fun (r : list (option nat)) (w' : world K V T) =>
          self w' = self wf /\
          length r = length ks /\
          (forall j i : nat, nth_error r j = Some (Some i) -> i < len (self wf)) /\
          (forall j1 j2 i : nat,
              nth_error r j1 = Some (Some i) -> nth_error r j2 = Some (Some i) -> j1 = j2))
       (fun w' : world K V T => self w' = self wf) wf.
Proof. exact (@disjoint_safe_reachable2). Qed.
Print Assumptions C13_disjoint_safe_reachable2.

(* with an ADVERSARIAL script (== lies on a pseudo-random quarter of the calls):
   a state reached by inserts and a removal, then a request with a repeated key -
   whatever the lying == makes of it, no slot is handed out twice *)
Example C13_example_safe_reachable_adversarial :
  let E := env_map {| sc_adv := true; sc_seed := 7; sc_fk := 0; sc_fa := 0 |} in
  match mfinal E false
          [DInsert (k_ 1 5) (v_ 2 7); DInsert (k_ 3 6) (v_ 4 8); DInsert (k_ 5 5) (v_ 6 9);
           DInsert (k_ 7 7) (v_ 8 1); DRemove (QCls 6)]
          {| cb := cs0; log := []; self := new_map 4 |} with
  | Some wf =>
      match get_disjoint_unchecked_mut E [QCls 5; QCls 7; QCls 5; QCls 6] wf with
      | Ok r w' => self w' = self wf /\ length r = 4 /\
                   NoDup (flat_map (fun o : option nat => match o with Some i => [i] | None => [] end) r)
      | Panic w' => self w' = self wf
      | UB => False
      end
  | None => False
  end.
Proof. vm_compute. first [ reflexivity | repeat split; try reflexivity; repeat constructor; cbn; intuition discriminate ]. Qed.

(* ------------------------------------------------------------------------
   get_disjoint_mut under an OPERAND-DETERMINED == that is no equivalence
   (Proofs/PureEqMore.v; [Related2 E ck cq R]: all four comparison callbacks
   answer one arbitrary relation R on classes -- stored R needle in the scans,
   needle R needle in the overlap assertion, needle R stored in the pair-major
   scan of get_disjoint_unchecked_mut).  No aliasing whatever R is, and the
   COMPLETE account of when the call panics: the overlap assertion, or -- only
   possible when == is unlawful -- more stored keys related to some needle than
   there are needles (the bounds-checked push onto the scratch stack; seeded
   change C17g turns exactly this panic into an unchecked write).
   ------------------------------------------------------------------------ *)
Require Import Proofs.PureEq Proofs.PureEqMore.

Theorem C13_disjoint_any_relation :
  forall (K V Q T : Type) (E : env K V Q T) (ck : K -> N) (cq : Q -> N) (R : N -> N -> bool)
         (HR2 : Related2 E ck cq R) (ks : list Q) (w : world K V T),
    WF (self w) ->
    wp (get_disjoint_mut E ks)
       (fun (r : list (option nat)) (w' : world K V T) =>
          (self w' = self w /\ length r = length ks /\
           (forall j i, nth_error r j = Some (Some i) -> i < len (self w)) /\
           (forall j1 j2 i, nth_error r j1 = Some (Some i) -> nth_error r j2 = Some (Some i) -> j1 = j2)) /\
          (stable w w' /\ overlaps_rel cq R ks = false /\
           overflow_rel ck cq R (Spec.elems (self w)) ks = false /\
           r = disjoint_out ck cq R (Spec.elems (self w)) ks))
       (fun w' : world K V T =>
          self w' = self w /\
          (self w' = self w /\ log w' = log w /\
           (overlaps_rel cq R ks = true \/
            (overlaps_rel cq R ks = false /\ overflow_rel ck cq R (Spec.elems (self w)) ks = true)))) w.
Proof. exact (fun K V Q T E ck cq R HR2 => disjoint_result_rel E ck cq R HR2). Qed.
Print Assumptions C13_disjoint_any_relation.

(* with two or more needles each answer is a slot whose key the needle is related to, NEEDLE ON THE LEFT, and the
   slot goes to the first such needle *)
Theorem C13_disjoint_position_any_relation :
  forall (K V Q T : Type) (E : env K V Q T) (ck : K -> N) (cq : Q -> N) (R : N -> N -> bool)
         (HR2 : Related2 E ck cq R) (ks : list Q) (w : world K V T),
    WF (self w) -> 2 <= length ks ->
    wp (get_disjoint_mut E ks)
       (fun (r : list (option nat)) (_ : world K V T) =>
          forall j i, nth_error r j = Some (Some i) ->
            exists q p, nth_error ks j = Some q /\ nth_error (Spec.elems (self w)) i = Some p /\
                        R (cq q) (ck (fst p)) = true /\
                        (forall j' q', j' < j -> nth_error ks j' = Some q' -> R (cq q') (ck (fst p)) = false))
       (fun _ : world K V T => True) w.
Proof. exact (fun K V Q T E ck cq R HR2 => disjoint_position_rel E ck cq R HR2). Qed.
Print Assumptions C13_disjoint_position_any_relation.

(* non-vacuity: the interpreter's environment under the fifth kind of script is such an environment (R = "<=") ... *)
Theorem C13_env_related2 :
  forall sc : script, asym sc = true -> sc_fk sc = 0%N -> Related2 (env_map sc) kcls qcls N.leb.
Proof. exact env_map_related2. Qed.
Print Assumptions C13_env_related2.

(* ... and the second kind of panic exists there: needles 5 and 3 do not overlap (5 <= 3 is false), the three
   stored keys 10, 11, 12 are all related to the needle 5, the call panics and leaves the map as it was *)
Theorem C13_example_more_hits_than_needles :
  let w := w_of [(mk 1 10, v0); (mk 2 11, v0); (mk 3 12, v0)] in
  asym asym_sc = true /\ sc_fk asym_sc = 0%N /\
  overlaps_rel qcls N.leb [QCls 5; QCls 3] = false /\
  overflow_rel kcls qcls N.leb (Spec.elems (self w)) [QCls 5; QCls 3] = true /\
  match get_disjoint_mut (env_map asym_sc) [QCls 5; QCls 3] w with
  | Panic w' => self w' = self w
  | _ => False
  end.
Proof. exact disjoint_overflow_panics. Qed.
Print Assumptions C13_example_more_hits_than_needles.
