(* MoreIter.v — closing audit findings for C06 (references point inside the
   container), C09 (borrowing iterators: len/size_hint/count, the six kinds,
   writes through iter_mut seen by lookups, clones) and C10 (into_keys /
   into_values, drain: reusable container, no panic before Drop). *)
Require Import Model.Base Model.Slots Model.MapOps Model.EntryOps Model.SetOps Model.Fmt Model.Exec.
Require Import Proofs.Hoare Proofs.Inv Proofs.Safety Proofs.Safety2 Proofs.Safety3 Proofs.Spec
               Proofs.Lawful Proofs.Lawful2 Proofs.Lawful3 Proofs.IterSpec Proofs.EqClone
               Proofs.EntrySpec Proofs.Dict Proofs.Dict2 Proofs.Owned Proofs.Owned2
               Proofs.Algebra Proofs.Algebra2 Proofs.Legacy Proofs.Gaps.
From Coq Require Import Permutation.

(* ====================================================================== *)
(* Part A (C06): every reference handed out designates a live slot of the  *)
(* container's own array, below len (hence below cap). EVERY environment.  *)
(* ====================================================================== *)
Section RefsInside.
Context {K V Q T : Type} (E : env K V Q T) (debug : bool).
Notation M := (M K V T). Notation world := (world K V T). Notation map := (map K V).

(* slot i of m is a live element slot of the array: below len, below cap *)
Definition inside (m : map) (i : nat) : Prop := i < len m /\ len m <= cap m /\ live m i.

Lemma inside_lt_cap (m : map) i : inside m i -> i < cap m.
Proof. intros (H1 & H2 & _). lia. Qed.

Lemma WF_inside (m : map) i : WF m -> i < len m -> inside m i.
Proof. intros Hw Hi. split; [exact Hi|]. split; [apply WF_len_le_cap; exact Hw | apply WF_live; assumption]. Qed.

Definition opt_inside (m : map) (r : option nat) : Prop :=
  match r with Some i => inside m i | None => True end.

Lemma scan_q_inside q (w : world) :
  WF (self w) ->
  wp (scan (test_q E q))
     (fun r w' => self w' = self w /\ opt_inside (self w') r)
     (fun w' => self w' = self w) w.
Proof.
  intros Hw. eapply wp_mono; [apply scan_spec; [intros; apply frame_test_q | exact Hw] | |]; cbn beta; auto.
  intros r w' [H1 H2]. split; [exact H1|]. rewrite H1.
  destruct r as [i|]; cbn [opt_inside]; [apply WF_inside; assumption | exact I].
Qed.

Lemma get_inside q (w : world) :
  WF (self w) ->
  wp (get E q) (fun r w' => self w' = self w /\ opt_inside (self w') r) (fun w' => self w' = self w) w.
Proof. exact (scan_q_inside q w). Qed.

Lemma get_mut_inside q (w : world) :
  WF (self w) ->
  wp (get_mut E q) (fun r w' => self w' = self w /\ opt_inside (self w') r) (fun w' => self w' = self w) w.
Proof. exact (scan_q_inside q w). Qed.

Lemma get_key_value_inside q (w : world) :
  WF (self w) ->
  wp (get_key_value E q) (fun r w' => self w' = self w /\ opt_inside (self w') r) (fun w' => self w' = self w) w.
Proof. exact (scan_q_inside q w). Qed.

(* Index / IndexMut: a reference is returned only on the normal path *)
Lemma index_inside q (w : world) :
  WF (self w) ->
  wp (index E q) (fun i w' => self w' = self w /\ inside (self w') i) (fun w' => self w' = self w) w.
Proof.
  intros Hw. unfold index. apply wp_bind.
  eapply wp_mono; [apply get_inside; exact Hw | |]; cbn beta; [|auto].
  intros [i|] w' [Hs Hi]; [apply wp_ret; auto | apply wp_panic; exact Hs].
Qed.

Lemma index_mut_inside q (w : world) :
  WF (self w) ->
  wp (index_mut E q) (fun i w' => self w' = self w /\ inside (self w') i) (fun w' => self w' = self w) w.
Proof.
  intros Hw. unfold index_mut. apply wp_bind.
  eapply wp_mono; [apply get_mut_inside; exact Hw | |]; cbn beta; [|auto].
  intros [i|] w' [Hs Hi]; [apply wp_ret; auto | apply wp_panic; exact Hs].
Qed.

(* iteration: every slot yielded by the actual  iter ;; iter_run n  *)
Lemma iter_yields_inside n (w : world) :
  WF (self w) ->
  wp (c <- iter ;; iter_run n c)
     (fun r w' => self w' = self w /\ Forall (fun i => i < len (self w')) (fst r) /\
                  Forall (inside (self w')) (fst r))
     (fun _ => False) w.
Proof.
  intros Hw. eapply wp_mono; [apply iter_run_spec; exact Hw | | auto]; cbn beta.
  intros r w' (Hs & _ & Hr & _). split; [exact Hs|]. rewrite Hs, Hr.
  split; apply Forall_forall; intros i Hi; apply in_seq in Hi.
  - lia.
  - apply WF_inside; [exact Hw | lia].
Qed.

(* one step of a borrowing iterator from any cursor over the container *)
Lemma iter_next_inside lo hi (w : world) :
  WF (self w) -> hi <= len (self w) ->
  wp (iter_next (lo, hi))
     (fun r w' => w' = w /\ opt_inside (self w') (fst r))
     (fun _ => False) w.
Proof.
  intros Hw Hhi. eapply wp_mono; [apply iter_next_exact; eassumption | | auto]; cbn beta.
  intros r w' [-> ->]. split; [reflexivity|].
  destruct (Nat.ltb_spec lo hi); cbn [fst opt_inside]; [apply WF_inside; [exact Hw | lia] | exact I].
Qed.

(* OccupiedEntry::get / get_mut / into_mut / key: the recorded index, unchanged world *)
Lemma occ_get_inside i (w : world) :
  WF (self w) -> i < len (self w) ->
  wp (occ_get i) (fun j w' => w' = w /\ j = i /\ inside (self w') j) (fun _ => False) w.
Proof.
  intros Hw Hi. eapply wp_mono; [apply (occ_get_lawful i w Hw Hi) | | auto]; cbn beta.
  intros j w' [-> ->]. split; [reflexivity|]. split; [reflexivity | apply WF_inside; assumption].
Qed.
Lemma occ_get_mut_inside i (w : world) :
  WF (self w) -> i < len (self w) ->
  wp (occ_get_mut i) (fun j w' => w' = w /\ j = i /\ inside (self w') j) (fun _ => False) w.
Proof. exact (occ_get_inside i w). Qed.
Lemma occ_into_mut_inside i (w : world) :
  WF (self w) -> i < len (self w) ->
  wp (occ_into_mut i) (fun j w' => w' = w /\ j = i /\ inside (self w') j) (fun _ => False) w.
Proof. exact (occ_get_inside i w). Qed.
Lemma occ_key_inside i (w : world) :
  WF (self w) -> i < len (self w) ->
  wp (occ_key i) (fun j w' => w' = w /\ j = i /\ inside (self w') j) (fun _ => False) w.
Proof. exact (occ_get_inside i w). Qed.

(* the whole chain  map.entry(k) -> Occupied -> get/get_mut/into_mut/key,
   whatever == answers: an occupied entry's reference lands inside *)
Lemma entry_ref_inside k (acc : nat -> M nat) (w : world) :
  (acc = occ_get \/ acc = occ_get_mut \/ acc = occ_into_mut \/ acc = occ_key) ->
  WF (self w) ->
  wp (e <- entry_of E k ;;
      match e with
      | Occupied i => j <- acc i ;; ret (Some j)
      | Vacant _ => ret None
      end)
     (fun r w' => self w' = self w /\ opt_inside (self w') r)
     (fun w' => self w' = self w) w.
Proof.
  intros Hacc Hw. apply wp_bind.
  eapply wp_mono; [apply (entry_of_spec E k w Hw) | |]; cbn beta; [|auto].
  intros e w1 [Hs1 He]. destruct e as [i|k'].
  - cbn [entry_ok] in He.
    assert (Hw1 : WF (self w1)) by (rewrite Hs1; exact Hw).
    assert (Hi1 : i < len (self w1)) by (rewrite Hs1; exact He).
    apply wp_bind.
    assert (H : wp (acc i) (fun j w' => w' = w1 /\ j = i /\ inside (self w') j) (fun _ => False) w1).
    { destruct Hacc as [-> | [-> | [-> | ->]]].
      - apply occ_get_inside; assumption.
      - apply occ_get_mut_inside; assumption.
      - apply occ_into_mut_inside; assumption.
      - apply occ_key_inside; assumption. }
    eapply wp_mono; [exact H | | intros ? []]; cbn beta.
    intros j w2 (-> & -> & Hin). apply wp_ret. split; [exact Hs1 | exact Hin].
  - apply wp_ret. split; [exact Hs1 | exact I].
Qed.

(* construction *)
Lemma new_map_shape n :
  cap (@new_map K V n) = n /\ len (@new_map K V n) = 0 /\ WF (@new_map K V n) /\
  Spec.elems (@new_map K V n) = [] /\ Tidy (@new_map K V n).
Proof.
  split; [apply cap_new|]. split; [reflexivity|]. split; [apply WF_new|]. split; [reflexivity|].
  intros i _ Hn. unfold new_map in *. cbn [slots] in *.
  destruct (nth_error (repeat None n) i) as [x|] eqn:Hx; [|congruence].
  apply nth_error_In in Hx. apply repeat_spec in Hx. subst x. reflexivity.
Qed.

(* Map::with_capacity(c) for a Map<_,_,n>: accepted exactly when c = n *)
Lemma with_capacity_shape c n :
  (with_capacity_ok c n = true <-> c = n) /\
  (with_capacity_ok c n = true ->
   cap (@new_map K V n) = c /\ len (@new_map K V n) = 0 /\ WF (@new_map K V n)).
Proof.
  unfold with_capacity_ok. split; [apply Nat.eqb_eq|]. intros H. apply Nat.eqb_eq in H. subst c.
  split; [apply cap_new|]. split; [reflexivity | apply WF_new].
Qed.

End RefsInside.

(* Set::get is get_key_value on the underlying map *)
Lemma s_get_inside {K Q T : Type} (E : env K unit Q T) q (w : world K unit T) :
  WF (self w) ->
  wp (s_get E q) (fun r w' => self w' = self w /\ opt_inside (self w') r) (fun w' => self w' = self w) w.
Proof. exact (get_key_value_inside E q w). Qed.

(* ---------------------------------------------------------------------- *)
(* set algebra: every item an adaptor yields is a slot of the operand it     *)
(* comes from ((false,i) = slot i of a, (true,i) = slot i of b), below that  *)
(* operand's len.  EVERY environment.                                        *)
(* ---------------------------------------------------------------------- *)
Section AlgebraInside.
Context {K Q T : Type} (E : env K unit Q T).
Notation M := (M K unit T). Notation world := (world K unit T). Notation smap := (map K unit).

(* the pure selection of Algebra.v only lists slots of the left operand *)
Lemma sel_In_inside (ck : K -> N) (a b : smap) want lo n i :
  WF a -> In i (sel ck a b want lo n) -> lo + n <= len a -> i < len a /\ inside a i.
Proof.
  intros Ha Hin Hn. apply sel_In in Hin. destruct Hin as [Hr _].
  assert (Hi : i < len a) by lia. split; [exact Hi | apply WF_inside; assumption].
Qed.

Definition side_inside (a b : smap) (x : bool * nat) : Prop :=
  inside (if fst x then b else a) (snd x).
Definition opt_side_inside (a b : smap) (o : option (bool * nat)) : Prop :=
  match o with Some x => side_inside a b x | None => True end.

Lemma diff_next_inside (a b : smap) (c : cursor) (w : world) :
  WF a -> WF b -> snd c <= len a -> fst c <= snd c ->
  wp (diff_next E a b c)
     (fun r w' => self w' = self w /\ snd (snd r) <= len a /\ fst (snd r) <= snd (snd r) /\
                  opt_inside a (fst r))
     (fun w' => self w' = self w) w.
Proof.
  intros Ha Hb H1 H2.
  eapply wp_mono; [apply diff_next_spec; eassumption | |]; cbn beta; [|auto].
  intros r w' (Hs & Hr1 & Hr2 & Hr3). split; [exact Hs|]. split; [exact Hr1|]. split; [exact Hr2|].
  destruct (fst r) as [i|]; cbn [opt_inside]; [apply WF_inside; [exact Ha | lia] | exact I].
Qed.

Lemma inter_next_inside (a b : smap) (c : cursor) (w : world) :
  WF a -> WF b -> snd c <= len a -> fst c <= snd c ->
  wp (inter_next E a b c)
     (fun r w' => self w' = self w /\ snd (snd r) <= len a /\ fst (snd r) <= snd (snd r) /\
                  opt_inside a (fst r))
     (fun w' => self w' = self w) w.
Proof.
  intros Ha Hb H1 H2.
  eapply wp_mono; [apply inter_next_spec; eassumption | |]; cbn beta; [|auto].
  intros r w' (Hs & Hr1 & Hr2 & Hr3). split; [exact Hs|]. split; [exact Hr1|]. split; [exact Hr2|].
  destruct (fst r) as [i|]; cbn [opt_inside]; [apply WF_inside; [exact Ha | lia] | exact I].
Qed.

(* the back half of a chain: a difference over operand x, items tagged [tag] *)
Lemma back_step_inside (x y : smap) (bk : cursor) (tag : bool) (la : nat) (w : world) :
  WF x -> WF y -> fst bk <= snd bk -> snd bk <= len x ->
  wp ('(r2, k') <- diff_next E x y bk ;;
      ret (option_map (fun i => (tag, i)) r2, {| front := None; back := k' |}))
     (fun r w' => self w' = self w /\ chain_ok la (len x) (snd r) /\
                  match fst r with Some z => fst z = tag /\ inside x (snd z) | None => True end)
     (fun w' => self w' = self w) w.
Proof.
  intros Hx Hy H1 H2. apply wp_bind.
  eapply wp_mono; [apply diff_next_inside; [exact Hx | exact Hy | exact H2 | exact H1] | |]; cbn beta; [|auto].
  intros [r2 k'] w' (Hs & Ha & Hb & Hi). cbn [fst snd] in *. apply wp_ret.
  split; [exact Hs|]. split; [unfold chain_ok; cbn [snd front back]; auto|].
  destruct r2 as [i|]; cbn [option_map fst snd opt_inside] in *; auto.
Qed.

Lemma union_next_inside (a b : smap) (u : chain) (w : world) :
  WF a -> WF b -> chain_ok (len b) (len a) u ->
  wp (union_next E a b u)
     (fun r w' => self w' = self w /\ chain_ok (len b) (len a) (snd r) /\ opt_side_inside a b (fst r))
     (fun w' => self w' = self w) w.
Proof.
  intros Ha Hb Hu. destruct u as [fr bk]. unfold chain_ok in Hu. cbn [front back] in Hu.
  destruct Hu as (Hf & Hk1 & Hk2). unfold union_next. cbn [front back].
  assert (Hback : forall w1 : world, self w1 = self w ->
    wp ('(r2, k') <- diff_next E a b bk ;;
        ret (option_map (fun i => (false, i)) r2, {| front := None; back := k' |}))
       (fun r w' => self w' = self w /\ chain_ok (len b) (len a) (snd r) /\ opt_side_inside a b (fst r))
       (fun w' => self w' = self w) w1).
  { intros w1 Hs1.
    eapply wp_mono; [apply (back_step_inside a b bk false (len b) w1); assumption | |]; cbn beta.
    - intros r w2 (Hs2 & Hok & Hi). split; [congruence|]. split; [exact Hok|].
      destruct (fst r) as [[t i]|]; cbn [opt_side_inside]; [|exact I].
      cbn [fst snd] in Hi. destruct Hi as [-> Hi]. exact Hi.
    - intros w2 Hs2. congruence. }
  destruct fr as [c|]; [|apply Hback; reflexivity].
  destruct Hf as [Hc1 Hc2]. apply wp_bind.
  eapply wp_mono; [apply siter_next_spec; [exact Hb | exact Hc1 | exact Hc2] | |]; cbn beta; [|auto].
  intros [r c'] w1 [Hs1 Hr]. cbn [fst snd] in Hr. destruct r as [i|].
  - destruct Hr as [Hi ->]. apply wp_ret. cbn [fst snd]. split; [exact Hs1|].
    split; [unfold chain_ok; cbn [front back fst snd]; lia|].
    unfold opt_side_inside, side_inside. cbn [fst snd]. apply WF_inside; [exact Hb | lia].
  - apply Hback. exact Hs1.
Qed.

Lemma symdiff_next_inside (a b : smap) (u : chain) (w : world) :
  WF a -> WF b -> chain_ok (len a) (len b) u ->
  wp (symdiff_next E a b u)
     (fun r w' => self w' = self w /\ chain_ok (len a) (len b) (snd r) /\ opt_side_inside a b (fst r))
     (fun w' => self w' = self w) w.
Proof.
  intros Ha Hb Hu. destruct u as [fr bk]. unfold chain_ok in Hu. cbn [front back] in Hu.
  destruct Hu as (Hf & Hk1 & Hk2). unfold symdiff_next. cbn [front back].
  assert (Hback : forall w1 : world, self w1 = self w ->
    wp ('(r2, k') <- diff_next E b a bk ;;
        ret (option_map (fun i => (true, i)) r2, {| front := None; back := k' |}))
       (fun r w' => self w' = self w /\ chain_ok (len a) (len b) (snd r) /\ opt_side_inside a b (fst r))
       (fun w' => self w' = self w) w1).
  { intros w1 Hs1.
    eapply wp_mono; [apply (back_step_inside b a bk true (len a) w1); assumption | |]; cbn beta.
    - intros r w2 (Hs2 & Hok & Hi). split; [congruence|]. split; [exact Hok|].
      destruct (fst r) as [[t i]|]; cbn [opt_side_inside]; [|exact I].
      cbn [fst snd] in Hi. destruct Hi as [-> Hi]. exact Hi.
    - intros w2 Hs2. congruence. }
  destruct fr as [c|]; [|apply Hback; reflexivity].
  destruct Hf as [Hc1 Hc2]. apply wp_bind.
  eapply wp_mono; [apply diff_next_inside; [exact Ha | exact Hb | exact Hc2 | exact Hc1] | |]; cbn beta; [|auto].
  intros [r c'] w1 (Hs1 & Hr1 & Hr2 & Hr3). cbn [fst snd] in *. destruct r as [i|].
  - apply wp_ret. cbn [fst snd]. split; [exact Hs1|].
    split; [unfold chain_ok; cbn [front back fst snd]; lia|]. exact Hr3.
  - apply Hback. exact Hs1.
Qed.

End AlgebraInside.

(* ====================================================================== *)
(* Part B (C09): borrowing iterators                                       *)
(* ====================================================================== *)
Section IterMore.
Context {K V Q T : Type} (E : env K V Q T) (debug : bool).
Notation M := (M K V T). Notation world := (world K V T). Notation map := (map K V). Notation kv := (K * V)%type.

(* ---- B1. len() / size_hint(): the model's observation is cursor_len of the
   iterator's cursor (Exec.iter_steps emits it three times before every step:
   len, size_hint lower, size_hint upper).  After j steps of the actual
   session it is exactly the number of items still to come. ---- *)
Definition iter_len (c : cursor) : M nat := ret (cursor_len c).
Definition iter_size_hint (c : cursor) : M (nat * option nat) := ret (cursor_len c, Some (cursor_len c)).

Lemma iter_len_after j (w : world) :
  WF (self w) ->
  wp (c <- iter ;; r <- iter_run j c ;; n <- iter_len (snd r) ;; h <- iter_size_hint (snd r) ;; ret (n, h))
     (fun x w' => w' = w /\
                  fst x = len (self w) - Nat.min j (len (self w)) /\
                  snd x = (len (self w) - Nat.min j (len (self w)),
                           Some (len (self w) - Nat.min j (len (self w)))))
     (fun _ => False) w.
Proof.
  intros Hw.
  apply (wp_bind_assoc iter (fun c => iter_run j c)
           (fun r => n <- iter_len (snd r) ;; h <- iter_size_hint (snd r) ;; ret (n, h))).
  apply wp_bind.
  eapply wp_mono; [apply iter_run_exact; exact Hw | | auto]; cbn beta.
  intros r w' (-> & _ & Hc). unfold iter_len, iter_size_hint.
  apply wp_bind. apply wp_ret. apply wp_bind. apply wp_ret. apply wp_ret.
  rewrite Hc. unfold cursor_len. cbn [fst snd]. auto.
Qed.

(* ---- count(): consumes the iterator (calls next() until None) and returns
   the number of items it saw ---- *)
Definition iter_count (c : cursor) : M (nat * cursor) :=
  r <- iter_run (S (cursor_len c)) c ;; ret (length (fst r), snd r).

Lemma iter_count_from lo hi (w : world) :
  WF (self w) -> lo <= hi -> hi <= len (self w) ->
  wp (iter_count (lo, hi))
     (fun x w' => w' = w /\ fst x = hi - lo /\ snd x = (hi, hi))
     (fun _ => False) w.
Proof.
  intros Hw H1 H2. unfold iter_count. apply wp_bind.
  eapply wp_mono; [apply (iter_continue_from (S (cursor_len (lo, hi))) lo hi w Hw H1 H2) | | auto]; cbn beta.
  intros r w' (-> & Hr & Hc). apply wp_ret. cbn [fst snd].
  unfold cursor_len in *. cbn [fst snd] in *.
  replace (Nat.min (S (hi - lo)) (hi - lo)) with (hi - lo) in * by lia.
  split; [reflexivity|]. split; [rewrite Hr; apply seq_length | rewrite Hc; f_equal; lia].
Qed.

(* after j steps of the session, count() returns exactly len - min j len, has
   consumed the rest (cursor (len,len): len() = 0), and next() then returns None *)
Lemma iter_count_after j (w : world) :
  WF (self w) ->
  wp (c <- iter ;; r <- iter_run j c ;; x <- iter_count (snd r) ;; y <- iter_next (snd x) ;; ret (x, fst y))
     (fun z w' => w' = w /\
                  fst (fst z) = len (self w) - Nat.min j (len (self w)) /\
                  snd (fst z) = (len (self w), len (self w)) /\
                  cursor_len (snd (fst z)) = 0 /\ snd z = None)
     (fun _ => False) w.
Proof.
  intros Hw.
  apply (wp_bind_assoc iter (fun c => iter_run j c)
           (fun r => x <- iter_count (snd r) ;; y <- iter_next (snd x) ;; ret (x, fst y))).
  apply wp_bind.
  eapply wp_mono; [apply iter_run_exact; exact Hw | | auto]; cbn beta.
  intros r w' (-> & _ & Hc). rewrite Hc. apply wp_bind.
  pose proof (Nat.le_min_r j (len (self w))) as Hm.
  eapply wp_mono; [apply (iter_count_from _ _ w Hw Hm (Nat.le_refl _)) | | auto]; cbn beta.
  intros x w1 (-> & Hx1 & Hx2). rewrite Hx2. apply wp_bind.
  eapply wp_mono; [apply (iter_next_exact (len (self w)) (len (self w)) w Hw (Nat.le_refl _)) | | auto]; cbn beta.
  intros y w2 (-> & ->). rewrite Nat.ltb_irrefl. apply wp_ret. cbn [fst snd].
  split; [reflexivity|]. split; [exact Hx1|]. split; [exact Hx2|]. rewrite Hx2.
  split; [unfold cursor_len; cbn [fst snd]; lia | reflexivity].
Qed.

(* ---- B2. Clone of a borrowing iterator: Iter/Keys/Values/SetIter hold a
   slice iterator; Clone copies it.  In the model the iterator IS its cursor,
   so the clone is a copy of the cursor value. ---- *)
Definition iter_clone (c : cursor) : M cursor := ret c.

(* after j steps, clone; run the clone n steps, then the original m steps:
   the clone yields what the original would have yielded (the next slots in
   order), the original's position is untouched by running the clone, and when
   both are run equally far they give the same result *)
Lemma iter_clone_continues j n m (w : world) :
  WF (self w) ->
  wp (c0 <- iter ;; r <- iter_run j c0 ;;
      c' <- iter_clone (snd r) ;;
      rc <- iter_run n c' ;;
      l <- iter_len (snd r) ;;
      ro <- iter_run m (snd r) ;;
      ret (rc, l, ro))
     (fun x w' =>
        let pos := Nat.min j (len (self w)) in
        let rest := len (self w) - pos in
        w' = w /\
        fst (fst (fst x)) = seq pos (Nat.min n rest) /\
        snd (fst (fst x)) = (pos + Nat.min n rest, len (self w)) /\
        snd (fst x) = rest /\
        fst (snd x) = seq pos (Nat.min m rest) /\
        snd (snd x) = (pos + Nat.min m rest, len (self w)) /\
        (n = m -> fst (fst x) = snd x))
     (fun _ => False) w.
Proof.
  intros Hw.
  apply (wp_bind_assoc iter (fun c => iter_run j c)
           (fun r => c' <- iter_clone (snd r) ;; rc <- iter_run n c' ;; l <- iter_len (snd r) ;;
                     ro <- iter_run m (snd r) ;; ret (rc, l, ro))).
  apply wp_bind.
  eapply wp_mono; [apply iter_run_exact; exact Hw | | auto]; cbn beta.
  intros r w' (-> & _ & Hc). rewrite Hc. unfold iter_clone, iter_len.
  pose proof (Nat.le_min_r j (len (self w))) as Hm.
  apply wp_bind. apply wp_ret. apply wp_bind.
  eapply wp_mono; [apply (iter_continue_from n _ _ w Hw Hm (Nat.le_refl _)) | | auto]; cbn beta.
  intros rc w1 (-> & Hc1 & Hc2). apply wp_bind. apply wp_ret. apply wp_bind.
  eapply wp_mono; [apply (iter_continue_from m _ _ w Hw Hm (Nat.le_refl _)) | | auto]; cbn beta.
  intros ro w2 (-> & Ho1 & Ho2). apply wp_ret. cbv zeta. cbn [fst snd].
  split; [reflexivity|]. split; [exact Hc1|]. split; [exact Hc2|].
  split; [unfold cursor_len; reflexivity|]. split; [exact Ho1|]. split; [exact Ho2|].
  intros ->. destruct rc, ro. cbn [fst snd] in *. congruence.
Qed.

(* ---- B3. a write through the reference iter_mut / values_mut yielded last
   is exactly what a later lookup returns.  [write_val i f] is the in-place
   modification  [r := f r]  of the VALUE of slot i through the &mut V handed
   out (Exec.set_dat is the instance f v = {| vid := vid v; vdat := d |}). ---- *)
Definition write_val (i : nat) (f : V -> V) : M unit :=
  _ <- p_replace i (fun p => (fst p, f (snd p))) ;; ret tt.

Lemma find_idx_upd_key (ck : K -> N) c (l : list kv) : forall i k v v',
  nth_error l i = Some (k, v) -> find_idx ck c (upd l i (k, v')) = find_idx ck c l.
Proof.
  induction l as [|h t IH]; intros [|i] k v v' H; cbn [nth_error] in H; try discriminate.
  - injection H as ->. reflexivity.
  - cbn [upd find_idx]. rewrite (IH i k v v' H). reflexivity.
Qed.

Lemma find_idx_uniq_nth (ck : K -> N) (l : list kv) i p :
  Uniq ck l -> nth_error l i = Some p -> find_idx ck (ck (fst p)) l = Some i.
Proof.
  intros Hu Hp. apply (find_idx_some ck _ l i p Hp eq_refl).
  intros j q Hj Hq Heq. unfold Uniq in Hu.
  assert (Hlen : i < length l) by (apply nth_error_Some; rewrite Hp; discriminate).
  assert (Hji : j = i).
  { apply (proj1 (NoDup_nth (List.map (fun p => ck (fst p)) l) 0%N) Hu); rewrite ?map_length; try lia.
    rewrite (nth_error_nth _ _ 0%N (map_nth_error (fun p => ck (fst p)) j l Hq)).
    rewrite (nth_error_nth _ _ 0%N (map_nth_error (fun p => ck (fst p)) i l Hp)). exact Heq. }
  lia.
Qed.

Lemma write_val_exact i f k v (w : world) :
  WF (self w) -> nth_error (Spec.elems (self w)) i = Some (k, v) ->
  wp (write_val i f)
     (fun _ w' => w' = with_self w (set_slot_m (self w) i (Some (k, f v))) /\
                  WF (self w') /\ cap (self w') = cap (self w) /\ len (self w') = len (self w) /\
                  Spec.elems (self w') = upd (Spec.elems (self w)) i (k, f v))
     (fun _ => False) w.
Proof.
  intros Hw Hp. destruct (elems_nth_slot _ _ _ Hw Hp) as [Hi Hsl].
  unfold write_val. apply wp_bind. eapply wp_p_replace; [exact Hsl|]. apply wp_ret. cbn [fst snd].
  split; [reflexivity|]. simp_w.
  destruct (writes_visible i (f v) w Hw Hi k v Hp) as [He Hwf].
  split; [exact Hwf|]. split; [apply cap_set_slot|]. split; [reflexivity | exact He].
Qed.

(* the composition asked for: take S i items from iter_mut(), write through the
   last one, then look the key up: the lookup returns that slot and the slot
   holds the written value; every other entry is unchanged and every lookup
   still lands on the slot it landed on before *)
Lemma iter_mut_write_then_get (ck : K -> N) (cq : Q -> N) (HL : Lawful E ck cq)
      i (f : V -> V) q k v (w : world) :
  WF (self w) -> Uniq ck (Spec.elems (self w)) ->
  nth_error (Spec.elems (self w)) i = Some (k, v) -> cq q = ck k ->
  wp (c <- iter ;; r <- iter_run (S i) c ;;
      write_val (last (fst r) 0) f ;;
      o <- get E q ;;
      match o with
      | Some x => p <- p_ref x ;; ret (Some (x, p))
      | None => ret None
      end)
     (fun res w' =>
        res = Some (i, (k, f v)) /\
        WF (self w') /\ cap (self w') = cap (self w) /\ log w' = log w /\
        Spec.elems (self w') = upd (Spec.elems (self w)) i (k, f v) /\
        (forall j, j <> i -> nth_error (Spec.elems (self w')) j = nth_error (Spec.elems (self w)) j) /\
        (forall c, find_idx ck c (Spec.elems (self w')) = find_idx ck c (Spec.elems (self w))))
     (fun _ => False) w.
Proof.
  intros Hw Hu Hp Hq. destruct (elems_nth_slot _ _ _ Hw Hp) as [Hi Hsl].
  apply (wp_bind_assoc iter (fun c => iter_run (S i) c)
           (fun r => write_val (last (fst r) 0) f ;; o <- get E q ;;
                     match o with Some x => p <- p_ref x ;; ret (Some (x, p)) | None => ret None end)).
  apply wp_bind.
  eapply wp_mono; [apply iter_run_exact; exact Hw | | auto]; cbn beta.
  intros r w0 (-> & Hr & _).
  replace (Nat.min (S i) (len (self w))) with (S i) in Hr by lia.
  assert (Hlast : last (fst r) 0 = i).
  { rewrite Hr, seq_S. cbn [Nat.add]. apply last_last. }
  rewrite Hlast. apply wp_bind.
  eapply wp_mono; [apply (write_val_exact i f k v w Hw Hp) | | auto]; cbn beta.
  intros _ w1 (Hw1eq & Hw1 & Hc1 & Hl1 & He1).
  assert (Hlog1 : log w1 = log w) by (rewrite Hw1eq; reflexivity).
  assert (Hfind : forall c, find_idx ck c (Spec.elems (self w1)) = find_idx ck c (Spec.elems (self w))).
  { intros c. rewrite He1. apply (find_idx_upd_key ck c _ i k v (f v) Hp). }
  apply wp_bind.
  eapply wp_mono; [apply (get_lawful E ck cq HL q w1 Hw1) | | auto]; cbn beta.
  intros o w2 ([Hs2 Hl2] & ->). rewrite Hfind, Hq.
  change (ck k) with (ck (fst (k, v))). rewrite (find_idx_uniq_nth ck _ i (k, v) Hu Hp).
  assert (Hsl2 : nth_error (slots (self w2)) i = Some (Some (k, f v))).
  { rewrite Hs2, Hw1eq. simp_w. apply nth_error_upd_eq.
    apply nth_error_Some. rewrite Hsl. discriminate. }
  apply wp_bind. eapply wp_p_ref; [exact Hsl2|]. apply wp_ret.
  split; [reflexivity|]. rewrite Hs2.
  split; [exact Hw1|]. split; [exact Hc1|]. split; [congruence|]. split; [exact He1|].
  split; [|exact Hfind].
  intros j Hj. rewrite He1. apply nth_error_upd_neq. auto.
Qed.

End IterMore.

(* ---------------------------------------------------------------------- *)
(* B4. the interpreter's iterator sessions (Model/Exec.v): what is observed  *)
(* at every step, for each of the kinds 0 iter | 1 iter_mut | 2 keys |       *)
(* 3 values | 4 values_mut, and for Set::iter                                *)
(* ---------------------------------------------------------------------- *)
Section ExecIter.
Notation mworld := (world key vobj cstate).
Notation sworld := (world key unit cstate).

(* the projection each kind hands to the caller *)
Lemma r_item_kinds (p : key * vobj) :
  r_item 0 p = r_pair p /\ r_item 1 p = r_pair p /\ r_item 2 p = r_key (fst p) /\
  r_item 3 p = r_val (snd p) /\ r_item 4 p = r_val (snd p) /\
  is_mut_kind 0 = false /\ is_mut_kind 1 = true /\ is_mut_kind 2 = false /\
  is_mut_kind 3 = false /\ is_mut_kind 4 = true.
Proof. repeat split; reflexivity. Qed.

(* what a session of n steps from cursor (lo,hi) over slots sl reports: before
   EVERY step the three numbers len(), size_hint().0, size_hint().1 are all
   hi - lo = the number of items still to come; then 1, the slot and the kind's
   projection of the pair stored there, or 0 once exhausted (and again 0,
   with hints 0, at every later step) *)
Fixpoint steps_obs {V} (item : key * V -> list N) (sl : list (option (key * V))) (n lo hi : nat) : list N :=
  match n with
  | 0 => []
  | S n' =>
      let l := nn (hi - lo) in
      if lo <? hi then
        match nth_error sl lo with
        | Some (Some p) => [l; l; l; 1%N; nn lo] ++ item p ++ steps_obs item sl n' (S lo) hi
        | _ => []
        end
      else [l; l; l; 0%N] ++ steps_obs item sl n' lo hi
  end.

Lemma steps_obs_ext {V} (item : key * V -> list N) (sl sl' : list (option (key * V))) hi : forall n lo,
  (forall i, lo <= i -> nth_error sl i = nth_error sl' i) ->
  steps_obs item sl n lo hi = steps_obs item sl' n lo hi.
Proof.
  induction n as [|n IH]; intros lo H; cbn [steps_obs]; [reflexivity|].
  rewrite (H lo (Nat.le_refl _)). rewrite (IH (S lo)) by (intros i Hi; apply H; lia).
  rewrite (IH lo H). reflexivity.
Qed.

(* the value iter_mut / values_mut write: payload replaced, object kept *)
Definition dat_set (d : N) (p : key * vobj) : key * vobj :=
  (fst p, {| vid := vid (snd p); vdat := d |}).

Lemma set_dat_is_write_val i d :
  set_dat i d = write_val (T := cstate) i (fun v => {| vid := vid v; vdat := d |}).
Proof. reflexivity. Qed.

Lemma set_dat_exact i d p (w : mworld) :
  nth_error (slots (self w)) i = Some (Some p) ->
  wp (set_dat i d) (fun _ w' => w' = with_self w (set_slot_m (self w) i (Some (dat_set d p))))
     (fun _ => False) w.
Proof.
  intros Hp. unfold set_dat. apply wp_bind. eapply wp_p_replace; [exact Hp|]. apply wp_ret. reflexivity.
Qed.

(* Exec.iter_steps, every kind: the observations are steps_obs with the kind's
   projection r_item, the cursor advances by the number of items yielded;
   kinds 0,2,3 leave the world untouched; kinds 1 and 4 (iter_mut, values_mut)
   write wd+j through the reference yielded at step j into exactly that slot:
   every slot outside the yielded range is untouched, every yielded slot keeps
   its key and object and gets the new payload *)
Lemma iter_steps_obs kind wd : forall n j lo hi acc (w : mworld),
  WF (self w) -> hi <= len (self w) ->
  wp (iter_steps kind wd n j (lo, hi) acc)
     (fun r w' =>
        let m := Nat.min n (hi - lo) in
        fst r = acc ++ steps_obs (r_item kind) (slots (self w)) n lo hi /\
        snd r = (lo + m, hi) /\
        cb w' = cb w /\ log w' = log w /\ WF (self w') /\
        len (self w') = len (self w) /\ cap (self w') = cap (self w) /\
        (is_mut_kind kind = false -> w' = w) /\
        (forall i, i < lo \/ lo + m <= i ->
           nth_error (slots (self w')) i = nth_error (slots (self w)) i) /\
        (forall i p, lo <= i < lo + m -> nth_error (slots (self w)) i = Some (Some p) ->
           nth_error (slots (self w')) i =
             Some (Some (if is_mut_kind kind then dat_set (wd + nn (j + (i - lo))) p else p))))
     (fun _ => False) w.
Proof.
  induction n as [|n IH]; intros j lo hi acc w Hw Hhi; cbn [iter_steps steps_obs].
  - apply wp_ret. cbv zeta. cbn [fst snd]. rewrite Nat.min_0_l, Nat.add_0_r, app_nil_r.
    split; [reflexivity|]. split; [reflexivity|]. split; [reflexivity|]. split; [reflexivity|].
    split; [exact Hw|]. split; [reflexivity|]. split; [reflexivity|]. split; [reflexivity|].
    split; [reflexivity|]. intros i p Hi. lia.
  - cbv zeta. apply wp_bind.
    eapply wp_mono; [apply (iter_next_exact lo hi w Hw Hhi) | | auto]; cbn beta.
    intros r0 w0 [-> ->]. unfold cursor_len. cbn [fst snd].
    destruct (Nat.ltb_spec lo hi) as [Hlt|Hge]; cbv beta iota.
    + assert (Hlo : lo < len (self w)) by lia.
      destruct (WF_live _ _ Hw Hlo) as [p Hp]. rewrite Hp.
      apply wp_bind. eapply wp_p_ref; [exact Hp|]. apply wp_bind.
      set (acc' := acc ++ [nn (hi - lo); nn (hi - lo); nn (hi - lo); 1%N; nn lo] ++ r_item kind p).
      replace (Nat.min (S n) (hi - lo)) with (S (Nat.min n (hi - S lo))) by lia.
      set (m' := Nat.min n (hi - S lo)).
      destruct (is_mut_kind kind) eqn:Hmut.
      * eapply wp_mono; [apply (set_dat_exact lo (wd + nn j) p w Hp) | | auto]; cbn beta.
        intros _ w2 ->.
        set (w2 := with_self w (set_slot_m (self w) lo (Some (dat_set (wd + nn j) p)))).
        assert (Hcap : lo < cap (self w)) by (pose proof (WF_len_le_cap _ Hw); lia).
        assert (Hw2 : WF (self w2)) by (apply WF_set_slot_some; assumption).
        assert (Hsl2 : forall i, i <> lo -> nth_error (slots (self w2)) i = nth_error (slots (self w)) i).
        { intros i Hi. unfold w2. simp_w. apply nth_error_upd_neq. auto. }
        eapply wp_mono; [apply (IH (S j) (S lo) hi acc' w2 Hw2); exact Hhi | | auto]; cbn beta.
        intros r w3. cbv zeta. fold m'.
        intros (H1 & H2 & H3 & H4 & H5 & H6 & H7 & _ & H9 & H10).
        split.
        { rewrite (steps_obs_ext (r_item kind) (slots (self w2)) (slots (self w)) hi n (S lo)) in H1
            by (intros i Hi; apply Hsl2; lia).
          rewrite H1. unfold acc'. rewrite <- !app_assoc. reflexivity. }
        split; [rewrite H2; f_equal; lia|].
        split; [exact H3|]. split; [exact H4|]. split; [exact H5|].
        split; [exact H6|]. split; [rewrite H7; apply cap_set_slot|].
        split; [discriminate|]. split.
        { intros i Hi. rewrite H9 by lia. apply Hsl2. lia. }
        { intros i p0 Hi Hp0. destruct (Nat.eq_dec i lo) as [->|Hne].
          - rewrite Hp in Hp0. injection Hp0 as <-. rewrite H9 by lia.
            unfold w2. simp_w. rewrite Nat.sub_diag, Nat.add_0_r.
            apply nth_error_upd_eq. fold (cap (self w)). exact Hcap.
          - rewrite (H10 i p0); [|lia|rewrite Hsl2 by exact Hne; exact Hp0].
            replace (S j + (i - S lo)) with (j + (i - lo)) by lia. reflexivity. }
      * apply wp_ret.
        eapply wp_mono; [apply (IH (S j) (S lo) hi acc' w Hw); exact Hhi | | auto]; cbn beta.
        intros r w3. cbv zeta. fold m'.
        intros (H1 & H2 & H3 & H4 & H5 & H6 & H7 & H8 & H9 & H10).
        split.
        { rewrite H1. unfold acc'. rewrite <- !app_assoc. reflexivity. }
        split; [rewrite H2; f_equal; lia|].
        split; [exact H3|]. split; [exact H4|]. split; [exact H5|].
        split; [exact H6|]. split; [exact H7|].
        split; [exact H8|]. split.
        { intros i Hi. apply H9. lia. }
        { intros i p0 Hi Hp0. rewrite (H8 eq_refl). exact Hp0. }
    + replace (Nat.min (S n) (hi - lo)) with 0 by lia.
      eapply wp_mono; [apply (IH (S j) lo hi _ w Hw Hhi) | | auto]; cbn beta.
      intros r w3. cbv zeta. replace (Nat.min n (hi - lo)) with 0 by lia.
      intros (H1 & H2 & H3 & H4 & H5 & H6 & H7 & H8 & H9 & H10).
      split; [rewrite H1, <- app_assoc; reflexivity|]. repeat (split; [assumption|]). intros i p0 Hi. lia.
Qed.

(* one step read off: the rendered item is the kind's projection of the pair
   stored in the yielded slot *)
Lemma steps_obs_step {V} (item : key * V -> list N) sl lo hi p :
  lo < hi -> nth_error sl lo = Some (Some p) ->
  steps_obs item sl 1 lo hi = [nn (hi - lo); nn (hi - lo); nn (hi - lo); 1%N; nn lo] ++ item p.
Proof.
  intros Hlt Hp. cbn [steps_obs]. destruct (Nat.ltb_spec lo hi); [|lia]. rewrite Hp, app_nil_r. reflexivity.
Qed.

Lemma steps_obs_end {V} (item : key * V -> list N) sl lo hi :
  hi <= lo -> steps_obs item sl 1 lo hi = [0%N; 0%N; 0%N; 0%N].
Proof.
  intros Hge. cbn [steps_obs]. destruct (Nat.ltb_spec lo hi); [lia|].
  replace (hi - lo) with 0 by lia. reflexivity.
Qed.

(* Set::iter: the key of the pair (k, ()) stored in the yielded slot *)
Lemma set_iter_steps_obs : forall n lo hi acc (w : sworld),
  WF (self w) -> hi <= len (self w) ->
  wp (set_iter_steps n (lo, hi) acc)
     (fun r w' => w' = w /\
        fst r = acc ++ steps_obs (fun p : key * unit => r_key (fst p)) (slots (self w)) n lo hi /\
        snd r = (lo + Nat.min n (hi - lo), hi))
     (fun _ => False) w.
Proof.
  induction n as [|n IH]; intros lo hi acc w Hw Hhi; cbn [set_iter_steps steps_obs].
  - apply wp_ret. cbn [fst snd]. rewrite Nat.min_0_l, Nat.add_0_r, app_nil_r. auto.
  - cbv zeta. apply wp_bind.
    eapply wp_mono; [apply (iter_next_exact lo hi w Hw Hhi) | | auto]; cbn beta.
    intros r0 w0 [-> ->]. unfold cursor_len. cbn [fst snd].
    destruct (Nat.ltb_spec lo hi) as [Hlt|Hge]; cbv beta iota.
    + assert (Hlo : lo < len (self w)) by lia.
      destruct (WF_live _ _ Hw Hlo) as [p Hp]. rewrite Hp.
      apply wp_bind. eapply wp_p_ref; [exact Hp|].
      eapply wp_mono; [apply (IH (S lo) hi _ w Hw Hhi) | | auto]; cbn beta.
      intros r w3 (-> & H1 & H2). split; [reflexivity|].
      split; [rewrite H1, <- !app_assoc; reflexivity|]. rewrite H2. f_equal. lia.
    + eapply wp_mono; [apply (IH lo hi _ w Hw Hhi) | | auto]; cbn beta.
      intros r w3 (-> & H1 & H2). split; [reflexivity|].
      split; [rewrite H1, <- app_assoc; reflexivity|]. rewrite H2. f_equal. lia.
Qed.

(* Exec.rest_slots = consuming a clone of the iterator: it yields exactly the
   slots the original still has to yield, and does not move the original *)
Lemma rest_slots_exact : forall n lo (w : mworld),
  WF (self w) -> lo + n <= len (self w) ->
  wp (rest_slots n lo) (fun r w' => w' = w /\ r = List.map nn (seq lo n)) (fun _ => False) w.
Proof.
  induction n as [|n IH]; intros lo w Hw Hn; cbn [rest_slots].
  - apply wp_ret. auto.
  - assert (Hlo : lo < len (self w)) by lia.
    destruct (WF_live _ _ Hw Hlo) as [p Hp].
    apply wp_bind. eapply wp_p_ref; [exact Hp|]. apply wp_bind.
    eapply wp_mono; [apply (IH (S lo) w Hw); lia | | auto]; cbn beta.
    intros r w' [-> ->]. apply wp_ret. auto.
Qed.

Lemma rest_slots_s_exact : forall n lo (w : sworld),
  WF (self w) -> lo + n <= len (self w) ->
  wp (rest_slots_s n lo) (fun r w' => w' = w /\ r = List.map nn (seq lo n)) (fun _ => False) w.
Proof.
  induction n as [|n IH]; intros lo w Hw Hn; cbn [rest_slots_s].
  - apply wp_ret. auto.
  - assert (Hlo : lo < len (self w)) by lia.
    destruct (WF_live _ _ Hw Hlo) as [p Hp].
    apply wp_bind. eapply wp_p_ref; [exact Hp|]. apply wp_bind.
    eapply wp_mono; [apply (IH (S lo) w Hw); lia | | auto]; cbn beta.
    intros r w' [-> ->]. apply wp_ret. auto.
Qed.

(* the clone consumed by rest_slots yields what the original would yield *)
Lemma rest_slots_is_clone_run lo hi (w : mworld) :
  WF (self w) -> lo <= hi -> hi <= len (self w) ->
  wp (c' <- iter_clone (lo, hi) ;; r <- iter_run (cursor_len c') c' ;;
      rest <- rest_slots (cursor_len (lo, hi)) (fst (lo, hi)) ;; ret (r, rest))
     (fun x w' => w' = w /\ snd x = List.map nn (fst (fst x)) /\
                  fst (fst x) = seq lo (hi - lo) /\ length (snd x) = cursor_len (lo, hi))
     (fun _ => False) w.
Proof.
  intros Hw H1 H2. unfold iter_clone. apply wp_bind. apply wp_ret. apply wp_bind.
  unfold cursor_len. cbn [fst snd].
  eapply wp_mono; [apply (iter_continue_from (hi - lo) lo hi w Hw H1 H2) | | auto]; cbn beta.
  intros r w1 (-> & Hr & _). rewrite Nat.min_id in Hr. apply wp_bind.
  eapply wp_mono; [apply (rest_slots_exact (hi - lo) lo w Hw); lia | | auto]; cbn beta.
  intros rest w2 [-> ->]. apply wp_ret. cbn [fst snd].
  split; [reflexivity|]. rewrite Hr. split; [reflexivity|]. split; [reflexivity|].
  rewrite map_length, seq_length. reflexivity.
Qed.

(* the whole interpreter session for the non-mutable kinds (iter, keys,
   values): per-step observations, then (after the two Debug renderings, which
   do not touch anything) count() of a clone = number of items still to come,
   the slots that clone yields = the next slots in order, and the original's
   len() afterwards is still that number; the world is unchanged *)
Lemma iter_session_obs kind steps wd (w : mworld) :
  WF (self w) -> is_mut_kind kind = false ->
  wp (iter_session kind steps wd)
     (fun r w' =>
        let pos := Nat.min steps (len (self w)) in
        let rest := len (self w) - pos in
        w' = w /\
        exists d0 d1,
          r = steps_obs (r_item kind) (slots (self w)) steps 0 (len (self w)) ++ d0 ++ d1 ++
              [nn rest] ++ List.map nn (seq pos rest) ++ [nn rest])
     (fun _ => False) w.
Proof.
  intros Hw Hk. unfold iter_session. apply wp_bind.
  eapply wp_mono; [apply iter_exact; exact Hw | | auto]; cbn beta.
  intros c w0 [-> ->]. apply wp_bind.
  eapply wp_mono; [apply (iter_steps_obs kind wd steps 0 0 (len (self w)) [] w Hw (Nat.le_refl _)) | | auto];
    cbn beta.
  intros [acc c'] w1. cbv zeta. cbn [fst snd]. rewrite Nat.sub_0_r.
  intros (Ha & Hc & _ & _ & _ & _ & _ & Hsame & _). rewrite (Hsame Hk). subst acc c'. cbn [Nat.add app].
  unfold dbg_iter at 1. apply wp_bind. unfold wp at 1. cbv beta iota.
  unfold dbg_iter at 1. apply wp_bind. unfold wp at 1. cbv beta iota.
  rewrite Hk. unfold cursor_len. cbn [fst snd]. apply wp_bind.
  pose proof (Nat.le_min_r steps (len (self w))) as Hm.
  eapply wp_mono; [apply (rest_slots_exact _ _ w Hw); lia | | auto]; cbn beta.
  intros rest w2 [-> ->]. apply wp_ret. cbv zeta. split; [reflexivity|].
  eexists. eexists. rewrite map_length, seq_length. reflexivity.
Qed.

End ExecIter.

(* ====================================================================== *)
(* Part C (C10): consuming iterators and drain                             *)
(* ====================================================================== *)
Section IntoMore.
Context {K V Q T : Type} (E : env K V Q T) (debug : bool).
Notation M := (M K V T). Notation world := (world K V T). Notation map := (map K V). Notation kv := (K * V)%type.

(* n calls of a next() function, stopping at the first None *)
Fixpoint proj_run {A} (next : M (option A)) (n : nat) : M (list A) :=
  match n with
  | 0 => ret []
  | S n' => o <- next ;;
            match o with None => ret [] | Some a => r <- proj_run next n' ;; ret (a :: r) end
  end.

(* one step of a projecting consuming iterator: pops the last entry p, logs
   [evs p] (the destruction of the half that is not handed out), yields
   [proj p]; it can only panic after the entry was popped and [evs p] logged *)
Definition proj_step {A} (proj : kv -> A) (evs : kv -> list event) (next : M (option A)) : Prop :=
  forall w : world, WF (self w) ->
    wp next
       (fun r w' => WF (self w') /\ cap (self w') = cap (self w) /\
          match r with
          | None => len (self w) = 0 /\ self w' = self w /\ log w' = log w
          | Some a => exists p, a = proj p /\ S (len (self w')) = len (self w) /\
                                Spec.elems (self w) = Spec.elems (self w') ++ [p] /\
                                log w' = log w ++ evs p
          end)
       (fun w' => WF (self w') /\ cap (self w') = cap (self w) /\
          exists p, S (len (self w')) = len (self w) /\
                    Spec.elems (self w) = Spec.elems (self w') ++ [p] /\
                    log w' = log w ++ evs p)
       w.

Lemma firstn_app_exact {A} (l1 l2 : list A) c : c <= length l1 -> firstn c (l1 ++ l2) = firstn c l1.
Proof.
  intros H. rewrite firstn_app. replace (c - length l1) with 0 by lia. cbn [firstn]. apply app_nil_r.
Qed.

(* n steps: the yielded objects are the projections of the entries in the
   consuming order (last slot first), the log grew by exactly the events of
   those entries, in that order, each once; what is left is a prefix.  When a
   destructor panics at step t, the entries 0..t were popped and their events
   logged, nothing else. *)
Lemma proj_run_spec {A} (proj : kv -> A) (evs : kv -> list event) (next : M (option A)) :
  proj_step proj evs next ->
  forall n (w : world), WF (self w) ->
    wp (proj_run next n)
       (fun r w' =>
          let took := firstn n (rev (Spec.elems (self w))) in
          r = List.map proj took /\ log w' = log w ++ flat_map evs took /\
          WF (self w') /\ cap (self w') = cap (self w) /\
          len (self w') = len (self w) - Nat.min n (len (self w)) /\
          Spec.elems (self w') = firstn (len (self w) - Nat.min n (len (self w))) (Spec.elems (self w)))
       (fun w' => exists t, t < Nat.min n (len (self w)) /\
          let took := firstn (S t) (rev (Spec.elems (self w))) in
          log w' = log w ++ flat_map evs took /\
          WF (self w') /\ cap (self w') = cap (self w) /\
          len (self w') = len (self w) - S t /\
          Spec.elems (self w') = firstn (len (self w) - S t) (Spec.elems (self w)))
       w.
Proof.
  intros Hstep. induction n as [|n IH]; intros w Hw; cbn [proj_run].
  - apply wp_ret. cbv zeta. cbn [firstn List.map flat_map]. rewrite app_nil_r, Nat.min_0_l, Nat.sub_0_r.
    split; [reflexivity|]. split; [reflexivity|]. split; [exact Hw|]. split; [reflexivity|].
    split; [reflexivity|]. rewrite <- (elems_length _ Hw). symmetry. apply firstn_all.
  - apply wp_bind. eapply wp_mono; [apply (Hstep w Hw) | |]; cbn beta.
    + intros [a|] w1 (Hw1 & Hc1 & H1).
      * destruct H1 as (p & -> & Hlen & He & Hlog).
        pose proof (elems_length _ Hw1) as HL1.
        assert (Hrev : rev (Spec.elems (self w)) = p :: rev (Spec.elems (self w1)))
          by (rewrite He, rev_app_distr; reflexivity).
        apply wp_bind. eapply wp_mono; [apply (IH w1 Hw1) | |]; cbn beta; cbv zeta.
        -- intros r w2 (Hr & Hlog2 & Hw2 & Hc2 & Hlen2 & He2). apply wp_ret.
           rewrite Hrev. cbn [firstn List.map flat_map].
           split; [rewrite Hr; reflexivity|].
           split; [rewrite Hlog2, Hlog, <- app_assoc; reflexivity|].
           split; [exact Hw2|]. split; [congruence|]. split; [lia|].
           rewrite He2, He.
           replace (len (self w) - Nat.min (S n) (len (self w)))
             with (len (self w1) - Nat.min n (len (self w1))) by lia.
           symmetry. apply firstn_app_exact. lia.
        -- intros w2 (t & Ht & Hlog2 & Hw2 & Hc2 & Hlen2 & He2). exists (S t).
           split; [lia|]. rewrite Hrev.
           change (firstn (S (S t)) (p :: rev (Spec.elems (self w1))))
             with (p :: firstn (S t) (rev (Spec.elems (self w1)))).
           cbn [flat_map].
           split; [rewrite Hlog2, Hlog, <- app_assoc; reflexivity|].
           split; [exact Hw2|]. split; [congruence|]. split; [lia|].
           rewrite He2, He. replace (len (self w) - S (S t)) with (len (self w1) - S t) by lia.
           symmetry. apply firstn_app_exact. lia.
      * destruct H1 as (Hlen & Hs & Hlog). apply wp_ret. cbv zeta.
        assert (Hnil : Spec.elems (self w) = []).
        { apply length_zero_iff_nil. rewrite (elems_length _ Hw). exact Hlen. }
        rewrite Hs, Hnil, Hlen, Hlog. cbn [rev]. rewrite !firstn_nil. cbn [List.map flat_map].
        rewrite app_nil_r. split; [reflexivity|]. split; [reflexivity|]. split; [exact Hw|].
        split; [reflexivity|]. split; [lia | reflexivity].
    + intros w1 (Hw1 & Hc1 & p & Hlen & He & Hlog). exists 0.
      pose proof (elems_length _ Hw1) as HL1.
      assert (Hrev : rev (Spec.elems (self w)) = p :: rev (Spec.elems (self w1)))
        by (rewrite He, rev_app_distr; reflexivity).
      split; [lia|]. cbv zeta. rewrite Hrev. cbn [firstn flat_map]. rewrite app_nil_r.
      split; [exact Hlog|]. split; [exact Hw1|]. split; [exact Hc1|]. split; [lia|].
      rewrite He. replace (len (self w) - 1) with (length (Spec.elems (self w1))) by lia.
      rewrite firstn_app_exact by lia. symmetry. apply firstn_all.
Qed.

(* the three projections of the crate *)
Definition dropsV (p : kv) : list event := ev_drops (idV E (snd p)).
Definition dropsK (p : kv) : list event := ev_drops (idK E (fst p)).

(* IntoKeys::next (Owned2.into_keys_next): yields the key, destroys the value *)
Lemma into_keys_step : proj_step fst dropsV (into_keys_next E).
Proof.
  intros w Hw. unfold into_keys_next. apply wp_bind.
  eapply wp_mono; [apply into_iter_next_exact; exact Hw | | intros ? []]; cbn beta.
  intros [p|] w1 (Hw1 & Hc1 & Hl1 & H1).
  - destruct H1 as [Hlen He]. apply wp_bind.
    eapply wp_mono; [apply (drop_val_spec E (snd p) w1) | |]; cbn beta.
    + intros _ w2 [Hs2 Hl2]. apply wp_ret. rewrite Hs2.
      split; [exact Hw1|]. split; [exact Hc1|]. exists p.
      split; [reflexivity|]. split; [exact Hlen|]. split; [exact He|].
      unfold dropsV. congruence.
    + intros w2 [Hs2 Hl2]. rewrite Hs2. split; [exact Hw1|]. split; [exact Hc1|]. exists p.
      split; [exact Hlen|]. split; [exact He|]. unfold dropsV. congruence.
  - destruct H1 as [Hlen Hs]. apply wp_ret. rewrite Hs. auto.
Qed.

(* IntoValues::next: yields the value, destroys the key *)
Lemma into_values_step : proj_step snd dropsK (into_values_next E).
Proof.
  intros w Hw. unfold into_values_next. apply wp_bind.
  eapply wp_mono; [apply into_iter_next_exact; exact Hw | | intros ? []]; cbn beta.
  intros [p|] w1 (Hw1 & Hc1 & Hl1 & H1).
  - destruct H1 as [Hlen He]. apply wp_bind.
    eapply wp_mono; [apply (drop_key_spec E (fst p) w1) | |]; cbn beta.
    + intros _ w2 [Hs2 Hl2]. apply wp_ret. rewrite Hs2.
      split; [exact Hw1|]. split; [exact Hc1|]. exists p.
      split; [reflexivity|]. split; [exact Hlen|]. split; [exact He|].
      unfold dropsK. congruence.
    + intros w2 [Hs2 Hl2]. rewrite Hs2. split; [exact Hw1|]. split; [exact Hc1|]. exists p.
      split; [exact Hlen|]. split; [exact He|]. unfold dropsK. congruence.
  - destruct H1 as [Hlen Hs]. apply wp_ret. rewrite Hs. auto.
Qed.

(* Set::into_iter (SetIntoIter::next = self.iter.next().map(|p| p.0) with V = ():
   nothing to destroy in the model of the interpreter, Exec.set_into_steps) and,
   with proj = id, IntoIter itself *)
Definition into_proj_next {A} (proj : kv -> A) : M (option A) :=
  o <- into_iter_next ;; ret (option_map proj o).

Lemma into_proj_step {A} (proj : kv -> A) : proj_step proj (fun _ => []) (into_proj_next proj).
Proof.
  intros w Hw. unfold into_proj_next. apply wp_bind.
  eapply wp_mono; [apply into_iter_next_exact; exact Hw | | intros ? []]; cbn beta.
  intros [p|] w1 (Hw1 & Hc1 & Hl1 & H1); apply wp_ret; cbn [option_map].
  - destruct H1 as [Hlen He]. split; [exact Hw1|]. split; [exact Hc1|]. exists p.
    rewrite app_nil_r. auto.
  - destruct H1 as [Hlen Hs]. rewrite Hs. auto.
Qed.

Definition into_keys_run := proj_run (into_keys_next E).
Definition into_values_run := proj_run (into_values_next E).
Definition into_proj_run {A} (proj : kv -> A) := proj_run (into_proj_next proj).

(* into_keys: the yielded keys are  map fst  of the entries in consuming order;
   the VALUE of each yielded entry is destroyed exactly once, at that step (the
   log grows by exactly those Drop events, in order); when a value's Drop panics
   at step t, exactly the values of entries 0..t were destroyed *)
Lemma into_keys_run_spec n (w : world) :
  WF (self w) ->
  wp (into_keys_run n)
     (fun r w' =>
        let took := firstn n (rev (Spec.elems (self w))) in
        r = List.map fst took /\ log w' = log w ++ flat_map dropsV took /\
        WF (self w') /\ cap (self w') = cap (self w) /\
        len (self w') = len (self w) - Nat.min n (len (self w)) /\
        Spec.elems (self w') = firstn (len (self w) - Nat.min n (len (self w))) (Spec.elems (self w)))
     (fun w' => exists t, t < Nat.min n (len (self w)) /\
        let took := firstn (S t) (rev (Spec.elems (self w))) in
        log w' = log w ++ flat_map dropsV took /\
        WF (self w') /\ cap (self w') = cap (self w) /\
        len (self w') = len (self w) - S t /\
        Spec.elems (self w') = firstn (len (self w) - S t) (Spec.elems (self w)))
     w.
Proof. exact (proj_run_spec fst dropsV (into_keys_next E) into_keys_step n w). Qed.

Lemma into_values_run_spec n (w : world) :
  WF (self w) ->
  wp (into_values_run n)
     (fun r w' =>
        let took := firstn n (rev (Spec.elems (self w))) in
        r = List.map snd took /\ log w' = log w ++ flat_map dropsK took /\
        WF (self w') /\ cap (self w') = cap (self w) /\
        len (self w') = len (self w) - Nat.min n (len (self w)) /\
        Spec.elems (self w') = firstn (len (self w) - Nat.min n (len (self w))) (Spec.elems (self w)))
     (fun w' => exists t, t < Nat.min n (len (self w)) /\
        let took := firstn (S t) (rev (Spec.elems (self w))) in
        log w' = log w ++ flat_map dropsK took /\
        WF (self w') /\ cap (self w') = cap (self w) /\
        len (self w') = len (self w) - S t /\
        Spec.elems (self w') = firstn (len (self w) - S t) (Spec.elems (self w)))
     w.
Proof. exact (proj_run_spec snd dropsK (into_values_next E) into_values_step n w). Qed.

Lemma flat_map_nil {A B} (l : list A) : flat_map (fun _ : A => @nil B) l = [].
Proof. induction l as [|a l IH]; [reflexivity | exact IH]. Qed.

(* a projection that destroys nothing (Set::into_iter: proj = fst): no panic,
   log untouched *)
Lemma into_proj_run_spec {A} (proj : kv -> A) n (w : world) :
  WF (self w) ->
  wp (into_proj_run proj n)
     (fun r w' =>
        r = List.map proj (firstn n (rev (Spec.elems (self w)))) /\ log w' = log w /\
        WF (self w') /\ cap (self w') = cap (self w) /\
        len (self w') = len (self w) - Nat.min n (len (self w)) /\
        Spec.elems (self w') = firstn (len (self w) - Nat.min n (len (self w))) (Spec.elems (self w)))
     (fun _ => False) w.
Proof.
  intros Hw. unfold into_proj_run.
  assert (Hnp : forall n (w0 : world), WF (self w0) ->
            wp (proj_run (into_proj_next proj) n) (fun _ w' => WF (self w')) (fun _ => False) w0).
  { clear. induction n as [|n IH]; intros w0 Hw0; cbn [proj_run]; [apply wp_ret; exact Hw0|].
    apply wp_bind. unfold into_proj_next. apply wp_bind.
    eapply wp_mono; [apply into_iter_next_exact; exact Hw0 | | auto]; cbn beta.
    intros o w1 (Hw1 & _). apply wp_ret. destruct o as [p|]; cbn [option_map].
    - apply wp_bind. eapply wp_mono; [apply (IH w1 Hw1) | | auto]; cbn beta.
      intros r w2 Hw2. apply wp_ret. exact Hw2.
    - apply wp_ret. exact Hw1. }
  pose proof (proj_run_spec proj (fun _ => []) (into_proj_next proj) (into_proj_step proj) n w Hw) as H.
  pose proof (Hnp n w Hw) as H0. unfold wp in *.
  destruct (proj_run (into_proj_next proj) n w) as [r w'|w'|]; [|destruct H0|exact H].
  cbv zeta in H. rewrite flat_map_nil, app_nil_r in H. exact H.
Qed.

(* ---- drain never panics before its Drop runs ---- *)
Lemma drain_run_nopanic n (w : world) :
  WF (self w) ->
  wp (c <- drain ;; drain_run n c)
     (fun r w' => fst r = firstn n (Spec.elems (self w)) /\
                  snd r = (Nat.min n (len (self w)), len (self w)) /\
                  DrainInv (snd r) (self w') /\
                  cap (self w') = cap (self w) /\ log w' = log w /\ len (self w') = 0)
     (fun _ => False) w.
Proof.
  intros Hw. eapply wp_mono; [apply drain_run_strong; exact Hw | | auto]; cbn beta.
  intros r w' (H1 & H2 & H3 & _ & H4 & H5 & H6). auto 10.
Qed.

Lemma drain_forgotten_nopanic n (w : world) :
  WF (self w) ->
  wp (c <- drain ;; drain_run n c)
     (fun _ w' => WF (self w') /\ len (self w') = 0 /\ cap (self w') = cap (self w))
     (fun _ => False) w.
Proof.
  intros Hw. eapply wp_mono; [apply drain_run_nopanic; exact Hw | | auto]; cbn beta.
  intros r w' (_ & _ & HD & Hcap & _ & Hlen).
  split; [eapply DrainInv_WF; exact HD | auto].
Qed.

(* ---- "fully reusable": after a drain session the container IS the empty
   dictionary of the same capacity ---- *)
Lemma Abs_empty (ck : K -> N) (m : map) : WF m -> len m = 0 -> Abs ck m [].
Proof.
  intros Hw Hl. split; [exact Hw|]. unfold Spec.elems. rewrite Hl. cbn [take_live].
  split; [apply NoDup_nil | apply perm_nil].
Qed.

(* any environment (Drop may panic), any number taken, drain dropped *)
Lemma drain_session_Abs (ck : K -> N) n (w : world) :
  WF (self w) ->
  let post := fun w' : world => Abs ck (self w') [] /\ cap (self w') = cap (self w) in
  wp (c <- drain ;; r <- drain_run n c ;; drain_drop E (snd r)) (fun _ => post) post w.
Proof.
  intros Hw post.
  eapply wp_mono; [apply (drain_empties_strong E n w Hw) | |]; cbn beta; unfold post.
  - intros _ w' (H1 & H2 & H3). split; [apply Abs_empty; assumption | exact H3].
  - intros w' (H1 & H2 & H3). split; [apply Abs_empty; assumption | exact H3].
Qed.

(* mem::forget(drain) *)
Lemma drain_forgotten_Abs (ck : K -> N) n (w : world) :
  WF (self w) ->
  wp (c <- drain ;; drain_run n c)
     (fun _ w' => Abs ck (self w') [] /\ cap (self w') = cap (self w)) (fun _ => False) w.
Proof.
  intros Hw. eapply wp_mono; [apply drain_forgotten_nopanic; exact Hw | | auto]; cbn beta.
  intros _ w' (H1 & H2 & H3). split; [apply Abs_empty; assumption | exact H3].
Qed.

Section Reuse.
Context (ck : K -> N) (cq : Q -> N) (HL : Lawful E ck cq).

(* every later history of dictionary operations behaves exactly like the same
   history on a FRESH container of the same capacity (Dict.run_refines) *)
Theorem drain_then_run_refines take (ops : list (@Dict.dop K V Q)) (w : world) :
  WF (self w) ->
  match (c <- drain ;; r <- drain_run take c ;; drain_drop E (snd r)) w with
  | Ok _ w' | Panic w' =>
      cap (self w') = cap (self w) /\
      mrun E debug ops w' = drun ck cq (cap (self w)) ops [] /\
      forall s lg, mrun E debug ops w' =
                   mrun E debug ops {| cb := s; log := lg; self := new_map (cap (self w)) |}
  | UB => False
  end.
Proof.
  intros Hw. pose proof (drain_session_Abs ck take w Hw) as H. cbv zeta in H. unfold wp in H.
  destruct ((c <- drain ;; r <- drain_run take c ;; drain_drop E (snd r)) w) as [u w'|w'|];
    [| |exact H]; destruct H as [Ha Hc];
    (split; [exact Hc|]; split;
     [apply (run_refines E debug ck cq HL _ ops w' [] Ha Hc)
     |intros s lg; rewrite (run_refines_new E debug ck cq HL);
      apply (run_refines E debug ck cq HL _ ops w' [] Ha Hc)]).
Qed.

Theorem drain_forgotten_then_run_refines take (ops : list (@Dict.dop K V Q)) (w : world) :
  WF (self w) ->
  match (c <- drain ;; drain_run take c) w with
  | Ok _ w' =>
      cap (self w') = cap (self w) /\
      mrun E debug ops w' = drun ck cq (cap (self w)) ops [] /\
      forall s lg, mrun E debug ops w' =
                   mrun E debug ops {| cb := s; log := lg; self := new_map (cap (self w)) |}
  | _ => False
  end.
Proof.
  intros Hw. pose proof (drain_forgotten_Abs ck take w Hw) as H. unfold wp in H.
  destruct ((c <- drain ;; drain_run take c) w) as [u w'|w'|]; [|exact H|exact H].
  destruct H as [Ha Hc]. split; [exact Hc|]. split.
  - apply (run_refines E debug ck cq HL _ ops w' [] Ha Hc).
  - intros s lg. rewrite (run_refines_new E debug ck cq HL).
    apply (run_refines E debug ck cq HL _ ops w' [] Ha Hc).
Qed.

(* the same inside the mixed histories of Dict2: a history that starts with a
   drain (any number taken) continues from the EMPTY dictionary *)
Theorem drain_first_run2_refines n take (ops : list (@Dict2.dop2 K V Q)) (w : world) d :
  Abs ck (self w) d -> cap (self w) = n ->
  exists wf df p rs,
    mfinal2 E debug (DDrain take :: ops) w = Some wf /\
    Permutation p d /\
    mrun2 E debug (DDrain take :: ops) w = RItems (firstn take p) :: rs /\
    druns2 ck cq n ops [] rs df /\
    Abs ck (self wf) df /\ cap (self wf) = n.
Proof.
  intros Ha Hc.
  destruct (run2_refines E debug ck cq HL n (DDrain take :: ops) w d Ha Hc) as (wf & df & Hf & Hr & Haf & Hcf).
  inversion Hr as [|o ops' d0 r d' rs df' Hst Hrest Ho Hd Hrs Hdf]; subst.
  cbn [dstep2] in Hst. destruct Hst as (-> & p & Hp & ->).
  exists wf, df, p, rs. auto 10.
Qed.

End Reuse.
End IntoMore.

(* ---------------------------------------------------------------------- *)
(* the interpreter's consuming sessions use exactly these projections       *)
(* (Exec.into_steps_item kind: 0 into_iter | 1 into_keys | 2 into_values;   *)
(*  Exec.set_into_steps: the key of (k, ()))                                 *)
(* ---------------------------------------------------------------------- *)
Section ExecInto.
Context (sc : script).
Notation Em := (env_map sc).
Notation mworld := (world key vobj cstate).

Lemma into_steps_item_kinds (p : key * vobj) :
  into_steps_item sc 0 p = ret (r_pair p) /\
  into_steps_item sc 1 p = (drop_val Em (snd p) ;; ret (r_key (fst p))) /\
  into_steps_item sc 2 p = (drop_key Em (fst p) ;; ret (r_val (snd p))).
Proof. repeat split; reflexivity. Qed.

(* one step of Exec.into_steps for kind 1 / 2 / 0 is IntoKeys::next /
   IntoValues::next / IntoIter::next followed by rendering *)
Lemma into_steps_keys_next (w : mworld) :
  (o <- into_iter_next ;;
   match o with None => ret None | Some p => it <- into_steps_item sc 1 p ;; ret (Some it) end) w
  = (o <- into_keys_next Em ;; ret (option_map r_key o)) w.
Proof.
  unfold into_keys_next, bind. destruct (into_iter_next w) as [[p|] w1|w1|]; try reflexivity.
  change (into_steps_item sc 1 p) with (drop_val Em (snd p) ;; ret (r_key (fst p))).
  unfold bind. destruct (drop_val Em (snd p) w1) as [u w2|w2|]; reflexivity.
Qed.

Lemma into_steps_values_next (w : mworld) :
  (o <- into_iter_next ;;
   match o with None => ret None | Some p => it <- into_steps_item sc 2 p ;; ret (Some it) end) w
  = (o <- into_values_next Em ;; ret (option_map r_val o)) w.
Proof.
  unfold into_values_next, bind. destruct (into_iter_next w) as [[p|] w1|w1|]; try reflexivity.
  change (into_steps_item sc 2 p) with (drop_key Em (fst p) ;; ret (r_val (snd p))).
  unfold bind. destruct (drop_key Em (fst p) w1) as [u w2|w2|]; reflexivity.
Qed.

Lemma into_steps_pairs_next (w : mworld) :
  (o <- into_iter_next ;;
   match o with None => ret None | Some p => it <- into_steps_item sc 0 p ;; ret (Some it) end) w
  = (into_proj_next r_pair) w.
Proof.
  unfold into_proj_next, bind. destruct (into_iter_next w) as [[p|] w1|w1|]; reflexivity.
Qed.

End ExecInto.

(* Map::with_capacity in the interpreter (Exec.step, OWithCapacity): accepted
   exactly when the requested capacity is the type's N; the register then holds
   a container of that capacity with len 0 (also when the destructor of the old
   value panics) *)
Lemma with_capacity_op {V} (E : env key V query cstate) c (w : world key V cstate) :
  WF (self w) ->
  wp (n <- get_cap ;; if with_capacity_ok c n then replace_with E (ret tt) [] else panic)
     (fun _ w' => c = cap (self w) /\ cap (self w') = c /\ len (self w') = 0 /\ self w' = new_map c)
     (fun w' => (c <> cap (self w) /\ self w' = self w) \/
                (c = cap (self w) /\ self w' = new_map c))
     w.
Proof.
  intros Hw. apply wp_bind. apply wp_get_cap. unfold with_capacity_ok.
  destruct (Nat.eqb_spec c (cap (self w))) as [Hc|Hc]; [|apply wp_panic; left; auto].
  unfold replace_with. apply wp_bind. apply wp_get_cap. apply wp_bind.
  unfold swap_self at 1. unfold wp at 1. cbn [ret].
  apply wp_bind. apply wp_get_self. apply wp_bind. apply wp_put_self. simp_w.
  apply wp_bind. unfold wp at 1, swap_self. simp_w.
  pose proof (drop_map_safe E {| cb := cb w; log := log w; self := self w |} Hw) as Hd.
  unfold wp in Hd. simp_w.
  destruct (drop_map E {| cb := cb w; log := log w; self := self w |}) as [u w1|w1|]; [| |exact Hd].
  - apply wp_ret. simp_w. rewrite <- Hc. rewrite cap_new. auto.
  - simp_w. right. rewrite <- Hc. auto.
Qed.

(* iter_mut / values_mut sessions of the interpreter, seen on the content: after
   n steps from iter_mut() entry i < n holds the same key and the same value
   object with the payload written at step i; every other entry is unchanged *)
Lemma iter_mut_session_writes kind wd n (w : world key vobj cstate) :
  WF (self w) -> is_mut_kind kind = true ->
  wp (c <- iter ;; iter_steps kind wd n 0 c [])
     (fun r w' =>
        fst r = steps_obs (r_item kind) (slots (self w)) n 0 (len (self w)) /\
        snd r = (Nat.min n (len (self w)), len (self w)) /\
        WF (self w') /\ len (self w') = len (self w) /\ cap (self w') = cap (self w) /\
        log w' = log w /\
        forall i k v, nth_error (Spec.elems (self w)) i = Some (k, v) ->
          nth_error (Spec.elems (self w')) i =
            Some (k, if i <? n then {| vid := vid v; vdat := wd + nn i |} else v))
     (fun _ => False) w.
Proof.
  intros Hw Hk. apply wp_bind.
  eapply wp_mono; [apply iter_exact; exact Hw | | auto]; cbn beta.
  intros c w0 [-> ->].
  eapply wp_mono; [apply (iter_steps_obs kind wd n 0 0 (len (self w)) [] w Hw (Nat.le_refl _)) | | auto];
    cbn beta.
  intros r w'. cbv zeta. rewrite Nat.sub_0_r, Hk. cbn [Nat.add app].
  intros (H1 & H2 & _ & H4 & H5 & H6 & H7 & _ & H9 & H10).
  split; [exact H1|]. split; [exact H2|]. split; [exact H5|]. split; [exact H6|]. split; [exact H7|].
  split; [exact H4|].
  intros i k v Hp. destruct (elems_nth_slot _ _ _ Hw Hp) as [Hi Hsl].
  assert (Hi' : i < len (self w')) by lia.
  apply (elems_nth (self w') i _ H5 Hi').
  destruct (Nat.ltb_spec i n) as [Hlt|Hge].
  - rewrite (H10 i (k, v)); [|lia|exact Hsl]. rewrite Nat.sub_0_r. reflexivity.
  - rewrite H9 by lia. exact Hsl.
Qed.

(* ###################################################################### *)
(* SECOND ROUND                                                            *)
(* ###################################################################### *)

(* ====================================================================== *)
(* R2-A (C06): the remaining reference-returning operations               *)
(* ====================================================================== *)
Section RefsInside2.
Context {K V Q T : Type} (E : env K V Q T) (debug : bool).
Notation M := (M K V T). Notation world := (world K V T). Notation map := (map K V).

(* get_disjoint_mut: every index returned is inside, indices pairwise distinct *)
Lemma disjoint_inside ks (w : world) :
  WF (self w) ->
  wp (get_disjoint_mut E ks)
     (fun r w' => self w' = self w /\ length r = length ks /\
        (forall j i, nth_error r j = Some (Some i) -> inside (self w) i) /\
        (forall j1 j2 i, nth_error r j1 = Some (Some i) -> nth_error r j2 = Some (Some i) -> j1 = j2))
     (fun w' => self w' = self w) w.
Proof.
  intros Hw. eapply wp_mono; [apply (disjoint_safe E ks w Hw) | |]; cbn beta; [|auto].
  intros r w' (H1 & H2 & H3 & H4). split; [exact H1|]. split; [exact H2|]. split; [|exact H4].
  intros j i Hj. apply WF_inside; [exact Hw | exact (H3 j i Hj)].
Qed.

(* the entry API: the returned slot is inside the container AS IT IS AFTER the call *)
Lemma vac_insert_inside k v (w : world) :
  WF (self w) ->
  wp (vac_insert E debug k v)
     (fun i w' => inv_post w w' /\ inside (self w') i) (inv_post w) w.
Proof.
  intros Hw. eapply wp_mono; [apply (vac_insert_spec E debug k v w Hw) | |]; cbn beta; [|auto].
  intros i w' [H1 H2]. split; [exact H1|]. apply WF_inside; [apply H1 | exact H2].
Qed.

Lemma or_insert_inside (e : @entry K) v (w : world) :
  WF (self w) -> entry_ok e (self w) ->
  wp (or_insert E debug e v)
     (fun i w' => inv_post w w' /\ inside (self w') i) (inv_post w) w.
Proof.
  intros Hw He. eapply wp_mono; [apply (or_insert_spec E debug e v w Hw He) | |]; cbn beta; [|auto].
  intros i w' [H1 H2]. split; [exact H1|]. apply WF_inside; [apply H1 | exact H2].
Qed.

(* or_insert_with; or_default is or_insert_with(Default::default) *)
Lemma or_insert_with_inside (e : @entry K) f (w : world) :
  WF (self w) -> entry_ok e (self w) ->
  wp (or_insert_with E debug e f)
     (fun i w' => inv_post w w' /\ inside (self w') i) (inv_post w) w.
Proof.
  intros Hw He. eapply wp_mono; [apply (or_insert_with_spec E debug e f w Hw He) | |]; cbn beta; [|auto].
  intros i w' [H1 H2]. split; [exact H1|]. apply WF_inside; [apply H1 | exact H2].
Qed.

Lemma or_insert_with_key_inside (e : @entry K) f (w : world) :
  WF (self w) -> entry_ok e (self w) ->
  wp (or_insert_with_key E debug e f)
     (fun i w' => inv_post w w' /\ inside (self w') i) (inv_post w) w.
Proof.
  intros Hw He. eapply wp_mono; [apply (or_insert_with_key_spec E debug e f w Hw He) | |]; cbn beta; [|auto].
  intros i w' [H1 H2]. split; [exact H1|]. apply WF_inside; [apply H1 | exact H2].
Qed.

(* the whole chains map.entry(k).or_insert*(..), every environment *)
Lemma entry_or_insert_inside k (fin : @entry K -> M nat) (w : world) :
  (exists v, fin = fun e => or_insert E debug e v) \/
  (exists f, fin = fun e => or_insert_with E debug e f) \/
  (exists f, fin = fun e => or_insert_with_key E debug e f) ->
  WF (self w) ->
  wp (e <- entry_of E k ;; fin e)
     (fun i w' => inv_post w w' /\ inside (self w') i) (inv_post w) w.
Proof.
  intros Hfin Hw. apply wp_bind.
  eapply wp_mono; [apply (entry_of_spec E k w Hw) | |]; cbn beta.
  - intros e w1 [Hs1 He].
    assert (Hw1 : WF (self w1)) by (rewrite Hs1; exact Hw).
    assert (He1 : entry_ok e (self w1)) by (rewrite Hs1; exact He).
    assert (H : wp (fin e) (fun i w' => inv_post w1 w' /\ inside (self w') i) (inv_post w1) w1).
    { destruct Hfin as [[v ->]|[[f ->]|[f ->]]].
      - apply or_insert_inside; assumption.
      - apply or_insert_with_inside; assumption.
      - apply or_insert_with_key_inside; assumption. }
    eapply wp_mono; [exact H | |]; cbn beta.
    + intros i w2 [H1 H2]. split; [eapply inv_post_base; eauto | exact H2].
    + intros w2 H1. eapply inv_post_base; eauto.
  - intros w1 Hs1. apply inv_post_refl; auto.
Qed.

(* ---- retain: the &K / &mut V handed to the closure ---- *)

(* one call of the closure on slot i: the references it receives are those of
   the pair stored in slot i, which is inside; the value it leaves is written
   back into that same slot under the same key; nothing else changes *)
Lemma call_pred_inside (f : pred_t) i (w : world) :
  WF (self w) -> i < len (self w) ->
  let post := fun w' : world =>
    inside (self w) i /\ inside (self w') i /\ inv_post w w' /\ len (self w') = len (self w) /\
    exists p v', nth_error (slots (self w)) i = Some (Some p) /\
                 v' = snd (fst (f (cb w) (fst p) (snd p))) /\
                 self w' = set_slot_m (self w) i (Some (fst p, v')) in
  wp (call_pred f i) (fun _ => post) post w.
Proof.
  intros Hw Hi post. destruct (WF_live _ _ Hw Hi) as [p Hp].
  assert (Hic : i < cap (self w)) by (apply live_lt_cap; exists p; exact Hp).
  unfold call_pred. apply wp_bind. eapply wp_p_ref; [exact Hp|].
  unfold wp. destruct (f (cb w) (fst p) (snd p)) as [[r v'] s] eqn:Hf.
  assert (Hpost : forall l, post {| cb := s; log := l;
            self := {| len := len (self w); slots := upd (slots (self w)) i (Some (fst p, v')) |} |}).
  { intros l. unfold post. simp_w.
    assert (Hwf' : WF (set_slot_m (self w) i (Some (fst p, v')))) by (apply WF_set_slot_some; assumption).
    split; [apply WF_inside; assumption|].
    split; [apply (WF_inside (set_slot_m (self w) i (Some (fst p, v')))); [exact Hwf' | exact Hi]|].
    split; [split; [exact Hwf' | apply cap_set_slot]|]. split; [reflexivity|].
    exists p, v'. rewrite Hf. cbn [fst snd]. auto. }
  destruct r; apply Hpost.
Qed.

(* the loop calls the closure only on slots that pass this check: retain with an
   explicit (UB-raising) check "slot i is inside" in front of every closure call
   is the same computation on every well-formed container *)
Definition assert_inside (i : nat) : M unit :=
  fun w => match nth_error (slots (self w)) i with
           | Some (Some _) =>
               if (i <? len (self w)) && (len (self w) <=? cap (self w)) then Ok tt w else UB
           | _ => UB
           end.

Lemma assert_inside_ok i (w : world) : assert_inside i w = Ok tt w <-> inside (self w) i.
Proof.
  unfold assert_inside, inside, live. split.
  - destruct (nth_error (slots (self w)) i) as [[p|]|]; try discriminate.
    destruct (Nat.ltb_spec i (len (self w))); destruct (Nat.leb_spec (len (self w)) (cap (self w)));
      cbn [andb]; try discriminate. intros _. eauto.
  - intros (H1 & H2 & p & Hp). rewrite Hp.
    destruct (Nat.ltb_spec i (len (self w))); [|lia].
    destruct (Nat.leb_spec (len (self w)) (cap (self w))); [|lia]. reflexivity.
Qed.

Fixpoint retain_loop_chk (f : pred_t) (fuel i : nat) : M unit :=
  n <- get_len ;;
  if i <? n then
    match fuel with
    | 0 => ub
    | S fuel' =>
        keep <- (assert_inside i ;; call_pred f i) ;;
        if keep then retain_loop_chk f fuel' (S i)
        else (remove_index_drop E debug i ;; retain_loop_chk f fuel' i)
    end
  else ret tt.
Definition retain_chk (f : pred_t) : M unit := n <- get_len ;; retain_loop_chk f n 0.

Lemma bind_ext_wp {A B} (c : M A) (f g : A -> M B) (w : world) :
  wp c (fun a w' => f a w' = g a w') (fun _ => True) w -> bind c f w = bind c g w.
Proof. unfold wp, bind. destruct (c w); auto. Qed.

Lemma get_len_bind {A} (k : nat -> M A) (w : world) : bind get_len k w = k (len (self w)) w.
Proof. reflexivity. Qed.

Lemma assert_inside_bind {A B} i (c : M A) (k : A -> M B) (w : world) :
  assert_inside i w = Ok tt w -> bind (bind (assert_inside i) (fun _ => c)) k w = bind c k w.
Proof. intros H. unfold bind. rewrite H. reflexivity. Qed.

Lemma retain_loop_chk_eq (f : pred_t) : forall fuel i (w : world),
  WF (self w) -> retain_loop E debug f fuel i w = retain_loop_chk f fuel i w.
Proof.
  induction fuel as [|fuel IH]; intros i w Hw; cbn [retain_loop retain_loop_chk]; [reflexivity|].
  rewrite !get_len_bind. destruct (Nat.ltb_spec i (len (self w))) as [Hi|Hi]; [|reflexivity].
  assert (Ha : assert_inside i w = Ok tt w) by (apply assert_inside_ok; apply WF_inside; assumption).
  rewrite (assert_inside_bind i _ _ w Ha).
  apply bind_ext_wp.
  eapply wp_mono; [apply (call_pred_spec f i w Hw Hi) | |]; cbn beta; [|auto].
  intros keep w1 [H1 Hl1]. assert (Hw1 : WF (self w1)) by apply H1. destruct keep.
  - apply IH. exact Hw1.
  - apply bind_ext_wp.
    eapply wp_mono; [apply (keeps_remove_index_drop E debug i w1 Hw1); lia | |]; cbn beta; [|auto].
    intros _ w2 [H2 _]. apply IH. apply H2.
Qed.

Lemma retain_chk_eq (f : pred_t) (w : world) :
  WF (self w) -> retain E debug f w = retain_chk f w.
Proof. intros Hw. unfold retain, retain_chk. rewrite !get_len_bind. apply retain_loop_chk_eq. exact Hw. Qed.

End RefsInside2.

(* ====================================================================== *)
(* R2-B (C09): whole sessions, many writes then lookups, count vs Exec     *)
(* ====================================================================== *)
Lemma nth_error_ext_eq {A} : forall l l' : list A,
  (forall j, nth_error l j = nth_error l' j) -> l = l'.
Proof.
  induction l as [|a l IH]; intros [|b l'] H; [reflexivity | discriminate (H 0) | discriminate (H 0) |].
  pose proof (H 0) as H0. cbn [nth_error] in H0. injection H0 as ->. f_equal.
  apply IH. intros j. exact (H (S j)).
Qed.

Section ExecIter2.
Notation mworld := (world key vobj cstate).
Notation sworld := (world key unit cstate).

(* Set::iter, the whole interpreter session (SetIter has no Debug renderings) *)
Lemma set_iter_session_obs steps (w : sworld) :
  WF (self w) ->
  wp (set_iter_session steps)
     (fun r w' =>
        let pos := Nat.min steps (len (self w)) in
        let rest := len (self w) - pos in
        w' = w /\
        r = steps_obs (fun p : key * unit => r_key (fst p)) (slots (self w)) steps 0 (len (self w)) ++
            [nn rest] ++ List.map nn (seq pos rest) ++ [nn rest])
     (fun _ => False) w.
Proof.
  intros Hw. unfold set_iter_session. apply wp_bind.
  eapply wp_mono; [apply iter_exact; exact Hw | | auto]; cbn beta.
  intros c w0 [-> ->]. apply wp_bind.
  eapply wp_mono; [apply (set_iter_steps_obs steps 0 (len (self w)) [] w Hw (Nat.le_refl _)) | | auto];
    cbn beta.
  intros [acc c'] w1. cbn [fst snd]. rewrite Nat.sub_0_r. intros (-> & -> & ->). cbn [Nat.add app].
  unfold cursor_len. cbn [fst snd]. apply wp_bind.
  pose proof (Nat.le_min_r steps (len (self w))) as Hm.
  eapply wp_mono; [apply (rest_slots_s_exact _ _ w Hw); lia | | auto]; cbn beta.
  intros rest w2 [-> ->]. apply wp_ret. cbv zeta. split; [reflexivity|].
  rewrite map_length, seq_length. reflexivity.
Qed.

(* iter_mut / values_mut, the whole interpreter session: the per-step
   observations, the two Debug renderings, 0 (these iterators are not Clone:
   no clone is consumed) and the final len() = number of items not yet
   yielded; the content afterwards: entry i < steps has payload wd + i, same
   key, same value object; all other entries, len, cap, log unchanged *)
Lemma iter_session_mut_obs kind steps wd (w : mworld) :
  WF (self w) -> is_mut_kind kind = true ->
  wp (iter_session kind steps wd)
     (fun r w' =>
        let rest := len (self w) - Nat.min steps (len (self w)) in
        (exists d0 d1,
           r = steps_obs (r_item kind) (slots (self w)) steps 0 (len (self w)) ++ d0 ++ d1 ++
               [0%N] ++ [nn rest]) /\
        WF (self w') /\ len (self w') = len (self w) /\ cap (self w') = cap (self w) /\
        log w' = log w /\
        forall i k v, nth_error (Spec.elems (self w)) i = Some (k, v) ->
          nth_error (Spec.elems (self w')) i =
            Some (k, if i <? steps then {| vid := vid v; vdat := wd + nn i |} else v))
     (fun _ => False) w.
Proof.
  intros Hw Hk. unfold iter_session.
  apply (wp_bind_assoc iter (fun c => iter_steps kind wd steps 0 c [])).
  apply wp_bind.
  eapply wp_mono; [apply (iter_mut_session_writes kind wd steps w Hw Hk) | | auto]; cbn beta.
  intros [acc c'] w1 (Ha & Hc & Hw1 & Hl1 & Hc1 & Hlog1 & He1). cbn [fst snd] in Ha, Hc. subst acc c'.
  unfold dbg_iter at 1. apply wp_bind. unfold wp at 1. cbv beta iota.
  unfold dbg_iter at 1. apply wp_bind. unfold wp at 1. cbv beta iota.
  rewrite Hk. apply wp_bind. apply wp_ret. apply wp_ret. cbv zeta.
  split; [|auto 10].
  eexists. eexists. unfold cursor_len. cbn [fst snd length app]. reflexivity.
Qed.

(* many writes, then lookups: after n steps of iter_mut()/values_mut() that
   write wd + j at step j, looking up the key of ANY entry i returns slot i, and
   that slot holds the same key, the same value object, and payload wd + i if
   i < n, the old payload otherwise.  E is any lawful environment on the
   interpreter's element types (e.g. env_map sc for an honest script). *)
Lemma iter_mut_writes_then_get (E : env key vobj query cstate) (HL : Lawful E kcls qcls)
      kind wd n i k v q (w : mworld) :
  WF (self w) -> is_mut_kind kind = true -> Uniq kcls (Spec.elems (self w)) ->
  nth_error (Spec.elems (self w)) i = Some (k, v) -> qcls q = kcls k ->
  wp (c <- iter ;; _ <- iter_steps kind wd n 0 c [] ;;
      o <- get E q ;;
      match o with
      | Some x => p <- p_ref x ;; ret (Some (x, p))
      | None => ret None
      end)
     (fun res w' =>
        res = Some (i, (k, if i <? n then {| vid := vid v; vdat := wd + nn i |} else v)) /\
        WF (self w') /\ len (self w') = len (self w) /\ cap (self w') = cap (self w) /\
        log w' = log w /\ Uniq kcls (Spec.elems (self w')) /\
        List.map fst (Spec.elems (self w')) = List.map fst (Spec.elems (self w)) /\
        List.map (fun p => vid (snd p)) (Spec.elems (self w')) =
          List.map (fun p => vid (snd p)) (Spec.elems (self w)))
     (fun _ => False) w.
Proof.
  intros Hw Hk Hu Hp Hq.
  apply (wp_bind_assoc iter (fun c => iter_steps kind wd n 0 c [])).
  apply wp_bind.
  eapply wp_mono; [apply (iter_mut_session_writes kind wd n w Hw Hk) | | auto]; cbn beta.
  intros r w1 (_ & _ & Hw1 & Hl1 & Hc1 & Hlog1 & He1).
  set (nv := fun (j : nat) (v0 : vobj) => if j <? n then {| vid := vid v0; vdat := wd + nn j |} else v0).
  (* pointwise description of the new content *)
  assert (Hlen : length (Spec.elems (self w1)) = length (Spec.elems (self w)))
    by (rewrite (elems_length _ Hw1), (elems_length _ Hw); exact Hl1).
  assert (Hback : forall j q0, nth_error (Spec.elems (self w1)) j = Some q0 ->
            exists k0 v0, nth_error (Spec.elems (self w)) j = Some (k0, v0) /\ q0 = (k0, nv j v0)).
  { intros j q0 Hj.
    assert (Hjl : j < length (Spec.elems (self w))).
    { rewrite <- Hlen. apply nth_error_Some. rewrite Hj. discriminate. }
    destruct (nth_error (Spec.elems (self w)) j) as [[k0 v0]|] eqn:Hj0;
      [|apply nth_error_None in Hj0; lia].
    exists k0, v0. split; [reflexivity|]. rewrite (He1 j k0 v0 Hj0) in Hj. injection Hj as <-. reflexivity. }
  assert (Hmapg : forall (X : Type) (g : key * vobj -> X),
            (forall j k0 v0, g (k0, nv j v0) = g (k0, v0)) ->
            List.map g (Spec.elems (self w1)) = List.map g (Spec.elems (self w))).
  { intros X g Hg. apply nth_error_ext_eq. intros j. rewrite !nth_error_map.
    destruct (nth_error (Spec.elems (self w1)) j) as [q0|] eqn:Hj.
    - destruct (Hback j q0 Hj) as (k0 & v0 & Hj0 & ->). rewrite Hj0. cbn [option_map]. rewrite Hg. reflexivity.
    - apply nth_error_None in Hj. rewrite Hlen in Hj. apply nth_error_None in Hj. rewrite Hj. reflexivity. }
  assert (Hkeys : List.map fst (Spec.elems (self w1)) = List.map fst (Spec.elems (self w)))
    by (apply Hmapg; reflexivity).
  assert (Hvids : List.map (fun p => vid (snd p)) (Spec.elems (self w1)) =
                  List.map (fun p => vid (snd p)) (Spec.elems (self w))).
  { apply Hmapg. intros j k0 v0. unfold nv. cbn [snd]. destruct (j <? n); reflexivity. }
  assert (Hu1 : Uniq kcls (Spec.elems (self w1))).
  { unfold Uniq in *. rewrite (Hmapg _ (fun p => kcls (fst p))) by reflexivity. exact Hu. }
  assert (Hp1 : nth_error (Spec.elems (self w1)) i = Some (k, nv i v)) by exact (He1 i k v Hp).
  apply wp_bind.
  eapply wp_mono; [apply (get_lawful E kcls qcls HL q w1 Hw1) | | auto]; cbn beta.
  intros o w2 ([Hs2 Hl2] & ->). rewrite Hq.
  change (kcls k) with (kcls (fst (k, nv i v))).
  rewrite (find_idx_uniq_nth kcls _ i (k, nv i v) Hu1 Hp1).
  destruct (elems_nth_slot _ _ _ Hw1 Hp1) as [Hi1 Hsl1].
  apply wp_bind. eapply wp_p_ref; [rewrite Hs2; exact Hsl1|]. apply wp_ret.
  split; [reflexivity|]. rewrite Hs2. split; [exact Hw1|]. split; [exact Hl1|]. split; [exact Hc1|].
  split; [congruence|]. split; [exact Hu1|]. split; [exact Hkeys | exact Hvids].
Qed.

(* count(): the interpreter observes count() as the length of what a consumed
   clone yields (Exec.rest_slots); MoreIter.iter_count returns that number *)
Lemma iter_count_is_rest_len lo hi (w : mworld) :
  WF (self w) -> lo <= hi -> hi <= len (self w) ->
  wp (x <- iter_count (lo, hi) ;; rest <- rest_slots (cursor_len (lo, hi)) (fst (lo, hi)) ;; ret (x, rest))
     (fun y w' => w' = w /\ fst (fst y) = length (snd y) /\ fst (fst y) = cursor_len (lo, hi) /\
                  snd y = List.map nn (seq lo (hi - lo)))
     (fun _ => False) w.
Proof.
  intros Hw H1 H2. apply wp_bind.
  eapply wp_mono; [apply (iter_count_from lo hi w Hw H1 H2) | | auto]; cbn beta.
  intros x w1 (-> & Hx & _). apply wp_bind. unfold cursor_len. cbn [fst snd].
  eapply wp_mono; [apply (rest_slots_exact (hi - lo) lo w Hw); lia | | auto]; cbn beta.
  intros rest w2 [-> ->]. apply wp_ret. cbn [fst snd]. rewrite map_length, seq_length. auto.
Qed.

Lemma iter_count_is_rest_len_s lo hi (w : sworld) :
  WF (self w) -> lo <= hi -> hi <= len (self w) ->
  wp (x <- iter_count (lo, hi) ;; rest <- rest_slots_s (cursor_len (lo, hi)) (fst (lo, hi)) ;; ret (x, rest))
     (fun y w' => w' = w /\ fst (fst y) = length (snd y) /\ fst (fst y) = cursor_len (lo, hi) /\
                  snd y = List.map nn (seq lo (hi - lo)))
     (fun _ => False) w.
Proof.
  intros Hw H1 H2. apply wp_bind.
  eapply wp_mono; [apply (iter_count_from lo hi w Hw H1 H2) | | auto]; cbn beta.
  intros x w1 (-> & Hx & _). apply wp_bind. unfold cursor_len. cbn [fst snd].
  eapply wp_mono; [apply (rest_slots_s_exact (hi - lo) lo w Hw); lia | | auto]; cbn beta.
  intros rest w2 [-> ->]. apply wp_ret. cbn [fst snd]. rewrite map_length, seq_length. auto.
Qed.

End ExecIter2.

(* ====================================================================== *)
(* R2-C (C10): the interpreter's consuming sessions                        *)
(* ====================================================================== *)

(* what n calls of next() on a consuming iterator that still holds the entries
   l (in the order it will yield them) report: before EVERY step the hint is the
   number of entries still held; then 1 and the rendered item, or 0 once
   exhausted (and again hint 0, then 0, at every later step) *)
Fixpoint cons_obs {V} (item : key * V -> list N) (l : list (key * V)) (n : nat) : list N :=
  match n with
  | 0 => []
  | S n' => match l with
            | [] => [0%N; 0%N] ++ cons_obs item [] n'
            | p :: t => [nn (length l); 1%N] ++ item p ++ cons_obs item t n'
            end
  end.

Lemma nth_error_skipn_add {A} : forall (l : list A) i j, nth_error (skipn i l) j = nth_error l (i + j).
Proof.
  induction l as [|a l IH]; intros [|i] j; cbn [skipn Nat.add nth_error]; try reflexivity.
  - destruct j; reflexivity.
  - apply IH.
Qed.

Section DrainObs.
Context {V : Type}.
Notation world := (world key V cstate). Notation kv := (key * V)%type.

Lemma slot_pairs_length c (m : map key V) :
  DrainInv c m -> length (slot_pairs m c) = cursor_len c.
Proof.
  intros (Hl & Hc & Hs). unfold slot_pairs.
  apply take_live_all_live.
  - rewrite skipn_length. fold (cap m). unfold cursor_len. lia.
  - intros i Hi. unfold cursor_len in Hi.
    destruct (Hs (fst c + i)) as [p Hp]; [lia|]. exists p. rewrite nth_error_skipn_add. exact Hp.
Qed.

(* Drain::next, exactly *)
Lemma drain_next_exact lo hi (w : world) :
  DrainInv (lo, hi) (self w) ->
  wp (drain_next (lo, hi))
     (fun r w' =>
        if lo <? hi then
          exists p, nth_error (slots (self w)) lo = Some (Some p) /\ r = (Some p, (S lo, hi)) /\
                    w' = with_self w (set_slot_m (self w) lo None) /\
                    DrainInv (S lo, hi) (self w') /\
                    slot_pairs (self w) (lo, hi) = p :: slot_pairs (self w') (S lo, hi)
        else r = (None, (lo, hi)) /\ w' = w /\ slot_pairs (self w) (lo, hi) = [])
     (fun _ => False) w.
Proof.
  intros HD. pose proof HD as (HDl & HDc & HDs). cbn [fst snd] in HDc, HDs.
  unfold drain_next. destruct (Nat.ltb_spec lo hi) as [Hlt|Hge].
  - destruct (HDs lo) as [p Hp]; [lia|].
    apply wp_bind. eapply wp_p_read; [exact Hp|]. apply wp_ret.
    exists p. split; [exact Hp|]. split; [reflexivity|]. split; [reflexivity|]. simp_w. split.
    + unfold DrainInv. cbn [fst snd]. rewrite cap_set_slot, len_set_slot.
      split; [exact HDl|]. split; [exact HDc|].
      intros j Hj. apply live_set_slot_neq; [lia | apply HDs; lia].
    + unfold slot_pairs, cursor_len. cbn [fst snd set_slot_m slots].
      replace (hi - lo) with (S (hi - S lo)) by lia.
      rewrite (skipn_nth (slots (self w)) lo (Some p) Hp). cbn [take_live].
      rewrite skipn_upd_lt by lia. reflexivity.
  - apply wp_ret. split; [reflexivity|]. split; [reflexivity|].
    unfold slot_pairs, cursor_len. cbn [fst snd]. replace (hi - lo) with 0 by lia. reflexivity.
Qed.

(* Exec.drain_steps (Map::drain and Set::drain): before every step the hint
   len()/size_hint is the number of pairs the cursor still owns; the items are
   those pairs in slot order; the cursor advances by the number yielded *)
Lemma drain_steps_obs (rp : kv -> list N) : forall n lo hi acc (w : world),
  DrainInv (lo, hi) (self w) ->
  wp (drain_steps rp n (lo, hi) acc)
     (fun r w' =>
        let m := Nat.min n (hi - lo) in
        fst r = acc ++ cons_obs rp (slot_pairs (self w) (lo, hi)) n /\
        snd r = (lo + m, hi) /\
        DrainInv (snd r) (self w') /\
        slot_pairs (self w') (snd r) = skipn n (slot_pairs (self w) (lo, hi)) /\
        cb w' = cb w /\ log w' = log w /\ cap (self w') = cap (self w))
     (fun _ => False) w.
Proof.
  induction n as [|n IH]; intros lo hi acc w HD; cbn [drain_steps].
  - apply wp_ret. cbv zeta. cbn [fst snd cons_obs skipn]. rewrite Nat.min_0_l, Nat.add_0_r, app_nil_r. auto 10.
  - apply wp_bind.
    eapply wp_mono; [apply (drain_next_exact lo hi w HD) | | auto]; cbn beta.
    intros [o c'] w1 H1. cbv zeta. unfold cursor_len at 1. cbn [fst snd].
    pose proof (slot_pairs_length _ _ HD) as Hlen. unfold cursor_len in Hlen. cbn [fst snd] in Hlen.
    destruct (Nat.ltb_spec lo hi) as [Hlt|Hge].
    + destruct H1 as (p & Hp & Hr & -> & HD1 & Hsp). injection Hr as -> ->.
      eapply wp_mono; [apply (IH (S lo) hi _ _ HD1) | | auto]; cbn beta.
      intros r w2. cbv zeta. intros (H1 & H2 & H3 & H4 & H5 & H6 & H7).
      rewrite Hsp in *. cbn [cons_obs skipn length] in *.
      replace (Nat.min (S n) (hi - lo)) with (S (Nat.min n (hi - S lo))) by lia.
      split.
      { rewrite H1, <- !app_assoc. cbn [app]. rewrite Hlen. reflexivity. }
      split; [rewrite H2; f_equal; lia|]. split; [exact H3|]. split; [exact H4|].
      split; [exact H5|]. split; [exact H6|]. rewrite H7. apply cap_set_slot.
    + destruct H1 as (Hr & -> & Hsp). injection Hr as -> ->.
      eapply wp_mono; [apply (IH lo hi _ w HD) | | auto]; cbn beta.
      intros r w2. cbv zeta. intros (H1 & H2 & H3 & H4 & H5 & H6 & H7).
      rewrite Hsp in *. cbn [cons_obs] in *. rewrite skipn_nil in *.
      replace (Nat.min (S n) (hi - lo)) with 0 by lia. replace (Nat.min n (hi - lo)) with 0 in * by lia.
      split.
      { rewrite H1, <- !app_assoc. cbn [app]. replace (hi - lo) with 0 by lia. reflexivity. }
      auto 10.
Qed.

(* from drain() itself: the pairs are the content, in order *)
Lemma drain_session_steps_obs (rp : kv -> list N) n (w : world) :
  WF (self w) ->
  wp (c <- drain ;; drain_steps rp n c [])
     (fun r w' =>
        fst r = cons_obs rp (Spec.elems (self w)) n /\
        snd r = (Nat.min n (len (self w)), len (self w)) /\
        DrainInv (snd r) (self w') /\
        slot_pairs (self w') (snd r) = skipn n (Spec.elems (self w)) /\
        cb w' = cb w /\ log w' = log w /\ cap (self w') = cap (self w) /\ len (self w') = 0)
     (fun _ => False) w.
Proof.
  intros Hw. pose proof Hw as [Hl Hs]. apply wp_bind. unfold drain.
  apply wp_bind. apply wp_p_prefix; [intros _ | lia].
  apply wp_bind. apply wp_get_len. apply wp_bind. apply wp_set_len. apply wp_ret.
  set (w1 := with_self w (set_len_m (self w) 0)).
  assert (HD : DrainInv (0, len (self w)) (self w1)).
  { unfold w1, DrainInv. simp_w. cbn [fst snd]. split; [reflexivity|]. split.
    - rewrite cap_set_len. exact Hl.
    - intros j Hj. apply live_set_len. apply Hs. lia. }
  assert (Hsp : slot_pairs (self w1) (0, len (self w)) = Spec.elems (self w)).
  { unfold slot_pairs, cursor_len, Spec.elems, w1. simp_w. cbn [fst snd skipn]. rewrite Nat.sub_0_r. reflexivity. }
  eapply wp_mono; [apply (drain_steps_obs rp n 0 (len (self w)) [] w1 HD) | | auto]; cbn beta.
  intros r w2. cbv zeta. rewrite Hsp, Nat.sub_0_r. cbn [Nat.add app].
  intros (H1 & H2 & H3 & H4 & H5 & H6 & H7).
  split; [exact H1|]. split; [exact H2|]. split; [exact H3|]. split; [exact H4|].
  split; [exact H5|]. split; [exact H6|]. split; [exact H7|]. apply H3.
Qed.

End DrainObs.

Lemma into_iter_next_cb {K V T} (w : world K V T) :
  WF (self w) -> wp into_iter_next (fun _ w' => cb w' = cb w) (fun _ => False) w.
Proof.
  intros Hw. unfold into_iter_next. apply wp_bind. apply wp_get_len.
  destruct (len (self w)) as [|n] eqn:Hn; [apply wp_ret; reflexivity|].
  assert (Hi : n < len (self w)) by lia. destruct (WF_live _ _ Hw Hi) as [p Hp].
  apply wp_bind. apply wp_set_len. apply wp_bind.
  eapply wp_p_read; [simp_w; exact Hp|]. apply wp_ret. reflexivity.
Qed.

(* ---- Exec.into_steps (into_iter / into_keys / into_values) and
        Exec.set_into_steps (Set::into_iter) ---- *)
Section IntoObs.
Context (sc : script).
Notation Em := (env_map sc).
Notation Es := (env_set sc).
Notation mworld := (world key vobj cstate).
Notation sworld := (world key unit cstate).

(* what the caller receives, and what next() destroys on the way *)
Definition r_into (kind : N) (p : key * vobj) : list N :=
  if N.eqb kind 1 then r_key (fst p) else if N.eqb kind 2 then r_val (snd p) else r_pair p.
Definition into_evs (kind : N) (p : key * vobj) : list event :=
  if N.eqb kind 1 then ev_drops (idV Em (snd p))
  else if N.eqb kind 2 then ev_drops (idK Em (fst p)) else [].

Lemma into_steps_item_spec kind p (w : mworld) :
  let post := fun w' : mworld => self w' = self w /\ log w' = log w ++ into_evs kind p in
  wp (into_steps_item sc kind p) (fun it w' => it = r_into kind p /\ post w') post w.
Proof.
  intros post. subst post. unfold into_steps_item, r_into, into_evs.
  destruct (N.eqb kind 1); [|destruct (N.eqb kind 2)].
  - apply wp_bind. eapply wp_mono; [apply (drop_val_spec Em (snd p) w) | |]; cbn beta.
    + intros _ w1 H. apply wp_ret. auto.
    + auto.
  - apply wp_bind. eapply wp_mono; [apply (drop_key_spec Em (fst p) w) | |]; cbn beta.
    + intros _ w1 H. apply wp_ret. auto.
    + auto.
  - apply wp_ret. rewrite app_nil_r. auto.
Qed.

(* every script (a Drop may panic).  Normal return: the observations are
   cons_obs over the reversed content (hint = len of what the iterator still
   holds), the log grew by exactly the Drop events of the unused halves of the
   yielded entries, what is left is a prefix.  Panic at step t (the Drop of the
   unused half of entry t): entries 0..t were popped, their unused halves
   destroyed, nothing else. *)
Lemma into_steps_obs kind : forall n acc (w : mworld),
  WF (self w) ->
  wp (into_steps sc kind n acc)
     (fun r w' =>
        let took := firstn n (rev (Spec.elems (self w))) in
        r = acc ++ cons_obs (r_into kind) (rev (Spec.elems (self w))) n /\
        log w' = log w ++ flat_map (into_evs kind) took /\
        WF (self w') /\ cap (self w') = cap (self w) /\
        len (self w') = len (self w) - Nat.min n (len (self w)) /\
        Spec.elems (self w') = firstn (len (self w) - Nat.min n (len (self w))) (Spec.elems (self w)))
     (fun w' => exists t, t < Nat.min n (len (self w)) /\
        let took := firstn (S t) (rev (Spec.elems (self w))) in
        log w' = log w ++ flat_map (into_evs kind) took /\
        WF (self w') /\ cap (self w') = cap (self w) /\
        len (self w') = len (self w) - S t /\
        Spec.elems (self w') = firstn (len (self w) - S t) (Spec.elems (self w)))
     w.
Proof.
  induction n as [|n IH]; intros acc w Hw; cbn [into_steps].
  - apply wp_ret. cbv zeta. cbn [firstn cons_obs flat_map]. rewrite !app_nil_r, Nat.min_0_l, Nat.sub_0_r.
    split; [reflexivity|]. split; [reflexivity|]. split; [exact Hw|]. split; [reflexivity|].
    split; [reflexivity|]. rewrite <- (elems_length _ Hw). symmetry. apply firstn_all.
  - apply wp_bind. apply wp_get_len. apply wp_bind.
    eapply wp_mono; [apply into_iter_next_exact; exact Hw | | intros ? []]; cbn beta.
    intros [p|] w1 (Hw1 & Hc1 & Hl1 & H1).
    + destruct H1 as [Hlen He].
      pose proof (elems_length _ Hw1) as HL1.
      assert (Hrev : rev (Spec.elems (self w)) = p :: rev (Spec.elems (self w1)))
        by (rewrite He, rev_app_distr; reflexivity).
      assert (Hrl : length (rev (Spec.elems (self w))) = len (self w))
        by (rewrite rev_length; apply elems_length; exact Hw).
      apply wp_bind.
      eapply wp_mono; [apply (into_steps_item_spec kind p w1) | |]; cbn beta.
      * intros it w2 (-> & Hs2 & Hlog2).
        assert (Hw2 : WF (self w2)) by (rewrite Hs2; exact Hw1).
        eapply wp_mono; [apply (IH _ w2 Hw2) | |]; cbn beta; cbv zeta; rewrite Hs2.
        -- intros r w3 (Hr & Hlog3 & Hw3 & Hc3 & Hlen3 & He3).
           rewrite Hrev in *. cbn [firstn cons_obs flat_map].
           split; [rewrite Hr, <- !app_assoc; cbn [app]; rewrite Hrl; reflexivity|].
           split; [rewrite Hlog3, Hlog2, Hl1, <- app_assoc; reflexivity|].
           split; [exact Hw3|]. split; [congruence|]. split; [lia|].
           rewrite He3, He.
           replace (len (self w) - Nat.min (S n) (len (self w)))
             with (len (self w1) - Nat.min n (len (self w1))) by lia.
           symmetry. apply firstn_app_exact. lia.
        -- intros w3 (t & Ht & Hlog3 & Hw3 & Hc3 & Hlen3 & He3). exists (S t).
           split; [lia|]. rewrite Hrev.
           change (firstn (S (S t)) (p :: rev (Spec.elems (self w1))))
             with (p :: firstn (S t) (rev (Spec.elems (self w1)))).
           cbn [flat_map].
           split; [rewrite Hlog3, Hlog2, Hl1, <- app_assoc; reflexivity|].
           split; [exact Hw3|]. split; [congruence|]. split; [lia|].
           rewrite He3, He. replace (len (self w) - S (S t)) with (len (self w1) - S t) by lia.
           symmetry. apply firstn_app_exact. lia.
      * intros w2 (Hs2 & Hlog2). exists 0. split; [lia|]. cbv zeta. rewrite Hrev. cbn [firstn flat_map].
        rewrite app_nil_r, Hs2. split; [congruence|]. split; [exact Hw1|]. split; [exact Hc1|].
        split; [lia|]. rewrite He. replace (len (self w) - 1) with (length (Spec.elems (self w1))) by lia.
        rewrite firstn_app_exact by lia. symmetry. apply firstn_all.
    + destruct H1 as [Hlen Hs].
      assert (Hnil : Spec.elems (self w) = []).
      { apply length_zero_iff_nil. rewrite (elems_length _ Hw). exact Hlen. }
      assert (Hw1' : WF (self w1)) by exact Hw1.
      eapply wp_mono; [apply (IH _ w1 Hw1') | |]; cbn beta; cbv zeta; rewrite Hs, Hnil, Hlen.
      * cbn [rev]. rewrite !firstn_nil. cbn [flat_map cons_obs].
        intros r w3 (Hr & Hlog3 & Hw3 & Hc3 & Hlen3 & He3).
        split; [rewrite Hr, <- app_assoc; reflexivity|]. split; [congruence|].
        split; [exact Hw3|]. split; [exact Hc3|]. split; [lia | exact He3].
      * intros w3 (t & Ht & _). lia.
Qed.

(* Set::into_iter in the interpreter: nothing is destroyed, nothing can panic *)
Lemma set_into_steps_obs : forall n acc (w : sworld),
  WF (self w) ->
  wp (set_into_steps n acc)
     (fun r w' =>
        r = acc ++ cons_obs (fun p : key * unit => r_key (fst p)) (rev (Spec.elems (self w))) n /\
        log w' = log w /\ cb w' = cb w /\
        WF (self w') /\ cap (self w') = cap (self w) /\
        len (self w') = len (self w) - Nat.min n (len (self w)) /\
        Spec.elems (self w') = firstn (len (self w) - Nat.min n (len (self w))) (Spec.elems (self w)))
     (fun _ => False) w.
Proof.
  induction n as [|n IH]; intros acc w Hw; cbn [set_into_steps].
  - apply wp_ret. cbn [cons_obs]. rewrite app_nil_r, Nat.min_0_l, Nat.sub_0_r.
    split; [reflexivity|]. split; [reflexivity|]. split; [reflexivity|]. split; [exact Hw|].
    split; [reflexivity|]. split; [reflexivity|]. rewrite <- (elems_length _ Hw). symmetry. apply firstn_all.
  - apply wp_bind. apply wp_get_len. apply wp_bind.
    assert (Hnx : wp into_iter_next
              (fun r w' => cb w' = cb w /\ WF (self w') /\ cap (self w') = cap (self w) /\ log w' = log w /\
                 match r with
                 | None => len (self w) = 0 /\ self w' = self w
                 | Some p => S (len (self w')) = len (self w) /\
                             Spec.elems (self w) = Spec.elems (self w') ++ [p]
                 end) (fun _ => False) w).
    { eapply wp_mono; [apply wp_conj; [apply (into_iter_next_cb w Hw) | apply (into_iter_next_exact w Hw)] | |];
        cbn beta; [|tauto].
      intros r w' (H1 & H2 & H3 & H4 & H5). auto 10. }
    eapply wp_mono; [exact Hnx | | auto]; cbn beta.
    intros [p|] w1 (Hcb1 & Hw1 & Hc1 & Hl1 & H1).
    + destruct H1 as [Hlen He].
      pose proof (elems_length _ Hw1) as HL1.
      assert (Hrev : rev (Spec.elems (self w)) = p :: rev (Spec.elems (self w1)))
        by (rewrite He, rev_app_distr; reflexivity).
      assert (Hrl : length (rev (Spec.elems (self w))) = len (self w))
        by (rewrite rev_length; apply elems_length; exact Hw).
      eapply wp_mono; [apply (IH _ w1 Hw1) | | auto]; cbn beta.
      intros r w3 (Hr & Hlog3 & Hcb3 & Hw3 & Hc3 & Hlen3 & He3).
      rewrite Hrev in *. cbn [cons_obs].
      split; [rewrite Hr, <- !app_assoc; cbn [app]; rewrite Hrl; reflexivity|].
      split; [congruence|]. split; [congruence|].
      split; [exact Hw3|]. split; [congruence|]. split; [lia|].
      rewrite He3, He.
      replace (len (self w) - Nat.min (S n) (len (self w)))
        with (len (self w1) - Nat.min n (len (self w1))) by lia.
      symmetry. apply firstn_app_exact. lia.
    + destruct H1 as [Hlen Hs].
      assert (Hnil : Spec.elems (self w) = []).
      { apply length_zero_iff_nil. rewrite (elems_length _ Hw). exact Hlen. }
      eapply wp_mono; [apply (IH _ w1 Hw1) | | auto]; cbn beta. rewrite Hs, Hnil, Hlen.
      cbn [rev cons_obs].
      intros r w3 (Hr & Hlog3 & Hcb3 & Hw3 & Hc3 & Hlen3 & He3).
      split; [rewrite Hr, <- app_assoc; reflexivity|]. split; [congruence|]. split; [congruence|].
      split; [exact Hw3|]. split; [exact Hc3|]. split; [lia | exact He3].
Qed.

End IntoObs.

(* ---------------------------------------------------------------------- *)
(* fate 2 (for_each(closure)) and fate 3 (count()) of the consuming sessions *)
(* ---------------------------------------------------------------------- *)
Section Loops.
Context {K V Q T : Type} (E : env K V Q T).
Notation M := (M K V T). Notation world := (world K V T). Notation kv := (K * V)%type.

Lemma bind_ext_pt {A B} (c : M A) (f g : A -> M B) (w : world) :
  (forall a w', f a w' = g a w') -> bind c f w = bind c g w.
Proof. intros H. unfold bind. destruct (c w); auto. Qed.

Lemma bind_assoc_pt {A B C} (c : M A) (f : A -> M B) (g : B -> M C) (w : world) :
  bind (bind c f) g w = bind c (fun x => bind (f x) g) w.
Proof. unfold bind. destruct (c w); reflexivity. Qed.

(* destructors running while unwinding: log the pair, never panic *)
Lemma unwind_pair_logs p (w : world) :
  wp (unwind_pair E p) (fun _ w' => self w' = self w /\ log w' = log w ++ evp E p) (fun _ => False) w.
Proof.
  unfold unwind_pair, evp. apply wp_bind. apply wp_emit. apply wp_bind. apply wp_cbd. intros b s.
  apply wp_bind. apply wp_cbd. intros b' s'. apply wp_ret. simp_w. auto.
Qed.

Lemma unwind_key_logs k (w : world) :
  wp (unwind_key E k) (fun _ w' => self w' = self w /\ log w' = log w ++ ev_drops (idK E k))
     (fun _ => False) w.
Proof.
  unfold unwind_key. apply wp_bind. apply wp_emit. apply wp_bind. apply wp_cbd. intros b s.
  apply wp_ret. simp_w. auto.
Qed.

Lemma unwind_val_logs v (w : world) :
  wp (unwind_val E v) (fun _ w' => self w' = self w /\ log w' = log w ++ ev_drops (idV E v))
     (fun _ => False) w.
Proof.
  unfold unwind_val. apply wp_bind. apply wp_emit. apply wp_bind. apply wp_cbd. intros b s.
  apply wp_ret. simp_w. auto.
Qed.

Lemma unwind_range_logs n : forall i (w : world),
  (forall j, i <= j < i + n -> live (self w) j) ->
  wp (unwind_range E n i)
     (fun _ w' => log w' = log w ++ flat_map (evp E) (take_live (skipn i (slots (self w))) n) /\
                  len (self w') = len (self w) /\ cap (self w') = cap (self w))
     (fun _ => False) w.
Proof.
  induction n as [|n IH]; intros i w Hl; cbn [unwind_range].
  - apply wp_ret. cbn [take_live flat_map]. rewrite app_nil_r. auto.
  - destruct (Hl i ltac:(lia)) as [p Hp].
    assert (Hsk : take_live (skipn i (slots (self w))) (S n)
                  = p :: take_live (skipn (S i) (slots (self w))) n).
    { rewrite (skipn_nth (slots (self w)) i (Some p) Hp). reflexivity. }
    rewrite Hsk. apply wp_bind. eapply wp_p_read; [exact Hp|]. apply wp_bind.
    eapply wp_mono; [apply unwind_pair_logs | | auto]; cbn beta.
    intros _ w1 [Hs1 Hlog1]. simp_w.
    assert (Hsk1 : skipn (S i) (slots (self w1)) = skipn (S i) (slots (self w))).
    { rewrite Hs1. cbn [set_slot_m slots]. apply skipn_upd_lt. lia. }
    eapply wp_mono; [apply (IH (S i) w1) | | auto]; cbn beta.
    + intros j Hj. rewrite Hs1. apply live_set_slot_neq; [lia | apply Hl; lia].
    + intros _ w2 (H2 & H3 & H4). rewrite H2, Hlog1, Hsk1. cbn [flat_map]. rewrite app_assoc.
      split; [reflexivity|]. rewrite H3, H4, Hs1. split; [reflexivity | apply cap_set_slot].
Qed.

(* a Drain destroyed while unwinding: exactly the pairs its cursor still owns *)
Lemma unwind_drain_logs c (w : world) :
  DrainInv c (self w) ->
  wp (unwind_drain E c)
     (fun _ w' => log w' = log w ++ flat_map (evp E) (slot_pairs (self w) c) /\
                  len (self w') = 0 /\ cap (self w') = cap (self w))
     (fun _ => False) w.
Proof.
  intros (Hl & Hc & Hs). unfold unwind_drain, slot_pairs.
  eapply wp_mono; [apply unwind_range_logs | | auto]; cbn beta.
  - intros j Hj. apply Hs. unfold cursor_len in Hj. lia.
  - intros _ w' (H1 & H2 & H3). split; [exact H1|]. split; [congruence | exact H3].
Qed.

(* ---- a loop over Drain::next ---- *)
Fixpoint drain_loop (body : kv -> cursor -> M unit) (fuel : nat) (c : cursor) (cnt : nat) : M nat :=
  match fuel with
  | 0 => ret cnt
  | S f =>
      '(o, c') <- drain_next c ;;
      match o with
      | None => ret cnt
      | Some p => body p c' ;; drain_loop body f c' (S cnt)
      end
  end.

(* what the loop body does with the item p while the Drain's cursor is c':
   normally it logs [evs p] and leaves the container alone; if it panics, [pev p]
   was logged and the unwinding Drain destroyed everything it still owned *)
Definition drain_body_ok (evs pev : kv -> list event) (body : kv -> cursor -> M unit) : Prop :=
  forall p c' (w : world), DrainInv c' (self w) ->
    wp (body p c')
       (fun _ w' => self w' = self w /\ log w' = log w ++ evs p)
       (fun w' => log w' = log w ++ pev p ++ flat_map (evp E) (slot_pairs (self w) c') /\
                  len (self w') = 0 /\ cap (self w') = cap (self w))
       w.

Lemma firstn_skipn_nth {A} (l : list A) t p :
  nth_error l t = Some p -> l = firstn t l ++ p :: skipn (S t) l.
Proof.
  intros H. rewrite <- (firstn_skipn t l) at 1. f_equal. apply skipn_nth. exact H.
Qed.

Lemma drain_loop_spec (evs pev : kv -> list event) body :
  drain_body_ok evs pev body ->
  forall fuel lo hi cnt (w : world),
    DrainInv (lo, hi) (self w) -> hi - lo < fuel ->
    wp (drain_loop body fuel (lo, hi) cnt)
       (fun n w' =>
          n = cnt + (hi - lo) /\
          log w' = log w ++ flat_map evs (slot_pairs (self w) (lo, hi)) /\
          len (self w') = 0 /\ cap (self w') = cap (self w))
       (fun w' => exists t p,
          nth_error (slot_pairs (self w) (lo, hi)) t = Some p /\
          log w' = log w ++ flat_map evs (firstn t (slot_pairs (self w) (lo, hi))) ++ pev p ++
                            flat_map (evp E) (skipn (S t) (slot_pairs (self w) (lo, hi))) /\
          len (self w') = 0 /\ cap (self w') = cap (self w))
       w.
Proof.
  intros Hbody. induction fuel as [|fuel IH]; intros lo hi cnt w HD Hf; [lia|]. cbn [drain_loop].
  apply wp_bind.
  assert (HDK : wp (drain_next (lo, hi))
            (fun r w' =>
               if lo <? hi then
                 exists p, r = (Some p, (S lo, hi)) /\ DrainInv (S lo, hi) (self w') /\
                           cb w' = cb w /\ log w' = log w /\ cap (self w') = cap (self w) /\
                           slot_pairs (self w) (lo, hi) = p :: slot_pairs (self w') (S lo, hi)
               else r = (None, (lo, hi)) /\ w' = w /\ slot_pairs (self w) (lo, hi) = [])
            (fun _ => False) w).
  { pose proof HD as (HDl & HDc & HDs). cbn [fst snd] in HDc, HDs.
    unfold drain_next. destruct (Nat.ltb_spec lo hi) as [Hlt|Hge].
    - destruct (HDs lo) as [p Hp]; [lia|].
      apply wp_bind. eapply wp_p_read; [exact Hp|]. apply wp_ret.
      exists p. split; [reflexivity|]. simp_w. split.
      + unfold DrainInv. cbn [fst snd]. rewrite cap_set_slot, len_set_slot.
        split; [exact HDl|]. split; [exact HDc|].
        intros j Hj. apply live_set_slot_neq; [lia | apply HDs; lia].
      + split; [reflexivity|]. split; [reflexivity|]. split; [apply cap_set_slot|].
        unfold slot_pairs, cursor_len. cbn [fst snd set_slot_m slots].
        replace (hi - lo) with (S (hi - S lo)) by lia.
        rewrite (skipn_nth (slots (self w)) lo (Some p) Hp). cbn [take_live].
        rewrite skipn_upd_lt by lia. reflexivity.
    - apply wp_ret. split; [reflexivity|]. split; [reflexivity|].
      unfold slot_pairs, cursor_len. cbn [fst snd]. replace (hi - lo) with 0 by lia. reflexivity. }
  eapply wp_mono; [exact HDK | | intros ? []]; cbn beta.
  intros [o c'] w1 H1. destruct (Nat.ltb_spec lo hi) as [Hlt|Hge].
  - destruct H1 as (p & Hr & HD1 & Hcb1 & Hlog1 & Hcap1 & Hsp). injection Hr as -> ->. rewrite Hsp.
    apply wp_bind. eapply wp_mono; [apply (Hbody p (S lo, hi) w1 HD1) | |]; cbn beta.
    + intros _ w2 [Hs2 Hlog2].
      assert (HD2 : DrainInv (S lo, hi) (self w2)) by (rewrite Hs2; exact HD1).
      eapply wp_mono; [apply (IH (S lo) hi (S cnt) w2 HD2); lia | |]; cbn beta; rewrite Hs2.
      * intros n w3 (Hn & Hlog3 & Hl3 & Hc3). split; [lia|]. cbn [flat_map].
        split; [rewrite Hlog3, Hlog2, Hlog1, <- app_assoc; reflexivity|]. split; [exact Hl3 | congruence].
      * intros w3 (t & q & Hq & Hlog3 & Hl3 & Hc3). exists (S t), q. cbn [nth_error firstn flat_map].
        split; [exact Hq|].
        change (skipn (S (S t)) (p :: slot_pairs (self w1) (S lo, hi)))
          with (skipn (S t) (slot_pairs (self w1) (S lo, hi))).
        split; [rewrite Hlog3, Hlog2, Hlog1, <- !app_assoc; reflexivity|]. split; [exact Hl3 | congruence].
    + intros w2 (Hlog2 & Hl2 & Hc2). exists 0, p. cbn [nth_error firstn flat_map skipn app].
      split; [reflexivity|]. split; [rewrite Hlog2, Hlog1; reflexivity|]. split; [exact Hl2 | congruence].
  - destruct H1 as (Hr & -> & Hsp). injection Hr as -> ->. apply wp_ret. rewrite Hsp. cbn [flat_map].
    rewrite app_nil_r. split; [lia|]. split; [reflexivity|]. split; [apply HD | reflexivity].
Qed.

(* ---- a loop over IntoIter::next ---- *)
Fixpoint into_loop (body : kv -> M unit) (fuel cnt : nat) : M nat :=
  match fuel with
  | 0 => ret cnt
  | S f =>
      o <- into_iter_next ;;
      match o with
      | None => ret cnt
      | Some p => body p ;; into_loop body f (S cnt)
      end
  end.

(* the body leaves the iterator's container alone; normally it logs [evs p]; if
   it panics it has logged some [part] with [pev p part] *)
Definition into_body_ok (evs : kv -> list event) (pev : kv -> list event -> Prop) (body : kv -> M unit) : Prop :=
  forall p (w : world),
    wp (body p)
       (fun _ w' => self w' = self w /\ log w' = log w ++ evs p)
       (fun w' => self w' = self w /\ exists part, pev p part /\ log w' = log w ++ part)
       w.

Lemma into_loop_spec evs pev body :
  into_body_ok evs pev body ->
  forall fuel cnt (w : world),
    WF (self w) -> len (self w) < fuel ->
    wp (into_loop body fuel cnt)
       (fun n w' =>
          n = cnt + len (self w) /\
          log w' = log w ++ flat_map evs (rev (Spec.elems (self w))) /\
          WF (self w') /\ len (self w') = 0 /\ cap (self w') = cap (self w))
       (fun w' => exists t p part,
          nth_error (rev (Spec.elems (self w))) t = Some p /\ pev p part /\
          log w' = log w ++ flat_map evs (firstn t (rev (Spec.elems (self w)))) ++ part /\
          WF (self w') /\ cap (self w') = cap (self w) /\
          len (self w') = len (self w) - S t /\
          Spec.elems (self w') = firstn (len (self w) - S t) (Spec.elems (self w)))
       w.
Proof.
  intros Hbody. induction fuel as [|fuel IH]; intros cnt w Hw Hf; [lia|]. cbn [into_loop].
  apply wp_bind.
  eapply wp_mono; [apply into_iter_next_exact; exact Hw | | intros ? []]; cbn beta.
  intros [p|] w1 (Hw1 & Hc1 & Hl1 & H1).
  - destruct H1 as [Hlen He].
    pose proof (elems_length _ Hw1) as HL1.
    assert (Hrev : rev (Spec.elems (self w)) = p :: rev (Spec.elems (self w1)))
      by (rewrite He, rev_app_distr; reflexivity).
    apply wp_bind. eapply wp_mono; [apply (Hbody p w1) | |]; cbn beta.
    + intros _ w2 [Hs2 Hlog2].
      assert (Hw2 : WF (self w2)) by (rewrite Hs2; exact Hw1).
      eapply wp_mono; [apply (IH (S cnt) w2 Hw2); rewrite Hs2; lia | |]; cbn beta; rewrite Hs2.
      * intros n w3 (Hn & Hlog3 & Hw3 & Hl3 & Hc3). split; [lia|]. rewrite Hrev. cbn [flat_map].
        split; [rewrite Hlog3, Hlog2, Hl1, <- app_assoc; reflexivity|].
        split; [exact Hw3|]. split; [exact Hl3 | congruence].
      * intros w3 (t & q & part & Hq & Hpv & Hlog3 & Hw3 & Hc3 & Hl3 & He3).
        exists (S t), q, part. rewrite Hrev. cbn [nth_error firstn flat_map].
        split; [exact Hq|]. split; [exact Hpv|].
        split; [rewrite Hlog3, Hlog2, Hl1, <- !app_assoc; reflexivity|].
        split; [exact Hw3|]. split; [congruence|]. split; [lia|].
        rewrite He3, He. replace (len (self w) - S (S t)) with (len (self w1) - S t) by lia.
        symmetry. apply firstn_app_exact. lia.
    + intros w2 (Hs2 & part & Hpv & Hlog2). exists 0, p, part. rewrite Hrev. cbn [nth_error firstn flat_map app].
      split; [reflexivity|]. split; [exact Hpv|]. split; [congruence|]. rewrite Hs2.
      split; [exact Hw1|]. split; [exact Hc1|]. split; [lia|].
      rewrite He. replace (len (self w) - 1) with (length (Spec.elems (self w1))) by lia.
      rewrite firstn_app_exact by lia. symmetry. apply firstn_all.
  - destruct H1 as [Hlen Hs]. apply wp_ret.
    assert (Hnil : Spec.elems (self w) = []).
    { apply length_zero_iff_nil. rewrite (elems_length _ Hw). exact Hlen. }
    rewrite Hs, Hnil, Hlen. cbn [rev flat_map]. rewrite app_nil_r.
    split; [lia|]. split; [exact Hl1|]. split; [exact Hw|]. split; reflexivity.
Qed.

End Loops.

(* ---- the interpreter's loops are instances ---- *)
Section DrainFates.
Context {V : Type} (E : env key V query cstate).
Notation world := (world key V cstate). Notation kv := (key * V)%type.

Definition count_body (p : kv) (c' : cursor) : M key V cstate unit :=
  on_unwind (unwind_drain E c') (drop_pair E p).

Lemma drain_count_is_loop : forall fuel c cnt (w : world),
  drain_count E fuel c cnt w = drain_loop count_body fuel c cnt w.
Proof.
  induction fuel as [|fuel IH]; intros c cnt w; [reflexivity|]. cbn [drain_count drain_loop].
  apply bind_ext_pt. intros [o c'] w1. destruct o as [p|]; [|reflexivity].
  apply bind_ext_pt. intros _ w2. apply IH.
Qed.

Lemma count_body_ok : drain_body_ok E (evp E) (evp E) count_body.
Proof.
  intros p c' w HD. unfold count_body. apply wp_on_unwind.
  eapply wp_mono; [apply (drop_pair_logs E p w) | |]; cbn beta.
  - intros _ w1 H. exact H.
  - intros w1 [Hs1 Hlog1].
    assert (HD1 : DrainInv c' (self w1)) by (rewrite Hs1; exact HD).
    eapply wp_mono; [apply (unwind_drain_logs E c' w1 HD1) | | intros ? []]; cbn beta.
    intros _ w2 (H1 & H2 & H3). rewrite Hs1 in *.
    split; [rewrite H1, Hlog1, <- app_assoc; reflexivity | auto].
Qed.

(* fate 3, Drain::count() (the library default: fold over next(), every item
   destroyed as soon as it has been counted).  Any environment: the count is the
   number of pairs the cursor still owned; EVERY one of those pairs is destroyed
   exactly once, in slot order, whether count() returns or a Drop panics (then
   the Drain unwinds and destroys the rest); the register is empty *)
Lemma drain_count_exact c cnt (w : world) :
  DrainInv c (self w) ->
  let post := fun w' : world =>
    log w' = log w ++ flat_map (evp E) (slot_pairs (self w) c) /\
    len (self w') = 0 /\ cap (self w') = cap (self w) in
  wp (drain_count E (S (cursor_len c)) c cnt)
     (fun n w' => n = cnt + cursor_len c /\ post w') post w.
Proof.
  intros HD post. destruct c as [lo hi]. unfold wp. rewrite drain_count_is_loop.
  pose proof (drain_loop_spec E (evp E) (evp E) count_body count_body_ok
                (S (cursor_len (lo, hi))) lo hi cnt w HD) as H.
  unfold cursor_len in *. cbn [fst snd] in *. specialize (H ltac:(lia)). unfold wp in H.
  destruct (drain_loop count_body (S (hi - lo)) (lo, hi) cnt w) as [n w'|w'|]; [| |exact H].
  - destruct H as (H1 & H2 & H3 & H4). unfold post. auto.
  - destruct H as (t & p & Hp & H2 & H3 & H4). unfold post. split; [|auto].
    rewrite H2. rewrite (firstn_skipn_nth _ t p Hp) at 3.
    rewrite flat_map_app. cbn [flat_map]. reflexivity.
Qed.

(* fate 2, for_each(closure) *)
Lemma call_body_ok cl :
  drain_body_ok E (fun _ => [EvCall 4]) (fun p => [EvCall 4] ++ evp E p) (call_or_drain E cl).
Proof.
  intros p c' w HD. unfold call_or_drain. apply wp_on_unwind.
  apply wp_bind. apply wp_emit. apply wp_bind. apply wp_cbk.
  - intros s. apply wp_ret. simp_w. auto.
  - intros s. apply wp_ret. simp_w. auto.
  - intros s. set (w1 := with_cb _ s). apply wp_bind.
    eapply wp_mono; [apply (unwind_pair_logs E p w1) | | intros ? []]; cbn beta.
    intros _ w2 [Hs2 Hlog2].
    assert (HD2 : DrainInv c' (self w2)) by (rewrite Hs2; exact HD).
    eapply wp_mono; [apply (unwind_drain_logs E c' w2 HD2) | | intros ? []]; cbn beta.
    intros _ w3 (H1 & H2 & H3). rewrite Hs2 in *. unfold w1 in *. simp_w.
    split; [rewrite H1, Hlog2, <- !app_assoc; reflexivity | auto].
Qed.

Lemma drain_for_each_is_loop cl : forall fuel c cnt (w : world),
  drain_for_each E cl fuel c cnt w = drain_loop (call_or_drain E cl) fuel c cnt w.
Proof.
  induction fuel as [|fuel IH]; intros c cnt w; [reflexivity|]. cbn [drain_for_each drain_loop].
  apply bind_ext_pt. intros [o c'] w1. destruct o as [p|]; [|reflexivity].
  apply bind_ext_pt. intros _ w2. apply IH.
Qed.

Lemma flat_map_const {A B} (l : list A) (x : B) : flat_map (fun _ => [x]) l = repeat x (length l).
Proof. induction l as [|a l IH]; [reflexivity|]. cbn [flat_map length repeat app]. rewrite IH. reflexivity. Qed.

(* the count returned is the number of pairs the cursor still owned and the
   closure was called exactly once per pair (one EvCall 4 each), nothing is
   destroyed by the Drain; if the closure panics on pair t it had been called
   t+1 times, and that pair and all later ones are destroyed (by the closure's
   frame and by the unwinding Drain), each once, in order; the register is empty *)
Lemma drain_for_each_exact cl c cnt (w : world) :
  DrainInv c (self w) ->
  wp (drain_for_each E cl (S (cursor_len c)) c cnt)
     (fun n w' => n = cnt + cursor_len c /\
                  log w' = log w ++ repeat (EvCall 4) (cursor_len c) /\
                  len (self w') = 0 /\ cap (self w') = cap (self w))
     (fun w' => exists t, t < cursor_len c /\
                  log w' = log w ++ repeat (EvCall 4) (S t) ++
                           flat_map (evp E) (skipn t (slot_pairs (self w) c)) /\
                  len (self w') = 0 /\ cap (self w') = cap (self w))
     w.
Proof.
  intros HD. destruct c as [lo hi]. unfold wp. rewrite drain_for_each_is_loop.
  pose proof (drain_loop_spec E _ _ _ (call_body_ok cl) (S (cursor_len (lo, hi))) lo hi cnt w HD) as H.
  pose proof (slot_pairs_length _ _ HD) as Hlen.
  unfold cursor_len in *. cbn [fst snd] in *. specialize (H ltac:(lia)). unfold wp in H.
  destruct (drain_loop (call_or_drain E cl) (S (hi - lo)) (lo, hi) cnt w) as [n w'|w'|]; [| |exact H].
  - destruct H as (H1 & H2 & H3 & H4). rewrite flat_map_const, Hlen in H2. auto.
  - destruct H as (t & p & Hp & H2 & H3 & H4). exists t.
    assert (Ht : t < hi - lo) by (rewrite <- Hlen; apply nth_error_Some; rewrite Hp; discriminate).
    split; [exact Ht|]. split; [|auto]. rewrite H2, flat_map_const, firstn_length_le by lia.
    rewrite (skipn_nth _ t p Hp). cbn [flat_map].
    replace (S t) with (t + 1) by lia. rewrite repeat_app. cbn [repeat]. rewrite <- !app_assoc. reflexivity.
Qed.

End DrainFates.

Section IntoFates.
Context (sc : script).
Notation Em := (env_map sc).
Notation Es := (env_set sc).
Notation mworld := (world key vobj cstate).
Notation sworld := (world key unit cstate).

(* what count() destroys after next() has destroyed the unused half: the half
   that was yielded *)
Definition rest_evs (kind : N) (p : key * vobj) : list event :=
  if N.eqb kind 1 then ev_drops (idK Em (fst p))
  else if N.eqb kind 2 then ev_drops (idV Em (snd p)) else evp Em p.
Definition count_evs (kind : N) (p : key * vobj) : list event := into_evs sc kind p ++ rest_evs kind p.

Lemma into_rest_spec kind p (w : mworld) :
  let post := fun w' : mworld => self w' = self w /\ log w' = log w ++ rest_evs kind p in
  wp (into_rest sc kind p) (fun _ => post) post w.
Proof.
  intros post. subst post. unfold into_rest, rest_evs.
  destruct (N.eqb kind 1); [|destruct (N.eqb kind 2)].
  - apply (drop_key_spec Em (fst p) w).
  - apply (drop_val_spec Em (snd p) w).
  - apply (drop_pair_logs Em p w).
Qed.

Lemma unwind_item_spec kind p (w : mworld) :
  wp (unwind_item sc kind p) (fun _ w' => self w' = self w /\ log w' = log w ++ rest_evs kind p)
     (fun _ => False) w.
Proof.
  unfold unwind_item, rest_evs. destruct (N.eqb kind 1); [|destruct (N.eqb kind 2)].
  - apply unwind_key_logs.
  - apply unwind_val_logs.
  - apply unwind_pair_logs.
Qed.

(* ---- fate 3: count() of IntoKeys / IntoValues (library default) ---- *)
Definition icount_body (kind : N) (p : key * vobj) : Mm unit :=
  _ <- into_steps_item sc kind p ;; into_rest sc kind p.

Lemma into_count_is_loop kind : forall fuel cnt (w : mworld),
  into_count sc kind fuel cnt w = into_loop (icount_body kind) fuel cnt w.
Proof.
  induction fuel as [|fuel IH]; intros cnt w; [reflexivity|]. cbn [into_count into_loop].
  apply bind_ext_pt. intros [p|] w1; [|reflexivity]. unfold icount_body.
  rewrite bind_assoc_pt. apply bind_ext_pt. intros it w2.
  apply bind_ext_pt. intros _ w3. apply IH.
Qed.

Lemma icount_body_ok kind :
  into_body_ok (count_evs kind)
               (fun p part => part = into_evs sc kind p \/ part = count_evs kind p)
               (icount_body kind).
Proof.
  intros p w. unfold icount_body. apply wp_bind.
  eapply wp_mono; [apply (into_steps_item_spec sc kind p w) | |]; cbn beta.
  - intros it w1 (_ & Hs1 & Hlog1).
    eapply wp_mono; [apply (into_rest_spec kind p w1) | |]; cbn beta.
    + intros _ w2 [Hs2 Hlog2]. split; [congruence|]. unfold count_evs. rewrite Hlog2, Hlog1, app_assoc. reflexivity.
    + intros w2 [Hs2 Hlog2]. split; [congruence|]. eexists. split; [right; reflexivity|].
      unfold count_evs. rewrite Hlog2, Hlog1, app_assoc. reflexivity.
  - intros w1 (Hs1 & Hlog1). split; [exact Hs1|]. eexists. split; [left; reflexivity | exact Hlog1].
Qed.

(* every script.  Normal return: the count is the number of entries the iterator
   still held; for EVERY one of them, from the back, the unused half and then the
   yielded half were destroyed (count_evs), each once; the iterator is empty.
   Panic at entry t: entries 0..t-1 were destroyed completely, of entry t either
   only the unused half (its Drop panicked) or both halves; the iterator still
   holds the prefix of length len - S t (the session's finally_drop then destroys
   it while unwinding). *)
Lemma into_count_exact kind cnt (w : mworld) :
  WF (self w) ->
  wp (into_count sc kind (S (len (self w))) cnt)
     (fun n w' =>
        n = cnt + len (self w) /\
        log w' = log w ++ flat_map (count_evs kind) (rev (Spec.elems (self w))) /\
        WF (self w') /\ len (self w') = 0 /\ cap (self w') = cap (self w))
     (fun w' => exists t p part,
        nth_error (rev (Spec.elems (self w))) t = Some p /\
        (part = into_evs sc kind p \/ part = count_evs kind p) /\
        log w' = log w ++ flat_map (count_evs kind) (firstn t (rev (Spec.elems (self w)))) ++ part /\
        WF (self w') /\ cap (self w') = cap (self w) /\
        len (self w') = len (self w) - S t /\
        Spec.elems (self w') = firstn (len (self w) - S t) (Spec.elems (self w)))
     w.
Proof.
  intros Hw. unfold wp. rewrite into_count_is_loop.
  exact (into_loop_spec _ _ _ (icount_body_ok kind) (S (len (self w))) cnt w Hw (Nat.lt_succ_diag_r _)).
Qed.

(* IntoIter::count() is overridden (src/iterators.rs): it reports the length,
   then the iterator is dropped: the entries are destroyed in SLOT order *)
Lemma into_count0_exact (w : mworld) :
  WF (self w) ->
  wp (l <- get_len ;; drop_map Em ;; ret [nn l])
     (fun r w' => r = [nn (len (self w))] /\
                  log w' = log w ++ flat_map (evp Em) (Spec.elems (self w)))
     (fun w' => exists k, log w' = log w ++ flat_map (evp Em) (firstn k (Spec.elems (self w))))
     w.
Proof.
  intros [Hl Hs]. apply wp_bind. apply wp_get_len. apply wp_bind. unfold drop_map.
  apply wp_bind. apply wp_get_len.
  eapply wp_mono; [apply (drop_range_logs Em (len (self w)) 0 w) | |]; cbn beta.
  - intros j Hj. apply Hs. lia.
  - intros _ w' H. apply wp_ret. split; [reflexivity | exact H].
  - intros w' H. exact H.
Qed.

(* ---- fate 2: for_each(closure) on IntoIter / IntoKeys / IntoValues ---- *)
Definition ieach_body (kind : N) (p : key * vobj) : Mm unit :=
  _ <- into_steps_item sc kind p ;;
  on_unwind (unwind_item sc kind p) (emit [EvCall 4] ;; _ <- cbk (nx_cb sc) ;; ret tt).

Lemma into_for_each_is_loop kind : forall fuel cnt (w : mworld),
  into_for_each sc kind fuel cnt w = into_loop (ieach_body kind) fuel cnt w.
Proof.
  induction fuel as [|fuel IH]; intros cnt w; [reflexivity|]. cbn [into_for_each into_loop].
  apply bind_ext_pt. intros [p|] w1; [|reflexivity]. unfold ieach_body.
  rewrite bind_assoc_pt. apply bind_ext_pt. intros it w2.
  apply bind_ext_pt. intros _ w3. apply IH.
Qed.

Lemma call_closure_spec (cleanup : Mm unit) (evs : list event) (w : mworld) :
  (forall w0 : mworld, wp cleanup (fun _ w' => self w' = self w0 /\ log w' = log w0 ++ evs)
                          (fun _ => False) w0) ->
  wp (on_unwind cleanup (emit [EvCall 4] ;; _ <- cbk (nx_cb sc) ;; ret tt))
     (fun _ w' => self w' = self w /\ log w' = log w ++ [EvCall 4])
     (fun w' => self w' = self w /\ log w' = log w ++ [EvCall 4] ++ evs) w.
Proof.
  intros Hc. apply wp_on_unwind. apply wp_bind. apply wp_emit. apply wp_bind. apply wp_cbk.
  - intros s. apply wp_ret. simp_w. auto.
  - intros s. apply wp_ret. simp_w. auto.
  - intros s. eapply wp_mono; [apply Hc | | intros ? []]; cbn beta.
    intros _ w2 [Hs2 Hlog2]. simp_w. rewrite Hlog2, <- app_assoc. auto.
Qed.

Lemma ieach_body_ok kind :
  into_body_ok (fun p => into_evs sc kind p ++ [EvCall 4])
               (fun p part => part = into_evs sc kind p \/
                              part = into_evs sc kind p ++ [EvCall 4] ++ rest_evs kind p)
               (ieach_body kind).
Proof.
  intros p w. unfold ieach_body. apply wp_bind.
  eapply wp_mono; [apply (into_steps_item_spec sc kind p w) | |]; cbn beta.
  - intros it w1 (_ & Hs1 & Hlog1).
    eapply wp_mono; [apply (call_closure_spec _ (rest_evs kind p) w1); intros w0; apply unwind_item_spec | |];
      cbn beta.
    + intros _ w2 [Hs2 Hlog2]. split; [congruence|]. rewrite Hlog2, Hlog1, app_assoc. reflexivity.
    + intros w2 [Hs2 Hlog2]. split; [congruence|]. eexists. split; [right; reflexivity|].
      rewrite Hlog2, Hlog1, <- !app_assoc. reflexivity.
  - intros w1 (Hs1 & Hlog1). split; [exact Hs1|]. eexists. split; [left; reflexivity | exact Hlog1].
Qed.

(* the count is the number of entries left and the closure is called exactly
   once per entry (one EvCall 4 each, after next() destroyed the unused half);
   on a panic at entry t: either the Drop of its unused half panicked (closure
   not called), or the closure panicked and the item it owned was destroyed *)
Lemma into_for_each_exact kind cnt (w : mworld) :
  WF (self w) ->
  wp (into_for_each sc kind (S (len (self w))) cnt)
     (fun n w' =>
        n = cnt + len (self w) /\
        log w' = log w ++ flat_map (fun p => into_evs sc kind p ++ [EvCall 4]) (rev (Spec.elems (self w))) /\
        WF (self w') /\ len (self w') = 0 /\ cap (self w') = cap (self w))
     (fun w' => exists t p part,
        nth_error (rev (Spec.elems (self w))) t = Some p /\
        (part = into_evs sc kind p \/ part = into_evs sc kind p ++ [EvCall 4] ++ rest_evs kind p) /\
        log w' = log w ++ flat_map (fun p => into_evs sc kind p ++ [EvCall 4])
                                   (firstn t (rev (Spec.elems (self w)))) ++ part /\
        WF (self w') /\ cap (self w') = cap (self w) /\
        len (self w') = len (self w) - S t /\
        Spec.elems (self w') = firstn (len (self w) - S t) (Spec.elems (self w)))
     w.
Proof.
  intros Hw. unfold wp. rewrite into_for_each_is_loop.
  exact (into_loop_spec _ _ _ (ieach_body_ok kind) (S (len (self w))) cnt w Hw (Nat.lt_succ_diag_r _)).
Qed.

(* ---- Set::into_iter: fate 3 and fate 2 ---- *)
Lemma set_into_count_is_loop : forall fuel cnt (w : sworld),
  set_into_count sc fuel cnt w = into_loop (fun p => drop_key Es (fst p)) fuel cnt w.
Proof.
  induction fuel as [|fuel IH]; intros cnt w; [reflexivity|]. cbn [set_into_count into_loop].
  apply bind_ext_pt. intros [p|] w1; [|reflexivity]. apply bind_ext_pt. intros _ w2. apply IH.
Qed.

Definition skey_evs (p : key * unit) : list event := ev_drops (idK Es (fst p)).

Lemma set_into_count_exact cnt (w : sworld) :
  WF (self w) ->
  wp (set_into_count sc (S (len (self w))) cnt)
     (fun n w' =>
        n = cnt + len (self w) /\
        log w' = log w ++ flat_map skey_evs (rev (Spec.elems (self w))) /\
        WF (self w') /\ len (self w') = 0 /\ cap (self w') = cap (self w))
     (fun w' => exists t,
        t < len (self w) /\
        log w' = log w ++ flat_map skey_evs (firstn (S t) (rev (Spec.elems (self w)))) /\
        WF (self w') /\ cap (self w') = cap (self w) /\
        len (self w') = len (self w) - S t /\
        Spec.elems (self w') = firstn (len (self w) - S t) (Spec.elems (self w)))
     w.
Proof.
  intros Hw. unfold wp. rewrite set_into_count_is_loop.
  assert (Hok : into_body_ok skey_evs (fun p part => part = skey_evs p) (fun p : key * unit => drop_key Es (fst p))).
  { intros p w0. eapply wp_mono; [apply (drop_key_spec Es (fst p) w0) | |]; cbn beta.
    - intros _ w1 H. exact H.
    - intros w1 [H1 H2]. split; [exact H1|]. eexists. split; [reflexivity | exact H2]. }
  pose proof (into_loop_spec _ _ _ Hok (S (len (self w))) cnt w Hw (Nat.lt_succ_diag_r _)) as H.
  unfold wp in H.
  destruct (into_loop (fun p : key * unit => drop_key Es (fst p)) (S (len (self w))) cnt w) as [n w'|w'|];
    [exact H | | exact H].
  destruct H as (t & p & part & Hp & -> & Hlog & H4 & H5 & H6 & H7). exists t.
  assert (Ht : t < len (self w)).
  { rewrite <- (elems_length _ Hw), <- rev_length. apply nth_error_Some. rewrite Hp. discriminate. }
  split; [exact Ht|]. split; [|auto].
  rewrite Hlog. f_equal.
  rewrite (firstn_skipn_nth _ t p Hp) at 2. rewrite firstn_app.
  rewrite firstn_length_le by (rewrite rev_length, (elems_length _ Hw); lia).
  replace (S t - t) with 1 by lia. rewrite firstn_firstn, Nat.min_r by lia. cbn [firstn].
  rewrite flat_map_app. cbn [flat_map]. rewrite app_nil_r. reflexivity.
Qed.

Lemma set_into_for_each_is_loop : forall fuel cnt (w : sworld),
  set_into_for_each sc fuel cnt w =
  into_loop (fun p => on_unwind (unwind_key Es (fst p)) (emit [EvCall 4] ;; _ <- cbk (nx_cb sc) ;; ret tt))
            fuel cnt w.
Proof.
  induction fuel as [|fuel IH]; intros cnt w; [reflexivity|]. cbn [set_into_for_each into_loop].
  apply bind_ext_pt. intros [p|] w1; [|reflexivity]. apply bind_ext_pt. intros _ w2. apply IH.
Qed.

Lemma set_into_for_each_exact cnt (w : sworld) :
  WF (self w) ->
  wp (set_into_for_each sc (S (len (self w))) cnt)
     (fun n w' =>
        n = cnt + len (self w) /\
        log w' = log w ++ repeat (EvCall 4) (len (self w)) /\
        WF (self w') /\ len (self w') = 0 /\ cap (self w') = cap (self w))
     (fun w' => exists t p,
        nth_error (rev (Spec.elems (self w))) t = Some p /\
        log w' = log w ++ repeat (EvCall 4) (S t) ++ skey_evs p /\
        WF (self w') /\ cap (self w') = cap (self w) /\
        len (self w') = len (self w) - S t /\
        Spec.elems (self w') = firstn (len (self w) - S t) (Spec.elems (self w)))
     w.
Proof.
  intros Hw. unfold wp. rewrite set_into_for_each_is_loop.
  set (body := fun p : key * unit =>
                 on_unwind (unwind_key Es (fst p)) (emit [EvCall 4] ;; _ <- cbk (nx_cb sc) ;; ret tt)).
  assert (Hok : into_body_ok (fun _ => [EvCall 4]) (fun p part => part = [EvCall 4] ++ skey_evs p) body).
  { intros p w0. unfold body. apply wp_on_unwind. apply wp_bind. apply wp_emit. apply wp_bind. apply wp_cbk.
    - intros s. apply wp_ret. simp_w. auto.
    - intros s. apply wp_ret. simp_w. auto.
    - intros s. eapply wp_mono; [apply unwind_key_logs | | intros ? []]; cbn beta.
      intros _ w2 [Hs2 Hlog2]. simp_w. split; [exact Hs2|]. eexists. split; [reflexivity|].
      rewrite Hlog2, <- app_assoc. reflexivity. }
  pose proof (into_loop_spec _ _ _ Hok (S (len (self w))) cnt w Hw (Nat.lt_succ_diag_r _)) as H.
  unfold wp in H. fold body.
  destruct (into_loop body (S (len (self w))) cnt w) as [n w'|w'|]; [ | | exact H].
  - destruct H as (H1 & H2 & H3). rewrite flat_map_const, rev_length, (elems_length _ Hw) in H2. auto.
  - destruct H as (t & p & part & Hp & -> & Hlog & H4). exists t, p. split; [exact Hp|]. split; [|exact H4].
    assert (Ht : t < len (self w)).
    { rewrite <- (elems_length _ Hw), <- rev_length. apply nth_error_Some. rewrite Hp. discriminate. }
    rewrite Hlog, flat_map_const, firstn_length_le by (rewrite rev_length, (elems_length _ Hw); lia).
    replace (S t) with (t + 1) by lia. rewrite repeat_app. cbn [repeat]. rewrite <- !app_assoc. reflexivity.
Qed.

End IntoFates.

(* ====================================================================== *)
(* R2-D (C10): reuse after a drain with an ARBITRARY Drop; None forever    *)
(* ====================================================================== *)
Section Reuse2.
Context {K V Q T : Type}.
Notation world := (world K V T).

(* E: the environment the drain runs in (any Drop, it may panic).  E': a lawful
   environment for the history that follows (the same == on the same types; it
   is a different record only because Lawful also demands a non-panicking Drop).
   Both outcomes of the drain are reachable (C10 examples). *)
Theorem drain_then_run_refines2 (E E' : env K V Q T) (debug : bool) (ck : K -> N) (cq : Q -> N)
        (HL : Lawful E' ck cq) take (ops : list (@Dict.dop K V Q)) (w : world) :
  WF (self w) ->
  match (c <- drain ;; r <- drain_run take c ;; drain_drop E (snd r)) w with
  | Ok _ w' | Panic w' =>
      cap (self w') = cap (self w) /\
      mrun E' debug ops w' = drun ck cq (cap (self w)) ops [] /\
      forall s lg, mrun E' debug ops w' =
                   mrun E' debug ops {| cb := s; log := lg; self := new_map (cap (self w)) |}
  | UB => False
  end.
Proof.
  intros Hw. pose proof (drain_session_Abs E ck take w Hw) as H. cbv zeta in H. unfold wp in H.
  destruct ((c <- drain ;; r <- drain_run take c ;; drain_drop E (snd r)) w) as [u w'|w'|];
    [| |exact H]; destruct H as [Ha Hc];
    (split; [exact Hc|]; split;
     [apply (run_refines E' debug ck cq HL _ ops w' [] Ha Hc)
     |intros s lg; rewrite (run_refines_new E' debug ck cq HL);
      apply (run_refines E' debug ck cq HL _ ops w' [] Ha Hc)]).
Qed.

Context (E : env K V Q T).

(* "None forever after the end": on an empty IntoKeys / IntoValues, next()
   returns None and changes nothing (so it does again) *)
Lemma into_keys_next_end (w : world) : len (self w) = 0 -> into_keys_next E w = Ok None w.
Proof. intros H. unfold into_keys_next, into_iter_next, bind, get_len. rewrite H. reflexivity. Qed.

Lemma into_values_next_end (w : world) : len (self w) = 0 -> into_values_next E w = Ok None w.
Proof. intros H. unfold into_values_next, into_iter_next, bind, get_len. rewrite H. reflexivity. Qed.

Lemma proj_run_end {A} (next : M K V T (option A)) (w : world) :
  next w = Ok None w -> forall n, proj_run next n w = Ok [] w.
Proof. intros H [|n]; [reflexivity|]. cbn [proj_run]. unfold bind. rewrite H. reflexivity. Qed.

(* once the session has taken at least len items (normal return), every further
   next() is None, and any number of further calls yields nothing *)
Lemma into_keys_fused n (w : world) :
  WF (self w) -> len (self w) <= n ->
  wp (into_keys_run E n)
     (fun _ w' => len (self w') = 0 /\ into_keys_next E w' = Ok None w' /\
                  forall m, into_keys_run E m w' = Ok [] w')
     (fun _ => True) w.
Proof.
  intros Hw Hn. eapply wp_mono; [apply (into_keys_run_spec E n w Hw) | | auto]; cbn beta; cbv zeta.
  intros r w' (_ & _ & _ & _ & Hl & _).
  assert (H0 : len (self w') = 0) by lia. split; [exact H0|].
  split; [apply into_keys_next_end; exact H0|].
  intros m. apply proj_run_end. apply into_keys_next_end. exact H0.
Qed.

Lemma into_values_fused n (w : world) :
  WF (self w) -> len (self w) <= n ->
  wp (into_values_run E n)
     (fun _ w' => len (self w') = 0 /\ into_values_next E w' = Ok None w' /\
                  forall m, into_values_run E m w' = Ok [] w')
     (fun _ => True) w.
Proof.
  intros Hw Hn. eapply wp_mono; [apply (into_values_run_spec E n w Hw) | | auto]; cbn beta; cbv zeta.
  intros r w' (_ & _ & _ & _ & Hl & _).
  assert (H0 : len (self w') = 0) by lia. split; [exact H0|].
  split; [apply into_values_next_end; exact H0|].
  intros m. apply proj_run_end. apply into_values_next_end. exact H0.
Qed.

End Reuse2.
