(* ========================================================================== *)
(* C20 — serde round trip reproduces the container (feature serde)

   STATEMENT (properties.jsonl):
     "With the serde feature enabled, serializing any Map or Set emits exactly
      len() entries, and deserializing that output into a container of
      sufficient capacity yields one equal to the original, for every content
      and internal order."
   QUANTIFIER:
     "all contents and internal orders, capacities of source and target, Map and
      Set, feature serde on"

   READING GUIDE
   -------------
   Model (Model/Exec.v, ops OSerde / SSerde).  The serializer (src/serialization.rs:11-22,
   src/set/serialization.rs:11-22) announces [len src] and then emits one entry per iterated
   pair, i.e. the list [Spec.elems src] in iteration order (for a Set: the keys,
   [List.map fst (Spec.elems src)]).  The deserializer's visitor
   (src/serialization.rs:26-56, src/set/serialization.rs:25-51) is
     visit_map debug sc items / visit_seq debug sc items
   : for every received entry it decodes FRESH objects (new identities [next_id], same key
   class [kcls], same payload [vdat]) and inserts them one by one with Map::insert /
   Set::insert into a local container that starts as [new_map cp] (Map::new() of the TARGET
   capacity cp, unrelated to the capacity of the source); [finally_drop] runs that local
   container's destructor if the visitor unwinds.  The wire format in between (serde_json,
   bincode, ...) is not part of micromap and not modelled: the visitor receives exactly the
   entries the serializer emitted.
   The environment is the scripted one of the correspondence check, [env_map sc] / [env_set sc];
   [honest sc] = no adversarial == answers and no injected fault, under which it is a lawful
   environment: == is equality of key classes [kcls], value == is equality of payloads [vdat].
   [Uniq kcls l] = pairwise different keys (true of every state reachable with a lawful ==:
   C01/C05); [WF] = the representation invariant.
   [entry_ok_in ck veq lb p] = "lb has an entry for the class of p's key, with an equal value";
   [(length la =? length lb) && forallb (entry_ok_in ck veq lb) la] is the boolean PartialEq
   for Map computes on (la, lb) (EqClone.map_eq_lawful, Props/C14.v), and it is extensional
   dictionary equality, independent of internal order (EqClone.map_eq_extensional, C14).

   * "serializing any Map or Set emits exactly len() entries"
       C20_ser_len : the number of entries emitted ([length (Spec.elems m)]) is the announced
       [len m], for every well-formed container (any value type: Map and Set).
   * "deserializing that output into a container of sufficient capacity yields one equal to the
      original, for every content and internal order"
       C20_serde_roundtrip_map : for every well-formed source with pairwise different keys (any
       content, any slot order), every target capacity cp >= len src, any initial callback
       state and log, both build modes: the visitor returns normally (no panic, no UB) with a
       well-formed container of the same length, pairwise different keys, for which the
       PartialEq boolean against the source is true;
       C20_serde_roundtrip_map_eq : and on any two containers related in that way the crate's
       own == (map_eq) returns true (never panics), leaving everything untouched ([stable]);
       C20_serde_roundtrip_set, C20_serde_roundtrip_set_eq : the same for Set (values are ()).
       C20_visit_map_spec, C20_visit_seq_spec : the step underneath, from ANY starting
       container: if the items have pairwise different classes, none of them is present and
       there is room for all, the visitor appends exactly one fresh entry per item, in order,
       of the same class and payload; capacity kept; nothing is destroyed (log unchanged).
   * "capacities of source and target" — insufficient capacity
       C20_serde_overflow : if cp < len src the visitor never returns normally: the insert into
       the full local container panics and the unwinding (which destroys the partly built
       container) is free of UB.
   * the premises are satisfiable / the scripted environment is lawful
       C20_env_map_lawful, C20_env_set_lawful.

   PARTLY COVERED / NOT COVERED BY A THEOREM
     - "the decoded container is equal": the two halves (roundtrip: the boolean is true; _eq: ==
       returns true on such a pair) are composed in ONE theorem in the APPENDED SECTION at the end
       of this file: C20_serde_roundtrip_map_equal / C20_serde_roundtrip_set_equal (decode, then the
       crate's == returns true), for every WF source with pairwise different keys.
     - step level (ROUND 2 section at the end): the model has no serializer function; what op
       OSerde / SSerde prints (announced length, number of emitted entries) and does to the
       registers is C20_step_OSerde_ok / C20_step_SSerde_ok / C20_step_*_emits; decoded == original
       as well as original == decoded: C20_serde_roundtrip_*_equal_sym, C20_step_*_then_*Eq.
     - C20_ser_len alone is a list-length fact; the emitted sequence is tied to the iteration
       protocol by C20_ser_emits (appended section).  Set overflow twin: C20_serde_overflow_set.
     - the theorems are about the instrumented element types of the harness (key, vobj) and
       the honest script, not about an arbitrary lawful environment.
     - the wire format, serde's Serializer/Deserializer contracts (e.g. that the length hint
       Some(len) is what serialize_map receives), and "feature serde on" (Cargo.toml) are
       outside the model: observed by the harness built with --features serde (entry count
       announced and emitted, equality of the decoded container).
     - C20_serde_overflow claims only "no normal return, no UB" (panic postcondition True);
       how the real deserializer reports the failure is not modelled.                       *)
(* ========================================================================== *)
Require Import Model.Base Model.Slots Model.MapOps Model.SetOps Model.Exec.
Require Import Proofs.Hoare Proofs.Inv Proofs.Safety Proofs.Safety2 Proofs.Spec Proofs.Lawful.
Require Import Proofs.EqClone Proofs.FmtSerde Proofs.Legacy.

(* -------------------------------------------------------------------------- *)
(* FmtSerde.ser_len                                                            *)
Theorem C20_ser_len :
  forall (V : Type) (m : map key V), WF m -> length (Spec.elems m) = len m.
Proof. exact (@ser_len). Qed.
Print Assumptions C20_ser_len.

(* -------------------------------------------------------------------------- *)
(* FmtSerde.visit_map_spec                                                     *)
Theorem C20_visit_map_spec :
  forall (debug : bool) (sc : script) (items : list (key * vobj)) (w : world key vobj cstate),
    honest sc ->
    WF (self w) ->
    Uniq kcls (Spec.elems (self w)) ->
    NoDup (List.map (fun p : key * vobj => kcls (fst p)) items) ->
    (forall p : key * vobj, In p items -> find_idx kcls (kcls (fst p)) (Spec.elems (self w)) = None) ->
    len (self w) + length items <= cap (self w) ->
    wp (visit_map debug sc items)
       (fun (_ : unit) (w' : world key vobj cstate) =>
          WF (self w') /\
          cap (self w') = cap (self w) /\
          (exists fresh : list (key * vobj),
             Spec.elems (self w') = Spec.elems (self w) ++ fresh /\
             Forall2 (fun p p' : key * vobj => kcls (fst p') = kcls (fst p) /\ vdat (snd p') = vdat (snd p))
                     items fresh) /\
          log w' = log w)
       (fun _ : world key vobj cstate => False)
       w.
Proof. exact visit_map_spec. Qed.
Print Assumptions C20_visit_map_spec.

(* -------------------------------------------------------------------------- *)
(* FmtSerde.serde_roundtrip_map                                                *)
Theorem C20_serde_roundtrip_map :
  forall (debug : bool) (sc : script) (src : map key vobj) (cp : nat) (s : cstate) (lg : list event),
    honest sc ->
    WF src ->
    Uniq kcls (Spec.elems src) ->
    len src <= cp ->
    wp (finally_drop (env_map sc) (visit_map debug sc (Spec.elems src)))
       (fun (_ : unit) (w' : world key vobj cstate) =>
          WF (self w') /\
          len (self w') = len src /\
          Uniq kcls (Spec.elems (self w')) /\
          (length (Spec.elems src) =? length (Spec.elems (self w'))) &&
          forallb (entry_ok_in kcls (fun a b : vobj => (vdat a =? vdat b)%N) (Spec.elems (self w')))
                  (Spec.elems src) = true)
       (fun _ : world key vobj cstate => False)
       {| cb := s; log := lg; self := new_map cp |}.
Proof. exact serde_roundtrip_map. Qed.
Print Assumptions C20_serde_roundtrip_map.

(* FmtSerde.serde_roundtrip_map_eq                                             *)
Theorem C20_serde_roundtrip_map_eq :
  forall (sc : script) (src dst : map key vobj) (w : world key vobj cstate),
    honest sc ->
    WF src ->
    WF dst ->
    len dst = len src ->
    (length (Spec.elems src) =? length (Spec.elems dst)) &&
    forallb (entry_ok_in kcls (fun a b : vobj => (vdat a =? vdat b)%N) (Spec.elems dst))
            (Spec.elems src) = true ->
    wp (map_eq (env_map sc) src dst)
       (fun (r : bool) (w' : world key vobj cstate) => stable w w' /\ r = true)
       (fun _ : world key vobj cstate => False)
       w.
Proof. exact serde_roundtrip_map_eq. Qed.
Print Assumptions C20_serde_roundtrip_map_eq.

(* -------------------------------------------------------------------------- *)
(* FmtSerde.visit_seq_spec                                                     *)
Theorem C20_visit_seq_spec :
  forall (debug : bool) (sc : script) (items : list key) (w : world key unit cstate),
    honest sc ->
    WF (self w) ->
    Uniq kcls (Spec.elems (self w)) ->
    NoDup (List.map kcls items) ->
    (forall k : key, In k items -> find_idx kcls (kcls k) (Spec.elems (self w)) = None) ->
    len (self w) + length items <= cap (self w) ->
    wp (visit_seq debug sc items)
       (fun (_ : unit) (w' : world key unit cstate) =>
          WF (self w') /\
          cap (self w') = cap (self w) /\
          (exists fresh : list (key * unit),
             Spec.elems (self w') = Spec.elems (self w) ++ fresh /\
             Forall2 (fun (k : key) (p' : key * unit) => kcls (fst p') = kcls k) items fresh) /\
          log w' = log w)
       (fun _ : world key unit cstate => False)
       w.
Proof. exact visit_seq_spec. Qed.
Print Assumptions C20_visit_seq_spec.

(* -------------------------------------------------------------------------- *)
(* FmtSerde.serde_roundtrip_set                                                *)
Theorem C20_serde_roundtrip_set :
  forall (debug : bool) (sc : script) (src : map key unit) (cp : nat) (s : cstate) (lg : list event),
    honest sc ->
    WF src ->
    Uniq kcls (Spec.elems src) ->
    len src <= cp ->
    wp (finally_drop (env_set sc) (visit_seq debug sc (List.map fst (Spec.elems src))))
       (fun (_ : unit) (w' : world key unit cstate) =>
          WF (self w') /\
          len (self w') = len src /\
          Uniq kcls (Spec.elems (self w')) /\
          (length (Spec.elems src) =? length (Spec.elems (self w'))) &&
          forallb (entry_ok_in kcls (fun _ _ : unit => true) (Spec.elems (self w')))
                  (Spec.elems src) = true)
       (fun _ : world key unit cstate => False)
       {| cb := s; log := lg; self := new_map cp |}.
Proof. exact serde_roundtrip_set. Qed.
Print Assumptions C20_serde_roundtrip_set.

(* FmtSerde.serde_roundtrip_set_eq                                             *)
Theorem C20_serde_roundtrip_set_eq :
  forall (sc : script) (src dst : map key unit) (w : world key unit cstate),
    honest sc ->
    WF src ->
    WF dst ->
    len dst = len src ->
    (length (Spec.elems src) =? length (Spec.elems dst)) &&
    forallb (entry_ok_in kcls (fun _ _ : unit => true) (Spec.elems dst)) (Spec.elems src) = true ->
    wp (map_eq (env_set sc) src dst)
       (fun (r : bool) (w' : world key unit cstate) => stable w w' /\ r = true)
       (fun _ : world key unit cstate => False)
       w.
Proof. exact serde_roundtrip_set_eq. Qed.
Print Assumptions C20_serde_roundtrip_set_eq.

(* -------------------------------------------------------------------------- *)
(* FmtSerde.serde_overflow                                                     *)
Theorem C20_serde_overflow :
  forall (debug : bool) (sc : script) (src : map key vobj) (cp : nat) (s : cstate) (lg : list event),
    honest sc ->
    WF src ->
    Uniq kcls (Spec.elems src) ->
    cp < len src ->
    wp (finally_drop (env_map sc) (visit_map debug sc (Spec.elems src)))
       (fun (_ : unit) (_ : world key vobj cstate) => False)
       (fun _ : world key vobj cstate => True)
       {| cb := s; log := lg; self := new_map cp |}.
Proof. exact serde_overflow. Qed.
Print Assumptions C20_serde_overflow.

(* -------------------------------------------------------------------------- *)
(* FmtSerde.env_map_lawful, env_set_lawful                                     *)
Theorem C20_env_map_lawful :
  forall sc : script, honest sc -> Lawful (env_map sc) kcls qcls.
Proof. exact env_map_lawful. Qed.
Print Assumptions C20_env_map_lawful.

Theorem C20_env_set_lawful :
  forall sc : script, honest sc -> Lawful (env_set sc) kcls qcls.
Proof. exact env_set_lawful. Qed.
Print Assumptions C20_env_set_lawful.

(* -------------------------------------------------------------------------- *)
(* Non-vacuity.  Source: m3 (Proofs/Legacy.v), 3 entries, capacity 3; a Set
   source C20_s2 with 2 elements.                                              *)
Definition C20_sc0 : script := {| sc_adv := false; sc_seed := 0; sc_fk := 0; sc_fa := 0 |}.
Definition C20_s2 : map key unit := {| len := 2; slots := [Some (k_ 1 5, tt); Some (k_ 3 6, tt)] |}.

Example C20_example_honest : honest C20_sc0.
Proof. split; reflexivity. Qed.

Example C20_example_WF_map : WF m3.
Proof. exact m3_WF. Qed.

Example C20_example_Uniq_map : Uniq kcls (Spec.elems m3).
Proof.
  unfold Uniq. vm_compute.
  repeat (constructor; [cbn [In]; intuition discriminate|]). constructor.
Qed.

Example C20_example_WF_set : WF C20_s2.
Proof.
  split; [cbn; lia|]. intros i Hi. cbn [len C20_s2] in Hi.
  destruct i as [|[|i]]; [eexists; reflexivity | eexists; reflexivity | lia].
Qed.

Example C20_example_Uniq_set : Uniq kcls (Spec.elems C20_s2).
Proof.
  unfold Uniq. vm_compute.
  repeat (constructor; [cbn [In]; intuition discriminate|]). constructor.
Qed.

Example C20_example_ser_len : length (Spec.elems m3) = 3 /\ len m3 = 3.
Proof. split; reflexivity. Qed.

(* round trip of m3 (capacity 3) into a target of capacity 4: fresh objects,
   same classes and payloads, nothing destroyed *)
Example C20_example_roundtrip :
  finally_drop (env_map C20_sc0) (visit_map false C20_sc0 (Spec.elems m3))
               {| cb := cs0; log := []; self := new_map 4 |} =
  Ok tt
     {| cb := {| n_eq := 3; n_clone := 0; n_call := 0; next_id := 100006 |};
        log := [];
        self := {| len := 3;
                   slots := [Some (k_ 100000 5, v_ 100001 7); Some (k_ 100002 6, v_ 100003 8);
                             Some (k_ 100004 7, v_ 100005 9); None] |} |}.
Proof. vm_compute. reflexivity. Qed.

(* ... and the crate's == between the original and the decoded container *)
Example C20_example_roundtrip_eq :
  match finally_drop (env_map C20_sc0) (visit_map false C20_sc0 (Spec.elems m3))
                     {| cb := cs0; log := []; self := new_map 4 |} with
  | Ok _ w' =>
      match map_eq (env_map C20_sc0) m3 (self w') (w_of m3) with
      | Ok b w'' => b = true /\ self w'' = m3 /\ log w'' = []
      | _ => False
      end
  | _ => False
  end.
Proof. vm_compute. repeat split. Qed.

(* target too small (capacity 2 < 3 entries): the visitor unwinds *)
Example C20_example_overflow :
  match finally_drop (env_map C20_sc0) (visit_map false C20_sc0 (Spec.elems m3))
                     {| cb := cs0; log := []; self := new_map 2 |} with
  | Panic _ => True
  | _ => False
  end.
Proof. vm_compute. exact I. Qed.

Example C20_example_roundtrip_set :
  finally_drop (env_set C20_sc0) (visit_seq false C20_sc0 (List.map fst (Spec.elems C20_s2)))
               {| cb := cs0; log := []; self := new_map 3 |} =
  Ok tt
     {| cb := {| n_eq := 1; n_clone := 0; n_call := 0; next_id := 100002 |};
        log := [];
        self := {| len := 2; slots := [Some (k_ 100000 5, tt); Some (k_ 100001 6, tt); None] |} |}.
Proof. vm_compute. reflexivity. Qed.

(* ========================================================================== *)
(* APPENDED SECTION (audit findings on C20) — Proofs/MoreFmt.v
   ========================================================================== *)
Require Import Proofs.IterSpec.
Require Import Proofs.MoreFmt.

(* -------------------------------------------------------------------------- *)
(* "serializing any Map or Set emits exactly len() entries" — tied to the iteration protocol.
   The serializer is
     let mut m = s.serialize_map(Some(self.len()))?;
     for (k, v) in self.iter() { m.serialize_entry(k, v)?; }   m.end()
   In the interpreter (ops OSerde / SSerde) the announced length is [len src] and the emitted
   sequence is [Exec.elems src] (a Set emits [List.map fst] of it).  For every well-formed
   source (any value type: Map and Set; any world w whose container is src): running iter()
   and next() [len src] times yields the slots 0..len-1, each once, in order, after which the
   iterator is exhausted; the world is unchanged (serializing changes nothing); the entries
   held by the yielded slots are, in order, exactly the emitted list; that list is the
   specification's [Spec.elems src]; its length is the announced [len src]. *)
Theorem C20_ser_emits :
  forall (V T : Type) (src : map key V) (w : world key V T),
    WF src -> self w = src ->
    wp (c <- iter ;; iter_run (len src) c)
       (fun (r : list nat * cursor) (w' : world key V T) =>
          w' = w /\ fst r = seq 0 (len src) /\ cursor_len (snd r) = 0 /\
          List.map (fun i : nat => nth_error (slots src) i) (fst r) =
          List.map (fun p : key * V => Some (Some p)) (Exec.elems src) /\
          Exec.elems src = Spec.elems src /\
          length (Exec.elems src) = len src)
       (fun _ : world key V T => False) w.
Proof. exact (@ser_emits). Qed.
Print Assumptions C20_ser_emits.

(* -------------------------------------------------------------------------- *)
(* "deserializing that output into a container of sufficient capacity yields one equal to the
   original, for every content and internal order" — ONE theorem: decode, then compare with the
   crate's own ==.
   Quantification: the honest script; EVERY well-formed source with pairwise different keys —
   any content, any internal (slot) order, any capacity of the source; NOT only sources built
   by a particular history (every state reachable under a lawful == satisfies WF and Uniq:
   C02/C04, C01/C05) —; every target capacity cp >= len src; both build modes; any callback
   state s and log lg.  The visited list is the term op OSerde passes, [Exec.elems src].
   Conclusion: no panic, no UB; == returns true; the decoded container (still the register:
   == does not touch it) is well formed, has the source's length, the target capacity cp,
   pairwise different keys; nothing was logged (no object dropped or cloned).
   [Uniq] cannot be dropped: a source holding the same key twice would decode to a shorter map. *)
Theorem C20_serde_roundtrip_map_equal :
  forall (debug : bool) (sc : script) (src : map key vobj) (cp : nat) (s : cstate) (lg : list event),
    honest sc -> WF src -> Uniq kcls (Spec.elems src) -> len src <= cp ->
    wp (_ <- finally_drop (env_map sc) (visit_map debug sc (Exec.elems src)) ;;
        m' <- get_self ;;
        map_eq (env_map sc) src m')
       (fun (r : bool) (w' : world key vobj cstate) =>
          r = true /\
          WF (self w') /\ len (self w') = len src /\ cap (self w') = cp /\
          Uniq kcls (Spec.elems (self w')) /\ log w' = lg)
       (fun _ : world key vobj cstate => False)
       {| cb := s; log := lg; self := new_map cp |}.
Proof. exact serde_roundtrip_map_equal. Qed.
Print Assumptions C20_serde_roundtrip_map_equal.

Theorem C20_serde_roundtrip_set_equal :
  forall (debug : bool) (sc : script) (src : map key unit) (cp : nat) (s : cstate) (lg : list event),
    honest sc -> WF src -> Uniq kcls (Spec.elems src) -> len src <= cp ->
    wp (_ <- finally_drop (env_set sc) (visit_seq debug sc (List.map fst (Exec.elems src))) ;;
        m' <- get_self ;;
        map_eq (env_set sc) src m')
       (fun (r : bool) (w' : world key unit cstate) =>
          r = true /\
          WF (self w') /\ len (self w') = len src /\ cap (self w') = cp /\
          Uniq kcls (Spec.elems (self w')) /\ log w' = lg)
       (fun _ : world key unit cstate => False)
       {| cb := s; log := lg; self := new_map cp |}.
Proof. exact serde_roundtrip_set_equal. Qed.
Print Assumptions C20_serde_roundtrip_set_equal.

(* -------------------------------------------------------------------------- *)
(* "capacities of source and target" — insufficient capacity, the Set twin of
   C20_serde_overflow: if cp < len src the visitor never returns normally (the insert into the
   full local set panics) and the unwinding, which destroys the partly built set, is free of UB. *)
Theorem C20_serde_overflow_set :
  forall (debug : bool) (sc : script) (src : map key unit) (cp : nat) (s : cstate) (lg : list event),
    honest sc -> WF src -> Uniq kcls (Spec.elems src) -> cp < len src ->
    wp (finally_drop (env_set sc) (visit_seq debug sc (List.map fst (Spec.elems src))))
       (fun (_ : unit) (_ : world key unit cstate) => False)
       (fun _ : world key unit cstate => True)
       {| cb := s; log := lg; self := new_map cp |}.
Proof. exact serde_overflow_set. Qed.
Print Assumptions C20_serde_overflow_set.

(* both overflow theorems on the term the interpreter really passes ([Exec.elems src]) *)
Theorem C20_serde_overflow_map_exec :
  forall (debug : bool) (sc : script) (src : map key vobj) (cp : nat) (s : cstate) (lg : list event),
    honest sc -> WF src -> Uniq kcls (Spec.elems src) -> cp < len src ->
    wp (finally_drop (env_map sc) (visit_map debug sc (Exec.elems src)))
       (fun (_ : unit) (_ : world key vobj cstate) => False)
       (fun _ : world key vobj cstate => True)
       {| cb := s; log := lg; self := new_map cp |}.
Proof. exact serde_overflow_map_exec. Qed.
Print Assumptions C20_serde_overflow_map_exec.

Theorem C20_serde_overflow_set_exec :
  forall (debug : bool) (sc : script) (src : map key unit) (cp : nat) (s : cstate) (lg : list event),
    honest sc -> WF src -> Uniq kcls (Spec.elems src) -> cp < len src ->
    wp (finally_drop (env_set sc) (visit_seq debug sc (List.map fst (Exec.elems src))))
       (fun (_ : unit) (_ : world key unit cstate) => False)
       (fun _ : world key unit cstate => True)
       {| cb := s; log := lg; self := new_map cp |}.
Proof. exact serde_overflow_set_exec. Qed.
Print Assumptions C20_serde_overflow_set_exec.

(* -------------------------------------------------------------------------- *)
(* Non-vacuity (C20_sc0, m3, C20_s2 and their WF / Uniq / honest examples are above). *)

(* the serializer's walk over m3: slots 0, 1, 2, world unchanged *)
Example C20_example_ser_emits :
  (c <- iter ;; iter_run (len m3) c) (w_of m3) = Ok ([0; 1; 2], (3, 3)) (w_of m3) /\
  Exec.elems m3 = [(k_ 1 5, v_ 2 7); (k_ 3 6, v_ 4 8); (k_ 5 7, v_ 6 9)].
Proof. split; vm_compute; reflexivity. Qed.

(* an internal order that no insertion-only history produces (the state after removing the
   first of four entries: the last one took its place) round-trips as well *)
Definition C20_m3swap : map key vobj :=
  {| len := 3; slots := [Some (k_ 5 7, v_ 6 9); Some (k_ 3 6, v_ 4 8); Some (k_ 1 5, v_ 2 7); None] |}.

Example C20_example_WF_swap : WF C20_m3swap.
Proof.
  split; [cbn; lia|]. intros i Hi. cbn [len C20_m3swap] in Hi.
  destruct i as [|[|[|i]]]; try lia; eexists; reflexivity.
Qed.

Example C20_example_Uniq_swap : Uniq kcls (Spec.elems C20_m3swap).
Proof.
  unfold Uniq. vm_compute.
  repeat (constructor; [cbn [In]; intuition discriminate|]). constructor.
Qed.

Example C20_example_roundtrip_equal :
  match (_ <- finally_drop (env_map C20_sc0) (visit_map false C20_sc0 (Exec.elems C20_m3swap)) ;;
         m' <- get_self ;; map_eq (env_map C20_sc0) C20_m3swap m')
        {| cb := cs0; log := []; self := new_map 5 |} with
  | Ok r w' => r = true /\ len (self w') = 3 /\ cap (self w') = 5 /\ log w' = []
  | _ => False
  end.
Proof. vm_compute. repeat split. Qed.

Example C20_example_roundtrip_set_equal :
  match (_ <- finally_drop (env_set C20_sc0) (visit_seq false C20_sc0 (List.map fst (Exec.elems C20_s2))) ;;
         m' <- get_self ;; map_eq (env_set C20_sc0) C20_s2 m')
        {| cb := cs0; log := []; self := new_map 2 |} with
  | Ok r w' => r = true /\ len (self w') = 2 /\ log w' = []
  | _ => False
  end.
Proof. vm_compute. repeat split. Qed.

(* Set target too small (capacity 1 < 2 elements): the visitor unwinds *)
Example C20_example_overflow_set :
  match finally_drop (env_set C20_sc0) (visit_seq false C20_sc0 (List.map fst (Spec.elems C20_s2)))
                     {| cb := cs0; log := []; self := new_map 1 |} with
  | Panic _ => True
  | _ => False
  end.
Proof. vm_compute. exact I. Qed.

(* ========================================================================== *)
(* APPENDED SECTION, ROUND 2 (second audit) — Proofs/MoreFmt.v, part "ROUND 2"
   ========================================================================== *)
(* The model has NO serializer function: op OSerde r r' of the interpreter (Exec.step) reads
   the source register src = get_m r x, prints the pair [len src; length (Exec.elems src)]
   (the length the serializer announces; the number of entries it emits) and runs the visitor
   on Exec.elems src into a fresh container of the TARGET register's capacity, which then
   replaces register r' (the old value of r' is destroyed).  The theorems below are about
   that step, i.e. about the observation the correspondence check compares with the real
   crate built with --features serde.
     WFx x        — all four registers hold well-formed containers and the interpreter is not
                    dead (ExecSafe; preserved by every step: C02);
     get_m r x    — map register r (0 or 1), get_s r x — set register r (2 or 3);
     same_m r r'  — r and r' name the same map register (MoreEq), same_s for sets;
     mview / sview — the (class, payload) / class list of a register, in slot order (ExecView);
     post_m / post_s — the rendering of a register in an observation; events lg — the sorted
                    drop / clone identities of the log lg. *)
Require Import Proofs.ExecSafe Proofs.ExecUniq Proofs.ExecView Proofs.MoreEq.

(* -------------------------------------------------------------------------- *)
(* "serializing any Map or Set emits exactly len() entries", at the level the correspondence
   check compares.  Honest script, WFx state, source with pairwise different keys, target
   register large enough (so that the step returns normally):
   - the observation is 1 (normal return), len src (announced), len src (emitted), then the
     new content of the target register and the events;
   - the target register afterwards is well formed, keeps its capacity, has the source's
     length, pairwise different keys and the same (class, payload) list in the same order;
   - it compares equal to the source with the crate's ==, in BOTH directions, from any world,
     == changing nothing;
   - if r' is another register than r the source register is literally unchanged;
   - the interpreter is not dead. *)
Theorem C20_step_OSerde_ok :
  forall (debug : bool) (sc : script) (r r' : N) (x : xworld),
    honest sc -> WFx x -> Uniq kcls (Spec.elems (get_m r x)) -> len (get_m r x) <= cap (get_m r' x) ->
    let src := get_m r x in
    let res := step debug sc (OSerde r r') x in
    let m' := get_m r' (snd res) in
    (exists lg : list event, fst res = [1%N; nn (len src); nn (len src)] ++ post_m m' ++ events lg) /\
    WF m' /\ cap m' = cap (get_m r' x) /\ len m' = len src /\ Uniq kcls (Spec.elems m') /\
    mview m' = mview src /\
    (forall w : world key vobj cstate, exists w1 w2 : world key vobj cstate,
        map_eq (env_map sc) src m' w = Ok true w1 /\ map_eq (env_map sc) m' src w = Ok true w2 /\
        stable w w1 /\ stable w w2) /\
    (~ same_m r' r -> get_m r (snd res) = src) /\
    xdead (snd res) = false.
Proof. exact step_OSerde_ok. Qed.
Print Assumptions C20_step_OSerde_ok.

Theorem C20_step_SSerde_ok :
  forall (debug : bool) (sc : script) (r r' : N) (x : xworld),
    honest sc -> WFx x -> Uniq kcls (Spec.elems (get_s r x)) -> len (get_s r x) <= cap (get_s r' x) ->
    let src := get_s r x in
    let res := step debug sc (SSerde r r') x in
    let m' := get_s r' (snd res) in
    (exists lg : list event, fst res = [1%N; nn (len src); nn (len src)] ++ post_s m' ++ events lg) /\
    WF m' /\ cap m' = cap (get_s r' x) /\ len m' = len src /\ Uniq kcls (Spec.elems m') /\
    sview m' = sview src /\
    (forall w : world key unit cstate, exists w1 w2 : world key unit cstate,
        map_eq (env_set sc) src m' w = Ok true w1 /\ map_eq (env_set sc) m' src w = Ok true w2 /\
        stable w w1 /\ stable w w2) /\
    (~ same_s r' r -> get_s r (snd res) = src) /\
    xdead (snd res) = false.
Proof. exact step_SSerde_ok. Qed.
Print Assumptions C20_step_SSerde_ok.

(* the announced / emitted prefix alone *)
Theorem C20_step_OSerde_emits :
  forall (debug : bool) (sc : script) (r r' : N) (x : xworld),
    honest sc -> WFx x -> Uniq kcls (Spec.elems (get_m r x)) -> len (get_m r x) <= cap (get_m r' x) ->
    exists t : list N,
      fst (step debug sc (OSerde r r') x) = 1%N :: nn (len (get_m r x)) :: nn (len (get_m r x)) :: t.
Proof. exact step_OSerde_emits. Qed.
Print Assumptions C20_step_OSerde_emits.

Theorem C20_step_SSerde_emits :
  forall (debug : bool) (sc : script) (r r' : N) (x : xworld),
    honest sc -> WFx x -> Uniq kcls (Spec.elems (get_s r x)) -> len (get_s r x) <= cap (get_s r' x) ->
    exists t : list N,
      fst (step debug sc (SSerde r r') x) = 1%N :: nn (len (get_s r x)) :: nn (len (get_s r x)) :: t.
Proof. exact step_SSerde_emits. Qed.
Print Assumptions C20_step_SSerde_emits.

(* -------------------------------------------------------------------------- *)
(* both directions of == in the one-theorem round trip: original == decoded AND
   decoded == original (C14 symmetry of the boolean, EqClone.map_eq_sym) *)
Theorem C20_serde_roundtrip_map_equal_sym :
  forall (debug : bool) (sc : script) (src : map key vobj) (cp : nat) (s : cstate) (lg : list event),
    honest sc -> WF src -> Uniq kcls (Spec.elems src) -> len src <= cp ->
    wp (_ <- finally_drop (env_map sc) (visit_map debug sc (Exec.elems src)) ;;
        m' <- get_self ;;
        r1 <- map_eq (env_map sc) src m' ;;
        r2 <- map_eq (env_map sc) m' src ;;
        ret (r1, r2))
       (fun (r : bool * bool) (w' : world key vobj cstate) =>
          r = (true, true) /\
          WF (self w') /\ len (self w') = len src /\ cap (self w') = cp /\
          Uniq kcls (Spec.elems (self w')) /\ log w' = lg)
       (fun _ : world key vobj cstate => False)
       {| cb := s; log := lg; self := new_map cp |}.
Proof. exact serde_roundtrip_map_equal_sym. Qed.
Print Assumptions C20_serde_roundtrip_map_equal_sym.

Theorem C20_serde_roundtrip_set_equal_sym :
  forall (debug : bool) (sc : script) (src : map key unit) (cp : nat) (s : cstate) (lg : list event),
    honest sc -> WF src -> Uniq kcls (Spec.elems src) -> len src <= cp ->
    wp (_ <- finally_drop (env_set sc) (visit_seq debug sc (List.map fst (Exec.elems src))) ;;
        m' <- get_self ;;
        r1 <- map_eq (env_set sc) src m' ;;
        r2 <- map_eq (env_set sc) m' src ;;
        ret (r1, r2))
       (fun (r : bool * bool) (w' : world key unit cstate) =>
          r = (true, true) /\
          WF (self w') /\ len (self w') = len src /\ cap (self w') = cp /\
          Uniq kcls (Spec.elems (self w')) /\ log w' = lg)
       (fun _ : world key unit cstate => False)
       {| cb := s; log := lg; self := new_map cp |}.
Proof. exact serde_roundtrip_set_equal_sym. Qed.
Print Assumptions C20_serde_roundtrip_set_equal_sym.

(* -------------------------------------------------------------------------- *)
(* two steps of the interpreter: OSerde r r' into ANOTHER register, then == in either
   direction: the source register is unchanged, the comparison returns normally (first 1)
   and answers true (second 1) *)
Theorem C20_step_OSerde_then_OEq :
  forall (debug : bool) (sc : script) (r r' : N) (x : xworld),
    honest sc -> WFx x -> Uniq kcls (Spec.elems (get_m r x)) -> len (get_m r x) <= cap (get_m r' x) ->
    ~ same_m r' r ->
    let x1 := snd (step debug sc (OSerde r r') x) in
    get_m r x1 = get_m r x /\
    (exists t : list N, fst (step debug sc (OEq r r') x1) = 1%N :: 1%N :: t) /\
    (exists t : list N, fst (step debug sc (OEq r' r) x1) = 1%N :: 1%N :: t).
Proof. exact step_OSerde_then_OEq. Qed.
Print Assumptions C20_step_OSerde_then_OEq.

Theorem C20_step_SSerde_then_SEq :
  forall (debug : bool) (sc : script) (r r' : N) (x : xworld),
    honest sc -> WFx x -> Uniq kcls (Spec.elems (get_s r x)) -> len (get_s r x) <= cap (get_s r' x) ->
    ~ same_s r' r ->
    let x1 := snd (step debug sc (SSerde r r') x) in
    get_s r x1 = get_s r x /\
    (exists t : list N, fst (step debug sc (SEq r r') x1) = 1%N :: 1%N :: t) /\
    (exists t : list N, fst (step debug sc (SEq r' r) x1) = 1%N :: 1%N :: t).
Proof. exact step_SSerde_then_SEq. Qed.
Print Assumptions C20_step_SSerde_then_SEq.

(* -------------------------------------------------------------------------- *)
(* Non-vacuity: an interpreter state with m3 in map register 0, an empty map of capacity 4 in
   register 1 (holding one stale entry would do as well), the set C20_s2 in set register 2 and
   an empty set of capacity 3 in register 3. *)
Definition C20_x0 : xworld :=
  {| xcb := cs0; xm0 := m3; xm1 := new_map 4; xs0 := C20_s2; xs1 := new_map 3; xdead := false |}.

Example C20_example_WFx : WFx C20_x0.
Proof.
  unfold WFx, C20_x0. cbn [xm0 xm1 xs0 xs1 xdead].
  split; [exact m3_WF|]. split; [apply WF_new|]. split; [exact C20_example_WF_set|].
  split; [apply WF_new | reflexivity].
Qed.

Example C20_example_step_hyps :
  Uniq kcls (Spec.elems (get_m 0 C20_x0)) /\ len (get_m 0 C20_x0) <= cap (get_m 1 C20_x0) /\ ~ same_m 1 0 /\
  Uniq kcls (Spec.elems (get_s 2 C20_x0)) /\ len (get_s 2 C20_x0) <= cap (get_s 3 C20_x0) /\ ~ same_s 3 2.
Proof.
  split; [exact C20_example_Uniq_map|]. split; [vm_compute; lia|]. split; [unfold same_m; discriminate|].
  split; [exact C20_example_Uniq_set|]. split; [vm_compute; lia|]. unfold same_s; discriminate.
Qed.

(* the whole observation of OSerde 0 1: 1, announced 3, emitted 3, then register 1
   (7777 len 3 cap 4, three fresh entries of the same classes and payloads), no event *)
Example C20_example_step_OSerde :
  fst (step false C20_sc0 (OSerde 0 1) C20_x0) =
  [1; 3; 3; 7777; 3; 4; 100000; 5; 100001; 7; 100002; 6; 100003; 8; 100004; 7; 100005; 9; 8888; 8889]%N /\
  get_m 0 (snd (step false C20_sc0 (OSerde 0 1) C20_x0)) = m3.
Proof. split; vm_compute; reflexivity. Qed.

Example C20_example_step_SSerde :
  fst (step false C20_sc0 (SSerde 2 3) C20_x0) =
  [1; 2; 2; 7777; 2; 3; 100000; 5; 100001; 6; 8888; 8889]%N.
Proof. vm_compute. reflexivity. Qed.

Example C20_example_step_then_eq :
  let x1 := snd (step false C20_sc0 (OSerde 0 1) C20_x0) in
  firstn 2 (fst (step false C20_sc0 (OEq 0 1) x1)) = [1; 1]%N /\
  firstn 2 (fst (step false C20_sc0 (OEq 1 0) x1)) = [1; 1]%N.
Proof. split; vm_compute; reflexivity. Qed.
