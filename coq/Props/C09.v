(* ========================================================================
   C09  Borrowing iterators visit every entry exactly once and report exact
        lengths

   STATEMENT (properties.jsonl):
     "iter, iter_mut, keys, values, values_mut and Set::iter each yield every
      stored entry exactly once and nothing else; before every step len() and
      size_hint report exactly the number of items still to come, count()
      agrees, and after the end they keep returning None. Iterating twice
      without an intervening mutation yields the same order, a cloned iterator
      continues identically to its original, and writes made through iter_mut
      or values_mut are exactly what later lookups return."
   QUANTIFIER:
     "every reachable container state x every iterator kind x every step of
      consumption"

   VOCABULARY
     cursor (lo,hi)      the state of a borrowing iterator: slots [lo,hi) are
                         still to come.  ALL six iterator kinds of the crate are
                         this one cursor in the model (Model/MapOps.v `iter`,
                         `iter_next`): next() returns the SLOT i the yielded
                         references point into; the kinds differ only in which
                         projection of slot i (pair, key, value, &mut value) the
                         caller receives.  cursor_len c = snd c - fst c is what
                         len()/size_hint()/count() report.
     iter_run n c        (defined in Proofs/IterSpec.v, not in the model) call
                         next() up to n times from cursor c, stop at the first
                         None; returns (slots yielded, final cursor).
     Spec.elems m        the stored entries of m in slot order.
     No hypothesis on the environment E: these iterators call no user code.
     Panic-postcondition False and wp's exclusion of UB: no panic, no UB.

   READING GUIDE (clause -> theorem)
   * "yield every stored entry exactly once and nothing else", every step of
     consumption:
       C09_iter_run_spec    a session of n steps from iter() yields the slots
                            0,1,...,min n len - 1 (= seq 0 (min n len)): each slot
                            once, in order, nothing else; container and log
                            unchanged.  With n >= len: all of 0..len-1.
       C09_iter_run_exact   the same with the strongest frame: the whole world
                            (container, log, callback state) is unchanged.
       C09_iter_yield_is_elem  slot i < len holds exactly entry i of the content.
   * "before every step len() and size_hint report exactly the number still to
     come": the cursor after j steps is (min j len, len) (snd r in
     C09_iter_run_spec) and
       C09_iter_exact_len   its cursor_len is len - min j len, i.e. the number
                            of slots the session has not yet yielded.
     (C09_iter_exact_len holds by unfolding cursor_len; the content is in
      C09_iter_run_spec's `snd r`.)
     From an arbitrary cursor (lo,hi) (any partly consumed iterator):
       C09_iter_continue_from    n steps yield seq lo (min n (hi-lo)), reach
                            cursor (lo + min n (hi-lo), hi), world unchanged.
       C09_iter_count_remaining  "count() agrees": cursor_len of that cursor is
                            (hi-lo) - min n (hi-lo).
       C09_iter_debug_rest  the entries still to come after n steps from iter()
                            are skipn n of the content.
   * "a cloned iterator continues identically to its original":
       C09_iter_clone_continues_seq  original and clone (the same cursor value),
                            run one after the other, give equal results; the
                            world is unchanged.
   * "after the end they keep returning None":
       C09_iter_fused       next() on the exhausted cursor (len,len) returns None
                            and the same cursor, so every later call does too.
   * "iterating twice without an intervening mutation yields the same order":
       C09_iter_stable_order  two sessions over equal containers yield the same
                            slot sequence.
   * "writes made through iter_mut / values_mut are exactly what later lookups
     return":
       C09_writes_visible   writing v' into the value of slot i replaces exactly
                            entry i of the content by (k, v') (key kept, all other
                            entries untouched) and keeps the container well-formed.
     What lookups return on a given content is C01/C05 (Lawful.get_lawful etc.).

   PARTLY / NOT COVERED BY A THEOREM (left to the correspondence check)
   * The six iterator kinds and Set::iter are ONE cursor in the model; that
     keys/values/values_mut/iter_mut/Set::iter project slot i as the crate
     does is checked by the harness (Exec.iter_session kinds 0-4), not proved.
   * count(): not a separate model function; it is cursor_len of the current
     cursor (same number as len()); its value at every step is now
     C09_iter_count_remaining.  That the crate's count() consumes the iterator
     and returns that number is left to the harness.
   * "a cloned iterator continues identically": NOW a theorem,
     C09_iter_clone_continues_seq.  What remains an assumption of the model:
     Clone for Iter/Keys/Values/SetIter copies the cursor (lo,hi) and nothing else (the
     harness compares Exec.rest_slots of the clone).  IterMut / ValuesMut are
     not Clone in the crate.
   * "every reachable container state" enters as the hypothesis WF (self w)
     (reachable states are WF: ExecSafe.step_safe, C02/C04).
   ======================================================================== *)
Require Import Model.Base Model.Slots Model.MapOps Model.Exec.
Require Import Proofs.Hoare Proofs.Inv Proofs.Spec Proofs.IterSpec Proofs.Legacy Proofs.Gaps.

Theorem C09_iter_run_spec :
  forall (K V T : Type) (n : nat) (w : world K V T),
    WF (self w) ->
    wp (c <- iter ;; iter_run n c)
       (fun (r : list nat * cursor) (w' : world K V T) =>
          self w' = self w /\ log w' = log w /\
          fst r = seq 0 (Nat.min n (len (self w))) /\
          snd r = (Nat.min n (len (self w)), len (self w)))
       (fun _ : world K V T => False) w.
Proof. exact (fun K V T => @iter_run_spec K V T). Qed.
Print Assumptions C09_iter_run_spec.

Theorem C09_iter_run_exact :
  forall (K V T : Type) (n : nat) (w : world K V T),
    WF (self w) ->
    wp (c <- iter ;; iter_run n c)
       (fun (r : list nat * cursor) (w' : world K V T) =>
          w' = w /\
          fst r = seq 0 (Nat.min n (len (self w))) /\
          snd r = (Nat.min n (len (self w)), len (self w)))
       (fun _ : world K V T => False) w.
Proof. exact (fun K V T => @iter_run_exact K V T). Qed.
Print Assumptions C09_iter_run_exact.

Theorem C09_iter_exact_len :
  forall (K V T : Type) (j : nat) (w : world K V T),
    cursor_len (Nat.min j (len (self w)), len (self w)) = len (self w) - Nat.min j (len (self w)).
Proof. exact (fun K V T => @iter_exact_len K V T). Qed.
Print Assumptions C09_iter_exact_len.

Theorem C09_iter_fused :
  forall (K V T : Type) (w : world K V T),
    WF (self w) ->
    wp (iter_next (len (self w), len (self w)))
       (fun (r : option nat * cursor) (w' : world K V T) =>
          self w' = self w /\ fst r = None /\ snd r = (len (self w), len (self w)))
       (fun _ : world K V T => False) w.
Proof. exact (fun K V T => @iter_fused K V T). Qed.
Print Assumptions C09_iter_fused.

Theorem C09_iter_yield_is_elem :
  forall (K V T : Type) (i : nat) (w : world K V T),
    WF (self w) -> i < len (self w) ->
    exists p : K * V,
      nth_error (Spec.elems (self w)) i = Some p /\ nth_error (slots (self w)) i = Some (Some p).
Proof. exact (fun K V T => @iter_yield_is_elem K V T). Qed.
Print Assumptions C09_iter_yield_is_elem.

Theorem C09_iter_stable_order :
  forall (K V T : Type) (n : nat) (w1 w2 : world K V T),
    WF (self w1) -> self w1 = self w2 ->
    wp (c <- iter ;; iter_run n c)
       (fun (r1 : list nat * cursor) (_ : world K V T) =>
          wp (c <- iter ;; iter_run n c)
             (fun (r2 : list nat * cursor) (_ : world K V T) =>
                fst r1 = fst r2 /\ fst r1 = seq 0 (Nat.min n (len (self w1))))
             (fun _ : world K V T => False) w2)
       (fun _ : world K V T => False) w1.
Proof. exact (fun K V T => @iter_stable_order K V T). Qed.
Print Assumptions C09_iter_stable_order.

Theorem C09_writes_visible :
  forall (K V T : Type) (i : nat) (v' : V) (w : world K V T),
    WF (self w) -> i < len (self w) ->
    forall (k : K) (v : V),
      nth_error (Spec.elems (self w)) i = Some (k, v) ->
      Spec.elems (set_slot_m (self w) i (Some (k, v'))) = upd (Spec.elems (self w)) i (k, v') /\
      WF (set_slot_m (self w) i (Some (k, v'))).
Proof. exact (fun K V T => @writes_visible K V T). Qed.
Print Assumptions C09_writes_visible.

(* ---------------------------------------------------------------------- *)
(* sessions from an ARBITRARY cursor (a partly consumed iterator, or its     *)
(* clone), count() of the remainder, what remains (Proofs/Gaps.v)            *)
(* ---------------------------------------------------------------------- *)

(* n steps from cursor (lo,hi): yields slots lo, lo+1, ... (min n (hi-lo) of
   them), ends at cursor (lo + min n (hi-lo), hi); the whole world is unchanged *)
Theorem C09_iter_continue_from :
  forall (K V T : Type) (n lo hi : nat) (w : world K V T),
    WF (self w) -> lo <= hi -> hi <= len (self w) ->
    wp (iter_run n (lo, hi))
       (fun (r : list nat * cursor) (w' : world K V T) =>
          w' = w /\
          fst r = seq lo (Nat.min n (hi - lo)) /\
          snd r = (lo + Nat.min n (hi - lo), hi))
       (fun _ : world K V T => False) w.
Proof. exact (fun K V T => @iter_continue_from K V T). Qed.
Print Assumptions C09_iter_continue_from.

(* count() / len() / size_hint of the cursor reached after n steps from (lo,hi):
   exactly the hi - lo items that were to come minus the min n (hi-lo) yielded *)
Theorem C09_iter_count_remaining :
  forall (lo hi n : nat),
    cursor_len (lo + Nat.min n (hi - lo), hi) = (hi - lo) - Nat.min n (hi - lo).
Proof. exact iter_count_remaining. Qed.
Print Assumptions C09_iter_count_remaining.

(* "a cloned iterator continues identically to its original": an iterator IS its
   cursor value (lo,hi), so its clone is the same value; running the original
   and then the clone, each for n steps from that cursor, gives equal results
   (same slots, same final cursor) and leaves the world unchanged *)
Theorem C09_iter_clone_continues_seq :
  forall (K V T : Type) (n lo hi : nat) (w : world K V T),
    WF (self w) -> lo <= hi -> hi <= len (self w) ->
    wp (r1 <- iter_run n (lo, hi) ;; r2 <- iter_run n (lo, hi) ;; ret (r1, r2))
       (fun (r : (list nat * cursor) * (list nat * cursor)) (w' : world K V T) =>
          w' = w /\
          fst r = snd r /\
          fst (fst r) = seq lo (Nat.min n (hi - lo)))
       (fun _ : world K V T => False) w.
Proof. exact (fun K V T => @iter_clone_continues_seq K V T). Qed.
Print Assumptions C09_iter_clone_continues_seq.

(* what is still to come after n steps from iter(): the entries of the cursor's
   range (range_list m (lo,hi) = the entries in slots [lo,hi), Model/Exec.v;
   it is what Debug for the iterator prints, C19) are exactly the content minus
   its first n entries: "every stored entry exactly once", seen from the rest *)
Theorem C09_iter_debug_rest :
  forall (V T : Type) (n : nat) (w : world key V T),
    WF (self w) ->
    wp (c <- iter ;; iter_run n c)
       (fun (r : list nat * cursor) (w' : world key V T) =>
          self w' = self w /\
          snd r = (Nat.min n (len (self w)), len (self w)) /\
          range_list (self w') (snd r) = skipn (Nat.min n (len (self w))) (Spec.elems (self w)) /\
          range_list (self w') (snd r) = skipn n (Spec.elems (self w)))
       (fun _ : world key V T => False) w.
Proof. exact (fun V T => @iter_debug_rest V T). Qed.
Print Assumptions C09_iter_debug_rest.

(* ---------------------------------------------------------------------- *)
(* non-vacuity                                                              *)
(* ---------------------------------------------------------------------- *)

(* the 3-entry map m3 of Proofs/Legacy.v is well-formed *)
Example C09_example_WF : WF (self (w_of m3)) /\ len (self (w_of m3)) = 3.
Proof. split; [exact m3_WF | reflexivity]. Qed.

(* concrete sessions on m3: 2 steps yield slots 0,1 and leave cursor (2,3)
   (len() = 1); 5 steps yield 0,1,2 and stop at (3,3); a further next() is
   None; the world is unchanged *)
Example C09_example_runs :
  (c <- iter ;; iter_run 2 c) (w_of m3) = Ok ([0; 1], (2, 3)) (w_of m3) /\
  cursor_len (2, 3) = 1 /\
  (c <- iter ;; iter_run 5 c) (w_of m3) = Ok ([0; 1; 2], (3, 3)) (w_of m3) /\
  iter_next (3, 3) (w_of m3) = Ok (None, (3, 3)) (w_of m3).
Proof. vm_compute. repeat split; reflexivity. Qed.

(* a write through slot 1 is what the content shows afterwards *)
Example C09_example_write :
  Spec.elems (set_slot_m m3 1 (Some (k_ 3 6, v_ 40 80)))
  = [(k_ 1 5, v_ 2 7); (k_ 3 6, v_ 40 80); (k_ 5 7, v_ 6 9)].
Proof. reflexivity. Qed.

(* a partly consumed iterator over m3 at cursor (1,3) and its clone: both yield
   slots 1,2 and end at (3,3); count() of (1,3) is 2, after one more step 1 *)
Example C09_example_clone :
  (r1 <- iter_run 5 (1, 3) ;; r2 <- iter_run 5 (1, 3) ;; ret (r1, r2)) (w_of m3)
    = Ok (([1; 2], (3, 3)), ([1; 2], (3, 3))) (w_of m3) /\
  cursor_len (1, 3) = 2 /\ cursor_len (1 + Nat.min 1 (3 - 1), 3) = 1.
Proof. vm_compute. repeat split; reflexivity. Qed.

(* after one step the range still to come is the content minus its first entry *)
Example C09_example_rest :
  range_list m3 (1, 3) = [(k_ 3 6, v_ 4 8); (k_ 5 7, v_ 6 9)] /\
  skipn 1 (Spec.elems m3) = [(k_ 3 6, v_ 4 8); (k_ 5 7, v_ 6 9)].
Proof. split; vm_compute; reflexivity. Qed.
