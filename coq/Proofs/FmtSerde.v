(* FmtSerde.v — formatting (C19) and the serde round trip (C20).
   A: the interpreter's view of the live prefix (Exec.elems / range_list, used
      for rendering) is the specification's view (Spec.elems).
   B: Display / Debug against the join specification; formatting is pure.
   C: the honest script (no adversarial answers, no injected fault) is a lawful
      environment.
   D: deserialising the serialisation of a container yields an equal one. *)
Require Import Model.Base Model.Slots Model.MapOps Model.EntryOps Model.SetOps Model.Fmt Model.Exec.
Require Import Proofs.Hoare Proofs.Inv Proofs.Safety Proofs.Safety2 Proofs.Spec Proofs.Lawful Proofs.Lawful2 Proofs.Lawful3 Proofs.EqClone.
From Coq Require Import Permutation.

(* ======================================================================== *)
(* PART A                                                                    *)

Lemma take_live_nil {K V} n : take_live (@nil (option (K * V))) n = [].
Proof. destruct n; reflexivity. Qed.

Lemma live_list_take_live {V} (sl : list (option (key * V))) n i :
  live_list sl n i = take_live (skipn i sl) n.
Proof.
  revert i; induction n as [|n IH]; intros i; [reflexivity|].
  cbn [live_list]. rewrite IH.
  destruct (nth_error sl i) as [[p|]|] eqn:Hn.
  - rewrite (skipn_nth_cons _ _ _ Hn). reflexivity.
  - rewrite (skipn_nth_cons _ _ _ Hn). reflexivity.
  - apply nth_error_None in Hn.
    rewrite (skipn_all_ge sl i Hn), (skipn_all_ge sl (S i)) by lia.
    rewrite take_live_nil. reflexivity.
Qed.

Lemma exec_elems_eq {V} (m : map key V) : Exec.elems m = Spec.elems m.
Proof. unfold Exec.elems, Spec.elems. rewrite live_list_take_live. reflexivity. Qed.

Lemma take_live_firstn {K V} (sl : list (option (K * V))) n k :
  k <= n -> n <= length sl -> (forall i, i < n -> exists p, nth_error sl i = Some (Some p)) ->
  take_live sl k = firstn k (take_live sl n).
Proof.
  revert sl n; induction k as [|k IH]; intros sl n Hk Hl Hs; [reflexivity|].
  destruct n as [|n]; [lia|]. destruct sl as [|o t]; [cbn [length] in Hl; lia|].
  destruct (Hs 0 ltac:(lia)) as [p Hp]. cbn [nth_error] in Hp. injection Hp as ->.
  cbn [take_live firstn]. f_equal. apply IH; [lia | cbn [length] in Hl; lia |].
  intros i Hi. apply (Hs (S i)). lia.
Qed.

Lemma take_live_skipn_range {K V} (sl : list (option (K * V))) n lo k :
  lo + k <= n -> n <= length sl -> (forall i, i < n -> exists p, nth_error sl i = Some (Some p)) ->
  take_live (skipn lo sl) k = firstn k (skipn lo (take_live sl n)).
Proof.
  revert sl n; induction lo as [|lo IH]; intros sl n Hk Hl Hs.
  - cbn [skipn]. apply take_live_firstn; [lia | exact Hl | exact Hs].
  - destruct n as [|n]; [lia|]. destruct sl as [|o t]; [cbn [length] in Hl; lia|].
    destruct (Hs 0 ltac:(lia)) as [p Hp]. cbn [nth_error] in Hp. injection Hp as ->.
    cbn [take_live skipn]. apply IH; [lia | cbn [length] in Hl; lia |].
    intros i Hi. apply (Hs (S i)). lia.
Qed.

Lemma range_list_spec {V} (m : map key V) lo hi :
  WF m -> lo <= hi -> hi <= len m ->
  range_list m (lo, hi) = firstn (hi - lo) (skipn lo (Spec.elems m)).
Proof.
  intros [Hl Hs] H1 H2. unfold range_list, cursor_len. cbn [fst snd].
  rewrite live_list_take_live. unfold Spec.elems.
  apply take_live_skipn_range; [lia | exact Hl | exact Hs].
Qed.

(* a borrowing iterator that has yielded j entries still lists exactly the others *)
Lemma range_list_rest {V} (m : map key V) j :
  WF m -> j <= len m -> range_list m (j, len m) = skipn j (Spec.elems m).
Proof.
  intros Hw Hj. rewrite range_list_spec by (auto; lia).
  apply firstn_all2. rewrite skipn_length, (elems_length m Hw). lia.
Qed.

Lemma range_list_all {V} (m : map key V) : WF m -> range_list m (0, len m) = Spec.elems m.
Proof. intros Hw. rewrite range_list_rest by (auto; lia). reflexivity. Qed.

(* ======================================================================== *)
(* PART B                                                                    *)

Lemma join_cons_concat (sep x : str) (l : list str) :
  join sep (x :: l) = x ++ concat (List.map (fun y => sep ++ y) l).
Proof.
  revert x; induction l as [|y l IH]; intros x.
  - cbn [join List.map concat]. rewrite app_nil_r. reflexivity.
  - change (join sep (x :: y :: l)) with (x ++ sep ++ join sep (y :: l)).
    rewrite IH. cbn [List.map concat]. rewrite <- app_assoc. reflexivity.
Qed.

Lemma display_map_spec {K V} (dk : K -> str) (dv : V -> str) l :
  display_map dk dv l =
  [ch_lbrace] ++ join s_comma_sp (List.map (fun p => dk (fst p) ++ s_colon_sp ++ dv (snd p)) l) ++ [ch_rbrace].
Proof.
  unfold display_map. destruct l as [|[k v] rest]; [reflexivity|].
  cbv beta iota. cbn [List.map]. rewrite join_cons_concat, map_map. cbn [fst snd]. reflexivity.
Qed.

Lemma display_set_loop_false {K} (dk : K -> str) l :
  display_set_loop dk false l = concat (List.map (fun k => s_comma_sp ++ dk k) l).
Proof.
  induction l as [|k l IH]; [reflexivity|].
  cbn [display_set_loop List.map concat]. rewrite IH, <- app_assoc. reflexivity.
Qed.

Lemma display_set_spec {K} (dk : K -> str) l :
  display_set dk l = [ch_lbrace] ++ join s_comma_sp (List.map dk l) ++ [ch_rbrace].
Proof.
  unfold display_set. destruct l as [|k rest]; [reflexivity|].
  cbn [display_set_loop List.map]. rewrite display_set_loop_false, join_cons_concat, map_map. reflexivity.
Qed.

Lemma debug_map_plain {K V} (dk : K -> str) (dv : V -> str) l :
  debug_map dk dv false l =
  [ch_lbrace] ++ join s_comma_sp (List.map (fun p => dk (fst p) ++ s_colon_sp ++ dv (snd p)) l) ++ [ch_rbrace].
Proof.
  unfold debug_map, dbg_map. destruct l as [|p l]; [reflexivity|].
  cbn [List.map]. rewrite map_map. reflexivity.
Qed.

Lemma debug_set_plain {K} (dk : K -> str) l :
  debug_set dk false l = [ch_lbrace] ++ join s_comma_sp (List.map dk l) ++ [ch_rbrace].
Proof. unfold debug_set, dbg_set, dbg_seq. destruct l as [|k l]; reflexivity. Qed.

Lemma debug_keys_plain {K} (dk : K -> str) l :
  debug_keys dk false l = [ch_lbrack] ++ join s_comma_sp (List.map dk l) ++ [ch_rbrack].
Proof. unfold debug_keys, dbg_list, dbg_seq. destruct l as [|k l]; reflexivity. Qed.

Lemma debug_values_plain {V} (dv : V -> str) l :
  debug_values dv false l = [ch_lbrack] ++ join s_comma_sp (List.map dv l) ++ [ch_rbrack].
Proof. unfold debug_values, dbg_list, dbg_seq. destruct l as [|k l]; reflexivity. Qed.

(* Debug of the iterators: a list of 2-tuples "(k, v)" *)
Lemma debug_pairs_plain {K V} (dk : K -> str) (dv : V -> str) l :
  debug_pairs dk dv false l =
  [ch_lbrack] ++
  join s_comma_sp (List.map (fun p => [ch_lpar] ++ (dk (fst p) ++ s_comma_sp ++ dv (snd p)) ++ [ch_rpar]) l) ++
  [ch_rbrack].
Proof. unfold debug_pairs, dbg_list, dbg_seq. destruct l as [|p l]; reflexivity. Qed.

(* formatting returns the rendering of exactly the current entries, in
   iteration order, and leaves the world literally unchanged *)
Lemma format_m_pure style w : WF (self w) ->
  format_m style w =
  Ok (r_str (if N.eqb style 0 then display_map dsp_key dsp_val (Spec.elems (self w))
             else debug_map dbg_key dbg_val (N.eqb style 2) (Spec.elems (self w)))) w.
Proof.
  intros [Hl _].
  assert (H : len (self w) <=? cap (self w) = true) by (apply Nat.leb_le; exact Hl).
  unfold format_m, bind, iter, p_prefix, get_len, get_cap, bind. rewrite H.
  unfold ret. rewrite exec_elems_eq. reflexivity.
Qed.

Lemma format_s_pure style w : WF (self w) ->
  format_s style w =
  Ok (r_str (if N.eqb style 0 then display_set dsp_key (List.map fst (Spec.elems (self w)))
             else debug_set dbg_key (N.eqb style 2) (List.map fst (Spec.elems (self w))))) w.
Proof.
  intros [Hl _].
  assert (H : len (self w) <=? cap (self w) = true) by (apply Nat.leb_le; exact Hl).
  unfold format_s, bind, iter, p_prefix, get_len, get_cap, bind. rewrite H.
  unfold ret. rewrite exec_elems_eq. reflexivity.
Qed.

(* the same in wp form: normal return only, world unchanged *)
Lemma format_m_wp style w : WF (self w) ->
  wp (format_m style)
     (fun r w' => w' = w /\
        r = r_str (if N.eqb style 0 then display_map dsp_key dsp_val (Spec.elems (self w))
                   else debug_map dbg_key dbg_val (N.eqb style 2) (Spec.elems (self w))))
     (fun _ => False) w.
Proof. intros Hw. unfold wp. rewrite (format_m_pure style w Hw). split; reflexivity. Qed.

Lemma format_s_wp style w : WF (self w) ->
  wp (format_s style)
     (fun r w' => w' = w /\
        r = r_str (if N.eqb style 0 then display_set dsp_key (List.map fst (Spec.elems (self w)))
                   else debug_set dbg_key (N.eqb style 2) (List.map fst (Spec.elems (self w)))))
     (fun _ => False) w.
Proof. intros Hw. unfold wp. rewrite (format_s_pure style w Hw). split; reflexivity. Qed.

(* ---- PadAdapter facts ({:#?}) ---- *)
(* is the adapter at the start of a line after having written s? *)
Fixpoint end_flag (b : bool) (s : str) : bool :=
  match s with
  | [] => b
  | c :: s' => end_flag (N.eqb c ch_nl) s'
  end.

Lemma pad_from_app b s t : pad_from b (s ++ t) = pad_from b s ++ pad_from (end_flag b s) t.
Proof.
  revert b; induction s as [|c s IH]; intros b; [reflexivity|].
  cbn [app pad_from end_flag]. rewrite IH, <- app_assoc. reflexivity.
Qed.

Lemma end_flag_app b s t : end_flag b (s ++ t) = end_flag (end_flag b s) t.
Proof. revert b; induction s as [|c s IH]; intros b; [reflexivity|]. cbn [app end_flag]. apply IH. Qed.

Lemma end_flag_nl b s : end_flag b (s ++ [ch_nl]) = true.
Proof. rewrite end_flag_app. reflexivity. Qed.

(* the given form [pad_from b (s ++ [ch_nl] ++ t) = pad_from b s ++ [ch_nl] ++ pad_from true t]
   is false when the newline is written at the start of a line (an empty line
   is indented too: pad_from true [ch_nl] = s_indent ++ [ch_nl]); exact form: *)
Lemma pad_app_nl b s t :
  pad_from b (s ++ [ch_nl] ++ t) =
  pad_from b s ++ (if end_flag b s then s_indent else []) ++ [ch_nl] ++ pad_from true t.
Proof.
  rewrite pad_from_app. apply f_equal.
  change ([ch_nl] ++ t) with (ch_nl :: t). cbn [pad_from].
  change (N.eqb ch_nl ch_nl) with true. reflexivity.
Qed.

Lemma pad_app_nl_mid b s t : end_flag b s = false ->
  pad_from b (s ++ [ch_nl] ++ t) = pad_from b s ++ [ch_nl] ++ pad_from true t.
Proof. intros H. rewrite pad_app_nl, H. reflexivity. Qed.

Lemma pad_app_nl_counterexample :
  pad_from true ([] ++ [ch_nl] ++ []) <> pad_from true [] ++ [ch_nl] ++ pad_from true [].
Proof. cbv. discriminate. Qed.

(* ======================================================================== *)
(* PART C                                                                    *)

Definition honest (sc : script) : Prop := sc_adv sc = false /\ sc_fk sc = 0%N.

Lemma eq_answer_honest sc s t : honest sc -> fst (eq_answer sc s t) = if t then Yes else No.
Proof.
  intros [Ha Hf]. unfold eq_answer. rewrite Ha, Hf. cbn [N.eqb andb fst]. reflexivity.
Qed.

Lemma cls_truth_honest sc a b : honest sc -> cls_truth sc a b = N.eqb a b.
Proof. intros [Ha _]. unfold cls_truth, asym. rewrite Ha. reflexivity. Qed.

Lemma drop_boom_honest sc id : honest sc -> drop_boom sc id = false.
Proof. intros [_ Hf]. unfold drop_boom. rewrite Hf. reflexivity. Qed.

Lemma clone_tick_honest sc s : honest sc ->
  clone_tick sc s =
  (Some (next_id s),
   {| n_eq := n_eq s; n_clone := n_clone s + 1; n_call := n_call s; next_id := next_id s + 1 |}).
Proof. intros [_ Hf]. unfold clone_tick. rewrite Hf. reflexivity. Qed.

Lemma env_map_lawful sc : honest sc -> Lawful (env_map sc) kcls qcls.
Proof.
  intros Hh. constructor; intros; cbn [env_map eqK eqKQ eqQQ eqQK dropK dropV fst];
    rewrite ?(cls_truth_honest sc _ _ Hh);
    first [apply eq_answer_honest; exact Hh | apply drop_boom_honest; exact Hh].
Qed.

Lemma env_set_lawful sc : honest sc -> Lawful (env_set sc) kcls qcls.
Proof.
  intros Hh. constructor; intros; cbn [env_set eqK eqKQ eqQQ eqQK dropK dropV fst];
    rewrite ?(cls_truth_honest sc _ _ Hh);
    first [apply eq_answer_honest; exact Hh | apply drop_boom_honest; exact Hh | reflexivity].
Qed.

Lemma env_map_eqV sc : honest sc ->
  forall s a b, fst (eqV (env_map sc) s a b) = if N.eqb (vdat a) (vdat b) then Yes else No.
Proof. intros Hh s a b. cbn [env_map eqV]. apply eq_answer_honest; exact Hh. Qed.

Lemma env_set_eqV sc :
  forall s a b, fst (eqV (env_set sc) s a b) = if (fun _ _ : unit => true) a b then Yes else No.
Proof. intros s a b. reflexivity. Qed.

(* Clone: a fresh object of the same class / with the same payload, never panics *)
Lemma env_map_cloneK sc : honest sc ->
  forall s k, exists k' s', cloneK (env_map sc) s k = (Some k', s') /\ kcls k' = kcls k.
Proof.
  intros Hh s k. cbn [env_map cloneK]. unfold clone_key_cb. rewrite (clone_tick_honest sc s Hh).
  cbn [option_map]. eexists. eexists. split; reflexivity.
Qed.

Lemma env_map_cloneV sc : honest sc ->
  forall s v, exists v' s', cloneV (env_map sc) s v = (Some v', s') /\
                            (fun a b => N.eqb (vdat a) (vdat b)) v' v = true.
Proof.
  intros Hh s v. cbn [env_map cloneV]. rewrite (clone_tick_honest sc s Hh).
  cbn [option_map]. eexists. eexists. split; [reflexivity|]. cbn [vdat]. apply N.eqb_refl.
Qed.

Lemma env_set_cloneK sc : honest sc ->
  forall s k, exists k' s', cloneK (env_set sc) s k = (Some k', s') /\ kcls k' = kcls k.
Proof.
  intros Hh s k. cbn [env_set cloneK]. unfold clone_key_cb. rewrite (clone_tick_honest sc s Hh).
  cbn [option_map]. eexists. eexists. split; reflexivity.
Qed.

Lemma env_set_cloneV sc :
  forall s v, exists v' s', cloneV (env_set sc) s v = (Some v', s') /\
                            (fun _ _ : unit => true) v' v = true.
Proof. intros s v. exists tt, s. split; reflexivity. Qed.

(* instances: Clone of a register builds an equal copy under the honest script *)
Lemma clone_honest_map sc src w : honest sc ->
  WF src -> WF (self w) -> len (self w) = 0 -> cap (self w) = cap src ->
  wp (clone_from_src (env_map sc) src)
     (fun _ w' => WF (self w') /\ cap (self w') = cap src /\ len (self w') = len src /\
        Forall2 (fun p p' => kcls (fst p') = kcls (fst p) /\ N.eqb (vdat (snd p')) (vdat (snd p)) = true)
                (Spec.elems src) (Spec.elems (self w')))
     (fun _ => False) w.
Proof.
  intros Hh Hsrc Hw Hl Hc.
  eapply wp_mono;
    [apply (clone_lawful (env_map sc) kcls (fun a b => N.eqb (vdat a) (vdat b))
              (env_map_cloneK sc Hh) (env_map_cloneV sc Hh) src w Hsrc Hw Hl Hc) | | auto]; cbn beta.
  intros _ w' (H1 & H2 & H3 & H4 & _). auto.
Qed.

(* ======================================================================== *)
(* PART D                                                                    *)

(* the announced length is the number of entries emitted *)
Lemma ser_len {V} (m : map key V) : WF m -> length (Spec.elems m) = len m.
Proof. apply elems_length. Qed.

Lemma wp_get_next_id {V} (Qn : N -> world key V cstate -> Prop) (Qp : world key V cstate -> Prop) w :
  Qn (next_id (cb w)) w -> wp (@get_next_id V) Qn Qp w.
Proof. exact (fun H => H). Qed.

Lemma wp_bump_id {V} n (Qn : unit -> world key V cstate -> Prop) (Qp : world key V cstate -> Prop) w :
  Qn tt (with_cb w {| n_eq := n_eq (cb w); n_clone := n_clone (cb w);
                      n_call := n_call (cb w); next_id := n |}) ->
  wp (@bump_id V n) Qn Qp w.
Proof. exact (fun H => H). Qed.

Lemma find_idx_None_iff {K V} (ck : K -> N) c (l : list (K * V)) :
  find_idx ck c l = None <-> ~ In c (List.map (fun p => ck (fst p)) l).
Proof.
  induction l as [|p t IH]; cbn [find_idx List.map In]; [tauto|].
  destruct (N.eqb_spec (ck (fst p)) c) as [Heq|Hne].
  - split; [discriminate | intros H; exfalso; apply H; left; exact Heq].
  - destruct (find_idx ck c t) as [i|]; cbn [option_map].
    + split; [discriminate|]. intros H.
      assert (Hx : Some i = None) by (apply IH; tauto). discriminate.
    + split; [|reflexivity]. intros _ [H|H]; [contradiction|].
      exact (proj1 IH eq_refl H).
Qed.

Lemma NoDup_snoc {A} (l : list A) a : NoDup l -> ~ In a l -> NoDup (l ++ [a]).
Proof.
  intros Hn Ha. apply (Permutation_NoDup (Permutation_cons_append l a)). constructor; assumption.
Qed.

Lemma Uniq_snoc {K V} (ck : K -> N) (l : list (K * V)) p :
  Uniq ck l -> find_idx ck (ck (fst p)) l = None -> Uniq ck (l ++ [p]).
Proof.
  intros Hu Hf. unfold Uniq. rewrite map_app. cbn [List.map].
  apply NoDup_snoc; [exact Hu | apply find_idx_None_iff; exact Hf].
Qed.

Lemma find_idx_snoc_None {K V} (ck : K -> N) c (l : list (K * V)) p :
  find_idx ck c l = None -> ck (fst p) <> c -> find_idx ck c (l ++ [p]) = None.
Proof.
  intros Hf Hne. apply find_idx_None_iff. rewrite map_app, in_app_iff. cbn [List.map In].
  apply find_idx_None_iff in Hf. tauto.
Qed.

Lemma elems_new {K V} n : Spec.elems (@new_map K V n) = [].
Proof. reflexivity. Qed.

Lemma visit_map_cons debug sc k v rest :
  visit_map debug sc ((k, v) :: rest) =
  (id <- get_next_id ;; bump_id (id + 2) ;;
   old <- insert (env_map sc) debug {| kid := id; kcls := kcls k |} {| vid := id + 1; vdat := vdat v |} ;;
   drop_opt_val (env_map sc) old ;;
   visit_map debug sc rest).
Proof. reflexivity. Qed.

Lemma visit_seq_cons debug sc k rest :
  visit_seq debug sc (k :: rest) =
  (id <- get_next_id ;; bump_id (id + 1) ;;
   _ <- s_insert (env_set sc) debug {| kid := id; kcls := kcls k |} ;;
   visit_seq debug sc rest).
Proof. reflexivity. Qed.

(* D2: the visitor appends one fresh entry per item, in order; nothing is
   destroyed (log unchanged), the visitor never unwinds *)
Lemma visit_map_spec debug sc items w :
  honest sc -> WF (self w) -> Uniq kcls (Spec.elems (self w)) ->
  NoDup (List.map (fun p => kcls (fst p)) items) ->
  (forall p, In p items -> find_idx kcls (kcls (fst p)) (Spec.elems (self w)) = None) ->
  len (self w) + length items <= cap (self w) ->
  wp (visit_map debug sc items)
     (fun _ w' => WF (self w') /\ cap (self w') = cap (self w) /\
                  (exists fresh, Spec.elems (self w') = Spec.elems (self w) ++ fresh /\
                     Forall2 (fun p p' => kcls (fst p') = kcls (fst p) /\ vdat (snd p') = vdat (snd p)) items fresh) /\
                  log w' = log w)
     (fun _ => False) w.
Proof.
  intros Hh. pose proof (env_map_lawful sc Hh) as HL.
  revert w; induction items as [|[k v] rest IH]; intros w Hw Hu Hnd Habs Hcap.
  - cbn [visit_map]. apply wp_ret. split; [exact Hw|]. split; [reflexivity|]. split; [|reflexivity].
    exists []. rewrite app_nil_r. split; [reflexivity | constructor].
  - rewrite visit_map_cons. apply wp_bind. apply wp_get_next_id. apply wp_bind. apply wp_bump_id.
    set (w1 := with_cb w _).
    set (k' := {| kid := next_id (cb w); kcls := kcls k |}).
    set (v' := {| vid := next_id (cb w) + 1; vdat := vdat v |}).
    assert (Hf : find_idx kcls (kcls k') (Spec.elems (self w1)) = None)
      by exact (Habs (k, v) (or_introl eq_refl)).
    cbn [List.map fst] in Hnd. apply NoDup_cons_iff in Hnd. destruct Hnd as [Hnk Hnd].
    cbn [length] in Hcap.
    apply wp_bind.
    eapply wp_mono; [apply (insert_lawful (env_map sc) debug kcls qcls HL k' v' w1 Hw) | |]; cbn beta.
    + intros r w2 (Hw2 & Hc2 & He2 & Hr & Hlg).
      unfold l_insert in He2, Hr, Hlg. rewrite Hf in He2, Hr, Hlg. cbn [fst snd option_map] in He2, Hr, Hlg.
      subst r. cbn [drop_opt_val]. apply wp_bind. apply wp_ret.
      assert (Hs1 : self w1 = self w) by reflexivity. rewrite Hs1 in *.
      assert (Hl2 : len (self w2) = S (len (self w))).
      { rewrite <- (elems_length _ Hw2), He2, app_length, (elems_length _ Hw). cbn [length]. lia. }
      eapply wp_mono; [apply (IH w2 Hw2) | | intros ? []]; cbn beta.
      * rewrite He2. apply Uniq_snoc; [exact Hu | exact Hf].
      * exact Hnd.
      * intros p Hp. rewrite He2. apply find_idx_snoc_None; [apply Habs; right; exact Hp|].
        cbn [fst]. change (kcls k') with (kcls k). intros Heq. apply Hnk. rewrite Heq.
        apply (in_map (fun p => kcls (fst p))). exact Hp.
      * rewrite Hl2, Hc2. lia.
      * intros _ w3 (Hw3 & Hc3 & (fresh & He3 & Hf3) & Hl3).
        split; [exact Hw3|]. split; [congruence|]. split.
        -- exists ((k', v') :: fresh). split.
           ++ rewrite He3, He2, <- app_assoc. reflexivity.
           ++ constructor; [split; reflexivity | exact Hf3].
        -- rewrite Hl3. unfold logged in Hlg. rewrite Hlg, app_nil_r. reflexivity.
    + intros w2 (_ & _ & _ & Hfull). assert (Hs1 : self w1 = self w) by reflexivity.
      rewrite Hs1 in Hfull. lia.
Qed.

Lemma Forall2_impl' {A B} (R1 R2 : A -> B -> Prop) l l' :
  (forall a b, R1 a b -> R2 a b) -> Forall2 R1 l l' -> Forall2 R2 l l'.
Proof. intros H. induction 1; constructor; auto. Qed.

(* D3 *)
Lemma serde_roundtrip_map debug sc (src : map key vobj) cp s lg :
  honest sc -> WF src -> Uniq kcls (Spec.elems src) -> len src <= cp ->
  wp (finally_drop (env_map sc) (visit_map debug sc (Spec.elems src)))
     (fun _ w' => WF (self w') /\ len (self w') = len src /\ Uniq kcls (Spec.elems (self w')) /\
                  (length (Spec.elems src) =? length (Spec.elems (self w'))) &&
                  forallb (entry_ok_in kcls (fun a b => N.eqb (vdat a) (vdat b)) (Spec.elems (self w')))
                          (Spec.elems src) = true)
     (fun _ => False)
     {| cb := s; log := lg; self := new_map cp |}.
Proof.
  intros Hh Hsrc Hu Hle. apply wp_finally_drop_nopanic.
  eapply wp_mono; [apply (visit_map_spec debug sc (Spec.elems src) _ Hh) | | intros ? []]; cbn [self].
  - apply WF_new.
  - rewrite elems_new. constructor.
  - exact Hu.
  - intros p _. rewrite elems_new. reflexivity.
  - cbn [len new_map]. rewrite cap_new, (elems_length _ Hsrc). lia.
  - cbn beta. intros _ w' (Hw' & Hc' & (fresh & He & Hf) & _).
    rewrite elems_new in He. cbn [app] in He.
    assert (Hf' : Forall2 (fun p p' => kcls (fst p') = kcls (fst p) /\
                                       (fun a b => N.eqb (vdat a) (vdat b)) (snd p') (snd p) = true)
                          (Spec.elems src) (Spec.elems (self w'))).
    { rewrite He. eapply Forall2_impl'; [|exact Hf]. cbn beta.
      intros a b [H1 H2]. split; [exact H1 | apply N.eqb_eq; exact H2]. }
    destruct (clone_equal kcls (fun a b => N.eqb (vdat a) (vdat b)) _ _ Hu Hf') as [Hu' Hb].
    split; [exact Hw'|]. split; [|split; [exact Hu' | exact Hb]].
    rewrite <- (elems_length _ Hw'), <- (Forall2_length_eq _ _ _ Hf'). apply elems_length; exact Hsrc.
Qed.

(* the decoded map compares equal to the original with the crate's own == *)
Lemma serde_roundtrip_map_eq sc (src dst : map key vobj) w :
  honest sc -> WF src -> WF dst -> len dst = len src ->
  (length (Spec.elems src) =? length (Spec.elems dst)) &&
  forallb (entry_ok_in kcls (fun a b => N.eqb (vdat a) (vdat b)) (Spec.elems dst)) (Spec.elems src) = true ->
  wp (map_eq (env_map sc) src dst) (fun r w' => stable w w' /\ r = true) (fun _ => False) w.
Proof.
  intros Hh Hsrc Hdst Hlen Hb.
  eapply wp_mono;
    [apply (map_eq_lawful (env_map sc) kcls qcls (env_map_lawful sc Hh)
              (fun a b => N.eqb (vdat a) (vdat b)) (env_map_eqV sc Hh) src dst w Hsrc Hdst) | | auto]; cbn beta.
  intros r w' [Hst ->]. split; [exact Hst|].
  apply andb_true_iff in Hb. destruct Hb as [_ Hb]. rewrite Hb, Hlen, Nat.eqb_refl. reflexivity.
Qed.

(* D4: sets *)
Lemma visit_seq_spec debug sc items w :
  honest sc -> WF (self w) -> Uniq kcls (Spec.elems (self w)) ->
  NoDup (List.map kcls items) ->
  (forall k, In k items -> find_idx kcls (kcls k) (Spec.elems (self w)) = None) ->
  len (self w) + length items <= cap (self w) ->
  wp (visit_seq debug sc items)
     (fun _ w' => WF (self w') /\ cap (self w') = cap (self w) /\
                  (exists fresh, Spec.elems (self w') = Spec.elems (self w) ++ fresh /\
                     Forall2 (fun k p' => kcls (fst p') = kcls k) items fresh) /\
                  log w' = log w)
     (fun _ => False) w.
Proof.
  intros Hh. pose proof (env_set_lawful sc Hh) as HL.
  revert w; induction items as [|k rest IH]; intros w Hw Hu Hnd Habs Hcap.
  - cbn [visit_seq]. apply wp_ret. split; [exact Hw|]. split; [reflexivity|]. split; [|reflexivity].
    exists []. rewrite app_nil_r. split; [reflexivity | constructor].
  - rewrite visit_seq_cons. apply wp_bind. apply wp_get_next_id. apply wp_bind. apply wp_bump_id.
    set (w1 := with_cb w _).
    set (k' := {| kid := next_id (cb w); kcls := kcls k |}).
    assert (Hf : find_idx kcls (kcls k') (Spec.elems (self w1)) = None)
      by exact (Habs k (or_introl eq_refl)).
    cbn [List.map] in Hnd. apply NoDup_cons_iff in Hnd. destruct Hnd as [Hnk Hnd].
    cbn [length] in Hcap.
    apply wp_bind. unfold s_insert. apply wp_bind.
    eapply wp_mono; [apply (insert_lawful (env_set sc) debug kcls qcls HL k' tt w1 Hw) | |]; cbn beta.
    + intros r w2 (Hw2 & Hc2 & He2 & Hr & Hlg).
      unfold l_insert in He2, Hr, Hlg. rewrite Hf in He2, Hr, Hlg. cbn [fst snd option_map] in He2, Hr, Hlg.
      subst r. apply wp_ret.
      assert (Hs1 : self w1 = self w) by reflexivity. rewrite Hs1 in *.
      assert (Hl2 : len (self w2) = S (len (self w))).
      { rewrite <- (elems_length _ Hw2), He2, app_length, (elems_length _ Hw). cbn [length]. lia. }
      eapply wp_mono; [apply (IH w2 Hw2) | | intros ? []]; cbn beta.
      * rewrite He2. apply Uniq_snoc; [exact Hu | exact Hf].
      * exact Hnd.
      * intros p Hp. rewrite He2. apply find_idx_snoc_None; [apply Habs; right; exact Hp|].
        cbn [fst]. change (kcls k') with (kcls k). intros Heq. apply Hnk. rewrite Heq.
        apply in_map. exact Hp.
      * rewrite Hl2, Hc2. lia.
      * intros _ w3 (Hw3 & Hc3 & (fresh & He3 & Hf3) & Hl3).
        split; [exact Hw3|]. split; [congruence|]. split.
        -- exists ((k', tt) :: fresh). split.
           ++ rewrite He3, He2, <- app_assoc. reflexivity.
           ++ constructor; [reflexivity | exact Hf3].
        -- rewrite Hl3. unfold logged in Hlg. rewrite Hlg, app_nil_r. reflexivity.
    + intros w2 (_ & _ & _ & Hfull). assert (Hs1 : self w1 = self w) by reflexivity.
      rewrite Hs1 in Hfull. lia.
Qed.

Lemma Forall2_map_l {A B C} (f : A -> B) (R : B -> C -> Prop) l l' :
  Forall2 R (List.map f l) l' -> Forall2 (fun a c => R (f a) c) l l'.
Proof.
  revert l'; induction l as [|a l IH]; intros l' H; cbn [List.map] in H; inversion H; subst; constructor; auto.
Qed.

Lemma serde_roundtrip_set debug sc (src : map key unit) cp s lg :
  honest sc -> WF src -> Uniq kcls (Spec.elems src) -> len src <= cp ->
  wp (finally_drop (env_set sc) (visit_seq debug sc (List.map fst (Spec.elems src))))
     (fun _ w' => WF (self w') /\ len (self w') = len src /\ Uniq kcls (Spec.elems (self w')) /\
                  (length (Spec.elems src) =? length (Spec.elems (self w'))) &&
                  forallb (entry_ok_in kcls (fun _ _ : unit => true) (Spec.elems (self w')))
                          (Spec.elems src) = true)
     (fun _ => False)
     {| cb := s; log := lg; self := new_map cp |}.
Proof.
  intros Hh Hsrc Hu Hle. apply wp_finally_drop_nopanic.
  eapply wp_mono; [apply (visit_seq_spec debug sc (List.map fst (Spec.elems src)) _ Hh) | | intros ? []]; cbn [self].
  - apply WF_new.
  - rewrite elems_new. constructor.
  - rewrite map_map. exact Hu.
  - intros p _. rewrite elems_new. reflexivity.
  - cbn [len new_map]. rewrite cap_new, map_length, (elems_length _ Hsrc). lia.
  - cbn beta. intros _ w' (Hw' & Hc' & (fresh & He & Hf) & _).
    rewrite elems_new in He. cbn [app] in He.
    assert (Hf' : Forall2 (fun p p' => kcls (fst p') = kcls (fst p) /\
                                       (fun _ _ : unit => true) (snd p') (snd p) = true)
                          (Spec.elems src) (Spec.elems (self w'))).
    { rewrite He. apply Forall2_map_l in Hf. eapply Forall2_impl'; [|exact Hf]. cbn beta.
      intros a b H1. split; [exact H1 | reflexivity]. }
    destruct (clone_equal kcls (fun _ _ : unit => true) _ _ Hu Hf') as [Hu' Hb].
    split; [exact Hw'|]. split; [|split; [exact Hu' | exact Hb]].
    rewrite <- (elems_length _ Hw'), <- (Forall2_length_eq _ _ _ Hf'). apply elems_length; exact Hsrc.
Qed.

Lemma serde_roundtrip_set_eq sc (src dst : map key unit) w :
  honest sc -> WF src -> WF dst -> len dst = len src ->
  (length (Spec.elems src) =? length (Spec.elems dst)) &&
  forallb (entry_ok_in kcls (fun _ _ : unit => true) (Spec.elems dst)) (Spec.elems src) = true ->
  wp (map_eq (env_set sc) src dst) (fun r w' => stable w w' /\ r = true) (fun _ => False) w.
Proof.
  intros Hh Hsrc Hdst Hlen Hb.
  eapply wp_mono;
    [apply (map_eq_lawful (env_set sc) kcls qcls (env_set_lawful sc Hh)
              (fun _ _ : unit => true) (env_set_eqV sc) src dst w Hsrc Hdst) | | auto]; cbn beta.
  intros r w' [Hst ->]. split; [exact Hst|].
  apply andb_true_iff in Hb. destruct Hb as [_ Hb]. rewrite Hb, Hlen, Nat.eqb_refl. reflexivity.
Qed.

(* D5: a target that is too small makes the visitor unwind (the insert into a
   full container panics); the partially built container is well formed at
   that point, so the unwinding destructor is safe: no UB, no normal return *)
Lemma visit_map_overflow debug sc items w :
  honest sc -> WF (self w) ->
  NoDup (List.map (fun p => kcls (fst p)) items) ->
  (forall p, In p items -> find_idx kcls (kcls (fst p)) (Spec.elems (self w)) = None) ->
  cap (self w) < len (self w) + length items ->
  wp (visit_map debug sc items) (fun _ _ => False) (fun w' => WF (self w')) w.
Proof.
  intros Hh. pose proof (env_map_lawful sc Hh) as HL.
  revert w; induction items as [|[k v] rest IH]; intros w Hw Hnd Habs Hcap.
  - cbn [length] in Hcap. pose proof (WF_len_le_cap _ Hw). lia.
  - rewrite visit_map_cons. apply wp_bind. apply wp_get_next_id. apply wp_bind. apply wp_bump_id.
    set (w1 := with_cb w _).
    set (k' := {| kid := next_id (cb w); kcls := kcls k |}).
    set (v' := {| vid := next_id (cb w) + 1; vdat := vdat v |}).
    assert (Hf : find_idx kcls (kcls k') (Spec.elems (self w1)) = None)
      by exact (Habs (k, v) (or_introl eq_refl)).
    cbn [List.map fst] in Hnd. apply NoDup_cons_iff in Hnd. destruct Hnd as [Hnk Hnd].
    cbn [length] in Hcap.
    apply wp_bind.
    eapply wp_mono; [apply (insert_lawful (env_map sc) debug kcls qcls HL k' v' w1 Hw) | |]; cbn beta.
    + intros r w2 (Hw2 & Hc2 & He2 & Hr & Hlg).
      unfold l_insert in He2, Hr, Hlg. rewrite Hf in He2, Hr, Hlg. cbn [fst snd option_map] in He2, Hr, Hlg.
      subst r. cbn [drop_opt_val]. apply wp_bind. apply wp_ret.
      assert (Hs1 : self w1 = self w) by reflexivity. rewrite Hs1 in *.
      assert (Hl2 : len (self w2) = S (len (self w))).
      { rewrite <- (elems_length _ Hw2), He2, app_length, (elems_length _ Hw). cbn [length]. lia. }
      apply (IH w2 Hw2).
      * exact Hnd.
      * intros p Hp. rewrite He2. apply find_idx_snoc_None; [apply Habs; right; exact Hp|].
        cbn [fst]. change (kcls k') with (kcls k). intros Heq. apply Hnk. rewrite Heq.
        apply (in_map (fun p => kcls (fst p))). exact Hp.
      * rewrite Hl2, Hc2. lia.
    + intros w2 (Hs2 & _). rewrite Hs2. exact Hw.
Qed.

Lemma serde_overflow debug sc (src : map key vobj) cp s lg :
  honest sc -> WF src -> Uniq kcls (Spec.elems src) -> cp < len src ->
  wp (finally_drop (env_map sc) (visit_map debug sc (Spec.elems src)))
     (fun _ _ => False) (fun _ => True)
     {| cb := s; log := lg; self := new_map cp |}.
Proof.
  intros Hh Hsrc Hu Hlt. apply wp_finally_drop.
  apply (visit_map_overflow debug sc (Spec.elems src) _ Hh); cbn [self].
  - apply WF_new.
  - exact Hu.
  - intros p _. rewrite elems_new. reflexivity.
  - cbn [len new_map]. rewrite cap_new, (elems_length _ Hsrc). lia.
Qed.
