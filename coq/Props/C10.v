(* ========================================================================
   C10  Consuming iterators and drain yield exactly the contents; drain always
        empties

   STATEMENT (properties.jsonl):
     "into_iter, into_keys, into_values, drain and their Set equivalents yield
      exactly the entries the container held, each once, with exact
      len()/size_hint before every step and None forever after the end. After
      drain() the container is empty and fully reusable no matter how much of
      the drain was consumed before it was dropped."
   QUANTIFIER:
     "every reachable container state x every consuming iterator kind x every
      number of items taken before the iterator is dropped"

   VOCABULARY
     IntoIter            owns the container: in the model `self w` IS the
                         iterator's container; into_iter_next pops the LAST live
                         entry (src/iterators.rs); len()/size_hint = len (self w').
     drain               sets len to 0 at once and returns the cursor (0, old len);
                         drain_next reads slot lo; drain_drop c destroys the pairs
                         in the slots [fst c, snd c) the cursor still owns.
                         len()/size_hint of a Drain = cursor_len c = snd c - fst c.
     into_run n / drain_run n c
                         (defined in Proofs/IterSpec.v, not in the model) call
                         next() up to n times, stop at the first None.
     DrainInv c m        len m = 0, snd c <= cap m, slots [fst c, snd c) of m live.
     inv_post w w'       WF (self w') /\ cap (self w') = cap (self w).
     evp E p             the EvDrop events of destroying the pair p (one per ledger
                         identity of its key and of its value).
     slot_pairs m c      the pairs held in slots [fst c, snd c) of m.
     No lawfulness hypothesis anywhere: E is ANY environment (only Drop is ever
     called, in drain_drop, and it may panic).

   READING GUIDE (clause -> theorem)
   * into_iter (into_keys / into_values are projections of the same IntoIter)
     yields exactly the entries held, each once; exact len() before every step:
       C10_into_run_spec      n steps yield the first n entries of the REVERSED
                              content; the iterator then holds exactly the prefix
                              of length len - min n len (its len()), log untouched
       C10_into_run_all       len steps: a permutation of the content, nothing left
       C10_into_run_all_rev   ... in exactly reversed slot order
       C10_into_iter_next_spec  one step, any state: Some -> len decreases by one;
                              None -> len = 0 and the container is unchanged, hence
                              None forever after the end
   * drain yields exactly the entries held, each once; exact len(); None after
     the end:
       C10_drain_run_spec     n steps yield the first n entries of the content in
                              slot order; cursor = (min n len, len), whose
                              cursor_len is the number still to come
       C10_drain_run_all      len steps yield exactly the content; cursor_len = 0
       C10_drain_next_spec    one step from any drain state: Some -> cursor_len
                              decreases by one; None -> cursor_len = 0 and the
                              cursor is unchanged (None forever)
   * "exactly the entries the container held, each once", at every step: what
     has been yielded and what the iterator still holds partition the content
       C10_into_debug_rest    IntoIter after n steps: yielded = firstn n (rev content),
                              still held = firstn (len - min n len) content
       C10_drain_debug_rest   Drain after n steps: yielded = firstn n content,
                              still owned by the cursor = skipn n content
   * "after drain() the container is empty and fully reusable no matter how much
     was consumed before it was dropped":
       C10_drain_empties_strong   for every n: take n items, drop the drain; in
                              every outcome (also when a Drop callback panics) the
                              container is WF, len = 0, same capacity
       C10_drain_empties      (weaker panic clause kept as listed in the mapping)
       C10_drain_forgotten    mem::forget(drain): already empty and WF
       C10_drain_empties / C10_drain_run_spec  len = 0 from the moment drain() returns
   * "each once" also for the entries NOT taken (destroyed by the drain's Drop):
       C10_drain_drop_logs    drain_drop destroys exactly the pairs its cursor
                              still owns, in order; on a panicking Drop a prefix
       C10_drain_session_logs take n, drop: result = first n entries; destroyed
                              = exactly the other entries, each once

   PARTLY / NOT COVERED BY A THEOREM (left to the correspondence check)
   * into_keys / into_values / Set::into_iter / Set::drain are the same model
     functions plus a projection (and dropping the unused half, see
     Exec.into_steps_item); that projection is checked by the harness only.
   * "fully reusable": stated as WF /\ len = 0 /\ same capacity; every
     operation's theorems (C01..) need only WF, so they apply afterwards.
   * Dropping a partly consumed IntoIter destroys the remaining prefix through
     drop_map (Owned.drop_map_acct, C02), not restated here.
   * "every reachable container state" enters as WF (self w).
   ======================================================================== *)
Require Import Model.Base Model.Slots Model.MapOps Model.Exec.
Require Import Proofs.Hoare Proofs.Inv Proofs.Safety Proofs.Safety2 Proofs.Spec Proofs.IterSpec
               Proofs.Legacy Proofs.Gaps.
From Coq Require Import Permutation.

(* ---------------------------------------------------------------------- *)
(* IntoIter                                                                 *)
(* ---------------------------------------------------------------------- *)

Theorem C10_into_run_spec :
  forall (K V T : Type) (n : nat) (w : world K V T),
    WF (self w) ->
    wp (into_run n)
       (fun (r : list (K * V)) (w' : world K V T) =>
          WF (self w') /\ cap (self w') = cap (self w) /\ log w' = log w /\
          r = firstn n (rev (Spec.elems (self w))) /\
          len (self w') = len (self w) - Nat.min n (len (self w)) /\
          Spec.elems (self w') =
            firstn (len (self w) - Nat.min n (len (self w))) (Spec.elems (self w)))
       (fun _ : world K V T => False) w.
Proof. exact (fun K V T => @into_run_spec K V T). Qed.
Print Assumptions C10_into_run_spec.

Theorem C10_into_run_all :
  forall (K V T : Type) (w : world K V T),
    WF (self w) ->
    wp (into_run (len (self w)))
       (fun (r : list (K * V)) (w' : world K V T) =>
          Permutation r (Spec.elems (self w)) /\ len (self w') = 0)
       (fun _ : world K V T => False) w.
Proof. exact (fun K V T => @into_run_all K V T). Qed.
Print Assumptions C10_into_run_all.

Theorem C10_into_run_all_rev :
  forall (K V T : Type) (w : world K V T),
    WF (self w) ->
    wp (into_run (len (self w)))
       (fun (r : list (K * V)) (w' : world K V T) =>
          r = rev (Spec.elems (self w)) /\ len (self w') = 0 /\ Spec.elems (self w') = [])
       (fun _ : world K V T => False) w.
Proof. exact (fun K V T => @into_run_all_rev K V T). Qed.
Print Assumptions C10_into_run_all_rev.

Theorem C10_into_iter_next_spec :
  forall (K V T : Type) (w : world K V T),
    WF (self w) ->
    wp into_iter_next
       (fun (r : option (K * V)) (w' : world K V T) =>
          inv_post w w' /\
          match r with
          | Some _ => S (len (self w')) = len (self w)
          | None => len (self w) = 0 /\ self w' = self w
          end)
       (fun _ : world K V T => False) w.
Proof. exact (fun K V T => @into_iter_next_spec K V T). Qed.
Print Assumptions C10_into_iter_next_spec.

(* ---------------------------------------------------------------------- *)
(* Drain                                                                    *)
(* ---------------------------------------------------------------------- *)

Theorem C10_drain_run_spec :
  forall (K V T : Type) (n : nat) (w : world K V T),
    WF (self w) ->
    wp (c <- drain ;; drain_run n c)
       (fun (r : list (K * V) * cursor) (w' : world K V T) =>
          fst r = firstn n (Spec.elems (self w)) /\
          snd r = (Nat.min n (len (self w)), len (self w)) /\
          DrainInv (snd r) (self w') /\
          cap (self w') = cap (self w) /\ log w' = log w /\ len (self w') = 0)
       (fun w' : world K V T => self w' = self w) w.
Proof. exact (fun K V T => @drain_run_spec K V T). Qed.
Print Assumptions C10_drain_run_spec.

Theorem C10_drain_run_all :
  forall (K V T : Type) (w : world K V T),
    WF (self w) ->
    wp (c <- drain ;; drain_run (len (self w)) c)
       (fun (r : list (K * V) * cursor) (w' : world K V T) =>
          fst r = Spec.elems (self w) /\ cursor_len (snd r) = 0 /\ len (self w') = 0)
       (fun _ : world K V T => False) w.
Proof. exact (fun K V T => @drain_run_all K V T). Qed.
Print Assumptions C10_drain_run_all.

Theorem C10_drain_next_spec :
  forall (K V T : Type) (c : cursor) (w : world K V T),
    DrainInv c (self w) ->
    wp (drain_next c)
       (fun (r : option (K * V) * cursor) (w' : world K V T) =>
          DrainInv (snd r) (self w') /\
          cap (self w') = cap (self w) /\
          match fst r with
          | Some _ => cursor_len (snd r) + 1 = cursor_len c
          | None => cursor_len c = 0 /\ snd r = c
          end)
       (fun _ : world K V T => False) w.
Proof. exact (fun K V T => @drain_next_spec K V T). Qed.
Print Assumptions C10_drain_next_spec.

Theorem C10_drain_empties :
  forall (K V Q T : Type) (E : env K V Q T) (n : nat) (w : world K V T),
    WF (self w) ->
    let post := fun w' : world K V T =>
                  WF (self w') /\ len (self w') = 0 /\ cap (self w') = cap (self w) in
    wp (c <- drain ;; r <- drain_run n c ;; drain_drop E (snd r))
       (fun _ : unit => post)
       (fun w' : world K V T => post w' \/ self w' = self w) w.
Proof. exact (fun K V Q T => @drain_empties K V Q T). Qed.
Print Assumptions C10_drain_empties.

Theorem C10_drain_empties_strong :
  forall (K V Q T : Type) (E : env K V Q T) (n : nat) (w : world K V T),
    WF (self w) ->
    let post := fun w' : world K V T =>
                  WF (self w') /\ len (self w') = 0 /\ cap (self w') = cap (self w) in
    wp (c <- drain ;; r <- drain_run n c ;; drain_drop E (snd r))
       (fun _ : unit => post) post w.
Proof. exact (fun K V Q T => @drain_empties_strong K V Q T). Qed.
Print Assumptions C10_drain_empties_strong.

Theorem C10_drain_forgotten :
  forall (K V T : Type) (n : nat) (w : world K V T),
    WF (self w) ->
    wp (c <- drain ;; drain_run n c)
       (fun (_ : list (K * V) * cursor) (w' : world K V T) =>
          WF (self w') /\ len (self w') = 0 /\ cap (self w') = cap (self w))
       (fun w' : world K V T => self w' = self w) w.
Proof. exact (fun K V T => @drain_forgotten K V T). Qed.
Print Assumptions C10_drain_forgotten.

Theorem C10_drain_drop_logs :
  forall (K V Q T : Type) (E : env K V Q T) (c : cursor) (w : world K V T),
    DrainInv c (self w) ->
    wp (drain_drop E c)
       (fun (_ : unit) (w' : world K V T) =>
          exists evs : list event,
            log w' = log w ++ evs /\
            evs = flat_map (evp E) (slot_pairs (self w) c) /\ ev_drop_only evs)
       (fun w' : world K V T =>
          exists (evs : list event) (k : nat),
            log w' = log w ++ evs /\
            evs = flat_map (evp E) (firstn k (slot_pairs (self w) c)) /\ ev_drop_only evs)
       w.
Proof. exact (fun K V Q T => @drain_drop_logs K V Q T). Qed.
Print Assumptions C10_drain_drop_logs.

Theorem C10_drain_session_logs :
  forall (K V Q T : Type) (E : env K V Q T) (n : nat) (w : world K V T),
    WF (self w) ->
    wp (c <- drain ;; r <- drain_run n c ;; drain_drop E (snd r) ;; ret (fst r))
       (fun (r : list (K * V)) (w' : world K V T) =>
          r = firstn n (Spec.elems (self w)) /\
          log w' = log w ++ flat_map (evp E) (skipn n (Spec.elems (self w))))
       (fun w' : world K V T =>
          exists k : nat,
            log w' = log w ++ flat_map (evp E) (firstn k (skipn n (Spec.elems (self w)))))
       w.
Proof. exact (fun K V Q T => @drain_session_logs K V Q T). Qed.
Print Assumptions C10_drain_session_logs.

(* ---------------------------------------------------------------------- *)
(* what a partly consumed consuming iterator still holds (Proofs/Gaps.v):   *)
(* yielded ++ still-held = the content, nothing twice, nothing missing       *)
(* (interpreter key type `key`; V, T arbitrary)                              *)
(* ---------------------------------------------------------------------- *)

(* IntoIter after n steps: it has yielded the first n entries of the reversed
   content and still holds (Exec.elems = the live prefix, Model/Exec.v) exactly
   the first len - min n len entries of the content *)
Theorem C10_into_debug_rest :
  forall (V T : Type) (n : nat) (w : world key V T),
    WF (self w) ->
    wp (into_run n)
       (fun (r : list (key * V)) (w' : world key V T) =>
          Exec.elems (self w') =
            firstn (len (self w) - Nat.min n (len (self w))) (Spec.elems (self w)) /\
          r = firstn n (rev (Spec.elems (self w))))
       (fun _ : world key V T => False) w.
Proof. exact (fun V T => @into_debug_rest V T). Qed.
Print Assumptions C10_into_debug_rest.

(* Drain after n steps: it has yielded firstn n of the content and the range its
   cursor still owns (range_list m c = the entries in slots [fst c, snd c),
   Model/Exec.v) holds exactly skipn n of the content *)
Theorem C10_drain_debug_rest :
  forall (V T : Type) (n : nat) (w : world key V T),
    WF (self w) ->
    wp (c <- drain ;; drain_run n c)
       (fun (r : list (key * V) * cursor) (w' : world key V T) =>
          range_list (self w') (snd r) = skipn n (Spec.elems (self w)) /\
          range_list (self w') (snd r) =
            skipn (Nat.min n (length (Spec.elems (self w)))) (Spec.elems (self w)) /\
          fst r = firstn n (Spec.elems (self w)))
       (fun _ : world key V T => False) w.
Proof. exact (fun V T => @drain_debug_rest V T). Qed.
Print Assumptions C10_drain_debug_rest.

(* ---------------------------------------------------------------------- *)
(* non-vacuity                                                              *)
(* ---------------------------------------------------------------------- *)

Example C10_example_WF : WF (self (w_of m3)) /\ len (self (w_of m3)) = 3.
Proof. split; [exact m3_WF | reflexivity]. Qed.

(* IntoIter on m3: 2 steps pop the last two entries; the iterator still holds
   the first one (len() = 1); 4 steps yield the reversed content *)
Example C10_example_into :
  match into_run 2 (w_of m3) with
  | Ok r w' => r = [(k_ 5 7, v_ 6 9); (k_ 3 6, v_ 4 8)] /\
               len (self w') = 1 /\ Spec.elems (self w') = [(k_ 1 5, v_ 2 7)]
  | _ => False
  end /\
  match into_run 4 (w_of m3) with
  | Ok r w' => r = rev (Spec.elems m3) /\ len (self w') = 0
  | _ => False
  end.
Proof. vm_compute. repeat split; reflexivity. Qed.

(* Drain on m3 with a script that never faults (sc_drop 0: no object has
   identity 0): take 1 item, drop the drain: the
   item is the first entry, the other two are destroyed (ids 3,4 then 5,6), the
   container is empty with capacity 3.  With a Drop that panics on object 3
   (sc_drop 3) the container is empty all the same. *)
Example C10_example_drain :
  match (c <- drain ;; r <- drain_run 1 c ;; drain_drop (env_map (sc_drop 0)) (snd r) ;; ret r)
          (w_of m3) with
  | Ok r w' => fst r = [(k_ 1 5, v_ 2 7)] /\ snd r = (1, 3) /\ cursor_len (snd r) = 2 /\
               log w' = [EvDrop 3; EvDrop 4; EvDrop 5; EvDrop 6] /\
               len (self w') = 0 /\ cap (self w') = 3
  | _ => False
  end /\
  match (c <- drain ;; r <- drain_run 1 c ;; drain_drop (env_map (sc_drop 3)) (snd r)) (w_of m3) with
  | Panic w' => len (self w') = 0 /\ cap (self w') = 3 /\ log w' = [EvDrop 3; EvDrop 4]
  | _ => False
  end.
Proof. vm_compute. repeat split; reflexivity. Qed.

(* after one step the Drain over m3 still owns the other two entries; after two
   steps the IntoIter over m3 still holds the first entry *)
Example C10_example_rest :
  match (c <- drain ;; drain_run 1 c) (w_of m3) with
  | Ok r w' => range_list (self w') (snd r) = [(k_ 3 6, v_ 4 8); (k_ 5 7, v_ 6 9)]
  | _ => False
  end /\
  match into_run 2 (w_of m3) with
  | Ok r w' => Exec.elems (self w') = [(k_ 1 5, v_ 2 7)]
  | _ => False
  end.
Proof. vm_compute. split; reflexivity. Qed.
